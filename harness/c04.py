"""C04 - coordinate transforms are applied faithfully to every move.

Model: lean/GscribModel/Model/Transform.lean (driver mode `transform`); theorems: Props/C04.lean.
Implementation: a real `GCodeCore` (70 %) or `GCodeBuilder` (30 %) with a recording writer; a chain of
transformer calls, then `move` / `rapid` with partial axes in both distance modes.
Oracles (independent of the Lean model): per emitted word with numpy from the matrix read *before* the call;
the chain itself against an independent numpy composition; end to end, a G0/G1/G90/G91 interpreter fed with
the real output must stay at `transform.apply_transform(position)`.
Integer-typed arguments (family `int-args`): the numeric parameters are annotated `float`, which admits Python ints, and
`chain_transform` takes any ndarray, so the same calls are also made with ints / integer-dtype matrices about pivots
off the integer lattice; the mapping is the one the numbers denote, hence the words equal those of the float spelling.
"""
from __future__ import annotations

import itertools
from fractions import Fraction as F

import numpy as np

from . import core
from . import xf_common as X

PROP = "C04"
GUARD = 1e-9


# ------------------------------------------------------------------ generation
def gen_req(rng, exact):
    while True:
        r = [None, None, None]
        for i in range(3):
            if rng.random() < 0.5:
                r[i] = X.grid(rng, 640) if (exact or rng.random() < 0.8) else rng.choice(
                    [0.1, 1 / 3, -2.7, rng.uniform(-100, 100)])
        if any(c is not None for c in r) or rng.random() < 0.03:
            return r


def gen_bypass(rng, exact):
    """move_absolute / rapid_absolute / set_axis: documented to bypass the transform; what matters to C04 is that
    the *next* move starts from the image of the new tracked position.  Half of them go to a point where machine and
    builder agree again under a linear map (the origin), so the end-to-end oracle stays armed."""
    k = rng.choice(["moveabs", "rapidabs", "setaxis"])
    u = rng.random()
    if u < 0.45:
        req = [0.0, 0.0, 0.0]
    elif u < 0.7:
        req = [X.grid(rng, 640) for _ in range(3)]
    else:
        req = gen_req(rng, exact)
        if all(c is None for c in req):
            req[rng.randrange(3)] = X.grid(rng, 64)
    return (k, req)


def gen_moves(rng, exact, n, bypass=0.0):
    ops = []
    for _ in range(n):
        if rng.random() < 0.22:
            ops.append(("dist", rng.choice(["rel", "abs"])))
        if rng.random() < bypass:
            ops.append(gen_bypass(rng, exact))
            if rng.random() < 0.6:   # the very next call repeats the previous request (a remembered image would be reused)
                prev = [o for o in ops if o[0] in ("move", "rapid")]
                if prev:
                    ops.append(prev[-1])
                    continue
        f = rng.choice([100.0, 1500.0]) if rng.random() < 0.15 else None
        ops.append((rng.choice(["move", "move", "rapid"]), gen_req(rng, exact), f))
    return ops


def gen_weak_coupling(rng):
    """a barely coupling transform and many tiny partial-axis steps: every step must still mention the coupled axis"""
    ops = [("rotate", rng.choice([0.002, 0.01, 0.03, 0.2]), rng.choice("xyz")),
           ("move", [X.grid(rng, 64), X.grid(rng, 64), X.grid(rng, 64)], None)]
    if rng.random() < 0.5:
        ops.append(("dist", "rel"))
    rel = ops[-1] == ("dist", "rel")
    pos = [float(v) for v in ops[1][1]]
    for _ in range(rng.randint(8, 30)):
        i = rng.randrange(3)
        step = rng.choice([1 / 512, 1 / 256, 1 / 128, 1 / 32]) * rng.choice([1, -1])
        req = [None, None, None]
        pos[i] += step
        req[i] = step if rel else pos[i]
        ops.append(("move", req, None))
    return {"exact": False, "dp": 9, "cls": "core", "ops": ops}


def gen_small_ints(rng):
    """moves among small integers, one axis at a time (consecutive points differ by exactly one unit)"""
    ops = [X.gen_xf_op(rng, True, {"log": 0.0, "max": 6.0}) for _ in range(rng.randint(0, 2))]
    pos = [float(rng.randint(-3, 3)) for _ in range(3)]
    ops.append(("move", list(pos), None))
    rel = rng.random() < 0.5
    if rel:
        ops.append(("dist", "rel"))
    for _ in range(rng.randint(8, 25)):
        i = rng.randrange(3)
        step = float(rng.choice([-1, 1]))
        pos[i] += step
        req = [None, None, None]
        req[i] = step if rel else pos[i]
        ops.append((rng.choice(["move", "rapid"]), req, None))
    exact = all(X.is_exact_op(o) for o in ops)
    return {"exact": exact, "dp": 5, "cls": "core", "ops": ops}


def gen_state_block(rng, exact, budget):
    """saved states interleaved with edits and moves: whatever object juggling save/restore and the `with` blocks do,
    the moves that follow must be transformed by the mapping the API says is in force"""
    ops = []
    names = [None, None, "a", "b"]
    for _ in range(rng.randint(1, 2)):
        ops.append(("save", rng.choice(names)))
        ops.append(X.gen_xf_op(rng, exact, budget))
    blk = rng.random() < 0.7
    if blk:
        ops.append(("enter-current",) if rng.random() < 0.7 else ("enter-named", rng.choice(["a", "b"])))
    for _ in range(rng.randint(1, 3)):
        u = rng.random()
        if u < 0.45:
            ops.append(("restore", rng.choice(names)))
        elif u < 0.8:
            ops.append(X.gen_xf_op(rng, exact, budget))
        else:
            ops.append(("save", rng.choice(names)))
    ops += gen_moves(rng, exact, rng.randint(0, 2))
    if blk:
        ops.append(("exit", rng.random() < 0.3))
    for _ in range(rng.randint(1, 2)):
        ops.append(("restore", rng.choice(names)))
        ops.append(("move", [X.grid(rng, 640), X.grid(rng, 640), X.grid(rng, 640)], None))
        ops += gen_moves(rng, exact, rng.randint(1, 2))
    return ops


INT_DTYPES = ["int64", "int64", "int32", "int16", "int8"]


def _intify(v, rng, p=1.0):
    """an integral number as a Python int (with probability p): the same number, typed differently"""
    if v is not None and float(v).is_integer() and rng.random() < p:
        return int(v)
    return v


def gen_int_block(rng):
    """an invertible 3x3 block of small integers: right-angle turn / axis swap, integer scaling, shear, or anything"""
    u = rng.random()
    if u < 0.35:
        return [int(c) for c in rng.choice(X.EXACT_BLOCKS)]
    if u < 0.6:
        d = [rng.choice([1, 2, -1, -2, 4]) for _ in range(3)]
        return [d[0], 0, 0, 0, d[1], 0, 0, 0, d[2]]
    if u < 0.8:
        b = [1, 0, 0, 0, 1, 0, 0, 0, 1]
        i, j = rng.sample(range(3), 2)
        b[3 * i + j] = rng.choice([1, -1, 1, -1, 2])
        return b
    while True:
        b = [rng.randint(-2, 2) for _ in range(9)]
        det = round(float(np.linalg.det(np.array(b, dtype=float).reshape(3, 3))))
        if det in (1, -1, 2, -2):
            return b


def gen_int_op(rng, exact, budget):
    """one map-changing transformer call whose numbers are integers *typed* as integers"""
    u = rng.random()
    if u < 0.5:
        n = rng.choice([1, 1, 1, 2, 3])
        fs = []
        for _ in range(n):
            f = rng.choice([2, 2, -1, -2, 4, 1] if exact else [2, 2, -1, 3, -2, 5, 10])
            lg = float(np.log2(abs(f)))
            if abs(budget["log"] + lg) > budget["max"]:
                f, lg = rng.choice([1, -1]), 0.0
            budget["log"] += lg
            fs.append(f)
        if n > 1 and rng.random() < 0.35:     # mixed: ints next to a float
            fs[rng.randrange(n)] = rng.choice([0.5, 2.0, -1.0] if exact else [0.5, 1.5, 2.0, -0.7])
        return ("scale", fs)
    if u < 0.85:
        b = gen_int_block(rng)
        lg = float(np.log2(max(1, max(abs(c) for c in b))))
        if budget["log"] + lg > budget["max"]:
            b = [int(c) for c in rng.choice(X.EXACT_BLOCKS)]
            lg = 0.0
        budget["log"] += lg
        return ("chain", b, rng.choice(INT_DTYPES))
    k = rng.choice(["translate", "reflect", "rotate", "mirror"])
    if k == "translate":
        return ("translate", [rng.randint(-10, 10), rng.randint(-10, 10), rng.choice([0, rng.randint(-10, 10)])])
    if k == "reflect":
        n = [0, 0, 0]
        n[rng.randrange(3)] = rng.choice([1, -1, 2])
        if not exact and rng.random() < 0.5:
            n[rng.randrange(3)] = rng.choice([1, -1, 3])
        return ("reflect", n)
    if k == "rotate":
        return ("rotate", 0 if exact else rng.choice([90, -90, 180, 30, 45]), rng.choice(X.AXES))
    return ("mirror", rng.choice(["xy", "yz", "zx"]))


def gen_frac_pivot(rng, exact):
    """a pivot off the integer lattice on at least one axis: p - A.p is then fractional for an integer block A;
    coordinates that are integral are handed over as ints"""
    while True:
        u = rng.random()
        if u < 0.3:
            p = [rng.randint(-20, 20) / rng.choice([2, 4, 8]) for _ in range(3)]
        elif exact or u < 0.8:
            p = [X.grid(rng, 128) for _ in range(3)]
        else:
            p = [round(rng.uniform(-5, 5), 3) for _ in range(3)]
        if rng.random() < 0.4:
            p[2] = 0.0
        if any(not float(c).is_integer() for c in p):
            return ("pivot", [_intify(c, rng, 0.7) for c in p])


def gen_int_args(rng):
    """integer-typed arguments to scale / chain_transform (and translate / reflect / rotate / the moves) about pivots
    off the integer lattice.  The oracle also runs the float spelling of the same program (`float_twin`)."""
    exact = rng.random() < 0.5
    budget = {"log": 0.0, "max": 5.0}
    ops = []

    def xf_block(n):
        out = []
        if rng.random() < 0.9:
            out.append(gen_frac_pivot(rng, exact))
        for _ in range(n):
            u = rng.random()
            if u < 0.7:
                out.append(gen_int_op(rng, exact, budget))
            elif u < 0.85:
                out.append(gen_frac_pivot(rng, exact))
            else:
                out.append(X.gen_xf_op(rng, exact, budget))
        if not any(o[0] == "scale" or (o[0] == "chain" and len(o) > 2) for o in out):
            out.append(gen_int_op(rng, exact, budget))
        return out

    def allaxes():
        return ("move", [X.grid(rng, 640), X.grid(rng, 640), X.grid(rng, 640)], None)

    ops += xf_block(rng.randint(1, 3))
    if rng.random() < 0.2:
        ops.append(("dist", "rel"))
        ops += gen_moves(rng, exact, rng.randint(1, 2))
        ops.append(("dist", "abs"))
    ops.append(allaxes())
    ops += gen_moves(rng, exact, rng.randint(2, 6), rng.choice([0.0, 0.0, 0.25]))
    if rng.random() < 0.35:
        ops += xf_block(rng.randint(0, 1))
        ops.append(("dist", "abs"))
        ops.append(allaxes())
        ops += gen_moves(rng, exact, rng.randint(1, 3))
    if rng.random() < 0.5:   # integral coordinates of the moves typed as ints too
        def ints(req):
            return [_intify(c if c is None or rng.random() < 0.6 else float(round(c)), rng, 0.8) for c in req]

        ops = [(o[0], ints(o[1]), *o[2:]) if o[0] in ("move", "rapid", "moveabs", "rapidabs", "setaxis") else o
               for o in ops]
    exact = exact and all(X.is_exact_op(o) for o in ops)
    dp = rng.choice([5, 5, 5, 3, 9]) if exact else 5
    return {"exact": exact, "dp": dp, "cls": "builder" if rng.random() < 0.3 else "core", "ops": ops, "ints": True}


NUMERIC = ("translate", "scale", "rotate", "chain", "reflect", "pivot", "move", "rapid", "moveabs", "rapidabs", "setaxis")


def _is_int(c):
    return isinstance(c, int) and not isinstance(c, bool)


def has_int_args(op):
    if op[0] not in NUMERIC:
        return False
    return (op[0] == "chain" and len(op) > 2) or any(
        _is_int(c) for part in op[1:] for c in (part if isinstance(part, (list, tuple)) else [part]))


def float_twin(case):
    """the same program with every integer-typed number spelled as the float of the same value"""
    def fl(part):
        if isinstance(part, (list, tuple)):
            return [float(c) if _is_int(c) else c for c in part]
        return float(part) if _is_int(part) else part

    ops = []
    for o in case["ops"]:
        if o[0] == "chain":
            ops.append(("chain", fl(o[1])))
        elif o[0] in NUMERIC:
            ops.append((o[0], *[fl(part) for part in o[1:]]))
        else:
            ops.append(o)
    return {**{k: v for k, v in case.items() if k != "ints"}, "ops": ops}


def gen_case(rng):
    if rng.random() < 0.08:
        return gen_weak_coupling(rng)
    if rng.random() < 0.08:
        return gen_small_ints(rng)
    exact = rng.random() < 0.45
    budget = {"log": 0.0, "max": 6.0 if exact else 4.0}
    ops = []
    for _ in range(rng.randint(0, 6)):
        if rng.random() < 0.04:
            ops.append(X.gen_bad_op(rng))
        else:
            ops.append(X.gen_xf_op(rng, exact, budget))
    if rng.random() < 0.25:
        ops.append(("dist", "rel"))
    if rng.random() < 0.2:
        ops += gen_moves(rng, exact, rng.randint(1, 2))  # moves before machine and builder agree
    if rng.random() < 0.5:
        ops.append(("dist", "abs"))
    ops.append(("move", [X.grid(rng, 640), X.grid(rng, 640), X.grid(rng, 640)], None))  # all axes (agreement in G90)
    byp = rng.choice([0.0, 0.0, 0.25, 0.5])
    ops += gen_moves(rng, exact, rng.randint(3, 9), byp)
    if rng.random() < 0.3:
        ops += gen_state_block(rng, exact, budget)
    if rng.random() < 0.3:
        # the transform changes mid-program (inside a `with` block or not), then an all-axes move and more moves
        blk = rng.random() < 0.5
        if blk:
            ops.append(("enter-current",))
        for _ in range(rng.randint(1, 2)):
            ops.append(X.gen_xf_op(rng, exact, budget))
        ops += gen_moves(rng, exact, rng.randint(1, 3))
        if blk:
            ops.append(("exit", rng.random() < 0.3))
            ops += gen_moves(rng, exact, rng.randint(1, 2))
    exact = exact and all(X.is_exact_op(o) for o in ops)
    dp = rng.choice([5, 5, 5, 3, 9]) if exact else 5
    return {"exact": exact, "dp": dp, "cls": "builder" if rng.random() < 0.3 else "core", "ops": ops}


EX_CHAIN = [
    ("chain", [0.0, -1.0, 0.0, 1.0, 0.0, 0.0, 0.0, 0.0, 1.0]),   # 90 deg about z
    ("chain", [1.0, 0.0, 0.0, 0.0, 0.0, -1.0, 0.0, 1.0, 0.0]),   # 90 deg about x
    ("chain", [0.0, 0.0, 1.0, 0.0, 1.0, 0.0, -1.0, 0.0, 0.0]),   # 90 deg about y
    ("mirror", "xy"), ("mirror", "yz"), ("mirror", "zx"), ("scale", [2.0]),
]
EX_MOVES = [("move", [1.0, 2.0, 3.0], None), ("move", [4.0, None, None], None), ("rapid", [None, -1.5, None], None),
            ("dist", "rel"), ("move", [None, None, 2.0], None), ("rapid", [0.5, 0.25, None], None),
            ("move", [-1.0, None, 1.0], None), ("dist", "abs"), ("move", [None, 7.0, None], None)]


def exhaustive_cases(maxlen):
    """all chains <= maxlen of right-angle blocks / mirrors / scale 2 (about a pivot or not), fixed move program"""
    for L in range(0, maxlen + 1):
        for chain in itertools.product(range(len(EX_CHAIN)), repeat=L):
            for piv in (None, [1.0, 2.0, -0.5]):
                ops = ([("pivot", piv)] if piv else []) + [EX_CHAIN[i] for i in chain] + EX_MOVES
                yield {"exact": True, "dp": 5, "cls": "core", "ops": ops}


def jsonable(case):
    return {**case, "ops": [list(o) for o in case["ops"]]}


def from_json(d):
    return {**d, "ops": [tuple(o) for o in d["ops"]]}


# ------------------------------------------------------------------ implementation run with the observations the oracles need
def execute(case):
    """trace entries get: matrix before the call, apply_transform(position) after it"""
    from gscrib.geometry import Point

    sess = X.Session(dp=case["dp"], cls=case["cls"])
    frame = [(0, 0, 0), (1, 0, 0), (0, 1, 0), (0, 0, 1)]
    orig_step = sess.step

    def step(op):
        m_before = np.array(sess.t._current_transform._matrix, dtype=float).copy()
        pos_before = [0.0 if c is None else float(c) for c in sess.g.position]
        e = orig_step(op)
        e["m_before"] = m_before
        e["pos_before"] = pos_before
        e["image"] = [float(c) for c in sess.t.apply_transform(sess.g.position)]
        e["frame"] = [[float(c) for c in sess.t.apply_transform(Point(*p))] for p in frame]
        return e

    orig_call = sess._call

    def call(op):
        if op[0] == "chain" and len(op) > 2:
            # chain_transform(matrix of the named dtype): the public API takes any 4x4 ndarray
            m = np.eye(4, dtype=np.dtype(op[2]))
            m[:3, :3] = np.array(op[1]).reshape(3, 3)
            n0 = len(sess.rec.lines)
            try:
                sess.t.chain_transform(m)
                outcome = "ok"
            except ValueError:
                outcome = "ValueError"
            return outcome, None, sess.rec.lines[n0:]
        return orig_call(op)

    sess._call = call
    sess.step = step
    return sess.execute(case["ops"])


# ------------------------------------------------------------------ oracles (independent of the Lean model)
def oracle(case, trace):
    msg, tag = _oracle(case, trace)
    if msg or not case.get("ints"):
        return msg, tag
    # the float spelling of the same program: same transform, same requests, hence the same words
    twin = float_twin(case)
    ttrace = execute(twin)
    msg, tag = _oracle(twin, ttrace)
    if msg:
        return "float spelling of the program: " + msg, tag
    return same_words(case, trace, ttrace)


def same_words(case, trace, ttrace):
    """each statement of the int-typed program against the float spelling: same codes; every axis word is the rounded
    image of the same number, so two spellings differ by at most one unit of the last place"""
    dp = case["dp"]
    unit = 10.0 ** (-dp)
    if len(trace) != len(ttrace):
        return f"{len(trace)} calls made but {len(ttrace)} with float arguments", "int-vs-float"
    for i, (e, t) in enumerate(zip(trace, ttrace)):
        where = f"step {i} ({e['line'][:40]})"
        if e["outcome"] != t["outcome"]:
            return f"{where}: {e['outcome']} but {t['outcome']} with float arguments", "int-vs-float"
        if len(e["written"]) != len(t["written"]):
            return f"{where}: wrote {e['written']} but {t['written']} with float arguments", "int-vs-float"
        for a, b in zip(e["written"], t["written"]):
            (ca, wa), (cb, wb) = X.lex_line(a), X.lex_line(b)
            if ca != cb or (case["exact"] and set(wa) != set(wb)):
                return f"{where}: wrote {a.strip()!r} but {b.strip()!r} with float arguments", "int-vs-float"
            for ax in wa:
                if ax in wb:
                    x, y = float(wa[ax]), float(wb[ax])
                    if abs(x - y) > (0.0 if case["exact"] else unit + GUARD * max(1.0, abs(y))):
                        return (f"{where}: word {ax.upper()}{wa[ax]} with integer-typed arguments but "
                                f"{ax.upper()}{wb[ax]} with the same numbers as floats"), "int-vs-float"
    return None, None


def _oracle(case, trace):
    dp = case["dp"]
    half = 0.5 * 10.0 ** (-dp)
    ref = X.RefMachine()
    mach = np.zeros(3)       # the machine that reads the output
    mach_rel = False
    agree = False            # machine == transform(tracked) established?
    since = 0                # relative words since agreement (rounding accumulates)
    for i, e in enumerate(trace):
        op, k = e["op"], e["op"][0]
        where = f"step {i} ({e['line'][:40]})"
        # (a) the chain: the mapping in force is the composition the property describes
        if k not in ("move", "rapid", "dist", "moveabs", "rapidabs", "setaxis"):
            want = ref.step(op)
            if e["outcome"] != want:
                return f"{where}: raised {e['outcome']}, expected {want}", "outcome"
            for p, got in zip([(0, 0, 0), (1, 0, 0), (0, 1, 0), (0, 0, 1)], e["frame"]):
                if not X.close(got, ref.apply(p), 1e-9):
                    return (f"{where}: the transform in force maps {p} to {got}; composing the calls "
                            f"(each about the pivot, applied after the previous ones) gives {ref.apply(p).tolist()}"), "chain"
            agree = agree and (e["outcome"] != "ok" or k in ("pivot", "save", "delete", "enter-current"))
            continue
        if e["outcome"] != "ok":
            return f"{where}: raised {e['outcome']}", "outcome"
        if k in ("moveabs", "rapidabs", "setaxis"):
            # documented bypass: raw words (bracketed by G90 ... G91 in relative mode), raw target tracked
            lex = [X.lex_line(w) for w in e["written"]]
            codes = [c for c, _ in lex]
            go = "G92" if k == "setaxis" else ("G0" if k == "rapidabs" else "G1")
            want_codes = ["G90", go, "G91"] if (mach_rel and k != "setaxis") else [go]
            if codes != want_codes:
                return f"{where}: wrote {e['written']}", "bypass"
            words = lex[want_codes.index(go)][1]
            req = op[1]
            for j, a in enumerate(X.AXES):
                if (a in words) != (req[j] is not None) or (
                        a in words and abs(float(words[a]) - req[j]) > half + GUARD * max(1.0, abs(req[j]))):
                    return f"{where}: bypass words {words} for request {req}", "bypass"
                want_pos = e["pos_before"][j] if req[j] is None else req[j]
                if abs(float(e["obs"]["pos"][j] or 0.0) - want_pos) > 1e-9 * max(1.0, abs(want_pos)):
                    return f"{where}: tracked {a} = {e['obs']['pos'][j]} after a bypass to {req}", "tracked"
                if a in words:
                    mach[j] = float(words[a])
            # agreement survives exactly where the machine is (again) at transform(tracked)
            scale = max(1.0, float(np.max(np.abs(mach))))
            agree = float(np.max(np.abs(mach - np.array(e["image"])))) <= half + GUARD * scale
            since = 0 if agree else since
            continue
        if k == "dist":
            code, _ = X.lex_line(e["written"][0]) if e["written"] else (None, {})
            if code != ("G91" if op[1] == "rel" else "G90") or len(e["written"]) != 1:
                return f"{where}: wrote {e['written']}", "mode"
            mach_rel = op[1] == "rel"
            continue
        # (b) per word, from the matrix read before the call
        if len(e["written"]) != 1:
            return f"{where}: wrote {len(e['written'])} statements", "statement"
        code, words = X.lex_line(e["written"][0])
        if code != ("G0" if k == "rapid" else "G1"):
            return f"{where}: wrote {e['written'][0]!r}", "statement"
        rel = e["obs"]["rel"]
        before = np.array([*e["pos_before"], 1.0])
        after_pos = [float(c) for c in e["obs"]["pos"]]
        req = op[1]
        for j, a in enumerate(X.AXES):
            want_pos = (e["pos_before"][j] + (req[j] or 0.0)) if rel else (e["pos_before"][j] if req[j] is None else req[j])
            if abs(after_pos[j] - want_pos) > 1e-9 * max(1.0, abs(want_pos)):
                return f"{where}: tracked {a} = {after_pos[j]}, requested target {want_pos}", "tracked"
        M = np.array(e["m_before"])
        Tb, Ta = (M @ before)[:3], (M @ np.array([*after_pos, 1.0]))[:3]
        scale = max(1.0, float(np.max(np.abs(Ta))), float(np.max(np.abs(Tb))))
        for j, a in enumerate(X.AXES):
            expect = (Ta[j] - Tb[j]) if rel else Ta[j]
            if a in words:
                if abs(float(words[a]) - expect) > half + GUARD * scale:
                    what = "linear image of the displacement" if rel else "image of the target"
                    return f"{where}: word {a.upper()}{words[a]} but the {what} is {float(expect)!r}", "word"
            else:
                if req[j] is not None:
                    return f"{where}: requested axis {a} is not in {e['written'][0]!r}", "mention"
                if abs(Ta[j] - Tb[j]) > GUARD * scale:
                    return (f"{where}: axis {a} has to move by {float(Ta[j] - Tb[j])!r} under the transform but "
                            f"{e['written'][0]!r} does not mention it"), "mention"
        # (c) end to end: interpret the output
        if mach_rel != rel:
            return f"{where}: machine distance mode {mach_rel} but builder {rel}", "mode"
        for j, a in enumerate(X.AXES):
            if a in words:
                mach[j] = mach[j] + float(words[a]) if mach_rel else float(words[a])
        if mach_rel:
            since += 1
        elif len(words) == 3:
            agree, since = True, 0
        if agree:
            tol = (since + 1) * half + GUARD * scale   # one rounding per word since the all-axes absolute move
            if float(np.max(np.abs(mach - np.array(e["image"])))) > tol:
                return (f"{where}: machine at {mach.tolist()} but transform(tracked position) = {e['image']} "
                        f"(tracked {after_pos})"), "end-to-end"
    return None, None


# ------------------------------------------------------------------ comparison with the model
def compare(case, trace, model_recs, R):
    dp = case["dp"]
    for i, (e, mr) in enumerate(zip(trace, model_recs)):
        ir = X.impl_record(e, dp)
        # C04's projection: outcome, statements, tracked position, distance mode
        if case["exact"]:
            if ir.split(" | ")[:3] != X.model_record_rounded(mr, dp).split(" | ")[:3]:
                return i, ir, mr
            continue
        m = X.parse_record(mr)
        if e["outcome"] != m["outcome"] or e["obs"]["rel"] != m["rel"]:
            return i, ir, mr
        mp = [None if c is None else float(c) for c in m["pos"]]
        ip = e["obs"]["pos"]
        if [c is None for c in mp] != [c is None for c in ip] or any(
                a is not None and abs(a - b) > GUARD * max(1.0, abs(b)) for a, b in zip(ip, mp)):
            return i, ir, mr
        k = e["op"][0]
        if k == "dist":
            if ir.split(" | ")[1] != m["stmts"]:
                return i, ir, mr
        if k in ("moveabs", "rapidabs", "setaxis"):
            if ir.split(" | ")[1] != X.model_record_rounded(mr, dp).split(" | ")[1]:
                return i, ir, mr
        if k not in ("move", "rapid"):
            continue
        if len(e["written"]) != 1 or m["go"] is None:
            return i, ir, mr
        code, words = X.lex_line(e["written"][0])
        if code != m["go"]["code"]:
            return i, ir, mr
        req = e["op"][1]
        for j, a in enumerate(X.AXES):
            mv, d, mw = m["go"]["mv"][j], m["go"]["d"][j], m["go"]["w"][j]
            if a in words:
                if F(words[a]) != X.round_he(mv, dp):
                    if X.near_tie(mv, dp, GUARD * max(1.0, abs(float(mv)))):
                        R.count("tie-guard-skip")
                    else:
                        return i, ir, mr
            else:
                if req[j] is not None:             # (1) requested axes are emitted on both sides
                    return i, ir, mr
                if mw is not None and abs(float(d)) > GUARD * max(1.0, abs(float(mv))):
                    return i, ir, mr               # (3) an axis the implementation omits may only move by float noise
    return None


def classify(case, trace):
    kinds = {e["op"][0] for e in trace}
    coupled = sum(1 for e in trace if e["op"][0] in ("move", "rapid") and e["written"]
                  and len(X.lex_line(e["written"][0])[1]) > sum(c is not None for c in e["op"][1]))
    return kinds, coupled


def run_batch(R, cases, label, oracle_only=False, pipe=None):
    traces, lines, spans = [], [], []
    for case in cases:
        tr = execute(case)
        traces.append(tr)
        start = len(lines)
        lines.append("reset")
        lines.extend(e["line"] for e in tr)
        spans.append((start + 1, len(lines)))
    fut = None if oracle_only else X.submit_model(lines)
    job = (R, cases, label, oracle_only, traces, spans, fut)
    if pipe is None:
        finish_batch(job)
    else:
        pipe.append(job)


def finish_batch(job):
    R, cases, label, oracle_only, traces, spans, fut = job
    verdicts = [oracle(case, tr) for case, tr in zip(cases, traces)]
    model_out = [] if oracle_only else fut.result()
    for case, tr, (a, b), (msg, tag) in zip(cases, traces, spans, verdicts):
        kinds, coupled = classify(case, tr)
        cj = jsonable(case)
        moves = sum(1 for e in tr if e["op"][0] in ("move", "rapid"))
        if any(e["op"][0] in ("moveabs", "rapidabs", "setaxis") for e in tr):
            R.count("has-bypass")
        if any(e["op"][0] in ("save", "restore", "enter-named") for e in tr):
            R.count("has-saved-states")
        R.case(cj, nontrivial=moves >= 2 and len(kinds - {"move", "rapid", "dist"}) >= 1, validated=not oracle_only)
        R.count(label, "regime:" + ("exact" if case["exact"] else "tolerant"), "class:" + case["cls"], f"dp:{case['dp']}",
                "coupled-axis-moves:" + ("0" if coupled == 0 else "1+"))
        for e in tr:
            k = e["op"][0]
            if k in ("move", "rapid", "moveabs", "rapidabs", "setaxis"):
                R.count(f"{k}:{'rel' if e['obs']['rel'] else 'abs'}:axes={sum(c is not None for c in e['op'][1])}")
            else:
                R.count("op:" + k + ("" if e["outcome"] == "ok" else ":" + e["outcome"]))
            if case.get("ints") and has_int_args(e["op"]):
                R.count("int-typed:" + k + (":" + e["op"][2] if k == "chain" else ""))
        if not oracle_only:
            d = compare(case, tr, model_out[a:b], R)
            if d:
                R.disagree("transformed-moves", cj, d[1], d[2], step=d[0])
        if msg:
            R.fail(cj, msg, tag=tag)


def run_all(R, cases, label, chunk, oracle_only=False):
    pipe = []
    for i in range(0, len(cases), chunk):
        run_batch(R, cases[i:i + chunk], label, oracle_only, pipe)
        if len(pipe) > 1:
            finish_batch(pipe.pop(0))
    while pipe:
        finish_batch(pipe.pop(0))


CORPUS = [
    # rotate 90 about z (exact block) then translate: a relative request x=+2 must also write Y
    {"exact": True, "dp": 5, "cls": "core",
     "ops": [("chain", [0.0, -1.0, 0.0, 1.0, 0.0, 0.0, 0.0, 0.0, 1.0]), ("translate", [5.0, 0.0, 0.0]),
             ("move", [1.0, 1.0, 0.0], None), ("dist", "rel"), ("move", [2.0, None, None], None),
             ("dist", "abs"), ("rapid", [None, 7.0, 1.0], None)]},
    {"exact": False, "dp": 5, "cls": "builder",
     "ops": [("pivot", [1.0, 2.0, 0.0]), ("rotate", 30.0, "z"), ("scale", [2.0, 0.5]), ("rotate", 90.0, "x"),
             ("move", [1.0, 2.0, 3.0], None), ("move", [4.0, None, None], 100.0), ("dist", "rel"),
             ("rapid", [None, 0.1, None], None), ("move", [1 / 3, None, -2.0], None), ("dist", "abs"),
             ("move", [None, None, 0.0], None)]},
    {"exact": True, "dp": 5, "cls": "core",
     "ops": [("move", [None, 2.0, None], None), ("mirror", "yz"), ("scale", [0.5]), ("dist", "rel"),
             ("move", [1.0, None, None], None), ("move", [None, None, None], None)]},
    # integer-typed factors / matrices about a pivot off the integer lattice (p - A.p fractional)
    {"exact": True, "dp": 5, "cls": "core", "ints": True,
     "ops": [("pivot", [2.5, 1.25, 0]), ("scale", [2]), ("move", [4.0, 3.0, 0.0], None), ("move", [None, 1, None], None),
             ("dist", "rel"), ("rapid", [0.5, None, None], None)]},
    {"exact": True, "dp": 5, "cls": "builder", "ints": True,
     "ops": [("pivot", [0.5, -1.5, 0.25]), ("chain", [0, -1, 0, 1, 0, 0, 0, 0, 1], "int64"),
             ("move", [1.0, 2.0, 3.0], None), ("move", [4, None, None], None), ("dist", "rel"),
             ("move", [None, None, -2], None)]},
    {"exact": False, "dp": 5, "cls": "core", "ints": True,
     "ops": [("pivot", [1 / 3, 0.1, 0]), ("scale", [3, 0.5]), ("chain", [1, 1, 0, 0, 1, 0, 0, 0, 2], "int32"),
             ("rotate", 90, "z"), ("move", [1.0, 2.0, 3.0], None), ("rapid", [None, 7, None], None)]},
]


def run(R: core.Run):
    R.rule = ("random chains (<= 6) of translate/scale/rotate(0, +-90, 180, arbitrary)/chain(exact right-angle block)/"
              "reflect/mirror/set_pivot, an all-axes absolute move, then 3-9 move/rapid calls with partial axes and "
              "distance-mode switches; 30% change the transform again mid-program (also inside a `with` block); "
              "45% on the exact dyadic grid: literal equality of words (as fractions, model value rounded half-even "
              "at dp), mask and tracked position; otherwise tolerant comparison (requested subset of emitted, word == "
              "model value rounded at dp with a 1e-9 tie guard, an omitted axis moves <= 1e-9 in the model); "
              "non-trivial = >= 2 moves under >= 1 transformer call; distinct by hash; plus a family `int-args`: "
              "scale with Python ints (also mixed with floats), chain_transform with int64/32/16/8 matrices (right-angle, "
              "integer scaling, shear, unimodular-ish), int-typed translate/reflect/rotate/move arguments, about pivots "
              "off the integer lattice - compared with the model like the rest, and word for word with the float "
              "spelling of the same program")
    R.assumptions = [
        "IEEE rounding inside numpy/scipy is not modelled: off-grid cases are compared after rounding at decimal_places with a tie guard",
        "scipy Rotation: the 3x3 block is read from the very call the code makes and handed to the model as exact rationals "
        "(scipy's right-angle blocks carry 1e-16 entries, so they are compared in the tolerant regime; exact right-angle "
        "blocks go through chain_transform)",
        "numpy format_float_positional(unique, precision=dp) prints an exactly representable value rounded half-even at dp",
        "only X/Y/Z words are compared; other words (F) and comments are ignored",
    ]
    R.trusted = [
        "Lean 4.33 kernel; axioms propext, Classical.choice, Quot.sound only (audited per theorem)",
        "hand-written Lean model (Model/Transform.lean) tied to /repo by this run's differential check",
        "Python harness: generators, Session adapter, block lexer, G0/G1/G90/G91 interpreter, numpy reference composition",
    ]
    run_batch(R, CORPUS, "corpus")
    run_all(R, [gen_case(R.rng) for _ in range(R.n(1000, 20000))], "random", 250)
    run_all(R, [gen_int_args(R.rng) for _ in range(R.n(90, 1500))], "int-args", 250)
    if R.thorough:
        ex = list(exhaustive_cases(3))
        run_all(R, ex, "exhaustive-chains<=3", 400)
        R.exhaustive = False
        R.extra["exhaustive_subrun"] = {
            "cases": len(ex), "exhaustive": True,
            "scope": "all chains of length <= 3 over {90-degree blocks about x/y/z, mirror xy/yz/zx, scale 2}, with and "
                     "without a pivot, followed by a fixed 9-call move program in both distance modes (exact comparison)"}
    if R.broken:
        R.search_batches += 1
        run_all(R, [gen_case(R.rng) for _ in range(R.n(1500, 6000))], "search", 500, oracle_only=True)
        run_all(R, [gen_int_args(R.rng) for _ in range(R.n(150, 600))], "search-int-args", 500, oracle_only=True)
    return {}, {}


def replay(data):
    core.use_repo()
    fl = data.get("failure") or data.get("first", {})
    cj = fl.get("case")
    if not cj:
        print("replay: no case recorded (", data.get("no_longer_checks"), ")")
        return 1
    case = from_json(cj)
    tr = execute(case)
    out = core.run_model(X.MODE, [e["line"] for e in tr])

    class _R:
        def count(self, *a):
            pass

    d = compare(case, tr, out, _R())
    msg, tag = oracle(case, tr)
    for e, m in zip(tr, out):
        print("call :", e["line"][:100], "->", [w.strip() for w in e["written"]])
        print(" impl:", " | ".join(X.impl_record(e, case["dp"]).split(" | ")[:3]))
        print(" model:", " | ".join(m.split(" | ")[:3])[:300])
    print("correspondence:", "agree" if not d else f"differ at step {d[0]}")
    print("oracle:", msg or "ok")
    return 1 if (msg or d) else 0

"""Validation of the translator `tools/gen_writers.py` and of the prelude `Model/WritersPrelude.lean`: the *generated* Lean
functions (driver mode `writerssrc`, `Gen/WritersSrc.lean`) against the real `gscrib.gcode_core.GCodeCore` writer list and
the real `gscrib.writers.FileWriter`, on the same random histories of

    add_writer / remove_writer / write / flush / teardown(wait) / __exit__            (on the builder)
    connect / disconnect(wait) / flush / write(bytes)                                 (on a writer object directly)
    close()                                                                           (the caller, on the file object it handed over)

compared after every call: the list `_writers` (as object indices), the class of the exception that left, and for every
`FileWriter` its three slots (`_file` as None / the same object as `_output` / a file of its own, `_is_terminal`,
`_output` as str / object) and the state of the file objects: what they were given, whether something was given since
the last flush (`dirty`), `closed`.  Writers are built over real paths in a temporary directory (content read back
through an independent handle: equal to what the translation says was written when it says the file is clean, a prefix of
it otherwise), `io.BytesIO`, `io.StringIO`, and stream doubles that record `write/flush/close` (binary and text, terminal
or not, with and without an `isatty` method); a recording `BaseWriter` subclass stands for the model's `custom` kind.
See `tie_state.py` for the role of this run."""
from __future__ import annotations

import io
import logging
import os
import shutil
import tempfile

from . import core

MODE = "writerssrc"
# harness kind -> driver letter
KINDS = {"p": "p", "b": "b", "b!": "b!", "b-": "b-", "t": "t", "t!": "t!", "t-": "t-", "B": "b", "S": "t", "c": "c"}
DOUBLES = ("b", "b!", "b-", "t", "t!", "t-")
LINES = ["G1 X1", "M3 S1000", "; café", "G0 Z€5", "(\U0001f600)", "", "G1 X1 Y2 Z3 F1200", "\x7f\x80߿ࠀ￿\U00010000"]


class _Dbl:
    """A file object that records what it is given (lenient: usable after close())."""

    def __init__(self, tty):
        self.bytes_given, self.text_given, self.dirty, self.closed, self._tty = b"", "", False, False, tty

    def write(self, x):
        if isinstance(x, str):
            self.text_given += x
        else:
            self.bytes_given += bytes(x)
        self.dirty = True
        return len(x)

    def flush(self):
        self.dirty = False

    def close(self):
        self.dirty = False
        self.closed = True


class DblBin(_Dbl):
    def isatty(self):
        return self._tty


class DblText(_Dbl):
    encoding = "utf-8"

    def isatty(self):
        return self._tty


class DblBinNoTty(_Dbl):
    pass


class DblTextNoTty(_Dbl):
    encoding = "utf-8"


def hexs(b: bytes) -> str:
    return b.hex()


def cps(s: str) -> str:
    return "_".join(format(ord(c), "x") for c in s)


class Obj:
    def __init__(self, kind, tmp, idx, FileWriter, Rec):
        self.kind, self.handle, self.path, self.own = kind, None, None, None
        if kind == "p":
            self.path = os.path.join(tmp, f"w{idx}", "sub", "out.gcode")       # the writer creates the directories
            self.writer = FileWriter(self.path)
        elif kind == "c":
            self.writer = Rec()
        else:
            self.handle = {"b": lambda: DblBin(False), "b!": lambda: DblBin(True), "b-": lambda: DblBinNoTty(False),
                           "t": lambda: DblText(False), "t!": lambda: DblText(True), "t-": lambda: DblTextNoTty(False),
                           "B": io.BytesIO, "S": lambda: io.StringIO(newline="")}[kind]()
            self.writer = FileWriter(self.handle)

    def cell(self, h):
        """(flags, data, text) of a file object; '?' where the real object does not let us see"""
        if h is None:
            return ("01000", "", "")
        is_text = "1" if hasattr(h, "encoding") else "0"
        has = "1" if hasattr(h, "isatty") else "0"
        if isinstance(h, _Dbl):
            tty = "1" if (has == "1" and h.isatty()) else "0"
            return (is_text + has + tty + ("1" if h.dirty else "0") + ("1" if h.closed else "0"), hexs(h.bytes_given), cps(h.text_given))
        closed = "1" if h.closed else "0"
        if isinstance(h, io.BytesIO):
            return (is_text + has + "0?" + closed, hexs(h.getvalue()) if not h.closed else "?", "")
        if isinstance(h, io.StringIO):
            return (is_text + has + "0?" + closed, "", cps(h.getvalue()) if not h.closed else "?")
        # the file the writer opened from the path: content through an independent handle
        try:
            with open(self.path, "rb") as f:
                disk = f.read()
        except FileNotFoundError:
            disk = b""
        tty = "0" if h.closed else ("1" if h.isatty() else "0")
        return (is_text + has + tty + "?" + closed, "disk:" + hexs(disk), "")

    def record(self):
        w = self.writer
        if self.kind == "c":
            return ["o", "0", str(w.discs), hexs(b"".join(w.chunks)), "_".join(hexs(c) for c in w.chunks)]
        f = w._file
        if f is not None and not isinstance(f, str) and f is not w._output:
            self.own = f
        val = lambda v: "N" if v is None else "S" if isinstance(v, str) else "U" if v is self.handle else "O"
        return ["f", val(f), "1" if w._is_terminal else "0", val(w._output), self.cell(self.handle), self.cell(self.own), "0"]


def cell_matches(impl, model: str) -> bool:
    flags, data, text = model.split(".")
    if len(flags) != len(impl[0]) or any(a != "?" and a != b for a, b in zip(impl[0], flags)):
        return False
    if impl[1].startswith("disk:"):
        disk = impl[1][5:]
        dirty = flags[3] == "1"
        if not (data.startswith(disk) if dirty else data == disk):
            return False
    elif impl[1] != "?" and impl[1] != data:
        return False
    return impl[2] == "?" or impl[2] == text


def obj_matches(impl, model: str) -> bool:
    m = model.split(",")
    if m[0] != impl[0] or len(m) != len(impl):
        return False
    if m[0] == "o":
        return m == impl
    return m[1:4] == impl[1:4] and cell_matches(impl[4], m[4]) and cell_matches(impl[5], m[5]) and m[6] == impl[6]


def gen_case(rng):
    n = rng.randint(1, 4)
    kinds = [rng.choice(["p", "p", "b", "b!", "b-", "t", "t!", "t-", "B", "S", "c"]) for _ in range(n)]
    ops = []
    for _ in range(rng.randint(1, 14)):
        r = rng.random()
        i = rng.randrange(n)
        if r < 0.22:
            ops.append(("a", i))
        elif r < 0.30:
            ops.append(("r", i))
        elif r < 0.58:
            s = rng.choice(LINES)
            if rng.random() < 0.06:
                s += "\ud800"                      # a lone surrogate: UnicodeEncodeError inside GCodeCore.write
            ops.append(("w", s))
        elif r < 0.64:
            ops.append(("f",))
        elif r < 0.70:
            ops.append((rng.choice(["t", "T", "x"]),))
        elif r < 0.76:
            ops.append(("C", i))
        elif r < 0.84:
            ops.append((rng.choice(["D", "E"]), i))
        elif r < 0.89:
            ops.append(("F", i))
        elif r < 0.97:
            s = rng.choice(LINES) + rng.choice(["\n", "\r\n", ""])
            b = s.encode("utf-8")
            if kinds[i] in ("b", "b!", "b-", "B", "p", "c") and rng.random() < 0.2:
                b += bytes([rng.choice([0x80, 0xC3, 0xFF, 0xED])])     # not UTF-8: only a binary file accepts it
            ops.append(("W", i, b))
        elif kinds[i] in DOUBLES:
            ops.append(("K", i))
    return kinds, ops


def validate(rng, cases: int) -> dict:
    core.use_repo()
    from gscrib.excepts import GscribError
    from gscrib.gcode_core import GCodeCore
    from gscrib.writers import BaseWriter, FileWriter

    class Rec(BaseWriter):
        def __init__(self):
            self.chunks, self.discs = [], 0

        def connect(self):
            return self

        def disconnect(self, wait=True):
            self.discs += 1

        def write(self, b):
            self.chunks.append(bytes(b))

    tmp = tempfile.mkdtemp(prefix="gscrib_tie_writers_")
    log = logging.getLogger("gscrib.gcode_core")       # `write` logs the traceback of every wrapped exception
    was_disabled, log.disabled = log.disabled, True
    lines, impl, shown = [], [], []
    outcomes: dict = {}
    calls = 0
    try:
        for c in range(cases):
            kinds, ops = gen_case(rng)
            if not ops:
                ops = [("a", 0)]
            g = GCodeCore()
            if g._writers != []:
                raise core.Infra("a default GCodeCore starts with writers")
            objs = [Obj(k, tmp, f"{c}_{j}", FileWriter, Rec) for j, k in enumerate(kinds)]
            toks, recs = [], []
            for op in ops:
                exc = "-"
                k = op[0]
                outcomes[k] = outcomes.get(k, 0) + 1
                if k in ("a", "r"):
                    (g.add_writer if k == "a" else g.remove_writer)(objs[op[1]].writer)
                    toks.append(f"{k}{op[1]}")
                elif k == "w":
                    line = g.format.line(op[1])
                    try:
                        g.write(op[1])
                    except GscribError as e:
                        exc = type(e).__name__
                        outcomes["w:" + exc] = outcomes.get("w:" + exc, 0) + 1
                    toks.append("w" + ",".join(format(ord(ch), "x") for ch in line))
                elif k == "f":
                    g.flush()
                    toks.append("f")
                elif k in ("t", "T"):
                    g.teardown(k == "t")
                    toks.append(k)
                elif k == "x":
                    g.__exit__(None, None, None)
                    toks.append("x")
                elif k == "C":
                    objs[op[1]].writer.connect()
                    toks.append(f"C{op[1]}")
                elif k in ("D", "E"):
                    objs[op[1]].writer.disconnect(k == "D")
                    toks.append(f"{k}{op[1]}")
                elif k == "F":
                    objs[op[1]].writer.flush()
                    toks.append(f"F{op[1]}")
                elif k == "W":
                    objs[op[1]].writer.write(op[2])
                    toks.append(f"W{op[1]}:{op[2].hex()}")
                elif k == "K":
                    objs[op[1]].handle.close()
                    toks.append(f"K{op[1]}")
                calls += 1
                reg = []
                for w in g._writers:
                    idx = [j for j, o in enumerate(objs) if o.writer is w]
                    if len(idx) != 1:
                        raise core.Infra("a registered writer is not one of the case's objects")
                    reg.append(str(idx[0]))
                recs.append(("reg=" + ",".join(reg), "exc=" + exc, [o.record() for o in objs]))
            for o in objs:                      # release the real files
                try:
                    o.writer.disconnect()
                except Exception:
                    pass
            lines.append(" ".join(KINDS[k] for k in kinds) + " | " + " ".join(toks))
            impl.append(recs)
            shown.append({"objects": kinds, "ops": toks})
        got = core.run_model(MODE, lines)
    finally:
        log.disabled = was_disabled
        shutil.rmtree(tmp, ignore_errors=True)
    res = {"cases": cases, "calls": calls, "outcomes": dict(sorted(outcomes.items())), "disagreement": None}
    for case, recs, out in zip(shown, impl, got):
        model = out.split(" ~ ")
        if len(model) != len(recs):
            raise core.Infra(f"driver returned {len(model)} records for {len(recs)} ops: {out[:200]}")
        for step, (r, m) in enumerate(zip(recs, model)):
            parts = m.split(";")
            ok = parts[0] == r[0] and parts[1] == r[1] and len(parts) == 2 + len(r[2]) \
                and all(obj_matches(i, mm) for i, mm in zip(r[2], parts[2:]))
            if not ok:
                res["disagreement"] = {"ops": [case], "step": step, "impl": repr(r), "model": m}
                return res
    return res

"""C01 - the emitted program reproduces the tracked position (no transform active).

Model: Model/Builder.lean + Machine.lean; theorems: Props/C01.lean.  Oracle: an independent Python
interpreter (G0/G1/G90/G91/G92/G28/G38.x, unknown coordinates) replays the bytes the real builder wrote and
is compared with `g.position` / `g.state.position` / the distance mode after every call."""
from __future__ import annotations

from fractions import Fraction

from . import builder_common as bc
from . import core
from .builder_impl import parse_record, show

PROP = "C01"
KEYS = bc.MOTION_KEYS
W = dict(move=40, moveabs=12, setaxis=7, home=5, probe=6, dist=8, enter=6, exit=7, feed=1, misc=2, hook=2)
PROBE = {"G38.2", "G38.3", "G38.4", "G38.5"}


def machine_oracle(tol_per_word: Fraction):
    def oracle(lines, recs, im):
        # the rounding allowance of every word is that of the decimal places in force when it was written
        tols = [tol_per_word if dp >= 5 else Fraction(1, 10**dp) / 2 + Fraction(1, 10**9) for dp in im.step_dp]
        return _oracle(lines, recs, im, tols)
    return oracle


def _oracle(lines, recs, im, tols):
    if True:
        out = []
        pos = {"X": None, "Y": None, "Z": None}
        err = {"X": Fraction(0), "Y": Fraction(0), "Z": Fraction(0)}
        rel = False
        for i, (ln, rec) in enumerate(zip(lines, recs)):
            r = parse_record(rec)
            tol_per_word = tols[i]
            for s in ([] if r["stmts"] == "-" else r["stmts"].split(";")):
                toks = [] if s == "_" else s.split(",")
                codes = {t for t in toks if ":" not in t}
                words = {t.split(":")[0]: Fraction(t.split(":")[1]) for t in toks if ":" in t}
                if "G90" in codes:
                    rel = False
                elif "G91" in codes:
                    rel = True
                elif codes & {"G0", "G00", "G1", "G01"}:
                    for a in "XYZ":
                        if a in words:
                            if rel:
                                pos[a] = None if pos[a] is None else pos[a] + words[a]
                                err[a] += tol_per_word
                            else:
                                pos[a] = words[a]
                                err[a] = tol_per_word
                elif "G92" in codes:
                    for a in "XYZ":
                        if a in words:
                            pos[a] = words[a]
                            err[a] = tol_per_word
                elif "G28" in codes:
                    for a in ([a for a in "XYZ" if a in words] or "XYZ"):
                        pos[a] = None
                elif codes & PROBE:
                    for a in "XYZ":
                        if a in words:
                            pos[a] = None
            if (r["rel"] == "1") != rel or (r["srel"] == "1") != rel:
                out.append((i, f"machine distance mode relative={rel}, builder reports rel={r['rel']} state.rel={r['srel']}", "mode"))
            for key in ("pos", "spos"):
                for a, v in zip("XYZ", r[key].split(",")):
                    if pos[a] is None:
                        continue
                    try:
                        off = v == "~" or abs(Fraction(v) - pos[a]) > err[a]
                    except ValueError:          # `huge`, `nan`: not a coordinate the machine can be at
                        off = True
                    if off:
                        out.append((i, f"after `{ln}` the machine is at {a}={show(pos[a])} but {key} reports {v}", "position"))
        return out


def histories(R, n, offgrid=False):
    hs = []
    for _ in range(n):
        g = bc.Gen(R.rng, W, malformed=0.05, offgrid=offgrid)
        h = []
        if R.rng.random() < 0.7:
            h.append("setaxis x=0 y=0 z=0" if R.rng.random() < 0.5 else "setaxis " + " ".join(g.point_args(1)))
        h += g.history(R.rng.randint(5, 40))
        hs.append(h)
    return hs


def gp(R, n=3):
    return ";".join(show(Fraction(R.rng.randint(-320, 320), 32)) for _ in range(n))


def trace_histories(R, n):
    hs = []
    for _ in range(n):
        r = R.rng
        h = ["setaxis x=%s y=%s z=%s" % tuple(show(Fraction(r.randint(-160, 160), 32)) for _ in range(3))]
        if r.random() < 0.5:
            h.append("dist rel")
        if r.random() < 0.3:
            h.append("dir ccw")
        h.append("res " + show(Fraction(r.choice([8, 16, 32, 64, 160]), 32)))
        for _ in range(r.randint(1, 3)):
            k = r.choice(["polyline", "polyline", "arc", "circle", "helix", "thread", "spiral", "spline", "arc_radius", "move"])
            if k == "polyline":
                h.append("trace polyline " + " ".join(gp(R) for _ in range(r.randint(1, 5))))
            elif k == "spline":
                h.append("trace spline " + " ".join(gp(R) for _ in range(r.randint(2, 5))))
            elif k == "circle":
                h.append(f"trace circle {r.randint(1, 6)} {r.randint(-6, 6)}")
            elif k == "arc":
                c = r.randint(1, 8)
                h.append(f"trace arc {c} {c} {r.randint(-3, 3)} {c} 0")  # quarter arc about (c, 0): equal radii in either mode
            elif k == "arc_radius":
                h.append(f"trace arc_radius {r.randint(1, 5)} {r.randint(1, 5)} {r.choice([-1, 1]) * r.randint(6, 12)}")
            elif k == "helix":
                h.append(f"trace helix {r.randint(1, 5)} {r.randint(1, 5)} {r.randint(-4, 4)} {r.randint(-3, 3)} {r.randint(1, 3)} {r.randint(1, 3)}")
            elif k == "thread":
                h.append(f"trace thread {r.randint(1, 5)} {r.randint(1, 5)} {r.randint(-6, 6)} {r.randint(1, 3)}")
            elif k == "spiral":
                h.append(f"trace spiral {r.randint(1, 6)} {r.randint(1, 6)} {r.randint(-3, 3)} {r.randint(1, 3)}")
            else:
                h.append("move " + " ".join(f"{a}={show(Fraction(r.randint(-320, 320), 32))}" for a in "xyz" if r.random() < 0.6))
        hs.append(h)
    return hs


_WORD = __import__("re").compile(r"([A-Z])\s*([-+]?(?:\d+\.?\d*|\.\d+))")


def analyzer_cross(R, histories_done):
    """Cross-oracle named by the property: the library's own analyzer (`gscrib.printrun.gcoder.GCode`, what printcore runs every
    line through) fed the emitted lines one by one must, after every call, sit where the builder reports - on the axes an
    independent interpreter knows, in the mode the builder reports.  The analyzer has its own conventions for `G20` (it converts to
    millimetres) and `G28` (it homes to 0), so a history is followed up to its first such line only."""
    import logging
    from gscrib.printrun import gcoder
    logging.disable(logging.CRITICAL)
    try:
        for lines, recs, im in histories_done:
            text = b"".join(im.rec.chunks).decode("utf-8")
            out = [l for l in text.split("\n") if l.strip()]
            prog = gcoder.GCode()
            pos, rel, k = {"X": None, "Y": None, "Z": None}, False, 0
            R.evaluations += 1
            R.count("analyzer-cross")
            for i, rec in enumerate(recs):
                r = parse_record(rec)
                n = 0 if r["stmts"] == "-" else len(r["stmts"].split(";"))
                stop = False
                for raw in out[k:k + n]:
                    code = raw.split(";", 1)[0].strip().upper()
                    ws = _WORD.findall(code)
                    if ws and ws[0][0] == "G" and float(ws[0][1]) in (20.0, 28.0):
                        stop = True
                        break
                    prog.append(raw, store=False)
                    if not ws or ws[0][0] != "G":
                        continue
                    g, args = float(ws[0][1]), {a: float(v) for a, v in ws[1:] if a in pos}
                    if g == 90:
                        rel = False
                    elif g == 91:
                        rel = True
                    elif g in (0, 1):
                        for a, v in args.items():
                            pos[a] = (None if pos[a] is None else pos[a] + v) if rel else v
                    elif g == 92:
                        pos.update(args)
                    elif 38 <= g < 39:
                        for a in args:
                            pos[a] = None
                if stop:
                    R.count("analyzer-cross:cut-at-G20/G28")
                    break
                k += n
                if r["out"] != "ok" and n == 0:
                    continue
                got = dict(zip("XYZ", prog.abs_pos))
                rep = dict(zip("XYZ", r["pos"].split(",")))
                for a in "XYZ":
                    if pos[a] is None:
                        continue
                    try:
                        want = float(Fraction(rep[a]))
                    except (ValueError, ZeroDivisionError):
                        continue                      # the machine oracle reports an unknown / non-numeric report
                    if abs(got[a] - want) > 1e-4 * (1 + abs(want)) * (1 + i):
                        R.fail({"history": bc.cfg_line(im) + lines[: i + 1]}, f"after `{lines[i]}` the library's analyzer is at "
                               f"{a}={got[a]} but the builder reports {rep[a]}", tag="analyzer-position", step=i)
                        stop = True
                        break
                if not stop and (r["rel"] == "1") != bool(prog.relative):
                    R.fail({"history": bc.cfg_line(im) + lines[: i + 1]}, f"after `{lines[i]}` the library's analyzer is in relative="
                           f"{prog.relative} mode, the builder reports rel={r['rel']}", tag="analyzer-mode", step=i)
                    stop = True
                if stop:
                    break
    finally:
        logging.disable(logging.NOTSET)


MODE_SPELLINGS = ["relative", "absolute", "RELATIVE", "Absolute", "rel", "abs", "inc", "incremental", "G91", "G90", "g91", "91", "r", "a",
                  "relative ", "rel.", "increment", "delta", "offset", "abs.", "absolute mode"]


def core_class_cases(R, n):
    """oracle-only: the same motion API on the base class `GCodeCore` (no state object, no hooks, its own `set_distance_mode`), with
    the distance mode selected by enum member, by its documented value and by look-alike spellings (accepted or refused -
    either way the emitted program must agree with what the object reports)."""
    from gscrib import GCodeCore
    from gscrib.enums import DistanceMode
    from gscrib.writers import BaseWriter

    class Rec(BaseWriter):
        def __init__(self):
            self.lines = []
        def connect(self):
            return self
        def disconnect(self, wait=True):
            pass
        def flush(self):
            pass
        def write(self, b):
            self.lines.append(bytes(b).decode("utf-8"))

    for _ in range(n):
        r = R.rng
        g = GCodeCore(output=None, print_lines=False, line_endings="\n")
        w = Rec()
        g.add_writer(w)
        calls, ctx = [], []
        pos, rel, k = {"X": None, "Y": None, "Z": None}, False, 0
        R.evaluations += 1
        R.count("core-class")
        bad = None
        for _step in range(r.randint(4, 20)):
            c = r.random()
            axes = {a: r.randint(-320, 320) / 32 for a in r.sample("xyz", r.randint(1, 3))}
            try:
                if c < 0.45:
                    name = r.choice(["move", "rapid"])
                    calls.append(f"{name} {axes}")
                    getattr(g, name)(**axes)
                elif c < 0.6:
                    name = r.choice(["move_absolute", "rapid_absolute"])
                    calls.append(f"{name} {axes}")
                    getattr(g, name)(**axes)
                elif c < 0.9:
                    m = r.choice([DistanceMode.RELATIVE, DistanceMode.ABSOLUTE, "relative", "absolute"] + [r.choice(MODE_SPELLINGS)] * 3)
                    calls.append(f"set_distance_mode {m!r}")
                    R.count("core-class:mode-by-" + ("member" if isinstance(m, DistanceMode) else "value" if m in ("relative", "absolute") else "look-alike"))
                    g.set_distance_mode(m)
                elif c < 0.96 or not ctx:
                    cm = g.relative_mode() if r.random() < 0.5 else g.absolute_mode()
                    calls.append("enter " + ("relative_mode" if cm is not None and len(calls) % 2 else "mode context"))
                    cm.__enter__()
                    ctx.append(cm)
                else:
                    calls.append("exit")
                    ctx.pop().__exit__(None, None, None)
            except Exception as e:  # noqa  (a refused call: nothing may have been written - judged below like any other call)
                calls[-1] += f" -> {type(e).__name__}"
            for raw in w.lines[k:]:
                code = raw.split(";", 1)[0].strip().upper()
                ws = _WORD.findall(code)
                if not ws or ws[0][0] != "G":
                    continue
                gn, args = float(ws[0][1]), {a: float(v) for a, v in ws[1:] if a in pos}
                if gn == 90:
                    rel = False
                elif gn == 91:
                    rel = True
                elif gn in (0, 1):
                    for a, v in args.items():
                        pos[a] = (None if pos[a] is None else pos[a] + v) if rel else v
            k = len(w.lines)
            if bool(g.distance_mode.is_relative) != rel:
                bad = f"after `{calls[-1]}` the program leaves the machine in relative={rel} mode, the object reports {g.distance_mode.value}"
            else:
                for a, v in zip("XYZ", g.position):
                    if pos[a] is not None and (v is None or abs(v - pos[a]) > 1e-4 * (1 + len(calls))):
                        bad = f"after `{calls[-1]}` the machine is at {a}={pos[a]}, the object reports {v}"
                        break
            if bad:
                R.fail({"class": "GCodeCore", "calls": list(calls), "emitted": [l.strip() for l in w.lines]}, bad, tag="core-class")
                break


def run(R: core.Run):
    R.rule = ("random call histories (5-40 calls) over move/rapid/move_absolute/rapid_absolute/set_axis/auto_home/probe/"
              "set_distance_mode/mode context managers with any subset of x/y/z per call, on the exact dyadic grid; a second "
              "stream drives every tracer shape through the real PathTracer and feeds the model the moves it issued; a third "
              "uses off-grid values with the rounding tolerance; non-trivial = at least two emitting calls; distinct by hash")
    R.assumptions = ["no transform active", "exact arithmetic on the grid stream; off-grid and tracer streams are compared within "
                     "half a unit of the 5th decimal per emitted word (relative words accumulate)"]
    exact_oracle = machine_oracle(Fraction(0))
    tol_oracle = machine_oracle(Fraction(6, 10**6))
    corpus = [["setaxis x=0 y=0 z=0", "dist rel", "move x=3/2", "enter abs", "rapid x=10", "enter rel", "move x=-1", "exit", "exit",
               "moveabs x=4", "probe towards z=1", "home y=0", "move x=1/4"],
              ["move x=1", "home", "dist rel", "move x=1 y=1", "setaxis x=5", "move x=1"]]
    bc.correspond(R, corpus, KEYS, True, "corpus", exact_oracle)
    bc.correspond(R, histories(R, R.n(1200, 20000)), KEYS, True, "grid", exact_oracle)
    bc.correspond(R, histories(R, R.n(300, 4000), offgrid=True), KEYS, False, "offgrid", tol_oracle)
    bc.correspond(R, trace_histories(R, R.n(100, 3000)), KEYS, False, "tracer", tol_oracle)
    # the cross-oracle the property names: the library's own analyzer fed the emitted lines (oracle only)
    core_class_cases(R, R.n(300, 4000))
    hs = histories(R, R.n(250, 4000)) + histories(R, R.n(80, 1000), offgrid=True)
    for h in hs:        # axis resets that name no linear axis at all (rotary / auxiliary axes only, or nothing): the position stays put
        if R.rng.random() < 0.5:
            h.insert(R.rng.randint(min(2, len(h)), len(h)), R.rng.choice(["setaxis A:0", "setaxis B:1 C:2", "setaxis U:0", "setaxis A:-5/2", "setaxis"]))
    analyzer_cross(R, [bc.run_impl(h) for h in hs])
    lowdp = [[f"cfg dp={R.rng.choice([0, 1, 2, 3])}"] + h for h in histories(R, R.n(150, 3000))]
    bc.correspond(R, lowdp, KEYS, False, "low-decimal-places", tol_oracle)
    # the formatter's precision changes mid-program (raised and lowered); coordinates are re-used across the change
    chg = []
    for h in histories(R, R.n(150, 3000)):
        h = [f"cfg dp={R.rng.choice([1, 2, 3, 5])}"] + h
        for _ in range(R.rng.randint(1, 3)):
            h.insert(R.rng.randint(2, len(h)), f"fmtdp {R.rng.choice([0, 1, 2, 3, 4, 5, 6])}")
        chg.append(h)
    chg.append(["cfg dp=2", "move x=395/32 y=1/32", "fmtdp 4", "move z=1", "move x=395/32 y=1/32", "dist rel", "move x=395/32",
                "fmtdp 1", "move x=395/32", "fmtdp 5", "move x=395/32"])
    bc.correspond(R, chg, KEYS, False, "decimal-places-changed-mid-program", tol_oracle)
    if R.broken:
        R.search_batches += 1
        for h in histories(R, R.n(1500, 5000)):
            lines, recs, im = bc.run_impl(h)
            R.evaluations += 1
            for step, msg, tag in exact_oracle(lines, recs, im):
                R.fail({"history": lines[: step + 1]}, msg, tag=tag, step=step)
    return {}, {}


def replay(data):
    return bc.replay(data, KEYS, machine_oracle(Fraction(6, 10**6)))

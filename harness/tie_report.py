"""Validation of the translator `tools/gen_report.py`: the *generated* Lean functions (driver mode `reportsrc`, built from
the committed `Gen/ReportSrc.lean`) against the real `gscrib.writers.PrintrunWriter` (not connected to any device).

A case is a short sequence of direct calls on one fresh writer - `_on_device_message(line)`, `_parse_message(line)`,
`_update_param(key, value)`, `get_parameter(name)`, `_ack_event.clear()`, `_device_error = None` - and after every call
the four attributes the translation carries are compared: `_ack_event.is_set()`, `_device_error` (class, and the text of
a `DeviceError`), the set `_reported_params`, the whole dict `_current_params` (the model holds the exact rational of a
decimal text, the implementation the nearest double: the rational is rounded before comparing), plus the exception
class a call raised and the value `get_parameter` returned.  The module constants (`SUCCESS_PREFIXES`, `ERROR_PREFIXES`,
`AXES`, the text of `VALUE_PATTERN`) are compared once per run.  Lines come from the report generators of `c18.py`
(Marlin / Grbl reports, error lines, damaged lines) and from a small adversarial alphabet; everything is ASCII (the
prelude's stated limit).  See `tie_state.py` for the role of this run."""
from __future__ import annotations

from fractions import Fraction

from . import core

MODE = "reportsrc"
ALPHABET = list("XYZxyFSfs0159") + [":", ":", ",", ",", ".", "-", "<", ">", "|", " ", "\t", "\n", "o", "k", "O", "K", "!", "e", "r", "a", "l", "m",
                                   "MPos:", "WPos:", "PRB:", "FS:", "mpos:", "ok", "error", "ALARM", "!!", "\x0b", "\x1c", "A", "B", "C", "T", "E", "_"]
KEYS = list("XYZABCEFSTxyzfs09") + ["", "FS", "MPos", "ab", "x1", ":", "-", " ", "X "]


def enc(s: str) -> str:
    return "_".join(format(ord(c), "x") for c in s) if s else "~"


def dec(t: str) -> str:
    return "" if t in ("~", "") else "".join(chr(int(h, 16)) for h in t.split("_"))


def show_q(q: Fraction) -> str:
    return str(q.numerator) if q.denominator == 1 else f"{q.numerator}/{q.denominator}"


FIELD_KEYS = ["FS", "FS", "MPos", "WPos", "PRB", "X", "Y", "F", "S", "x", "T", "mpos", "Fs", "XY", "0"]
NUMERALS = ["1", "-2.5", ".5", "5.", "007", "-.5", "-0", "12.125", "3", "-", ".", "--1", "1-2", "1.2.3", "", "-.", "5-"]


def gen_fields(rng) -> str:
    """Fields whose values are good and bad numerals over `[-0-9.]` (what `float()` and the tuple unpacking must survive):
    `<FS:-,1>` (bad F, good S), `WPos:1,2,3,4,5,6,-` (a bad seventh coordinate), `MPos:1,.,3`, `X:1.2.3`, …"""
    fields = []
    for _ in range(rng.randint(1, 4)):
        n = rng.choice([1, 2, 2, 3, 3, 6, 7, 8])
        fields.append(rng.choice(FIELD_KEYS) + ":" + ",".join(rng.choice(NUMERALS if rng.random() < 0.5 else NUMERALS[:9]) for _ in range(n)))
    return rng.choice(["<", "<", "", "ok ", " <", "ok <", "["]) + rng.choice(["|", "|", " "]).join(fields) + rng.choice([">", "", "]", "\n"])


def gen_line(rng, c18) -> str:
    r = rng.random()
    if r < 0.20:
        return gen_fields(rng)
    if r < 0.45:
        return c18.item_line(("report", rng.choice(c18.FAMILIES)(rng)))
    if r < 0.60:
        return c18.gen_error_line(rng)
    if r < 0.75:
        return rng.choice(c18.GARBAGE)
    if r < 0.85:  # a report with one character damaged
        line = c18.item_line(("report", rng.choice(c18.FAMILIES)(rng)))
        k = rng.randrange(len(line) + 1)
        return line[:k] + rng.choice(["", ":", ",", "-", " ", "X", "x:", "<", "ok", "."]) + line[k + rng.randint(0, 2):]
    return "".join(rng.choice(ALPHABET) for _ in range(rng.randint(0, 14)))


def gen_case(rng, c18):
    ops = []
    for _ in range(rng.choice([1, 2, 3, 3, 4, 6, 8])):
        r = rng.random()
        if r < 0.40:
            ops.append(("M", gen_line(rng, c18)))
        elif r < 0.60:
            ops.append(("P", gen_line(rng, c18)))
        elif r < 0.75:
            ops.append(("U", rng.choice(KEYS), Fraction(rng.randint(-4000, 4000), rng.choice([1, 2, 8, 32]))))
        elif r < 0.90:
            ops.append(("G", rng.choice(KEYS)))
        elif r < 0.96:
            ops.append(("C",))
        else:
            ops.append(("E",))
    return ops


def proto(op) -> str:
    if op[0] in ("M", "P", "G"):
        return f"{op[0]} {enc(op[1])}"
    if op[0] == "U":
        return f"U {enc(op[1])} {show_q(op[2])}"
    return op[0]


def state_of(w, exc, got=...):
    from gscrib.excepts import DeviceError, GscribError

    e = w._device_error
    if e is None:
        err = "-"
    elif type(e) is DeviceError:
        err = "D" + str(e)
    elif type(e) is GscribError:
        err = "G"
    else:
        err = "?" + type(e).__name__
    par = {}
    for k, v in dict.items(w._current_params):
        par[k] = v if isinstance(v, float) else ("?" + repr(v))
    rec = {"exc": exc, "ack": w._ack_event.is_set(), "err": err, "rep": set(w._reported_params), "par": par}
    if got is not ...:
        rec["get"] = got
    return rec


def impl_run(case, c18):
    _, w = c18.make_writer("printrun")
    out = []
    for op in case:
        exc, got = "-", ...
        try:
            if op[0] == "M":
                w._on_device_message(op[1])
            elif op[0] == "P":
                w._parse_message(op[1])
            elif op[0] == "U":
                w._update_param(op[1], float(op[2]))
            elif op[0] == "G":
                got = w.get_parameter(op[1])
            elif op[0] == "C":
                w._ack_event.clear()
            else:
                w._device_error = None
        except Exception as e:  # the class is what the translation carries
            exc = type(e).__name__
        out.append(state_of(w, exc, got))
    return out


def parse_record(rec: str):
    """one record of the driver -> the same structure as `state_of` (rationals rounded to the nearest double)"""
    f = {}
    for w in rec.split(" "):
        k, _, v = w.partition("=")
        f[k] = v
    par = {}
    for item in (f["par"].split(",") if f["par"] else []):
        k, _, v = item.partition(":")
        par.setdefault(dec(k), float(Fraction(v)))  # newest binding first: the first one counts
    err = f["err"]
    out = {"exc": f["exc"], "ack": f["ack"] == "1", "err": ("D" + dec(err[1:])) if err.startswith("D") else err,
           "rep": {dec(k) for k in f["rep"].split(",")} if f["rep"] else set(), "par": par}
    if "get" in f:
        out["get"] = None if f["get"] == "-" else float(Fraction(f["get"]))
    return out


def tags(op, rec, before):
    t = [op[0]]
    if op[0] in ("M", "P"):
        t.append(f"{op[0]}:{'readings' if rec['rep'] else 'no-reading'}")
        if rec["par"] != before:
            t.append(f"{op[0]}:table-changed")
    if op[0] == "M":
        t.append("M:ack" if rec["ack"] else "M:no-ack")
        if rec["err"] != "-":
            t.append("M:device-error-pending")
    if op[0] == "U":
        t.append("U:stored" if rec["par"] != before else "U:already-reported")
    if op[0] == "G":
        t.append("G:value" if rec.get("get") is not None else "G:none")
    return t


def validate(rng, cases: int) -> dict:
    core.use_repo()
    from . import c18
    import logging

    import gscrib.writers.printrun_writer as pw

    lg = logging.getLogger("gscrib")          # the parser logs every value it cannot convert
    lg.setLevel(logging.CRITICAL + 1)
    if not lg.handlers:
        lg.addHandler(logging.NullHandler())
    outcomes: dict = {}
    # the constants first
    want_k = ("ok=" + ",".join(enc(s) for s in pw.SUCCESS_PREFIXES) + ";err=" + ",".join(enc(s) for s in pw.ERROR_PREFIXES)
              + ";axes=" + ",".join(enc(s) for s in pw.AXES) + ";pat=" + enc(pw.VALUE_PATTERN.pattern))
    all_cases = [gen_case(rng, c18) for _ in range(cases)]
    lines = ["K"] + [" | ".join(proto(op) for op in case) for case in all_cases]
    got = core.run_model(MODE, lines)
    if got[0] != want_k:
        return {"cases": cases, "calls": 1, "outcomes": {"K": 1}, "disagreement": {"ops": ["K"], "step": 0, "impl": want_k, "model": got[0]}}
    calls = 1
    for case, line, rec_line in zip(all_cases, lines[1:], got[1:]):
        impl = impl_run(case, c18)
        recs = rec_line.split(" ; ")
        if len(recs) != len(case):
            raise core.Infra(f"reportsrc returned {len(recs)} records for {len(case)} operations: {line!r}")
        before = {}
        for i, (op, w, r) in enumerate(zip(case, impl, recs)):
            calls += 1
            m = parse_record(r)
            for t in tags(op, w, before):
                outcomes[t] = outcomes.get(t, 0) + 1
            before = dict(w["par"])
            if m != w:
                return {"cases": cases, "calls": calls, "outcomes": outcomes,
                        "disagreement": {"ops": [repr(o) for o in case], "step": i, "impl": repr(sorted_rec(w)), "model": repr(sorted_rec(m)) + "  <- " + r}}
    return {"cases": cases, "calls": calls, "outcomes": outcomes, "disagreement": None}


def sorted_rec(r):
    return {k: (sorted(v) if isinstance(v, set) else dict(sorted(v.items())) if isinstance(v, dict) else v) for k, v in r.items()}

"""C19 - heightmaps interpolate faithfully and sample paths within tolerance.

Model: lean/GscribModel/Model/Heightmap.lean (driver mode `heightmap`); theorems: Props/C19.lean.
Implementation: the real gscrib.heightmaps.RasterHeightMap / SparseHeightMap / FlatHeightMap, built from
numpy arrays or loaded with `from_path` from PNG files written with cv2 (the image library gscrib itself
uses; the repository's tests build their rasters in memory) and CSV/TSV files written like the tests do.

What is compared with the model
  * raster `get_depth_at` at every pixel centre, at range-test boundary points, at random interior and
    exterior points (the FITPACK spline is a PARAMETER: at pixel centres the model's interpolant is the
    grid itself, elsewhere the value scipy's spline gives at (row=y, col=x));
  * sparse `get_depth_at` at stored points and random points (Qhull + scipy point location are a PARAMETER:
    the model evaluates the barycentric interpolant on the simplex scipy's own `find_simplex` names);
  * `_filter_points`: the model filter on the implementation's own unfiltered samples, exact;
  * the index logic of both `_interpolate_line`s (Bresenham pixels exact; linspace count and positions);
  * the whole raster `sample_path` end to end (all samples are pixel centres), and the flat map;
  * `_filter_points` of both classes on synthetic samples with dyadic heights (exact ties |dz| = tolerance);
  * malformed stream: `sample_path` with the wrong number of coordinates (argument check -> ValueError);
  * maps far from the origin (batch `far`): sparse maps go through all of the above; pixel strips up to 1.3 x 10^5 long
    are not shipped as a grid - their `filter` and Bresenham records are compared, depths and whole paths are judged by
    the oracle only.
The oracle (independent of the model) evaluates the property's clauses on what the implementation returned.
"""
from __future__ import annotations

import json
import math
import os
import shutil
import tempfile
from fractions import Fraction as F
from pathlib import Path

from . import core

PROP = "C19"
MODE = "heightmap"
EPS = 1e-9  # comparison tolerance for values computed by scipy in floating point
FINDING_ID = "C19-sparse-hull-vertex"
FINDINGS_LOCAL = Path(__file__).with_name("findings_c19.json")


# ------------------------------------------------------------------ numbers
def fr(x) -> F:
    return F(float(x)) if not isinstance(x, (int, F)) else F(x)


def q(x) -> str:
    v = fr(x)
    return str(v.numerator) if v.denominator == 1 else f"{v.numerator}/{v.denominator}"


def parse_q(s: str) -> F:
    return F(s)


def close(a, m: F, eps=EPS) -> bool:
    """float `a` (implementation) against exact `m` (model / expectation)"""
    a = float(a)
    if not math.isfinite(a):
        return False
    return abs(F(a) - m) <= F(eps) * max(1, abs(m))


# ------------------------------------------------------------------ exact planar geometry (oracle side)
def cross(o, a, b):
    return (a[0] - o[0]) * (b[1] - o[1]) - (a[1] - o[1]) * (b[0] - o[0])


def convex_hull(pts):
    """strict convex hull (counter-clockwise, collinear boundary points removed), exact"""
    P = sorted(set(pts))
    lo, up = [], []
    for p in P:
        while len(lo) >= 2 and cross(lo[-2], lo[-1], p) <= 0:
            lo.pop()
        lo.append(p)
    for p in reversed(P):
        while len(up) >= 2 and cross(up[-2], up[-1], p) <= 0:
            up.pop()
        up.append(p)
    return lo[:-1] + up[:-1]


BAND = 1e-9  # points this close to the hull boundary carry no inside/outside claim (scipy locates with an epsilon)


def classify(p, H):
    """'vertex' (exact) | 'inside' | 'outside' | 'edge' (within BAND of the boundary) of the hull H"""
    if p in H:
        return "vertex"
    d = []
    for i in range(len(H)):
        a, b = H[i], H[(i + 1) % len(H)]
        d.append(float(cross(a, b, p)) / math.sqrt(float((b[0] - a[0]) ** 2 + (b[1] - a[1]) ** 2)))
    if min(d) > BAND:
        return "inside"
    if min(d) < -BAND:
        return "outside"
    return "edge"


# ------------------------------------------------------------------ temp files (outside /repo and /verif)
class Tmp:
    def __init__(self):
        self.dir = None

    def path(self, name):
        if self.dir is None:
            self.dir = tempfile.mkdtemp(prefix="c19-")
            for forbidden in (str(core.REPO), str(core.VERIF)):
                if os.path.realpath(self.dir).startswith(forbidden + os.sep):
                    raise core.Infra("temporary directory inside the repository or the framework")
        return os.path.join(self.dir, name)

    def close(self):
        if self.dir:
            shutil.rmtree(self.dir, ignore_errors=True)
            self.dir = None


# ------------------------------------------------------------------ implementation adapters
PRIOR = {}   # id(map) -> another scale under which every line is sampled right before the measured sampling


def build_raster(case, tmp):
    import numpy as np
    from gscrib.heightmaps import RasterHeightMap

    dt = np.uint8 if case["dtype"] == "uint8" else np.uint16
    img = strip_image(case["strip"], dt) if "strip" in case else np.array(case["img"], dtype=dt)
    if case["load"] == "png":
        import cv2

        p = tmp.path("map.png")
        if not cv2.imwrite(p, img):
            raise core.Infra("cv2.imwrite failed")
        hm = RasterHeightMap.from_path(p)
        os.unlink(p)
    else:
        hm = RasterHeightMap(img)
    prior = case.get("prior_scale")
    if prior:
        # the same map used before under another scale / tolerance: nothing remembered from then may show afterwards
        hm.set_scale(float(prior))
        hm.set_tolerance(float(case["tol"]) * 2)
        for ln in case["lines"]:
            try:
                hm.sample_path(list(ln))
            except Exception:  # noqa
                pass
        for x, y in case["queries"][:5]:
            hm.get_depth_at(x, y)
    hm.set_scale(float(case["scale"]))
    hm.set_tolerance(float(case["tol"]))
    PRIOR.clear()
    if prior:
        PRIOR[id(hm)] = float(prior)
    return hm, img


def build_sparse(case, tmp):
    import numpy as np
    from gscrib.heightmaps import SparseHeightMap

    data = np.array(case["points"], dtype=float)
    if case["load"] in ("csv", "tsv"):
        sep = "," if case["load"] == "csv" else "\t"
        p = tmp.path("map." + case["load"])
        with open(p, "w") as f:
            for x, y, z in data.tolist():
                f.write(sep.join(repr(v) for v in (x, y, z)) + "\n")
        hm = SparseHeightMap.from_path(p)
        os.unlink(p)
    else:
        hm = SparseHeightMap(data)
    prior = case.get("prior_scale")
    if prior:
        hm.set_scale(float(prior))
        hm.set_tolerance(float(case["tol"]) * 2)
        for ln in case["lines"]:
            try:
                hm.sample_path(list(ln))
            except Exception:  # noqa
                pass
    hm.set_scale(float(case["scale"]))
    hm.set_tolerance(float(case["tol"]))
    PRIOR.clear()
    if prior:
        PRIOR[id(hm)] = float(prior)
    return hm, data


def strip_image(st, dt):
    """a long narrow image given compactly: `seg` = [[length, first value, last value], ...] is the profile along the long
    axis (linear inside a segment, repeated until `long` pixels are filled), the same for each of the `short` rows"""
    import numpy as np

    prof = []
    while len(prof) < st["long"]:
        for n, v0, v1 in st["seg"]:
            prof += [int(round(v0 + (v1 - v0) * i / max(1, n - 1))) for i in range(n)]
    row = np.array(prof[:st["long"]], dtype=dt)
    img = np.repeat(row[None, :], st["short"], axis=0)
    return np.ascontiguousarray(img.T) if st["along"] == "y" else img


def stored_grid(img, dtype):
    """the normalised height the map stores for a pixel: float32(pixel / max)"""
    import numpy as np

    mx = 255.0 if dtype == "uint8" else 65535.0
    return (img.astype(np.float64) / mx).astype(np.float32)


def samples_text(arr):
    return " ".join(f"{q(p[0])}:{q(p[1])}:{q(p[2])}" for p in arr)


def path_obs(hm, line):
    """(filtered, unfiltered) as lists of float triples, or the exception class name"""
    import numpy as np

    prior = PRIOR.get(id(hm))
    if prior:
        # the very same line sampled under another scale and tolerance immediately before
        sc, tol = hm._scale_z, hm._tolerance
        try:
            hm.set_scale(prior)
            hm.set_tolerance(tol * 2)
            hm.sample_path(list(line))
        except Exception:  # noqa
            pass
        finally:
            hm.set_scale(sc)
            hm.set_tolerance(tol)
    try:
        out = hm.sample_path(list(line))
        full = hm._interpolate_line(np.asarray(line, dtype=float))
    except Exception as e:  # canonicalised: class name only
        return type(e).__name__, None
    return [tuple(float(v) for v in p) for p in out], [tuple(float(v) for v in p) for p in full]


def bad_lines(hm, case, lines, cmp):
    """malformed stream: `sample_path` with the wrong number of coordinates -> the argument check of the model"""
    for ln in case.get("badlines", []):
        try:
            hm.sample_path(list(ln))
            got = "ok"
        except Exception as e:
            got = type(e).__name__
        lines.append("shape line=" + ",".join(q(v) for v in ln))
        cmp.append(("shape", got))


# ------------------------------------------------------------------ oracle: paths
def check_path(kind, line, out, full, tol, depth):
    """Property clauses for one `sample_path` call; returns a list of (tag, message)."""
    bad = []
    x1, y1, x2, y2 = (float(v) for v in line)
    if not out or any(len(p) != 3 for p in out):
        return [("path-shape", f"sample_path returned {out!r}")]
    if kind == "raster":
        a = (float(round(x1)), float(round(y1)))
        b = (float(round(x2)), float(round(y2)))
    else:
        a, b = (x1, y1), (x2, y2)
    if out[0][:2] != a:
        bad.append(("path-start", f"first sample {out[0][:2]} is not the requested start {a}"))
    if out[-1][:2] != b:
        bad.append(("path-end", f"last sample {out[-1][:2]} is not the requested end {b}"))
    # on the line, in order
    dx, dy = F(b[0]) - F(a[0]), F(b[1]) - F(a[1])
    L2 = dx * dx + dy * dy
    last_t = None
    for p in out if kind != "filter" else []:
        px, py = F(p[0]) - F(a[0]), F(p[1]) - F(a[1])
        if L2 == 0:
            if (px, py) != (0, 0):
                bad.append(("path-line", f"sample {p} off the (degenerate) line"))
            continue
        t = (px * dx + py * dy) / L2
        off2 = (px * dy - py * dx) ** 2 / L2  # squared distance from the line
        lim = F(1, 4) + F(1, 10**9) if kind == "raster" else F(1, 10**16) * max(1, L2)
        if off2 > lim:
            bad.append(("path-line", f"sample {p} is off the line by {float(off2) ** 0.5}"))
        if t < -F(1, 10**9) or t > 1 + F(1, 10**9):
            bad.append(("path-line", f"sample {p} beyond the line ends (t={float(t)})"))
        if last_t is not None and not t > last_t:
            bad.append(("path-order", f"samples out of order at {p} (t={float(t)} after {float(last_t)})"))
        last_t = t
    # the map's own height at the location
    for p in out if depth is not None else []:
        z = float(depth(p[0], p[1]))
        if not abs(z - p[2]) <= 1e-12 * max(1.0, abs(z)):
            bad.append(("path-height", f"sample {p} does not carry the map's height {z} at its location"))
    # dropped samples: subsequence of the unfiltered samples, each dropped one within tol of the kept one before it
    if full is not None:
        j, kept_idx = 0, []
        for p in out:
            while j < len(full) and full[j] != p:
                j += 1
            if j == len(full):
                bad.append(("path-subsequence", f"sample {p} is not one of the unfiltered samples, in order"))
                return bad
            kept_idx.append(j)
            j += 1
        kept, ftol = set(kept_idx), F(tol)
        last_z = F(full[kept_idx[0]][2]) if kept_idx else None
        for k, s in enumerate(full):
            if k in kept:
                last_z = F(s[2])
            elif last_z is None:
                bad.append(("path-start", "samples dropped before the first kept one"))
            elif abs(F(s[2]) - last_z) >= ftol:  # exact: float rounding is monotone, a dropped sample has |dz| < tol exactly
                bad.append(("path-dropped", f"dropped sample #{k} {s} differs from the previously kept height "
                                            f"{float(last_z)} by {float(abs(F(s[2]) - last_z))} >= tolerance {tol}"))
    return bad


def tie_near(zs, tol, eps=1e-9):
    """some height difference is within eps of the tolerance (float rounding could flip a keep/drop decision)"""
    zs = sorted(set(zs))
    for i, a in enumerate(zs):
        for b in zs[i + 1:]:
            if abs(abs(b - a) - tol) <= eps:
                return True
    return False


# ------------------------------------------------------------------ one raster case
def run_raster(case, tmp):
    """-> dict(model_lines, checks=[(name, impl, expect_fn)], failures=[(tag,msg,info)], stats)"""
    hm, img = build_raster(case, tmp)
    H, W = img.shape
    sc, tol = float(case["scale"]), float(case["tol"])
    g = stored_grid(img, case["dtype"])
    mx = 255.0 if case["dtype"] == "uint8" else 65535.0
    failures, lines, cmp = [], [], []
    # a strip (up to 10^5 pixels long) is not shipped to the model as a grid: its records are the grid-free ones
    # (`filter` on the implementation's own samples, the Bresenham pixels); depths and whole paths are judged by the oracle
    strip = "strip" in case
    grid_txt = "" if strip else ";".join(",".join(q(v) for v in row) for row in g.tolist())
    # ---- get_depth_at
    qs, impl = [], []
    for x, y in case["queries"]:
        got = float(hm.get_depth_at(x, y))
        impl.append(got)
        integral = float(x).is_integer() and float(y).is_integer()
        inr = 0 <= x < W and 0 <= y < H
        if strip:
            v = None
        elif integral and inr:
            v = "-"
        else:  # the spline is a parameter: its own value at (row=y, col=x)
            v = q(hm._interpolator(y, x)[0, 0])
        qs.append(f"{q(x)}:{q(y)}:{v}")
        # oracle
        if not inr:
            if got != 0.0:
                failures.append(("raster-outside", f"get_depth_at({x},{y}) = {got} outside the {W}x{H} image, expected 0",
                                 {"query": [x, y]}))
        elif integral:
            want = F(sc) * F(int(img[int(y), int(x)])) / F(mx)
            if abs(F(got) - want) > F(1, 10**6) * max(1, F(sc)):
                failures.append(("raster-stored", f"get_depth_at({x},{y}) = {got}, expected scale x pixel[row {int(y)}][col {int(x)}]"
                                                  f" = {float(want)}", {"query": [x, y]}))
    if not strip:
        lines.append(f"raster sc={q(sc)} grid={grid_txt} q={','.join(qs)}")
        cmp.append(("raster-depth", impl))
    # ---- paths
    for ln in case["lines"]:
        out, full = path_obs(hm, ln)
        if full is None:
            failures.append(("path-raise", f"sample_path({ln}) raised {out}", {"line": ln}))
            lines += ["flat x=0 y=0"] * 3
            cmp += [("skip", None)] * 3
            continue
        for tag, msg in check_path("raster", ln, out, full, tol, hm.get_depth_at):
            failures.append((tag, f"sample_path({ln}): {msg}", {"line": ln}))
        xy = " ".join(f"x{i // 2 + 1}={q(v)}" if i % 2 == 0 else f"y{i // 2 + 1}={q(v)}" for i, v in enumerate(ln))
        lines.append(f"filter tol={q(tol)} pts=" + ",".join(samples_text([p]) for p in full))
        cmp.append(("filter", (samples_text(out), [p[2] for p in full], tol)))
        lines.append(f"lineR {xy}")
        cmp.append(("lineR", " ".join(f"{int(p[0])}:{int(p[1])}" for p in full)))
        if not strip:
            lines.append(f"pathR sc={q(sc)} grid={grid_txt} tol={q(tol)} {xy}")
            cmp.append(("pathR", (full, out, tol)))
    bad_lines(hm, case, lines, cmp)
    return {"lines": lines, "cmp": cmp, "failures": failures,
            "stats": [f"raster:{case['dtype']}", f"raster-load:{case['load']}", f"raster-kind:{case['gen']}",
                      "raster-square" if H == W else "raster-nonsquare"]
                     + ([f"raster-strip-long:1e{len(str(max(H, W))) - 1}"] if strip else [])}


# ------------------------------------------------------------------ one sparse case
def run_sparse(case, tmp):
    import numpy as np

    hm, data = build_sparse(case, tmp)
    sc, tol = float(case["scale"]), float(case["tol"])
    pts = [(F(x), F(y)) for x, y, _ in data.tolist()]
    zs = [F(z) for _, _, z in data.tolist()]
    Hull = convex_hull(pts)
    lo, hi = F(sc) * min(zs), F(sc) * max(zs)
    tri = hm._interpolator.tri
    vals = hm._interpolator.values
    stored = {p: z for p, z in zip(pts, zs)}
    # conditioning of the data as Qhull sees it: smallest distance between two stored points over the largest coordinate
    in_tri = set(int(i) for i in tri.simplices.ravel())
    dropped = {p for i, p in enumerate(pts) if i not in in_tri}
    big = max([abs(c) for p in pts for c in p] + [F(1)])
    near = min((abs(a[0] - b[0]) + abs(a[1] - b[1])) for k, a in enumerate(pts) for b in pts[k + 1:] if a != b) if len(set(pts)) > 1 else F(1)
    ratio = float(near / big)
    failures, lines, cmp, qs, impl, stats = [], [], [], [], [], []
    for x, y in case["queries"]:
        got = float(hm.get_depth_at(x, y))
        impl.append(got)
        s = int(tri.find_simplex(np.array([[float(x), float(y)]]))[0])
        if s < 0:
            loc = "-"
        else:
            idx = tri.simplices[s]
            loc = ";".join(f"{q(tri.points[i][0])};{q(tri.points[i][1])};{q(vals[i][0])}" for i in idx)
        qs.append(f"{q(x)}:{q(y)}:{loc}")
        # ---- oracle (exact hull, the stored data; nothing from the model)
        p = (F(float(x)), F(float(y)))
        where = classify(p, Hull)
        stats.append("sparse-q:" + ("stored-" if p in stored else "") + where)
        info = {"query": [x, y], "stored": p in stored, "hull": where, "find_simplex": s, "returned": got,
                "qhull_dropped": p in dropped, "spacing_ratio": ratio}
        if p in stored:
            want = F(sc) * stored[p]
            if not close(got, want):
                failures.append(("sparse-stored", f"get_depth_at({x},{y}) = {got} at a stored sample, expected scale x stored "
                                                  f"height = {float(want)} (hull: {where}, scipy find_simplex = {s})", info))
        elif where == "inside":
            if not (lo - F(EPS) * max(1, abs(lo)) <= F(got) <= hi + F(EPS) * max(1, abs(hi))):
                failures.append(("sparse-range", f"get_depth_at({x},{y}) = {got} inside the hull, outside "
                                                 f"[{float(lo)}, {float(hi)}]", info))
        elif where == "outside":
            if got != 0.0:
                failures.append(("sparse-outside", f"get_depth_at({x},{y}) = {got} outside the hull, expected 0", info))
    lines.append(f"sparse sc={q(sc)} q={','.join(qs)}")
    cmp.append(("sparse-depth", impl))
    for ln in case["lines"]:
        out, full = path_obs(hm, ln)
        if full is None:
            failures.append(("path-raise", f"sample_path({ln}) raised {out}", {"line": ln}))
            lines += ["flat x=0 y=0"] * 2
            cmp += [("skip", None)] * 2
            continue
        for tag, msg in check_path("sparse", ln, out, full, tol, hm.get_depth_at):
            failures.append((tag, f"sample_path({ln}): {msg}", {"line": ln}))
        x1, y1, x2, y2 = (float(v) for v in ln)
        dist = float(np.hypot(x2 - x1, y2 - y1))
        lines.append(f"filter tol={q(tol)} pts=" + ",".join(samples_text([p]) for p in full))
        cmp.append(("filter", (samples_text(out), [p[2] for p in full], tol)))
        lines.append(f"lineS x1={q(x1)} y1={q(y1)} x2={q(x2)} y2={q(y2)} dist={q(dist)} tol={q(tol)}")
        cmp.append(("lineS", (full, dist, tol)))
    bad_lines(hm, case, lines, cmp)
    stats += [f"sparse-load:{case['load']}", f"sparse-coords:{case['gen']}", f"sparse-n:{min(len(pts) // 4 * 4, 12)}+"]
    return {"lines": lines, "cmp": cmp, "failures": failures, "stats": stats}


def run_flat(case, tmp):
    from gscrib.heightmaps import FlatHeightMap

    hm = FlatHeightMap()
    failures, lines, cmp = [], [], []
    for x, y in case["queries"]:
        got = hm.get_depth_at(x, y)
        lines.append(f"flat x={q(x)} y={q(y)}")
        cmp.append(("exact", q(got)))
        if got != 0.0:
            failures.append(("flat", f"FlatHeightMap.get_depth_at({x},{y}) = {got}", {"query": [x, y]}))
    for ln in case["lines"]:
        try:
            out = [tuple(float(v) for v in p) for p in hm.sample_path(list(ln))]
        except Exception as e:
            failures.append(("path-raise", f"FlatHeightMap.sample_path({ln}) raised {type(e).__name__}", {"line": ln}))
            lines.append("flat x=0 y=0")
            cmp.append(("skip", None))
            continue
        x1, y1, x2, y2 = (float(v) for v in ln)
        lines.append(f"flatpath x1={q(x1)} y1={q(y1)} x2={q(x2)} y2={q(y2)}")
        cmp.append(("exact", samples_text(out)))
        if out != [(x1, y1, 0.0), (x2, y2, 0.0)]:
            failures.append(("flat", f"FlatHeightMap.sample_path({ln}) = {out}", {"line": ln}))
    bad_lines(hm, case, lines, cmp)
    return {"lines": lines, "cmp": cmp, "failures": failures, "stats": ["flat"]}


def run_filter(case, tmp):
    """`_filter_points` on synthetic samples with dyadic heights (exact ties |dz| = tolerance are frequent)"""
    import numpy as np
    from gscrib.heightmaps import RasterHeightMap, SparseHeightMap

    if case["cls"] == "raster":
        hm = RasterHeightMap(np.zeros((4, 5), dtype=np.uint8))
    else:
        hm = SparseHeightMap(np.array([[0.0, 0.0, 0.0], [0.0, 1.0, 1.0], [1.0, 0.0, 2.0], [1.0, 1.0, 3.0]]))
    tol = float(case["tol"])
    full = [tuple(float(v) for v in p) for p in case["points"]]
    out = [tuple(float(v) for v in p) for p in hm._filter_points(np.array(full), tol)]
    failures = []
    line = [full[0][0], full[0][1], full[-1][0], full[-1][1]]
    for tag, msg in check_path("filter", line, out, full, tol, None):
        failures.append((tag, f"{case['cls']} _filter_points(tol={tol}): {msg}", {"points": len(full)}))
    return {"lines": [f"filter tol={q(tol)} pts=" + ",".join(samples_text([p]) for p in full)],
            "cmp": [("filter-exact", samples_text(out))], "failures": failures, "stats": [f"filter:{case['cls']}"]}


RUNNERS = {"raster": run_raster, "sparse": run_sparse, "flat": run_flat, "filter": run_filter}


# ------------------------------------------------------------------ model comparison
def compare(R, case, name, impl, mo):
    """one driver record against what the implementation did; R=None: return the verdict only"""

    def dis(what, i, m):
        if R is not None:
            R.disagree(what, case, i, m)
        return what

    if name == "skip":
        return None
    if name == "exact":
        return dis("flat", impl, mo) if impl != mo else None
    if name == "shape":
        return dis("sample-path-argument-check", impl, mo) if impl != mo else None
    if name == "filter-exact":
        return dis("filter-points", impl, mo) if impl != mo else None
    if name in ("raster-depth", "sparse-depth"):
        ms = [parse_q(t) for t in mo.split()]
        if len(ms) != len(impl):
            return dis(name, impl, mo)
        for k, (a, m) in enumerate(zip(impl, ms)):
            if not close(a, m):
                return dis(name, {"query": case["queries"][k], "value": a}, float(m))
        return None
    if name == "filter":
        txt, zs, tol = impl
        if txt != mo:
            if tie_near(zs, tol, 1e-12):
                if R is not None:
                    R.count("tie-guard:filter")
                return None
            return dis("filter-points", txt, mo)
        return None
    if name == "lineR":
        return dis("raster-line-pixels", impl, mo) if impl != mo else None
    if name == "pathR":
        full, out, tol = impl
        mfull, mout = [[tuple(parse_q(v) for v in s.split(":")) for s in part.split()] for part in mo.split(" | ")]
        if tie_near([p[2] for p in full], tol):
            if R is not None:
                R.count("tie-guard:pathR")
            return None
        for got, want, what in ((full, mfull, "raster-path-unfiltered"), (out, mout, "raster-sample-path")):
            same = len(got) == len(want) and all(
                F(a[0]) == b[0] and F(a[1]) == b[1] and close(a[2], b[2]) for a, b in zip(got, want))
            if not same:
                return dis(what, got, [tuple(float(v) for v in p) for p in want])
        return None
    if name == "lineS":
        full, dist, tol = impl
        head, _, body = mo.partition(" | ")
        n = int(head[2:])
        ratio = F(dist) / F(tol)
        if 0 < abs(ratio - round(ratio)) <= F(1, 10**9):  # int(dist / tol) may round across an integer
            if R is not None:
                R.count("tie-guard:lineS")
            return None
        pts = [tuple(parse_q(v) for v in s.split(":")) for s in body.split()]
        if n != len(full) - 1 or len(pts) != len(full):
            return dis("sparse-line-count", len(full) - 1, n)
        for a, b in zip(full, pts):
            if not (close(a[0], b[0]) and close(a[1], b[1])):
                return dis("sparse-line-points", a[:2], [float(b[0]), float(b[1])])
        return None
    raise core.Infra(f"unknown comparison {name}")


# ------------------------------------------------------------------ generation
SCALES = [1.0, 1.0, 0.5, 2.0, 3.0, 0.25, 10.0]
TOLS_R = [0.01, 0.05, 0.2, 0.378, 1.0]
TOLS_S = [0.1, 0.25, 0.378, 1.0, 2.5]


def gen_raster(rng):
    h, w = rng.randint(4, 12), rng.randint(4, 12)
    if h == w and rng.random() < 0.85:
        w += rng.choice([1, 2, 3])
    dtype = rng.choice(["uint8", "uint16"])
    top = 255 if dtype == "uint8" else 65535
    full = top
    if rng.random() < 0.2:
        top = rng.choice([3, 40, 200, 255, 256, 1000])   # a dark image: the value range actually used says nothing about the bit depth
        top = min(top, full)
    gen = rng.choice(["noise", "ramp", "ramp+noise", "steps"])
    a, b = rng.uniform(-0.12, 0.12), rng.uniform(-0.12, 0.12)
    c = rng.uniform(0.2, 0.8)
    img = []
    for y in range(h):
        row = []
        for x in range(w):
            if gen == "noise":
                v = rng.random()
            elif gen == "ramp":
                v = c + a * x + b * y
            elif gen == "ramp+noise":
                v = c + a * x + b * y + rng.uniform(-0.03, 0.03)
            else:
                v = (0.15 if (x * 3 + y) % 7 < 3 else 0.8) + rng.uniform(-0.02, 0.02)
            row.append(int(min(top, max(0, round(v * top)))))
        img.append(row)
    if all(img[y][x] == img[min(x, h - 1)][min(y, w - 1)] for y in range(h) for x in range(w)):
        img[1][2] = (img[1][2] + top // 2) % (top + 1)  # never symmetric
    scale = rng.choice(SCALES) if rng.random() < 0.8 else round(rng.uniform(0.1, 20.0), 3)
    tol = rng.choice(TOLS_R) * (scale if rng.random() < 0.5 else 1.0)
    queries = []
    for y in range(h):
        for x in range(w):
            queries.append([x, y] if rng.random() < 0.5 else [float(x), float(y)])
    # the range test, both ends, both axes
    queries += [[-1, 0], [0, -1], [w, 0], [0, h], [w, h], [w - 1, h], [w, h - 1], [-0.001, 1.0], [1.0, -0.001],
                [w - 0.5, 0.5], [0.5, h - 0.5], [float(w), 1.0], [1.0, float(h)], [w + 5, h + 5], [float(max(w, h)), float(max(w, h))],
                [float(min(w, h)), float(min(w, h)) - 1]]
    for _ in range(10):
        queries.append([rng.uniform(0, w - 1), rng.uniform(0, h - 1)])
    for _ in range(6):
        queries.append([rng.uniform(-4, w + 4), rng.uniform(-4, h + 4)])
    lines = []
    for _ in range(5):
        ln = [rng.randint(0, w - 1), rng.randint(0, h - 1), rng.randint(0, w - 1), rng.randint(0, h - 1)]
        r = rng.random()
        if r < 0.12:
            ln = [rng.randint(-3, w + 2), rng.randint(-3, h + 2), rng.randint(-3, w + 2), rng.randint(-3, h + 2)]
        elif r < 0.2:
            ln[2], ln[3] = ln[0], ln[1]  # a single pixel
        elif r < 0.3:
            ln = [float(v) for v in ln]
        lines.append(ln)
    lines.append([0, rng.randint(0, h - 1), w - 1, rng.randint(0, h - 1)])  # a long traverse
    return {"kind": "raster", "gen": gen, "dtype": dtype, "img": img, "load": "png" if rng.random() < 0.3 else "array",
            "scale": scale, "tol": tol, "queries": queries, "lines": lines, "badlines": gen_badlines(rng),
            **({"prior_scale": scale * rng.choice([0.25, 3.0])} if rng.random() < 0.3 else {})}


def gen_points(rng):
    gen = rng.choice(["int", "int", "quarter", "float"])
    n = rng.randint(4, 15)
    while True:
        pts = set()
        while len(pts) < n:
            if gen == "int":
                pts.add((float(rng.randint(0, 20)), float(rng.randint(0, 20))))
            elif gen == "quarter":
                pts.add((rng.randint(0, 80) / 4, rng.randint(0, 80) / 4))
            else:
                pts.add((rng.uniform(0, 20), rng.uniform(0, 20)))
        pts = sorted(pts)
        e = [(F(x), F(y)) for x, y in pts]
        if any(cross(e[0], e[1], p) != 0 for p in e):  # not all collinear
            break
    rng.shuffle(pts)
    return gen, pts


def gen_sparse(rng):
    gen, pts = gen_points(rng)
    lo_z = rng.choice([-50, -50, 1])  # one map in three has only positive heights (0 is then outside [min,max])
    kind = rng.random()
    if kind < 0.35:  # a gently sloping plane + noise: consecutive path samples differ by less than the tolerance
        a, b, c = rng.uniform(-0.6, 0.6), rng.uniform(-0.6, 0.6), rng.uniform(1, 5) if lo_z > 0 else rng.uniform(-5, 5)
        data = [[x, y, round(c + a * x + b * y + rng.uniform(-0.05, 0.05), 3) + (13.0 if lo_z > 0 else 0.0)] for x, y in pts]
    else:
        data = [[x, y, rng.randint(lo_z, 50) / 10] for x, y in pts]
    scale = rng.choice(SCALES) if rng.random() < 0.8 else round(rng.uniform(0.1, 20.0), 3)
    tol = rng.choice(TOLS_S)
    queries = [[x, y] for x, y, _ in data]
    for _ in range(25):
        queries.append([rng.uniform(-5, 25), rng.uniform(-5, 25)])
    xs, ys = [p[0] for p in pts], [p[1] for p in pts]
    for _ in range(10):
        queries.append([rng.uniform(min(xs), max(xs)), rng.uniform(min(ys), max(ys))])
    for _ in range(4):  # the centroid of three stored points, a midpoint of two
        a, b, c = rng.sample(pts, 3)
        queries.append([(a[0] + b[0] + c[0]) / 3, (a[1] + b[1] + c[1]) / 3])
        queries.append([(a[0] + b[0]) / 2 + rng.uniform(-1e-3, 1e-3), (a[1] + b[1]) / 2])
    lines = []
    for _ in range(3):
        lines.append([rng.uniform(min(xs), max(xs)), rng.uniform(min(ys), max(ys)),
                      rng.uniform(min(xs), max(xs)), rng.uniform(min(ys), max(ys))])
    r = rng.random()
    if r < 0.3:
        lines.append([rng.uniform(-5, 25), rng.uniform(-5, 25), rng.uniform(-5, 25), rng.uniform(-5, 25)])
    elif r < 0.4:
        x, y = rng.uniform(0, 20), rng.uniform(0, 20)
        lines.append([x, y, x, y])  # zero length
    elif r < 0.6:
        a, b = rng.sample(pts, 2)
        lines.append([a[0], a[1], b[0], b[1]])  # from one stored sample to another
    return {"kind": "sparse", "gen": gen, "points": data, "load": rng.choice(["array", "array", "csv", "csv", "tsv"]),
            "scale": scale, "tol": tol, "queries": queries, "lines": lines, "badlines": gen_badlines(rng),
            **({"prior_scale": scale * rng.choice([0.25, 3.0])} if rng.random() < 0.3 else {})}


# ---- maps far from the origin (work offsets, long scans): coordinates 10^2 .. 10^5 with a tolerance that is small
# relative to them.  Everything the path clauses say is stated in absolute terms (the requested ends, the tolerance), so
# a comparison that scales with the coordinate magnitude shows here and nowhere near the origin.
def _far_origin(rng):
    m = 10 ** rng.uniform(2, 5)
    return m, rng.choice([1, 1, 1, -1]) * round(m * rng.uniform(1, 3), 2)


def gen_sparse_far(rng):
    """probe data of a profiled part: the height depends on one axis only, piecewise linear with slopes and flats
    (plateaus) between the probed stations; lines that end on a flat just after a slope, very short lines, lines from a
    flat onto a slope, and arbitrary ones; segment lengths of 8..40 tolerances, so lines have at most ~200 probes"""
    o_s = _far_origin(rng)[1]
    o_c = _far_origin(rng)[1] if rng.random() < 0.5 else round(rng.uniform(-20, 20), 2)
    # the tolerance (= probe spacing) is 0.2 .. 2 hundred-thousandths of the largest coordinate, the stations are 8..40
    # tolerances apart: spacing / |coordinate| >= 4e-6.  (Below ~1e-7 Qhull no longer separates the stored points - see the
    # note on ill-conditioned point sets in the summary of this family; that regime is not generated here.)
    tol = float(f"{1e-5 * max(abs(o_s), abs(o_c)) * rng.choice([0.2, 0.5, 0.5, 1.0, 2.0]):.3g}")
    u = tol * rng.choice([8, 20, 40])
    k = rng.randint(3, 5)
    w = u * rng.choice([0.5, 1.0, 2.0])
    scale = rng.choice(SCALES) if rng.random() < 0.8 else round(rng.uniform(0.1, 20.0), 3)
    # slope of each segment in height per unit of length AFTER scaling: 0 = flat; >= 1 keeps every probe of the path
    kinds = [rng.choice([0.0, 0.0, 0.5, 1.0, 2.0, 10.0, -1.0, -3.0]) for _ in range(k)]
    j = rng.randrange(k - 1)
    if kinds[j] == 0.0:
        kinds[j] = rng.choice([0.5, 1.0, 2.0, 10.0, -3.0])
    kinds[j + 1] = 0.0  # at least one flat right after a slope
    h = [rng.choice([0.0, 0.0, 5.0, -3.0, 13.0])]
    for s in kinds:
        h.append(h[-1] + s * u / scale)
    st = [o_s + i * u for i in range(k + 1)]        # stations along the profile axis
    rows = [0.0, w] if rng.random() < 0.6 else [0.0, w / 2, w]
    along = rng.choice(["x", "y"])

    def xy(s, c):
        return [s, o_c + c] if along == "x" else [o_c + c, s]

    data = [xy(st[i], r) + [h[i]] for i in range(k + 1) for r in rows]
    rng.shuffle(data)

    def across():
        return rng.uniform(0.1, 0.9) * w

    def on(i, lo=0.1, hi=0.9):
        return st[i] + rng.uniform(lo, hi) * u

    lines, slopes_then_flat = [], [i for i in range(k - 1) if kinds[i] != 0.0 and kinds[i + 1] == 0.0]
    for _ in range(2):  # up (or down) a slope, stopping on the flat within a few probes of its beginning
        i = rng.choice(slopes_then_flat)
        c1 = across()
        c2 = c1 if rng.random() < 0.7 else across()
        a, b = xy(on(i), c1), xy(st[i + 1] + tol * rng.uniform(0.0, 3.0), c2)
        lines.append(a + b)
    i = rng.choice(slopes_then_flat)      # the other way round: from the flat onto the slope
    c1 = across()
    lines.append(xy(on(i + 1), c1) + xy(st[i + 1] - tol * rng.uniform(0.0, 3.0), c1))
    for _ in range(2):  # very short moves (0.05 .. 2.5 tolerances), along an axis or in any direction
        i = rng.randrange(k)
        s1, c1, ln = on(i, 0.2, 0.8), rng.uniform(0.3, 0.7) * w, tol * rng.uniform(0.05, 2.5)
        ang = rng.choice([0.0, 0.0, math.pi / 2, math.pi]) if rng.random() < 0.6 else rng.uniform(0, 2 * math.pi)
        lines.append(xy(s1, c1) + xy(s1 + ln * math.cos(ang), c1 + ln * math.sin(ang)))
    lines.append(xy(rng.uniform(st[0], st[-1]), across()) + xy(rng.uniform(st[0], st[-1]), across()))
    if rng.random() < 0.3:
        p = xy(on(rng.randrange(k)), across())
        lines.append(p + p)  # zero length
    queries = [[p[0], p[1]] for p in data]
    for _ in range(10):
        queries.append(xy(rng.uniform(st[0], st[-1]), rng.uniform(0, w)))
    for _ in range(6):
        queries.append(xy(rng.uniform(st[0] - 2 * u, st[-1] + 2 * u), rng.uniform(-w, 2 * w)))
    return {"kind": "sparse", "gen": "far-profile", "points": data, "load": rng.choice(["array", "array", "csv", "tsv"]),
            "scale": scale, "tol": tol, "queries": queries, "lines": lines, "badlines": gen_badlines(rng),
            **({"prior_scale": scale * rng.choice([0.25, 3.0])} if rng.random() < 0.3 else {})}


def gen_sparse_shifted(rng):
    """an ordinary random point set (as `gen_sparse`) probed at a work offset of 10^2 .. 10^5 in one or both axes"""
    case = gen_sparse(rng)
    ox = _far_origin(rng)[1]
    oy = _far_origin(rng)[1] if rng.random() < 0.5 else 0.0
    case["points"] = [[x + ox, y + oy, z] for x, y, z in case["points"]]
    case["queries"] = [[x + ox, y + oy] for x, y in case["queries"]]
    case["lines"] = [[a + ox, b + oy, c + ox, d + oy] for a, b, c, d in case["lines"]]
    case["gen"] = "far-" + case["gen"]
    return case


def gen_raster_strip(rng):
    """a long narrow scan (4..6 pixels by 10^2 .. 1.3 x 10^5) whose profile repeats slopes and flats of 3..30 pixels; lines
    near the far end of the strip, ending on a flat just after a slope, one or two pixels long, or arbitrary"""
    long_ = int(10 ** rng.choice([2, 3, 4, 5]) * rng.uniform(1.0, 1.3))
    short = rng.randint(4, 6)
    dtype = rng.choice(["uint8", "uint16"])
    top = 255 if dtype == "uint8" else 65535
    seg, v = [], rng.randint(0, top)
    for i in range(rng.randint(2, 4) * 2):
        n = rng.randint(3, 30)
        if i % 2 == 0:
            v1 = rng.randint(0, top)
            seg.append([n, v, v1])
            v = v1
        else:
            seg.append([n, v, v])  # a flat right after a slope
    period = sum(s[0] for s in seg)
    along = rng.choice(["x", "x", "y"])
    scale = rng.choice(SCALES) if rng.random() < 0.8 else round(rng.uniform(0.1, 20.0), 3)
    tol = rng.choice(TOLS_R) * (scale if rng.random() < 0.5 else 1.0)

    def xy(s, c):
        return [s, c] if along == "x" else [c, s]

    # the flats (first pixel, length) of the repeated profile; those near the far end of the strip are used
    flats, off = [], 0
    while off < long_:
        for n, v0, v1 in seg:
            if v0 == v1 and 0 < off < long_ - 1:
                flats.append((off, n))
            off += n
    flats = [f for f in flats if f[0] >= long_ - 300] or flats[-3:]
    lines = []
    for _ in range(3):
        f0, n = rng.choice(flats)
        c1 = rng.randint(0, short - 1)
        c2 = c1 if rng.random() < 0.7 else rng.randint(0, short - 1)
        e = min(long_ - 1, f0 + rng.randint(0, min(n - 1, 3)))
        lines.append(xy(max(0, f0 - rng.randint(2, 40)), c1) + xy(e, c2))
    for _ in range(2):
        s1, c1 = rng.randint(max(0, long_ - 200), long_ - 3), rng.randint(0, short - 1)
        lines.append(xy(s1, c1) + xy(s1 + rng.choice([1, 1, 2, -1]), c1 if rng.random() < 0.7 else rng.randint(0, short - 1)))
    s1 = rng.randint(max(0, long_ - 150), long_ - 1)
    lines.append(xy(s1, rng.randint(0, short - 1)) + xy(rng.randint(max(0, long_ - 150), long_ - 1), rng.randint(0, short - 1)))
    if rng.random() < 0.3:
        lines[-1] = [float(v) for v in lines[-1]]
    queries = [xy(rng.randint(0, long_ - 1), rng.randint(0, short - 1)) for _ in range(30)]
    queries += [xy(long_ - 1, short - 1), xy(long_, 0), xy(0, short), xy(long_ - 1, short), xy(long_, short - 1), xy(-1, 0),
                xy(float(long_), 1.0), xy(long_ - 0.5, 0.5), xy(long_ + 5, short + 5)]
    for _ in range(6):
        queries.append(xy(rng.uniform(0, long_ - 1), rng.uniform(0, short - 1)))
    return {"kind": "raster", "gen": "strip", "dtype": dtype,
            "strip": {"long": long_, "short": short, "along": along, "seg": seg},
            "load": "png" if rng.random() < 0.2 else "array", "scale": scale, "tol": tol, "queries": queries, "lines": lines,
            "badlines": gen_badlines(rng)}


def gen_badlines(rng):
    """malformed stream (~15 % of the maps): the wrong number of coordinates"""
    if rng.random() > 0.15:
        return []
    return [[float(rng.randint(0, 5)) for _ in range(rng.choice([0, 1, 2, 3, 5, 6, 8]))]]


def gen_filter(rng):
    n = rng.choice([1, 2, 3, 5, 8, 13, 25])
    unit = rng.choice([0.125, 0.25, 0.5])
    tol = unit * rng.choice([1, 1, 2, 3, 4])
    z, pts = rng.randint(-4, 4) * unit, []
    for i in range(n):
        pts.append([float(i), float(rng.randint(0, 3)) if rng.random() < 0.2 else 0.0, z])
        z += rng.choice([-2, -1, -1, 0, 0, 1, 1, 2, 3]) * unit * rng.choice([1, 1, 1, 2])
    if n > 1 and rng.random() < 0.15:
        pts[-1][2] = pts[0][2]
    if rng.random() < 0.25:
        # the same samples as they come from a map far from the origin: a fine step at a large offset, often ending on a flat
        ox, oy = _far_origin(rng)[1], (_far_origin(rng)[1] if rng.random() < 0.5 else 0.0)
        step = 2.0 ** -rng.randint(0, 9)
        pts = [[ox + p[0] * step, oy + p[1] * step, p[2]] for p in pts]
        if n > 2 and rng.random() < 0.6:
            for p in pts[-rng.randint(1, 2):]:
                p[2] = pts[-3][2]
    return {"kind": "filter", "cls": rng.choice(["raster", "sparse"]), "tol": tol, "points": pts}


def gen_flat(rng):
    return {"kind": "flat", "badlines": gen_badlines(rng), "queries": [[rng.uniform(-100, 100), rng.randint(-100, 100)] for _ in range(4)],
            "lines": [[rng.uniform(-100, 100) if rng.random() < 0.5 else rng.randint(-9, 9) for _ in range(4)] for _ in range(3)]}


# the listed finding's deterministic witness: (16,5) is a stored sample and an acute vertex of the convex hull
WITNESS_POINTS = [[1.0, 18.0, 1.0], [8.0, 12.0, 2.0], [14.0, 7.0, 3.0], [16.0, 5.0, 4.0]]


def witness_case():
    return {"kind": "sparse", "gen": "witness", "points": WITNESS_POINTS, "load": "array", "scale": 1.0, "tol": 0.378,
            "queries": [[p[0], p[1]] for p in WITNESS_POINTS] + [[9.0, 11.0], [30.0, 30.0]], "lines": [[2.0, 17.0, 15.0, 6.0]]}


def corpus():
    ramp8 = [[min(255, 10 * x + 3 * y) for x in range(7)] for y in range(4)]
    return [
        witness_case(),
        {"kind": "raster", "gen": "corpus-ramp", "dtype": "uint8", "img": ramp8, "load": "array", "scale": 2.0, "tol": 0.2,
         "queries": [[x, y] for y in range(4) for x in range(7)] + [[7, 0], [0, 4], [-1, 0], [0, -1], [6.5, 3.5]],
         "lines": [[0, 0, 6, 3], [6, 3, 0, 0], [0, 0, 0, 0], [0, 3, 6, 3], [2, 0, 2, 3]]},
        {"kind": "raster", "gen": "corpus-16", "dtype": "uint16",
         "img": [[(x * 9000 + y * 700) % 65536 for x in range(5)] for y in range(9)], "load": "png", "scale": 0.5, "tol": 0.05,
         "queries": [[x, y] for y in range(9) for x in range(5)] + [[5, 0], [0, 9], [4.999, 8.999], [8, 4], [4, 8]],
         "lines": [[0, 0, 4, 8], [4, 0, 0, 8], [0.5, 1.5, 3.5, 2.5], [-2, -2, 6, 10]]},
        {"kind": "sparse", "gen": "corpus-square", "points": [[0.0, 0.0, 0.0], [0.0, 1.0, 1.0], [1.0, 0.0, 2.0], [1.0, 1.0, 3.0]],
         "load": "csv", "scale": 2.0, "tol": 0.1, "queries": [[0.0, 0.0], [0.0, 1.0], [1.0, 0.0], [1.0, 1.0], [0.5, 0.25], [2.0, 2.0], [-0.1, 0.5]],
         "lines": [[0.0, 0.0, 1.0, 1.0], [0.1, 0.9, 0.9, 0.1], [0.5, 0.5, 0.5, 0.5]]},
        {"kind": "flat", "queries": [[0, 0], [3.5, -2]], "lines": [[0, 1, 2, 3], [0.5, 0.5, 0.5, 0.5]], "badlines": [[1.0, 2.0, 3.0], []]},
        {"kind": "filter", "cls": "raster", "tol": 0.5,
         "points": [[0.0, 0.0, 0.0], [1.0, 0.0, 0.25], [2.0, 0.0, 0.5], [3.0, 0.0, 0.75], [4.0, 0.0, 1.0], [5.0, 0.0, 1.0]]},
        {"kind": "filter", "cls": "sparse", "tol": 0.25, "points": [[0.0, 0.0, 1.0]]},
        # far from the origin: a part probed at a work offset of (4000, -2500), profile along y: flat, slope, flat; lines
        # that stop on the upper flat 2 and 9 thousandths after the slope, a 6-thousandths move on the flat, a move off it
        {"kind": "sparse", "gen": "corpus-far", "load": "array", "scale": 1.0, "tol": 0.004,
         "points": [[4000.0, -2500.0, 1.0], [4000.25, -2500.0, 1.0], [4000.0, -2499.75, 1.0], [4000.25, -2499.75, 1.0],
                    [4000.0, -2499.5, 3.0], [4000.25, -2499.5, 3.0], [4000.0, -2499.25, 3.0], [4000.25, -2499.25, 3.0]],
         "queries": [[4000.0, -2500.0], [4000.25, -2499.5], [4000.125, -2499.625], [4000.125, -2499.3], [4001.0, -2499.3]],
         "lines": [[4000.125, -2499.7, 4000.125, -2499.498], [4000.125, -2499.7, 4000.125, -2499.491],
                   [4000.1, -2499.4, 4000.1, -2499.394], [4000.1, -2499.4, 4000.1, -2499.6], [4000.05, -2499.9, 4000.2, -2499.3]]},
        # a scan 100 050 pixels long: slopes of 12 pixels and flats of 8; lines near its far end
        {"kind": "raster", "gen": "corpus-strip", "dtype": "uint8", "load": "array", "scale": 1.0, "tol": 0.05,
         "strip": {"long": 100050, "short": 4, "along": "x", "seg": [[12, 20, 240], [8, 240, 240], [12, 240, 20], [8, 20, 20]]},
         "queries": [[100049, 3], [100050, 0], [0, 4], [100012, 1], [100020, 2], [50000, 1], [99999.5, 1.5]],
         "lines": [[100002, 1, 100013, 1], [100002, 1, 100012, 1], [100015, 2, 100016, 2], [100030, 0, 100049, 3], [100049, 3, 100000, 0]]},
    ]


# ------------------------------------------------------------------ batches
def nontrivial(case):
    if case["kind"] == "raster":
        return ("strip" in case or len(case["img"]) != len(case["img"][0])) and len(case["lines"]) >= 1
    if case["kind"] == "sparse":
        return len(case["points"]) >= 4 and len(case["lines"]) >= 1
    if case["kind"] == "filter":
        return len(case["points"]) >= 3
    return False


def run_batch(R, cases, label, with_model=True):
    tmp = Tmp()
    try:
        results = [RUNNERS[c["kind"]](c, tmp) for c in cases]
    finally:
        tmp.close()
    model_out = []
    if with_model:
        model_out = core.run_model(MODE, [ln for r in results for ln in r["lines"]])
    k = 0
    for case, r in zip(cases, results):
        R.case(case, nontrivial=nontrivial(case), validated=with_model)
        R.count(label, "kind:" + case["kind"], *r["stats"])
        for tag, msg, info in r["failures"]:
            R.fail(case, msg, tag=tag, **info)
        if with_model:
            for (name, impl), mo in zip(r["cmp"], model_out[k:k + len(r["lines"])]):
                compare(R, case, name, impl, mo)
                if name != "skip":
                    R.count("model-record:" + name)
            k += len(r["lines"])


# ------------------------------------------------------------------ the listed finding
def finding_predicate(fl) -> bool:
    """Structural: the query is a stored sample, it is a vertex of the convex hull (exact test), scipy's own
    point location answers "outside" for it, and the map returned 0."""
    return (fl.get("tag") == "sparse-stored" and fl.get("stored") is True and fl.get("hull") == "vertex"
            and fl.get("find_simplex") == -1 and fl.get("returned") == 0.0)


FINDING2_ID = "C19-sparse-far-origin-dropped-sample"
WITNESS2_POINTS = [[1e5 + i * 0.01, j * 0.01, z] for i, z in enumerate((0.0, 0.0, 5.0, 5.0)) for j in (0, 1)]


def finding2_predicate(fl) -> bool:
    """Structural: the query is a stored sample, scipy's (Qhull's) triangulation has no simplex with that sample as a
    vertex, and the data is ill-conditioned for Qhull: smallest distance between stored points <= 1e-6 x largest coordinate."""
    return (fl.get("tag") == "sparse-stored" and fl.get("stored") is True and fl.get("qhull_dropped") is True
            and fl.get("spacing_ratio", 1.0) <= 1e-6)


def witness2_case():
    return {"kind": "sparse", "gen": "witness-far", "points": WITNESS2_POINTS, "load": "array", "scale": 1.0, "tol": 0.1,
            "queries": [[p[0], p[1]] for p in WITNESS2_POINTS], "lines": []}


def witness2():
    tmp = Tmp()
    try:
        r = run_sparse(witness2_case(), tmp)
    finally:
        tmp.close()
    hits = [(t, m, i) for t, m, i in r["failures"] if finding2_predicate({"tag": t, **i})]
    if hits:
        return True, hits[0][1]
    return False, "SparseHeightMap returns the stored heights of the witness point set 100 000 units from the origin"


def gen_sparse_illcond(rng):
    """oracle-only: small grids of probes whose spacing is 1e-9 ... 1e-6 of their distance to the origin, heights not on one plane"""
    ox = rng.choice([1e2, 1e3, 1e4, 1e5, 2.5e5]) * rng.choice([1, -1])
    step = abs(ox) * rng.choice([1e-6, 3e-7, 1e-7, 5e-8, 1e-8])
    nx, ny = rng.randint(2, 5), rng.randint(2, 4)
    along_x = rng.random() < 0.5
    pts = []
    for i in range(nx):
        for j in range(ny):
            x, y = ox + i * step, j * step
            pts.append([x, y, float(rng.randint(0, 5))] if along_x else [y, x, float(rng.randint(0, 5))])
    return {"kind": "sparse", "gen": "illcond", "points": pts, "load": "array", "scale": rng.choice([1.0, 2.0, 0.5]), "tol": 0.1,
            "queries": [[p[0], p[1]] for p in pts], "lines": []}


def witness():
    tmp = Tmp()
    try:
        r = run_sparse(witness_case(), tmp)
    finally:
        tmp.close()
    hits = [(t, m, i) for t, m, i in r["failures"] if finding_predicate({"tag": t, **i})]
    if hits:
        return True, hits[0][1]
    return False, "SparseHeightMap returns the stored height at the hull vertex (16,5) of the witness point set"


def _pending_findings():
    """`harness/findings_c19.json` is merged into `known_findings.json` by the maintainer.  Until an entry with the
    same id is there, the entries are read from the local file, so the check decides identically before and after
    the merge (afterwards this is a no-op)."""
    if not FINDINGS_LOCAL.exists() or getattr(core.load_findings, "_c19", False):
        return
    orig = core.load_findings

    def load(prop):
        got = list(orig(prop))
        if prop == PROP:
            have = {f.get("id") for f in got}
            got += [f for f in json.loads(FINDINGS_LOCAL.read_text()) if f.get("id") not in have]
        return got

    load._c19 = True
    core.load_findings = load


# ------------------------------------------------------------------ entry points
def run(R: core.Run):
    _pending_findings()
    R.rule = ("one case = one heightmap (random 8/16-bit image 4..12 x 4..15, noise / ramp / ramp+noise / steps, array or PNG "
              "via cv2; or 4..15 distinct non-collinear points on an integer, quarter or float grid, array or CSV/TSV; or the flat "
              "map; or, far from the origin (coordinates 10^2..10^5, tolerance 0.2..2 x 10^-5 of them), a profiled part probed at "
              "3..5 stations with slopes and flats, a shifted random point set, or a 4..6 x 10^2..1.3x10^5 pixel strip (oracle + "
              "grid-free model records only)) with its scale, tolerance, query points (all pixel centres / stored points, "
              "range-test boundary, random interior and exterior) and 4-8 lines (far maps: lines ending on a flat just after a "
              "slope, moves of 0.05..2.5 tolerances); non-trivial = non-square image or >= 4 points, with at least one sampled "
              "line; distinct by hash of the whole case")
    R.assumptions = [
        "FITPACK (RectBivariateSpline, s=0) is a parameter of the model: the theorems assume it reproduces the grid; the run "
        "checks that at every pixel centre (1e-6 of scale x pixel/max in the oracle, 1e-9 of the float32 grid in the correspondence)",
        "Qhull/LinearNDInterpolator are a parameter: the model evaluates the barycentric interpolant on the simplex that scipy's "
        "own find_simplex names (1e-9); where scipy locates a stored hull vertex 'outside' the hypothesis of C19_sparse_vertex "
        "fails - that is the listed finding",
        "numpy.hypot, numpy.linspace and float rounding are not modelled: linspace positions are compared to 1e-9, the segment "
        "count and the keep/drop decisions are skipped (and counted) when within 1e-9 of a tie",
        "raster line ends are pixel coordinates: non-integer ends are rounded (Python round, half to even) by the code and by the model; "
        "the oracle takes the rounded ends as the requested ones",
        "tolerance > 0 and scale > 0 (the setters reject the rest except tolerance = 0)",
    ]
    R.trusted = [
        "Lean 4.33 kernel; axioms propext, Classical.choice, Quot.sound only (audited per theorem)",
        "hand-written Lean model (Model/Heightmap.lean) tied to /repo by this run's correspondence check",
        "scipy RectBivariateSpline/FITPACK, LinearNDInterpolator/Qhull point location, skimage.draw.line (transcribed, compared "
        "pixel by pixel), numpy hypot/linspace, cv2 PNG codec, numpy.loadtxt",
        "Python harness: generators, adapters, exact Fraction geometry (convex hull), oracle",
    ]
    run_batch(R, corpus(), "corpus")
    nr, ns, nf, nx = R.n(60, 900), R.n(160, 2500), R.n(6, 40), R.n(300, 6000)
    cases = ([gen_raster(R.rng) for _ in range(nr)] + [gen_sparse(R.rng) for _ in range(ns)]
             + [gen_flat(R.rng) for _ in range(nf)] + [gen_filter(R.rng) for _ in range(nx)])
    run_batch(R, cases, "random")
    # maps far from the origin (coordinates 10^2 .. 10^5, tolerances small relative to them)
    far = ([gen_sparse_far(R.rng) for _ in range(R.n(40, 600))] + [gen_sparse_shifted(R.rng) for _ in range(R.n(10, 150))]
           + [gen_raster_strip(R.rng) for _ in range(R.n(4, 40))])
    run_batch(R, far, "far")
    # probes whose spacing is a 10^-6 .. 10^-8 fraction of their distance to the origin (the listed Qhull finding lives here;
    # any other failure on these inputs is a violation); oracle only
    run_batch(R, [witness2_case()] + [gen_sparse_illcond(R.rng) for _ in range(R.n(30, 400))], "ill-conditioned", with_model=False)
    if R.thorough:
        # small scope, exhaustive: every Bresenham line between pixels of a 7 x 6 window (incl. outside a 4 x 5 image)
        ex = [f"lineR x1={a} y1={b} x2={c} y2={d}" for a in range(-1, 6) for b in range(-1, 5) for c in range(-1, 6) for d in range(-1, 5)]
        from skimage import draw

        mo = core.run_model(MODE, ex)
        badl = 0
        for ln, m in zip(ex, mo):
            a, b, c, d = (int(w.split("=")[1]) for w in ln.split()[1:])
            rr, cc = draw.line(a, b, c, d)
            if " ".join(f"{r}:{c_}" for r, c_ in zip(rr.tolist(), cc.tolist())) != m:
                badl += 1
                R.disagree("raster-line-pixels", ln, "skimage.draw.line", m)
        R.evaluations += len(ex)
        R.exhaustive = False
        R.extra["exhaustive_subrun"] = {"cases": len(ex), "scope": "all pixel pairs of a 7x6 window: model Bresenham = skimage.draw.line",
                                        "mismatches": badl, "exhaustive": True}
    if R.broken:
        # failing-input search: a fresh, larger batch judged by the oracle only
        R.search_batches += 1
        more = ([gen_raster(R.rng) for _ in range(R.n(60, 300))] + [gen_sparse(R.rng) for _ in range(R.n(200, 1000))]
                + [gen_filter(R.rng) for _ in range(R.n(1000, 5000))]
                + [gen_sparse_far(R.rng) for _ in range(R.n(60, 300))] + [gen_raster_strip(R.rng) for _ in range(R.n(4, 20))])
        run_batch(R, more, "search", with_model=False)
    return {FINDING_ID: finding_predicate, FINDING2_ID: finding2_predicate}, {FINDING_ID: witness, FINDING2_ID: witness2}


def replay(data):
    core.use_repo()
    fl = data.get("failure") or data.get("first", {})
    case = fl.get("case")
    if not isinstance(case, dict) or "kind" not in case:
        print("replay: no case recorded (", data.get("no_longer_checks"), ")")
        return 1
    tmp = Tmp()
    try:
        r = RUNNERS[case["kind"]](case, tmp)
    finally:
        tmp.close()
    mo = core.run_model(MODE, r["lines"])
    bad = 0
    for (name, impl), m in zip(r["cmp"], mo):
        what = compare(None, case, name, impl, m)
        if what:
            bad += 1
            print(f"model != implementation ({what}):\n  impl : {impl}\n  model: {m}")
    for tag, msg, info in r["failures"]:
        known = finding_predicate({"tag": tag, **info})
        print(f"oracle [{tag}]{' (listed finding ' + FINDING_ID + ')' if known else ''}: {msg}")
        bad += 0 if known else 1
    if not bad:
        print("oracle: ok; model = implementation")
    return 1 if bad else 0

"""Validation of the translator `tools/gen_recv.py`: the *generated* Lean functions (driver mode `recvsrc`, built from the
committed `Gen/RecvSrc.lean`) against the real `printcore._readline`, `Device.has_flow_control` and `Device.is_connected`
(see `tie_state.py` for the role of this run).

`_readline` runs on a `printcore()` built without connecting: `printer` is a stub whose `readline()` returns the scripted
bytes / `READ_EOF` or raises `DeviceError`; event handlers and `recvcb` record their calls and raise when told to; `logError`
and `_logger` are replaced by recorders (the translation keeps them as events).  Compared: the value returned (or the class of
the exception that left the method), `online` / `loud` / `stop_read_thread`, the log (length, first and last entry; the
`deque(maxlen=…)` is the real one, sometimes pre-filled to its capacity), and the ordered trace of every call.  The bytes
cover ASCII reports, empty and one-character lines, multi-byte UTF-8 and what CPython's strict decoder rejects (truncated and
overlong forms, surrogates, code points above U+10FFFF, stray continuation bytes) - this also validates the prelude's
`decodeUtf8`.  `Device` objects are constructed without opening (serial names and URLs, every `force_dtr`), optionally
given a stub `_device` / a `_is_connected` flag / an unexpected `_type`; the fields are read off the real object."""
from __future__ import annotations

from . import core

ERR = {"UnicodeDecodeError", "DeviceError", "AttributeError", "TypeError"}


def show_text(s: str) -> str:
    return ".".join(str(ord(c)) for c in s) if s else "e"


REPORTS = [b"ok\n", b"ok T:20.1 /0.0 B:21.0 /0.0 @:0 B@:0\n", b"<Idle|MPos:0.000,0.000,0.000|FS:0,0>\r\n", b"start\n",
           b"Grbl 1.1h ['$' for help]\r\n", b"error:9\n", b"echo:busy: processing\n", b"T:199.9 E:0 W:?\n", b"X:1.00 Y:2.00 Z:3.00 E:0.00\n"]


def gen_bytes(rng) -> bytes:
    k = rng.random()
    if k < 0.30:
        return rng.choice(REPORTS)
    if k < 0.40:
        return rng.choice([b"", b"\n", b"\r", b"a", b"\r\n", b"ok", b"\xc3\xa9", b"\xe2\x82\xac", b"\xf0\x9f\x98\x80", b"\xc3\xa9\n"])
    if k < 0.60:        # valid text with multi-byte characters
        n = rng.randint(0, 6)
        cps = [rng.choice([rng.randint(0, 0x7F), rng.randint(0x80, 0x7FF), rng.randint(0x800, 0xD7FF), rng.randint(0xE000, 0xFFFF),
                           rng.randint(0x10000, 0x10FFFF), 0x7F, 0x80, 0x7FF, 0x800, 0xFFFF, 0x10000, 0x10FFFF, 0xD7FF, 0xE000])
               for _ in range(n)]
        return "".join(map(chr, cps)).encode("utf-8")
    if k < 0.80:        # boundary cases of the decoder
        return bytes(rng.choice([
            [0xC0, 0x80], [0xC1, 0xBF], [0xC2, 0x80], [0xC2], [0xC2, 0x41], [0xDF, 0xBF], [0xE0, 0x80, 0x80], [0xE0, 0x9F, 0xBF],
            [0xE0, 0xA0, 0x80], [0xED, 0x9F, 0xBF], [0xED, 0xA0, 0x80], [0xED, 0xBF, 0xBF], [0xEE, 0x80, 0x80], [0xEF, 0xBF, 0xBF],
            [0xE2, 0x82], [0xE2, 0x82, 0x41], [0xF0, 0x80, 0x80, 0x80], [0xF0, 0x8F, 0xBF, 0xBF], [0xF0, 0x90, 0x80, 0x80],
            [0xF4, 0x8F, 0xBF, 0xBF], [0xF4, 0x90, 0x80, 0x80], [0xF5, 0x80, 0x80, 0x80], [0xF0, 0x9F, 0x98], [0xF0, 0x9F, 0x98, 0x41],
            [0x80], [0xBF], [0xFF], [0xFE], [0xF8, 0x88, 0x80, 0x80, 0x80], [0x41, 0x80], [0x6F, 0x6B, 0xFF, 0x0A]])
            + ([] if rng.random() < 0.5 else [0x0A]))
    return bytes(rng.randint(0, 255) for _ in range(rng.randint(1, 5)))      # anything


def validate(rng, cases: int) -> dict:
    core.use_repo()
    from gscrib.printrun.printcore import printcore
    from gscrib.printrun import device
    from gscrib.printrun.device import Device, DeviceError

    lines, want = [], []
    outcomes: dict = {}

    def count(k):
        outcomes[k] = outcomes.get(k, 0) + 1

    # ---- printcore._readline
    for _ in range(cases * 3):
        trace: list = []

        class Handler:
            def __init__(self, ident, raises):
                self.ident, self.raises = ident, raises

            def on_recv(self, line):
                trace.append(f"r{self.ident}:{show_text(line)}")
                if self.raises:
                    raise RuntimeError("handler")

            def on_error(self, error):          # never reached: logError is replaced
                trace.append("?on_error")

        class Logger:
            def error(self, *a):
                trace.append("e")

            def info(self, *a):
                trace.append("i")

            def __getattr__(self, name):        # any other logging call is not part of the translation
                return lambda *a, **k: trace.append("?" + name)

        k = rng.random()
        rd = "E" if k < 0.08 else ("X" if k < 0.16 else "D")
        data = gen_bytes(rng) if rd == "D" else None

        class Port:
            def readline(self):
                if rd == "X":
                    raise DeviceError("scripted")
                return device.READ_EOF if rd == "E" else data

        p = printcore()
        p.printer = Port()
        p._logger = Logger()
        p.logError = lambda *a: trace.append("E")
        p.online, p.loud, p.stop_read_thread = rng.random() < 0.5, rng.random() < 0.4, rng.random() < 0.2
        log = [rng.choice(["ok\n", "x", "", "é\n", "wait"]) for _ in range(rng.choice([0, 0, 1, 2, 3]))]
        fill = max(0, p.log.maxlen - len(log) - rng.choice([0, 0, 1, 2])) if rng.random() < 0.04 else 0   # at / near capacity
        p.log.extend(["f"] * fill + log)
        assert len(p.log) == fill + len(log)
        hs = [(i + 1, rng.random() < 0.35) for i in range(rng.choice([0, 1, 1, 2, 3, 4]))]
        for i, r in hs:
            p.addEventHandler(Handler(i, r))
        cb = rng.choice([None, False, False, True])
        if cb is not None:
            def recvcb(line, _r=cb):
                trace.append("c" + show_text(line))
                if _r:
                    raise ValueError("recvcb")
            p.recvcb = recvcb
        before = (int(p.online), int(p.loud), int(p.stop_read_thread))
        try:
            ret = p._readline()
            r = "N" if ret is None else "L" + show_text(ret)
        except Exception as e:  # noqa: BLE001 - the class is the outcome
            r = "X" + (type(e).__name__ if type(e).__name__ in ERR else "Exception")
        count("eof" if rd == "E" else "device-error" if rd == "X" else
              "short" if r.startswith("L") and len(ret) <= 1 else "delivered" if r.startswith("L") else "rubbish" if r == "N" else "raised")
        if r.startswith("L") and len(ret) > 1 and not p.online:
            count("delivered-before-online")
        lg = list(p.log)
        want.append(f"{r} online={int(p.online)} loud={int(p.loud)} stop={int(p.stop_read_thread)} "
                    f"log={len(lg)};{show_text(lg[0]) if lg else '~'};{show_text(lg[-1]) if lg else '~'} trace={','.join(trace) if trace else '-'}")
        lines.append("rl %d %d %d %d %s %s %s %s" % (
            before[0], before[1], before[2], fill, ",".join(show_text(t) for t in log) if log else "-",
            ",".join(f"{i}:{int(x)}" for i, x in hs) if hs else "-", "N" if cb is None else str(int(cb)),
            rd + (data.hex() if rd == "D" else "")))

    # ---- Device.has_flow_control / is_connected
    class Dev:
        def __init__(self, is_open):
            self.is_open = is_open

    for _ in range(cases * 2):
        port = rng.choice([None, "/dev/ttyUSB0", "/dev/ttyACM0", "COM3", "192.168.0.10:80", "localhost:8080", "printer.local:23",
                           "host:99999", "a:b", "/dev/tty:1"])
        dtr = rng.choice([None, True, False, 1, 0])
        d = Device(port, force_dtr=dtr) if rng.random() < 0.8 else Device(port, 115200, dtr, rng.random() < 0.5)
        if rng.random() < 0.6:
            d._device = Dev(rng.random() < 0.5)
        if rng.random() < 0.5:
            d._is_connected = True
        if rng.random() < 0.1:
            d._type = rng.choice(["other", "Socket", "serial ", None])
        res = []
        for prop in ("has_flow_control", "is_connected"):
            try:
                v = getattr(d, prop)
                res.append("1" if v is True else "0" if v is False else f"?{v!r}")
            except Exception as e:  # noqa: BLE001
                res.append("X" + (type(e).__name__ if type(e).__name__ in ERR else "Exception"))
        count(f"device-{d._type}")
        if d._type == "serial" and d.force_dtr:
            count("serial-dtr-on")
        ty = "N" if d._type is None else d._type.replace(" ", "_")
        lines.append(f"dv {ty} {'N' if d._device is None else int(d._device.is_open)} {int(d._is_connected)} "
                     f"{'N' if d.force_dtr is None else int(bool(d.force_dtr))}")
        want.append(f"fc={res[0]} ic={res[1]}")

    got = core.run_model("recvsrc", lines)
    for i, (ln, w, g) in enumerate(zip(lines, want, got)):
        if w != g:
            return {"cases": cases, "calls": len(lines), "outcomes": outcomes,
                    "disagreement": {"ops": [ln], "step": 0, "impl": w, "model": g}}
    return {"cases": cases, "calls": len(lines), "outcomes": outcomes, "disagreement": None}

"""Shared machinery of the gscrib verification checks (see DESIGN.md sections 2, 4, 5).

Every registered command is `run.py check <ID> --tier quick|thorough`.  A check

  1. builds the Lean project (`lake build`) and audits the property's theorems
     (`#print axioms`, forbidden-token grep)            -> proof obligations
  2. runs the executable Lean model (line-protocol driver) and the real gscrib code
     (imported from $GSCRIB_REPO, default /repo) on the same generated cases
                                                         -> correspondence
  3. evaluates the property's own oracle on what the implementation did
                                                         -> failing-input search
  4. decides (section 5), writes evidence/<ID>.json, prints VIOLATION / KNOWN-FINDING lines.

Exit codes: 0 held, 1 violation, 2 infrastructure problem (never reported as a violation).
"""
from __future__ import annotations

import fcntl
import hashlib
import json
import os
import random
import re
import shutil
import subprocess
import sys
import tempfile
import time
from collections import Counter
from pathlib import Path

VERIF = Path(__file__).resolve().parent.parent
LEAN = VERIF / "lean"
REPO = Path(os.environ.get("GSCRIB_REPO", "/repo")).resolve()
EVIDENCE = VERIF / "evidence"
REPLAYS = VERIF / "replays"
FINDINGS_FILE = VERIF / "known_findings.json"
ALLOWED_AXIOMS = {"propext", "Classical.choice", "Quot.sound"}
FORBIDDEN = re.compile(
    r"\bsorry\b|\badmit\b|^\s*axiom\s|native_decide|bv_decide|implemented_by|\bunsafe\s|maxHeartbeats\s+0\b",
    re.M,
)


class Infra(Exception):
    """Infrastructure problem: exit 2, never a violation."""


def use_repo():
    """Make `import gscrib` resolve to the tree under test (working tree of /repo by default)."""
    p = str(REPO)
    if p in sys.path:
        sys.path.remove(p)
    sys.path.insert(0, p)
    import gscrib  # noqa

    got = Path(gscrib.__file__).resolve()
    if REPO not in got.parents:
        raise Infra(f"gscrib imported from {got}, expected under {REPO}")


# --------------------------------------------------------------------------- Lean side


def _strip_lean_comments(src: str) -> str:
    out, i, depth, n = [], 0, 0, len(src)
    while i < n:
        if src.startswith("/-", i):
            depth += 1
            i += 2
        elif depth and src.startswith("-/", i):
            depth -= 1
            i += 2
        elif depth:
            if src[i] == "\n":
                out.append("\n")
            i += 1
        elif src.startswith("--", i):
            while i < n and src[i] != "\n":
                i += 1
        else:
            out.append(src[i])
            i += 1
    return "".join(out)


def lake_build(clean: bool = False, target: str | None = None) -> tuple[bool, str, float]:
    t0 = time.time()
    lock = open(LEAN / ".build.lock", "w")
    fcntl.flock(lock, fcntl.LOCK_EX)
    try:
        if clean:
            subprocess.run(["lake", "clean"], cwd=LEAN, capture_output=True, text=True)
        p = subprocess.run(["lake", "build"] + ([target] if target else []), cwd=LEAN, capture_output=True, text=True)
        return p.returncode == 0, (p.stdout + p.stderr)[-6000:], time.time() - t0
    finally:
        fcntl.flock(lock, fcntl.LOCK_UN)
        lock.close()


# --------------------------------------------------------------------------- models *generated* from the source
# Parts of the model are translated from the source text on every run (tools/gen_*.py) and a hand-written tie file
# proves that the hand-written model equals the generated definitions.  When the generated text equals the committed
# copy the tie is the library's own (already built, audited below); when it differs (the source changed), generator
# output and tie are compiled in a private directory - never into the shared tree, so concurrent runs against
# different trees cannot disturb each other.
GEN_TIES = {
    "table": {
        "props": {"C02", "C06", "C07"},
        "gen": "gen_code_table.py", "gen_file": "GscribModel/Gen/CodeTable.lean", "tie": "Tables",
        "what": "the model's instruction codes no longer equal the table translated from gscrib/codes/gcode_mappings.py",
    },
    "point": {
        "props": {"C01", "C03", "C04", "C11"},
        "gen": "gen_point.py", "gen_file": "GscribModel/Gen/PointSrc.lean", "tie": "PointTie", "validate": "harness.tie_point",
        "what": "the models' point operations no longer equal the Point methods translated from gscrib/geometry/point.py",
    },
    "builder": {
        "props": {"C02", "C03", "C05", "C06", "C07"},
        "gen": "gen_builder.py", "gen_file": "GscribModel/Gen/BuilderSrc.lean", "tie": "BuilderTie",
        "gens": [("gen_code_table.py", "GscribModel/Gen/CodeTable.lean"), ("gen_state.py", "GscribModel/Gen/StateSrc.lean"),
                 ("gen_builder.py", "GscribModel/Gen/BuilderSrc.lean")],
        "ties": ["Tables", "StateTie", "BuilderTie"],
        "what": "the builder model's commands no longer equal the GCodeBuilder methods translated from gscrib/gcode_builder.py",
    },
    "motion": {
        "props": {"C01", "C02", "C03", "C04", "C05", "C06", "C07", "C11", "C20"},
        "gen": "gen_motion.py", "gen_file": "GscribModel/Gen/MotionSrc.lean",
        "gens": [("gen_code_table.py", "GscribModel/Gen/CodeTable.lean"), ("gen_state.py", "GscribModel/Gen/StateSrc.lean"),
                 ("gen_point.py", "GscribModel/Gen/PointSrc.lean"), ("gen_builder.py", "GscribModel/Gen/BuilderSrc.lean"),
                 ("gen_motion.py", "GscribModel/Gen/MotionSrc.lean")],
        "ties": ["Tables", "StateTie", "PointTie", "BuilderTie", "MotionTie", "SourceTie"],
        "audit": ["MotionTie", "SourceTie"], "tie": "SourceTie",
        "what": "the builder model's motion commands no longer equal the GCodeBuilder/GCodeCore methods translated from "
                "gscrib/gcode_builder.py and gscrib/gcode_core.py",
    },
    "socket": {
        "props": {"C17"},
        "gen": "gen_socket.py", "gen_file": "GscribModel/Gen/SocketSrc.lean", "tie": "SocketTie", "validate": "harness.tie_socket",
        "what": "the socket model no longer equals Device._readline_buf/_readline_socket translated from gscrib/printrun/device.py",
    },
    "report": {
        "props": {"C18"},
        "gen": "gen_report.py", "gen_file": "GscribModel/Gen/ReportSrc.lean", "tie": "ReportTie", "validate": "harness.tie_report",
        "what": "the report model no longer equals the PrintrunWriter methods translated from gscrib/writers/printrun_writer.py",
    },
    "bounds": {
        "props": {"C03", "C05"},
        "gen": "gen_bounds.py", "gen_file": "GscribModel/Gen/BoundsSrc.lean", "tie": "BoundsTie", "validate": "harness.tie_bounds",
        "gens": [("gen_point.py", "GscribModel/Gen/PointSrc.lean"), ("gen_bounds.py", "GscribModel/Gen/BoundsSrc.lean")],
        "ties": ["PointTie", "BoundsTie"],
        "what": "the bounds table of the builder model no longer equals BoundManager translated from gscrib/geometry/bounds.py",
    },
    "hook": {
        "props": {"C20"},
        "gen": "gen_hook.py", "gen_file": "GscribModel/Gen/HookSrc.lean", "tie": "HookTie", "validate": "harness.tie_hook",
        "gens": [("gen_state.py", "GscribModel/Gen/StateSrc.lean"), ("gen_hook.py", "GscribModel/Gen/HookSrc.lean")],
        "ties": ["StateTie", "HookTie"],
        "what": "the model's extrusion hook no longer equals extrusion_hook translated from gscrib/hooks/extrusion_hook.py",
    },
    "writers": {
        "props": {"C14"},
        "gen": "gen_writers.py", "gen_file": "GscribModel/Gen/WritersSrc.lean", "tie": "WritersTie", "validate": "harness.tie_writers",
        "what": "the writers model no longer equals the GCodeCore writer-list methods and the FileWriter class translated from "
                "gscrib/gcode_core.py and gscrib/writers/file_writer.py",
    },
    "tracer": {
        "props": {"C10", "C11", "C12"},
        "gen": "gen_tracer.py", "gen_file": "GscribModel/Gen/TracerSrc.lean", "tie": "TracerTie", "validate": "harness.tie_tracer",
        "what": "the tracer model no longer equals the functions translated from gscrib/geometry/tracer.py, "
                "gscrib/enums/types/direction.py and gscrib/gcode_core.py",
    },
    "format": {
        "props": {"C08", "C09"},
        "gen": "gen_format.py", "gen_file": "GscribModel/Gen/FormatSrc.lean", "tie": "FormatTie", "validate": "harness.tie_format",
        "what": "the formatter model no longer equals DefaultFormatter translated from gscrib/formatters/default_formatter.py",
    },
    "xform": {
        "props": {"C04", "C13"},
        "gen": "gen_xform.py", "gen_file": "GscribModel/Gen/XformSrc.lean", "tie": "XformTie", "validate": "harness.tie_xform",
        "what": "the transform model no longer equals Transform / CoordinateTransformer translated from gscrib/geometry/transform.py, "
                "gscrib/geometry/transformer.py and the transform context managers of gscrib/gcode_core.py",
    },
    "height": {
        "props": {"C19"},
        "gen": "gen_height.py", "gen_file": "GscribModel/Gen/HeightSrc.lean", "tie": "HeightTie", "validate": "harness.tie_height",
        "what": "the heightmap model no longer equals the raster / sparse / flat heightmap classes translated from gscrib/heightmaps/",
    },
    "sender": {
        "props": {"C15"},
        "gen": "gen_sender.py", "gen_file": "GscribModel/Gen/SenderSrc.lean", "tie": "SenderTie", "validate": "harness.tie_sender",
        "what": "the sender model's actions no longer equal the printcore methods translated from gscrib/printrun/printcore.py",
    },
    "recv": {
        "props": {"C15", "C18"},
        "gen": "gen_recv.py", "gen_file": "GscribModel/Gen/RecvSrc.lean", "tie": "RecvTie", "validate": "harness.tie_recv",
        "gens": [("gen_sender.py", "GscribModel/Gen/SenderSrc.lean"), ("gen_recv.py", "GscribModel/Gen/RecvSrc.lean")],
        "ties": ["SenderTie", "RecvTie"],
        "what": "the reception step no longer equals printcore._readline / Device.has_flow_control / Device.is_connected translated "
                "from gscrib/printrun/printcore.py and device.py",
    },
    "gcoder": {
        "props": {"C15", "C01"},
        "gen": "gen_gcoder.py", "gen_file": "GscribModel/Gen/GcoderSrc.lean", "tie": "GcoderTie", "validate": "harness.tie_gcoder",
        "gens": [("gen_sender.py", "GscribModel/Gen/SenderSrc.lean"), ("gen_gcoder.py", "GscribModel/Gen/GcoderSrc.lean")],
        "ties": ["GcoderTie"],
        "what": "the job indexing the sender relies on (k-th line = all_layers[layer_idxs[k]][line_idxs[k]]) no longer follows from the "
                "bookkeeping of GCode._preprocess / append / idxs translated from gscrib/printrun/gcoder.py",
    },
    "dwrite": {
        "props": {"C16"},
        "gen": "gen_dwrite.py", "gen_file": "GscribModel/Gen/DirectWriteSrc.lean", "tie": "DirectWriteTie", "validate": "harness.tie_dwrite",
        "gens": [("gen_report.py", "GscribModel/Gen/ReportSrc.lean"), ("gen_dwrite.py", "GscribModel/Gen/DirectWriteSrc.lean")],
        "ties": ["ReportTie", "DirectWriteTie"],
        "what": "the caller / print-thread / callback actions of the direct-write model no longer equal the PrintrunWriter and printcore "
                "methods translated from gscrib/writers/printrun_writer.py and gscrib/printrun/printcore.py",
    },
    "state": {
        "props": {"C02", "C03", "C05", "C06", "C07"},
        "gen": "gen_state.py", "gen_file": "GscribModel/Gen/StateSrc.lean", "tie": "StateTie", "validate": "harness.tie_state",
        "what": "the builder model's state transitions no longer equal the GState methods translated from gscrib/gcode_state.py",
    },
}


def _print_axioms(module: str, names: list[str], env=None, cwd=None) -> dict:
    tmp = Path(tempfile.mkdtemp(prefix="gscrib_audit_")) / "audit.lean"
    tmp.write_text(f"import {module}\n" + "".join(f"#print axioms {n}\n" for n in names))
    try:
        cmd = ["lean", str(tmp)] if env else ["lake", "env", "lean", str(tmp)]
        p = subprocess.run(cmd, cwd=(tmp.parent if env else (cwd or LEAN)), capture_output=True, text=True, env=env)
    finally:
        shutil.rmtree(tmp.parent, ignore_errors=True)
    flat = re.sub(r"\s+", " ", p.stdout + p.stderr)
    res = {}
    for n in names:
        m = re.search(r"'" + re.escape(n) + r"' depends on axioms: \[([^\]]*)\]", flat)
        if m:
            res[n] = [a.strip() for a in m.group(1).split(",") if a.strip()]
        elif re.search(r"'" + re.escape(n) + r"' does not depend on any axioms", flat):
            res[n] = []
        else:
            res[n] = None
    return res


def check_generated_tie(key: str) -> dict:
    """-> {ok, log, theorems: {name: axioms|None}, regenerated: bool, forbidden: [...]}"""
    t = GEN_TIES[key]
    gens = t.get("gens") or [(t["gen"], t["gen_file"])]
    ties = t.get("ties") or [t["tie"]]          # tie modules to (re)compile, in dependency order; the last one is audited
    names, forbidden = [], []
    for mod in t.get("audit") or [t["tie"]]:      # the tie theorems proper, `<Module>_*` (helper lemmas live in a namespace)
        tie_src = LEAN / "GscribModel" / "Props" / f"{mod}.lean"
        names += [n for n in re.findall(r"^theorem\s+([A-Za-z_][\w.']*)", _strip_lean_comments(tie_src.read_text()), re.M)
                  if n.startswith(mod + "_")]
        forbidden += [f"{tie_src.name}: {m.group(0).strip()}" for m in FORBIDDEN.finditer(_strip_lean_comments(tie_src.read_text()))]
    texts, same = [], os.environ.get("VERIF_FORCE_PRIVATE_TIE") != "1"
    for script, gen_file in gens:
        g = subprocess.run([sys.executable, str(VERIF / "tools" / script), str(REPO), "--stdout"], capture_output=True, text=True)
        if g.returncode != 0:
            return {"ok": False, "log": f"translator {script} refused the source: " + (g.stdout + g.stderr)[-1500:], "theorems": {},
                    "regenerated": True, "forbidden": forbidden}
        texts.append((gen_file, g.stdout))
        committed = LEAN / gen_file
        same = same and committed.exists() and committed.read_text() == g.stdout
    if same:
        ok, log, _ = lake_build(False, target=f"GscribModel.Props.{t['tie']}")
        th = _print_axioms(f"GscribModel.Props.{t['tie']}", names) if ok else {}
        return {"ok": ok, "log": log[-1500:], "theorems": th, "regenerated": False, "forbidden": forbidden}
    # the source differs from the committed translation: compile translations and ties privately
    ok0, log0, _ = lake_build(False)       # the library the generated files import
    tmp = Path(tempfile.mkdtemp(prefix="gscrib_gen_"))
    try:
        out = tmp / "out"
        out.mkdir()
        # a package cannot be split over two search-path entries: mirror the built library by symbolic links, then
        # replace the modules compiled here
        subprocess.run(["cp", "-rs", str(LEAN / ".lake" / "build" / "lib" / "lean" / "GscribModel"), str(out / "GscribModel")], check=True)
        env = dict(os.environ, LEAN_PATH=str(out))
        todo = []
        for gen_file, text in texts:
            src = tmp / gen_file
            src.parent.mkdir(parents=True, exist_ok=True)
            src.write_text(text)
            todo.append((gen_file[:-5].replace("/", "."), src))
        for tie in ties:
            cp = tmp / "GscribModel" / "Props" / f"{tie}.lean"
            cp.parent.mkdir(parents=True, exist_ok=True)
            shutil.copy(LEAN / "GscribModel" / "Props" / f"{tie}.lean", cp)
            todo.append((f"GscribModel.Props.{tie}", cp))
        log, ok = "", ok0
        for mod, path in todo:
            if not ok:
                break
            o = out / (mod.replace(".", "/") + ".olean")
            o.parent.mkdir(parents=True, exist_ok=True)
            for ext in (".olean", ".ilean", ".olean.server", ".olean.private"):
                (out / (mod.replace(".", "/") + ext)).unlink(missing_ok=True)
            p = subprocess.run(["lean", str(path), "-o", str(o)], cwd=tmp, capture_output=True, text=True, env=env)
            log += (p.stdout + p.stderr)
            ok = p.returncode == 0 and o.exists()
        th = _print_axioms(f"GscribModel.Props.{t['tie']}", names, env=env) if ok else {}
        errs = "\n".join(l for l in log.splitlines() if "error" in l)[:1500]
        return {"ok": ok, "log": (errs or log[-1500:]), "theorems": th, "regenerated": True, "forbidden": forbidden}
    finally:
        shutil.rmtree(tmp, ignore_errors=True)


def props_file(prop: str) -> Path:
    return LEAN / "GscribModel" / "Props" / f"{prop}.lean"


def theorem_names(prop: str) -> list[str]:
    src = _strip_lean_comments(props_file(prop).read_text())
    return re.findall(r"^theorem\s+([A-Za-z_][\w.']*)", src, re.M)


def imported_sources(prop: str) -> list[Path]:
    """Transitive closure of GscribModel.* imports of Props/<prop>.lean."""
    seen, todo = [], [props_file(prop)]
    while todo:
        f = todo.pop()
        if f in seen or not f.exists():
            continue
        seen.append(f)
        for m in re.findall(r"^import\s+(GscribModel[\w.]*)", f.read_text(), re.M):
            todo.append(LEAN / (m.replace(".", "/") + ".lean"))
    return seen


def audit(prop: str) -> dict:
    """Grep + `#print axioms` for every theorem of Props/<prop>.lean."""
    names = theorem_names(prop)
    res = {"theorems": {}, "forbidden": [], "files": []}
    for f in imported_sources(prop):
        res["files"].append(str(f.relative_to(LEAN)))
        for m in FORBIDDEN.finditer(_strip_lean_comments(f.read_text())):
            res["forbidden"].append(f"{f.name}: {m.group(0).strip()}")
    tmp = LEAN / ".lake" / f"audit_{prop}_{os.getpid()}.lean"
    tmp.parent.mkdir(exist_ok=True)
    tmp.write_text(
        f"import GscribModel.Props.{prop}\n" + "".join(f"#print axioms {n}\n" for n in names)
    )
    try:
        p = subprocess.run(["lake", "env", "lean", str(tmp)], cwd=LEAN, capture_output=True, text=True)
    finally:
        tmp.unlink(missing_ok=True)
    out = p.stdout + p.stderr
    flat = re.sub(r"\s+", " ", out)
    for n in names:
        m = re.search(r"'" + re.escape(n) + r"' depends on axioms: \[([^\]]*)\]", flat)
        if m:
            ax = [a.strip() for a in m.group(1).split(",") if a.strip()]
        elif re.search(r"'" + re.escape(n) + r"' does not depend on any axioms", flat):
            ax = []
        else:
            ax = None
        res["theorems"][n] = ax
    res["raw_tail"] = out[-1500:] if p.returncode != 0 else ""
    return res


_DRIVER_BIN = LEAN / ".lake" / "build" / "bin" / "driver"


def run_model(mode: str, lines: list[str], timeout: float = 1800) -> list[str]:
    """Feed `lines` to the Lean driver in `mode`; one output record per input line."""
    if not lines:
        return []
    for ln in lines:
        if "\n" in ln:
            raise Infra("newline inside a protocol line")
    data = "\n".join(lines) + "\n"
    dev = LEAN / f"dev_{mode}.lean"
    if dev.exists():
        # a mode under development: standalone `def main` run by the interpreter
        cmd = ["lake", "env", "lean", "--run", dev.name]
    elif _DRIVER_BIN.exists():
        cmd = [str(_DRIVER_BIN), mode]
    else:
        cmd = ["lake", "env", "lean", "--run", "Driver.lean", mode]
    p = subprocess.run(cmd, cwd=LEAN, input=data, capture_output=True, text=True, timeout=timeout)
    if p.returncode != 0:
        raise Infra(f"model driver failed ({mode}): {p.stderr[-2000:]}")
    out = p.stdout.split("\n")
    if out and out[-1] == "":
        out.pop()
    if len(out) != len(lines):
        raise Infra(f"model driver ({mode}) returned {len(out)} records for {len(lines)} lines: {p.stderr[-500:]}")
    bad = [i for i, o in enumerate(out) if o.startswith("bad-op")]
    if bad:
        raise Infra(f"model driver ({mode}) rejected line {bad[0]}: {lines[bad[0]]!r} -> {out[bad[0]]!r}")
    return out


# --------------------------------------------------------------------------- findings


def load_findings(prop: str) -> list[dict]:
    if not FINDINGS_FILE.exists():
        return []
    data = json.loads(FINDINGS_FILE.read_text())
    return [f for f in data.get("findings", []) if f.get("property") == prop]


# --------------------------------------------------------------------------- a run


def stable_hash(obj) -> str:
    return hashlib.sha1(json.dumps(obj, sort_keys=True, default=str).encode()).hexdigest()[:16]


class Run:
    def __init__(self, prop: str, tier: str, seed: int):
        self.prop, self.tier, self.seed = prop, tier, seed
        self.rng = random.Random(seed * 1000003 + int(hashlib.sha1(prop.encode()).hexdigest()[:6], 16))
        self.t0 = time.time()
        self.evaluations = 0
        self.nontrivial: set[str] = set()
        self.samples: list = []
        self.dist: Counter = Counter()
        self.notes: list[str] = []
        self.rule = ""
        self.exhaustive = None
        self.extra: dict = {}
        self.traces_validated = 0
        self.broken: list[dict] = []  # broken obligations / correspondences
        self.failures: list[dict] = []  # oracle failures on the implementation
        self.known_lines: list[str] = []
        self.trusted: list[str] = []
        self.assumptions: list[str] = []
        self.obligations = 0
        self.discharged = 0
        self.audit_info: dict = {}
        self.checker_cmd = ""
        self.search_batches = 0
        self.scratch = False

    # ---- sizes
    def n(self, quick: int, thorough: int) -> int:
        scale = float(os.environ.get("VERIF_SCALE", "1")) * getattr(self, "boost", 1)
        return max(1, int((quick if self.tier == "quick" else thorough) * scale))

    @property
    def thorough(self) -> bool:
        return self.tier == "thorough"

    # ---- bookkeeping
    def case(self, case, nontrivial: bool = True, validated: bool = True):
        self.evaluations += 1
        if nontrivial:
            self.nontrivial.add(stable_hash(case))
        if validated:
            self.traces_validated += 1
        if len(self.samples) < 3 and nontrivial:
            self.samples.append(case)

    def count(self, *keys):
        for k in keys:
            self.dist[k] += 1

    def disagree(self, what: str, case, impl, model, step=None):
        """Correspondence broken: model and implementation differ on `case`."""
        if len([b for b in self.broken if b["kind"] == "correspondence"]) < 25:
            self.broken.append(
                {"kind": "correspondence", "name": what, "case": case, "impl": impl, "model": model, "step": step}
            )
        self.count("disagreement:" + what)

    def obligation_broken(self, name: str, why: str):
        self.broken.append({"kind": "obligation", "name": name, "why": why})

    def fail(self, case, message: str, tag: str = "", **info):
        """The property's oracle fails on the implementation's observable behaviour."""
        if len(self.failures) < 200:
            self.failures.append({"case": case, "message": message, "tag": tag, **info})
        self.count("oracle-fail:" + (tag or "untagged"))

    # ---- Lean
    def prove(self, clean: bool = False):
        ok, log, secs = lake_build(clean)
        self.extra["lake_build_s"] = round(secs, 1)
        self.checker_cmd = (
            f"cd lean && lake build && lake env lean <#print axioms for every theorem of Props/{self.prop}.lean>"
        )
        names = []
        try:
            names = theorem_names(self.prop)
        except FileNotFoundError:
            pass
        self.obligations = len(names)
        if not ok:
            self.obligation_broken("lake build", log[-1500:])
            self.audit_info = {"build": "failed"}
            return
        a = audit(self.prop)
        self.audit_info = {"axioms": a["theorems"], "files": a["files"]}
        if a["forbidden"]:
            self.obligation_broken("forbidden-token", "; ".join(a["forbidden"][:10]))
        for n, ax in a["theorems"].items():
            if ax is None:
                self.obligation_broken(n, "theorem not found by #print axioms: " + a["raw_tail"][-400:])
            elif not set(ax) <= ALLOWED_AXIOMS:
                self.obligation_broken(n, f"axioms {ax}")
            else:
                self.discharged += 1
        if a["forbidden"]:
            self.discharged = 0
        if self.thorough:
            mods = [
                str(f.relative_to(LEAN))[:-5].replace("/", ".")
                for f in imported_sources(self.prop)
            ]
            t = time.time()
            p = subprocess.run(["lake", "env", "leanchecker", *mods], cwd=LEAN, capture_output=True, text=True)
            self.extra["leanchecker"] = {"modules": mods, "ok": p.returncode == 0, "s": round(time.time() - t, 1)}
            if p.returncode != 0:
                self.obligation_broken("leanchecker", (p.stdout + p.stderr)[-800:])

    def check_ties(self):
        """obligations of the translator ties that serve this property (run even with --no-proof: they are what turns a
        change of the translated source into a broken obligation, deterministically)"""
        for key, t in GEN_TIES.items():
            if self.prop not in t["props"]:
                continue
            r = check_generated_tie(key)
            info = {"translator": "tools/" + t["gen"], "regenerated_differs_from_committed": r["regenerated"], "axioms": r["theorems"]}
            self.audit_info.setdefault("generated_ties", {})[key] = info
            if not r["ok"]:
                self.obligations += 1
                self.obligation_broken(f"{t['tie']} (translator tie)", t["what"] + ": " + r["log"][-1200:])
                continue
            for n, ax in r["theorems"].items():
                self.obligations += 1
                if ax is None or not set(ax) <= ALLOWED_AXIOMS or r["forbidden"]:
                    self.obligation_broken(n, f"axioms {ax} {r['forbidden'][:3]}")
                else:
                    self.discharged += 1
            # the translator itself: generated functions against the real class (only meaningful for the committed
            # translation, which is what the compiled driver contains)
            if t.get("validate") and not r["regenerated"]:
                import importlib
                v = importlib.import_module(t["validate"]).validate(random.Random(self.seed * 7919 + 13), self.n(300, 4000))
                info["translator_validation"] = {k: v[k] for k in ("cases", "calls", "outcomes")}
                if v["disagreement"]:
                    self.disagree(f"translated-{key}-vs-source", {"ops": v["disagreement"]["ops"]}, v["disagreement"]["impl"],
                                  v["disagreement"]["model"], step=v["disagreement"]["step"])
            elif t.get("validate"):
                info["translator_validation"] = "skipped: the tree under test translates differently from the committed copy"

    # ---- decision
    def finish(self, finding_predicates: dict | None = None, witnesses: dict | None = None) -> int:
        """finding_predicates: id -> fn(failure) -> bool ; witnesses: id -> fn() -> (still_fails, text)."""
        finding_predicates = finding_predicates or {}
        witnesses = witnesses or {}
        listed = [f for f in load_findings(self.prop) if f.get("status") == "finding"]
        unlisted = []
        absorbed = Counter()
        for fl in self.failures:
            hit = None
            for f in listed:
                pred = finding_predicates.get(f["id"])
                if pred and pred(fl):
                    hit = f["id"]
                    break
            if hit:
                absorbed[hit] += 1
            else:
                unlisted.append(fl)
        lines = []
        for f in listed:
            still = None
            w = witnesses.get(f["id"])
            if w:
                try:
                    still, text = w()
                except Infra:
                    raise
                except Exception as e:  # a witness that crashes is an infrastructure problem
                    raise Infra(f"witness {f['id']} crashed: {e!r}")
            else:
                text = f.get("summary", "")
            if still or (still is None and absorbed[f["id"]]):
                lines.append(f"KNOWN-FINDING: property={self.prop} {f['id']}: {f.get('summary', text)}")
            self.extra.setdefault("known_findings", {})[f["id"]] = {
                "witness_still_fails": still,
                "cases_absorbed": absorbed[f["id"]],
            }
        violations = 0
        REPLAYS.mkdir(exist_ok=True)
        out_lines = []
        if unlisted:
            violations = len(unlisted)
            fl = unlisted[0]
            path = REPLAYS / f"{self.prop}-{self.seed}-{stable_hash(fl['case'])}.json"
            path.write_text(
                json.dumps(
                    {
                        "property": self.prop,
                        "tier": self.tier,
                        "seed": self.seed,
                        "kind": "failing-input",
                        "failure": fl,
                        "other_failures": len(unlisted) - 1,
                        "broken": self.broken[:5],
                    },
                    indent=1,
                    default=str,
                )
            )
            out_lines.append(f"VIOLATION property={self.prop} replay={path}")
        elif self.broken:
            violations = 1
            b = self.broken[0]
            path = REPLAYS / f"{self.prop}-{self.seed}-broken-{stable_hash(b)}.json"
            path.write_text(
                json.dumps(
                    {
                        "property": self.prop,
                        "tier": self.tier,
                        "seed": self.seed,
                        "kind": "no-failing-input-found",
                        "no_longer_checks": [f"{x['kind']}:{x['name']}" for x in self.broken],
                        "first": b,
                        "search": f"oracle evaluated on {self.evaluations} cases incl. {self.search_batches} extra search batches; no failing input",
                    },
                    indent=1,
                    default=str,
                )
            )
            out_lines.append(f"VIOLATION property={self.prop} replay={path} no-failing-input-found")
        for ln in lines + out_lines:
            print(ln)
        self.write_evidence(violations)
        sys.stdout.flush()
        return 1 if violations else 0

    def write_evidence(self, violations: int):
        EVIDENCE.mkdir(exist_ok=True)
        cov = {
            "obligations": self.obligations,
            "discharged": self.discharged,
            "checker_cmd": self.checker_cmd or "lake build",
            "trusted_base": self.trusted
            or [
                "Lean 4.33 kernel; axioms propext, Classical.choice, Quot.sound only (audited per theorem)",
                "hand-written Lean model tied to /repo by this run's correspondence (differential) check",
                "Python harness: generators, adapters, canonicalisation, oracle",
            ],
            "evaluations": self.evaluations,
            "distinct_nontrivial": len(self.nontrivial),
            "rule": self.rule,
            "samples": self.samples[:3] or ["(no case run)"],
            "traces_validated_against_impl": self.traces_validated,
            "distribution": dict(sorted(self.dist.items())),
            "theorem_axioms": self.audit_info.get("axioms", {}),
            "generated_ties": self.audit_info.get("generated_ties", {}),
            "lean_files": self.audit_info.get("files", []),
            "broken": [f"{b['kind']}:{b['name']}" for b in self.broken],
            "oracle_failures": len(self.failures),
            "notes": self.notes,
        }
        if self.exhaustive is not None:
            cov["exhaustive"] = self.exhaustive
        cov.update(self.extra)
        ev = {
            "property_id": self.prop,
            "tier": self.tier,
            "seed": self.seed,
            "level": "proof",
            "coverage": cov,
            "assumptions": self.assumptions,
            "wall_s": round(time.time() - self.t0, 2),
            "violations": violations,
            "repo": str(REPO),
        }
        target = EVIDENCE
        if self.scratch or REPO != Path("/repo"):
            # development / mutant runs never overwrite the registered evidence
            target = REPLAYS / "scratch-evidence"
            target.mkdir(parents=True, exist_ok=True)
        (target / f"{self.prop}.json").write_text(json.dumps(ev, indent=1, default=str) + "\n")


ANCHOR_HASHES = VERIF / "harness" / "anchor_hashes.json"


def anchor_files(prop: str) -> list[str]:
    for ln in (VERIF / "properties.jsonl").read_text().splitlines():
        if ln.strip():
            d = json.loads(ln)
            if d["id"] == prop:
                return d["anchors"]["files"]
    return []


def source_fingerprints(prop: str) -> dict:
    """hash of the AST (comments/formatting ignored) of each anchor file of the property in the tree under test"""
    import ast
    out = {}
    for rel in anchor_files(prop):
        try:
            out[rel] = hashlib.sha1(ast.dump(ast.parse((REPO / rel).read_text())).encode()).hexdigest()[:16]
        except Exception as e:  # noqa
            out[rel] = "unreadable:" + type(e).__name__
    return out


def note_source_changes(R) -> None:
    """If a modelled source file differs from the version the models were last validated against, explore deeper
    (3x the cases).  Never an alarm by itself: the correspondence decides."""
    known = json.loads(ANCHOR_HASHES.read_text()).get(R.prop, {}) if ANCHOR_HASHES.exists() else {}
    now = source_fingerprints(R.prop)
    changed = sorted(f for f, h in now.items() if known.get(f) != h)
    R.extra["anchor_sources"] = {"changed_since_last_validation": changed, "files": len(now)}
    if changed and known:
        R.boost = 3
        R.notes.append("modelled source changed since the models were last validated: " + ", ".join(changed) + " -> 3x cases")


def coverage_report(cov, prop: str) -> dict:
    """statements of the property's anchor files (properties.jsonl) executed by this run"""
    anchors = []
    for ln in (VERIF / "properties.jsonl").read_text().splitlines():
        if ln.strip():
            d = json.loads(ln)
            if d["id"] == prop:
                anchors = d["anchors"]["files"]
    out = {}
    for rel in anchors:
        f = REPO / rel
        try:
            _, stmts, _, missing, fmt = cov.analysis2(str(f))
        except Exception as e:  # noqa
            out[rel] = {"error": repr(e)[:80]}
            continue
        out[rel] = {"statements": len(stmts), "executed": len(stmts) - len(missing), "missing_lines": fmt}
    return out


def shrink_list(items: list, still_bad, max_rounds: int = 200) -> list:
    """Greedy delta-debugging: remove chunks while `still_bad(items)` stays true."""
    cur = list(items)
    chunk = max(1, len(cur) // 2)
    rounds = 0
    while chunk >= 1 and rounds < max_rounds:
        i, changed = 0, False
        while i < len(cur) and rounds < max_rounds:
            cand = cur[:i] + cur[i + chunk :]
            rounds += 1
            if cand != cur and still_bad(cand):
                cur, changed = cand, True
            else:
                i += chunk
        if not changed:
            chunk //= 2
    return cur

"""Shared machinery of the C10 / C12 checks (gscrib/geometry/tracer.py).

* case generation (shapes x directions x distance modes x starts x resolutions x unit systems x decimal places),
* implementation adapter: drives a real `GCodeBuilder`, records the call of `trace.parametric` by shadowing the
  bound method on the *instance* (no repository change), reconstructs the vertices from the emitted G-code with
  an independent interpreter,
* the two correspondence stages against the Lean model (driver mode `tracer`):
    stage 1 (formula): the model's Float formulas at the recorded thetas vs the recorded samples (1e-9 * scale),
    stage 2 (filter/emit): the recorded samples through the model's `filterSegments` + `emitMoves` vs the emitted
                            words (exact, after rounding the model's exact rational at `decimal_places`, tie guard),
* geometry helpers for the oracles (which never look at the model's output).

Doubles travel as the decimal value of their 64 IEEE bits; exact rationals as `n/d`.
"""
from __future__ import annotations

import math
import re
import struct
from concurrent.futures import ThreadPoolExecutor
from fractions import Fraction

import numpy as np

from . import core

MODE = "tracer"
TWO_PI = 2 * math.pi
SHAPES = ["arc", "arc_radius", "circle", "helix", "thread", "spiral", "spline", "polyline", "parametric"]
CURVED = ("arc", "arc_radius", "circle", "helix", "thread", "spiral")


# ------------------------------------------------------------------ number transport
def bits(f) -> str:
    return str(struct.unpack(">Q", struct.pack(">d", float(f)))[0])


def unbits(s: str) -> float:
    return struct.unpack(">d", struct.pack(">Q", int(s)))[0]


def bits_rows(a: np.ndarray) -> str:
    """(N,3) float array -> 'b;b;b,b;b;b,...'"""
    u = np.ascontiguousarray(a, dtype=np.float64).view(np.uint64)
    return ",".join(";".join(map(str, row)) for row in u.tolist())


def unbits_rows(s: str) -> np.ndarray:
    if not s:
        return np.zeros((0, 3))
    flat = np.array([int(x) for x in s.replace(",", ";").split(";")], dtype=np.uint64)
    return flat.view(np.float64).reshape(-1, 3)


def pl_bits(p, width=3) -> str:
    p = list(p) + [None] * (width - len(p))
    return ";".join("-" if v is None else bits(v) for v in p)


def q(v) -> str:
    f = Fraction(v)
    return str(f.numerator) if f.denominator == 1 else f"{f.numerator}/{f.denominator}"


def pl_q(p, width=3) -> str:
    p = list(p) + [None] * (width - len(p))
    return ";".join("-" if v is None else q(v) for v in p)


def round_half_even(v: Fraction, dp: int) -> tuple[Fraction, Fraction]:
    """(v rounded to dp decimals, distance of v*10^dp from the nearest rounding tie)"""
    s = v * 10**dp
    fl = math.floor(s)
    frac = s - fl
    tie_dist = abs(frac - Fraction(1, 2))
    if frac > Fraction(1, 2) or (frac == Fraction(1, 2) and fl % 2 == 1):
        fl += 1
    return Fraction(fl, 10**dp), tie_dist


# ------------------------------------------------------------------ model runs
def run_model_parallel(lines: list[str], workers: int = 6) -> list[str]:
    """`core.run_model`, split over a few driver processes when the batch is large (order preserved)."""
    total = sum(len(x) for x in lines)
    if total < 1_500_000 or len(lines) < 2 * workers:
        return core.run_model(MODE, lines)
    # contiguous chunks of roughly equal byte size
    target = total / workers
    chunks, cur, size = [], [], 0
    for ln in lines:
        cur.append(ln)
        size += len(ln)
        if size >= target and len(chunks) < workers - 1:
            chunks.append(cur)
            cur, size = [], 0
    if cur:
        chunks.append(cur)
    with ThreadPoolExecutor(max_workers=len(chunks)) as ex:
        parts = list(ex.map(lambda c: core.run_model(MODE, c), chunks))
    return [r for p in parts for r in p]


def fields(rec: str) -> dict:
    out = {}
    for w in rec.split(" "):
        if "=" in w:
            k, v = w.split("=", 1)
            out[k] = v
    return out


# ------------------------------------------------------------------ user-defined parametric curves
def param_fn(spec: dict):
    """Parametric test curves with an implicit on-curve predicate (used by the oracle)."""
    k = spec["name"]
    p = spec
    if k == "line":  # straight line, speed varies as theta^2

        def f(th):
            s = th * th
            return np.column_stack((p["a"][0] + s * p["d"][0], p["a"][1] + s * p["d"][1], p["a"][2] + s * p["d"][2]))

    elif k == "parabola":

        def f(th):
            return np.column_stack((p["a"][0] + p["w"] * th, p["a"][1] + p["k"] * th * th, p["a"][2] + p["h"] * th))

    elif k == "ellipse":

        def f(th):
            return np.column_stack(
                (p["a"][0] + p["rx"] * (np.cos(TWO_PI * th) - 1), p["a"][1] + p["ry"] * np.sin(TWO_PI * th), p["a"][2] + 0 * th)
            )

    else:
        raise core.Infra(f"unknown parametric curve {k}")
    return f


# ------------------------------------------------------------------ case -> call arguments
def call_args(case: dict) -> dict:
    """Arguments of the tracer call in the builder's current distance mode (what the implementation and
    the model both receive).  Waypoints in the case are absolute."""
    s = case["start"]
    rel = case["rel"]
    out = {}
    if "target" in case:
        t = case["target"]
        if rel:
            t = [None if v is None else v - s[i] for i, v in enumerate(t)]
        while t and t[-1] is None and len(t) > 2:
            t = t[:-1]
        out["target"] = tuple(t)
    if "center" in case:
        out["center"] = tuple(case["center"])
    if "points" in case:
        pts = case["points"]
        if rel:
            prev, o = list(s), []
            for p in pts:
                o.append(tuple(None if v is None else v - prev[i] for i, v in enumerate(p)))
                prev = [prev[i] if (i >= len(p) or p[i] is None) else p[i] for i in range(3)]
            pts = o
        out["points"] = [tuple(p) for p in pts]
    for k in ("radius", "turns", "pitch"):
        if k in case:
            out[k] = case[k]
    return out


# ------------------------------------------------------------------ implementation adapter
_WORD = re.compile(r"([A-Za-z])\s*([-+]?(?:\d+\.?\d*|\.\d+))")


def interpret(lines: list[str]):
    """Independent G-code interpreter: positions (exact Fractions) after every motion block.

    Returns [(line_index, (x, y, z), {axis: word})].  Modal state: G90/G91, G0/G1 only (all the tracer emits)."""
    pos = [Fraction(0)] * 3
    rel = False
    out = []
    for i, raw in enumerate(lines):
        text = re.sub(r"\(.*?\)", "", raw.split(";")[0])
        words = _WORD.findall(text)
        motion = False
        axes = {}
        for letter, val in words:
            letter = letter.upper()
            if letter == "G":
                g = Fraction(val)
                if g == 90:
                    rel = False
                elif g == 91:
                    rel = True
                elif g in (0, 1):
                    motion = True
            elif letter in "XYZ":
                axes[letter] = Fraction(val)
        if motion:
            for k, ax in enumerate("XYZ"):
                if ax in axes:
                    pos[k] = pos[k] + axes[ax] if rel else axes[ax]
            out.append((i, tuple(pos), axes))
    return out


def _writer():
    from gscrib.writers import BaseWriter

    class Rec(BaseWriter):
        def __init__(self):
            self.lines = []

        def connect(self):
            return self

        def disconnect(self, wait=True):
            pass

        def write(self, b):
            self.lines.append(b.decode())

    return Rec()


def _dispatch(tr, case: dict):
    a = call_args(case)
    shape = case["shape"]
    if shape == "arc":
        tr.arc(a["target"], a["center"])
    elif shape == "arc_radius":
        tr.arc_radius(a["target"], a["radius"])
    elif shape == "circle":
        tr.circle(a["center"])
    elif shape == "helix":
        tr.helix(a["target"], a["center"], a["turns"])
    elif shape == "thread":
        tr.thread(a["target"], a["pitch"])
    elif shape == "spiral":
        tr.spiral(a["target"], a["turns"])
    elif shape == "spline":
        tr.spline(a["points"])
    elif shape == "polyline":
        tr.polyline(a["points"])
    elif shape == "parametric":
        f = param_fn(case["fn"])
        length = case["fn"].get("length")
        if length is None:
            length = float(tr.estimate_length(200, f))
        tr.parametric(f, length)
    else:
        raise core.Infra(f"unknown shape {shape}")


def run_impl(case: dict, res_override: float | None = None) -> dict:
    """Run one tracer call on a real builder.  Nothing here consults the model."""
    from gscrib import GCodeBuilder

    g = GCodeBuilder(decimal_places=case["dp"], line_endings="\n")
    w = _writer()
    g.add_writer(w)
    other = "mm" if case["units"] == "in" else "in"
    res = case["res"] if res_override is None else res_override
    if case.get("switch"):
        g.set_length_units(other)
        g.set_resolution(res)
        res_before = g.state.resolution
        g.set_length_units(case["units"])  # converts the resolution with the new unit's factor
    else:
        g.set_length_units(case["units"])
        g.set_resolution(res)
        res_before = g.state.resolution
    sf = g.state.length_units.scale_factor
    if case.get("iso"):
        # an isometry active on the builder's transformer from before the positioning move on (configuration, see `gen_iso`)
        install_iso(g, case["iso"])
    g.set_direction("cw" if case["cw"] else "ccw")
    s = case["start"]
    g.move(x=s[0], y=s[1], z=s[2])
    if case["rel"]:
        g.set_distance_mode("relative")
    if case.get("warm_near") and not case.get("switch"):
        wn = case["warm_near"]
        g.move_absolute(x=wn[0], y=wn[1], z=wn[2])
        try:
            _dispatch(g.trace, case)
        except Exception:  # noqa
            pass
        g.move_absolute(x=s[0], y=s[1], z=s[2])
    warm = case.get("warm")
    if warm and not case.get("switch"):
        # the same request traced once before on this builder at another resolution (state kept between calls
        # must not leak into the next trace)
        g.set_resolution(res * warm)
        try:
            _dispatch(g.trace, case)
        except Exception:  # noqa
            pass
        g.move_absolute(x=s[0], y=s[1], z=s[2])
        g.set_resolution(res)
    res_eff = g.state.resolution
    n0 = len(w.lines)
    calls = []
    tr = g.trace
    orig = tr.parametric

    def wrapped(function, length, **kw):
        c = {"length": float(length), "function": function}
        calls.append(c)

        def f2(thetas):
            pts = function(thetas)
            c["thetas"] = np.array(thetas, dtype=np.float64)
            c["points"] = np.array(pts, dtype=np.float64)
            return pts

        return orig(f2, length, **kw)

    tr.parametric = wrapped  # instance attribute shadows the method; `self.parametric(...)` resolves to it
    outcome = "ok"
    try:
        _dispatch(tr, case)
    except core.Infra:
        raise
    except Exception as e:  # canonicalised: class name only
        outcome = type(e).__name__
    finally:
        del tr.parametric
    blocks = interpret(w.lines)
    setup = [b for b in blocks if b[0] < n0]
    moves = [b for b in blocks if b[0] >= n0]
    start_v = setup[-1][1] if setup else (Fraction(0),) * 3
    pos = tuple(g.position)
    return {
        "outcome": outcome,
        "res_eff": float(res_eff),
        "res_before": float(res_before),
        "sf": float(sf),
        "calls": calls,
        "lines": w.lines[n0:],
        "nlines_other": (len(w.lines) - n0) - len(moves),
        "verts": [start_v] + [m[1] for m in moves],
        "words": [m[2] for m in moves],
        "position": pos,
    }


# ------------------------------------------------------------------ isometries on the builder's transformer
# A case may carry "iso": a list of length-preserving operations installed on `g.transform` before the positioning
# move (so the whole program, start included, is expressed in the transformed frame):
#   ["mirror", "xy"|"yz"|"zx"]   ["reflect", [nx, ny, nz]]   ["rotate", degrees, "x"|"y"|"z"]
#   ["flip", [sx, sy, sz]] with every factor +1 or -1 (through `scale`)   ["translate", [x, y, z]]   ["pivot", [x, y, z]]
# No operation changes a length.  `iso_matrix` is the harness's own 4x4 matrix of the list (textbook formulas; nothing is
# read from the implementation): emitted = A @ work + b.
_PLANE_NORMAL = {"xy": (0.0, 0.0, 1.0), "yz": (1.0, 0.0, 0.0), "zx": (0.0, 1.0, 0.0)}


def install_iso(g, ops) -> None:
    t = g.transform
    for op in ops:
        k = op[0]
        if k == "mirror":
            t.mirror(op[1])
        elif k == "reflect":
            t.reflect([float(v) for v in op[1]])
        elif k == "rotate":
            t.rotate(float(op[1]), op[2])
        elif k == "flip":
            if any(abs(v) != 1.0 for v in op[1]):
                raise core.Infra(f"flip factors must be +1/-1: {op}")
            t.scale(*[float(v) for v in op[1]])
        elif k == "translate":
            t.translate(*[float(v) for v in op[1]])
        elif k == "pivot":
            t.set_pivot(tuple(float(v) for v in op[1]))
        else:
            raise core.Infra(f"unknown isometry operation {op}")


def iso_matrix(ops) -> np.ndarray:
    """4x4 matrix of the operations, applied in order, each about the pivot in force when it is issued"""
    M = np.eye(4)
    pivot = np.zeros(3)
    for op in ops:
        k = op[0]
        L = np.eye(4)
        if k == "pivot":
            pivot = np.array([float(v) for v in op[1]])
            continue
        if k == "mirror" or k == "reflect":
            n = np.array(_PLANE_NORMAL[op[1]] if k == "mirror" else [float(v) for v in op[1]], dtype=np.float64)
            n = n / math.sqrt(float(n @ n))
            L[:3, :3] = np.eye(3) - 2.0 * np.outer(n, n)
        elif k == "rotate":
            a = math.radians(float(op[1]))
            co, si = math.cos(a), math.sin(a)
            i, j = {"x": (1, 2), "y": (2, 0), "z": (0, 1)}[op[2]]  # right-handed: axis i turns towards axis j
            L[i, i], L[i, j], L[j, i], L[j, j] = co, -si, si, co
        elif k == "flip":
            f = [float(v) for v in op[1]]
            f = f * 3 if len(f) == 1 else f + [1.0] * (3 - len(f))  # one factor: all axes; two: z kept
            L[:3, :3] = np.diag(f)
        elif k == "translate":
            L[:3, 3] = [float(v) for v in op[1]]
        else:
            raise core.Infra(f"unknown isometry operation {op}")
        P, Pi = np.eye(4), np.eye(4)
        P[:3, 3], Pi[:3, 3] = pivot, -pivot
        M = P @ L @ Pi @ M
    return M


def iso_reflecting(ops) -> bool:
    """orientation reversing (an odd number of reflections)?"""
    return float(np.linalg.det(iso_matrix(ops)[:3, :3])) < 0


def gen_iso(rng) -> list:
    """1-3 length-preserving operations, optionally about a pivot and followed by a translation"""
    ops = []
    if rng.random() < 0.25:
        ops.append(["pivot", [_grid(rng, -20, 20) for _ in range(3)]])
    for _ in range(rng.choice([1, 1, 2, 2, 3])):
        k = rng.choice(["mirror", "mirror", "reflect", "rotate", "rotate", "flip"])
        if k == "mirror":
            ops.append(["mirror", rng.choice(["xy", "yz", "zx"])])
        elif k == "reflect":
            while True:
                n = [float(rng.randint(-4, 4)) for _ in range(3)]
                if any(n):
                    break
            ops.append(["reflect", n])
        elif k == "rotate":
            ang = rng.choice([90.0, 180.0, -90.0, 30.0, 45.0]) if rng.random() < 0.4 else round(rng.uniform(-180, 180), 2)
            ops.append(["rotate", ang, rng.choice(["x", "y", "z", "z"])])
        else:
            while True:
                f = [rng.choice([1.0, -1.0]) for _ in range(3)]
                if f != [1.0, 1.0, 1.0]:
                    break
            # every way `scale` takes its factors: one for all axes, two (z kept), three
            if f[0] == f[1] == f[2]:
                f = [f[0]]
            elif f[2] == 1.0 and rng.random() < 0.5:
                f = f[:2]
            ops.append(["flip", f])
    if rng.random() < 0.25:
        ops.append(["translate", [_grid(rng, -30, 30) for _ in range(3)]])
    return ops


# ------------------------------------------------------------------ model lines
def shape_line(case: dict, res_eff: float, nrec: int, stride: int) -> str:
    a = call_args(case)
    ws = [
        "shape",
        f"kind={case['shape']}",
        f"cw={int(case['cw'])}",
        f"rel={int(case['rel'])}",
        "o=" + pl_bits(case["start"]),
        "res=" + bits(res_eff),
        f"n={nrec}",
        f"stride={stride}",
    ]
    if "target" in a:
        ws.append("target=" + pl_bits(a["target"]))
    if "center" in a:
        ws.append("center=" + pl_bits(a["center"]))
    if "radius" in a:
        ws.append("radius=" + bits(a["radius"]))
    if "turns" in a:
        ws.append(f"turns={a['turns']}")
    if "pitch" in a:
        ws.append("pitch=" + bits(a["pitch"]))
    return " ".join(ws)


def filter_line(case: dict, res_eff: float, points: np.ndarray) -> str:
    return f"filter rel={int(case['rel'])} res={bits(res_eff)} o={pl_bits(case['start'])} pts={bits_rows(points)}"


def poly_line(kind: str, case: dict) -> str:
    a = call_args(case)
    return f"{kind} rel={int(case['rel'])} o={pl_q(case['start'])} pts=" + ",".join(pl_q(p) for p in a["points"])


def units_line(sf: float, res: float) -> str:
    return f"units sf={bits(sf)} res={bits(res)}"


def parse_q3_list(s: str):
    if not s:
        return []
    return [tuple(Fraction(x) for x in p.split(";")) for p in s.split(",")]


# ------------------------------------------------------------------ correspondence
def scale_of(case: dict, pts: np.ndarray | None = None) -> float:
    m = max(1.0, max(abs(v) for v in case["start"]))
    if pts is not None and len(pts):
        m = max(m, float(np.abs(pts).max()))
    return m


class Stage:
    """Collects the model lines of a batch and compares after one (parallel) driver run."""

    def __init__(self, R, prop: str, stride_cap: int = 4000):
        self.R = R
        self.prop = prop
        self.lines: list[str] = []
        self.todo: list[tuple] = []
        self.stride_cap = stride_cap

    def add(self, case: dict, impl: dict, stage1: bool = True, stage2: bool = True):
        shape = case["shape"]
        call = impl["calls"][0] if impl["calls"] else None
        if shape in CURVED and stage1:
            nrec = len(call["thetas"]) if call and "thetas" in call else 0
            stride = max(1, -(-nrec // self.stride_cap)) if nrec else 1
            self.todo.append(("shape", case, impl, len(self.lines), stride))
            self.lines.append(shape_line(case, impl["res_eff"], nrec, stride))
        if shape in ("polyline", "spline") and stage1:
            kind = "poly" if shape == "polyline" else "controls"
            self.todo.append((kind, case, impl, len(self.lines), 1))
            self.lines.append(poly_line(kind, case))
        if shape == "spline" and stage1 and call is not None and "function" in call:
            # spline(): `total_length = self.estimate_length(500, spline_function)` - of the very curve being traced
            th = np.linspace(0, 1, 500)
            est = float(np.linalg.norm(np.diff(np.asarray(call["function"](th), dtype=float), axis=0), axis=1).sum())
            if abs(est - call["length"]) > 1e-9 * max(1.0, est):
                self.R.disagree("tracer-spline-length", case_repr(case), call["length"], est)
            else:
                self.R.count("stage1:spline-length-agrees")
        if shape in ("spline", "parametric") and stage1 and call is not None:
            nrec = len(call["thetas"]) if "thetas" in call else 0
            stride = max(1, -(-nrec // self.stride_cap)) if nrec else 1
            self.todo.append(("grid", case, impl, len(self.lines), stride))
            self.lines.append(f"grid len={bits(call['length'])} res={bits(impl['res_eff'])} n={nrec} stride={stride}")
        if stage2 and call is not None and "points" in call and impl["outcome"] == "ok":
            self.todo.append(("filter", case, impl, len(self.lines), 1))
            self.lines.append(filter_line(case, impl["res_eff"], call["points"]))
        if case.get("switch"):
            self.todo.append(("units", case, impl, len(self.lines), 1))
            self.lines.append(units_line(impl["sf"], impl["res_before"]))

    def run(self):
        out = run_model_parallel(self.lines)
        for kind, case, impl, idx, stride in self.todo:
            getattr(self, "_cmp_" + kind)(case, impl, out[idx], stride)
        self.lines, self.todo = [], []

    # -- stage 1
    def _cmp_shape(self, case, impl, rec, stride):
        R = self.R
        cr = case_repr(case)
        if rec == "ValueError" or impl["outcome"] != "ok":
            mo = "ValueError" if rec == "ValueError" else "ok"
            if case.get("marginal"):
                R.count("skip:marginal-validity")
            elif mo != impl["outcome"]:
                R.disagree("tracer-outcome", cr, impl["outcome"], mo)
            else:
                R.count("stage1:rejected-agree")
            return
        f = fields(rec)
        call = impl["calls"][0]
        n_impl = len(call["thetas"])
        n_model = int(f["n"])
        nx = unbits(f["nx"])
        L = unbits(f["L"])
        if case["shape"] == "arc_radius" and case.get("thin"):
            R.count("skip:arc_radius-ill-conditioned-centre")
            return
        if abs(L - call["length"]) > 1e-9 * max(1.0, abs(L)):
            R.disagree("tracer-length", cr, repr(call["length"]), repr(L))
            return
        if n_model != n_impl:
            if abs(nx - round(nx)) < 1e-9 * max(1.0, nx):
                R.count("skip:num-segments-margin")
            else:
                R.disagree("tracer-num-segments", cr, n_impl, n_model)
                return
        idx = [i for i in range(n_impl) if (i + 1) % stride == 0 or i + 1 == n_impl]
        th_m = np.array([unbits(x) for x in f["th"].split(",")]) if f.get("th") else np.zeros(0)
        th_i = call["thetas"][idx]
        if len(th_m) != len(th_i) or not np.array_equal(th_m.view(np.uint64), th_i.view(np.uint64)):
            bad = int(np.argmax(th_m != th_i)) if len(th_m) == len(th_i) else -1
            R.disagree("tracer-thetas", cr, f"n={n_impl} first={call['thetas'][:2].tolist()}", f"n={len(th_m)} first={th_m[:2].tolist()}", step=bad)
            return
        pm = unbits_rows(f.get("pts", ""))
        pi = call["points"][idx]
        sc = scale_of(case, pi)
        dev = float(np.abs(pm - pi).max()) if len(pi) else 0.0
        if not (dev <= 1e-9 * sc):
            k = int(np.argmax(np.abs(pm - pi).max(axis=1)))
            R.disagree("tracer-formula", cr, f"theta={th_i[k]!r} impl={pi[k].tolist()}", f"model={pm[k].tolist()} dev={dev:.3e}", step=k)
            return
        R.count("stage1:formula-agree")

    def _cmp_grid(self, case, impl, rec, stride):
        R = self.R
        cr = case_repr(case)
        call = impl["calls"][0]
        if rec == "ValueError" or "thetas" not in call:
            mo = "ValueError" if rec == "ValueError" else "ok"
            if mo != impl["outcome"]:
                R.disagree("tracer-outcome", cr, impl["outcome"], mo)
            else:
                R.count("stage1:rejected-agree")
            return
        f = fields(rec)
        n_impl, n_model, nx = len(call["thetas"]), int(f["n"]), unbits(f["nx"])
        if n_model != n_impl:
            if abs(nx - round(nx)) < 1e-9 * max(1.0, nx):
                R.count("skip:num-segments-margin")
            else:
                R.disagree("tracer-num-segments", cr, n_impl, n_model)
                return
        idx = [i for i in range(n_impl) if (i + 1) % stride == 0 or i + 1 == n_impl]
        th_m = np.array([unbits(x) for x in f["th"].split(",")]) if f.get("th") else np.zeros(0)
        th_i = call["thetas"][idx]
        if len(th_m) != len(th_i) or not np.array_equal(th_m.view(np.uint64), th_i.view(np.uint64)):
            R.disagree("tracer-thetas", cr, f"n={n_impl} first={call['thetas'][:2].tolist()}", f"n={len(th_m)} first={th_m[:2].tolist()}")
            return
        R.count("stage1:grid-agree")

    def _cmp_poly(self, case, impl, rec, stride):
        R = self.R
        cr = case_repr(case)
        f = fields(rec)
        mw = parse_q3_list(f.get("words", ""))
        self._cmp_words(case, impl, mw, "tracer-polyline")

    def _cmp_controls(self, case, impl, rec, stride):
        R = self.R
        cr = case_repr(case)
        mo = "ValueError" if rec == "ValueError" else "ok"
        if mo != impl["outcome"]:
            R.disagree("tracer-outcome", cr, impl["outcome"], mo)
            return
        if mo != "ok":
            R.count("stage1:rejected-agree")
            return
        ctrl = parse_q3_list(fields(rec)["controls"])
        fn = impl["calls"][0]["function"]
        got = np.array(fn(np.linspace(0, 1, len(ctrl))), dtype=np.float64)
        want = np.array([[float(v) for v in p] for p in ctrl])
        sc = scale_of(case, want)
        if got.shape != want.shape or float(np.abs(got - want).max()) > 1e-9 * sc:
            R.disagree("tracer-spline-controls", cr, got.tolist(), want.tolist())
            return
        R.count("stage1:spline-controls-agree")

    def _cmp_units(self, case, impl, rec, stride):
        got = fields(rec)["res"]
        if got != bits(impl["res_eff"]):
            self.R.disagree("tracer-units-resolution", case_repr(case), repr(impl["res_eff"]), repr(unbits(got)))
        else:
            self.R.count("units:resolution-agree")

    # -- stage 2
    def _cmp_filter(self, case, impl, rec, stride):
        R = self.R
        f = fields(rec)
        margin = unbits(f["margin"])
        if margin < 1e-9 * impl["res_eff"]:
            R.count("skip:filter-decision-margin")
            return
        mw = parse_q3_list(f.get("words", ""))
        self._cmp_words(case, impl, mw, "tracer-filter-emit")

    def _cmp_words(self, case, impl, mw, name):
        R = self.R
        cr = case_repr(case)
        iw = impl["words"]
        if impl["outcome"] != "ok":
            R.disagree("tracer-outcome", cr, impl["outcome"], "ok")
            return
        if len(mw) != len(iw):
            R.disagree(name, cr, f"{len(iw)} moves", f"{len(mw)} moves")
            return
        dp = case["dp"]
        guard = Fraction(10**dp) * Fraction(scale_of(case)) / 10**12
        skipped = 0
        for k, (m, w) in enumerate(zip(mw, iw)):
            if set(w) != {"X", "Y", "Z"}:
                R.disagree(name, cr, f"move {k}: words {sorted(w)}", "X Y Z", step=k)
                return
            for ax, mv in zip("XYZ", m):
                want, tie = round_half_even(mv, dp)
                if w[ax] != want:
                    if tie < guard:
                        skipped += 1
                        continue
                    R.disagree(name, cr, f"move {k} {ax}{w[ax]}", f"{ax}{want} (exact {float(mv)!r})", step=k)
                    return
        if skipped:
            R.count("skip:tie-guard-words", )
            R.dist["tie-guard-words-total"] += skipped
        R.count("stage2:emit-agree" if name == "tracer-filter-emit" else "stage1:polyline-agree")


def case_repr(case: dict) -> dict:
    return case


# ------------------------------------------------------------------ geometry helpers for the oracles
def verts_array(impl: dict) -> np.ndarray:
    return np.array([[float(c) for c in v] for v in impl["verts"]], dtype=np.float64)


def tol_pos(case: dict, nmoves: int, scale: float) -> float:
    """output rounding (accumulated in relative mode, where every delta is rounded) + float noise"""
    return (1 + (nmoves if case["rel"] else 0)) * 10.0 ** (-case["dp"]) + 1e-9 * scale


def spec_centre(case: dict):
    s = case["start"]
    if case["shape"] in ("arc", "circle", "helix"):
        return (s[0] + case["center"][0], s[1] + case["center"][1])
    if case["shape"] == "spiral":
        return (s[0], s[1])
    if case["shape"] == "thread":
        t = case["target"]
        return ((s[0] + t[0]) / 2, (s[1] + t[1]) / 2)
    return None


def spec_target(case: dict):
    s = case["start"]
    if case["shape"] == "circle":
        return list(s)
    t = case.get("target")
    if t is None:
        return None
    return [s[i] if (i >= len(t) or t[i] is None) else t[i] for i in range(3)]


def directed_sweep(a_from: float, a_to: float, cw: bool) -> float:
    """angle travelled from a_from to a_to going in the selected direction, in (0, 2pi]"""
    d = (a_from - a_to) if cw else (a_to - a_from)
    d = math.fmod(d, TWO_PI)
    if d <= 0:
        d += TWO_PI
    return d


def directed_steps(ang: np.ndarray, cw: bool, tol: float) -> np.ndarray:
    """per-vertex angular advance in the selected direction, in (-tol, 2pi - tol]"""
    d = np.diff(ang) * (-1.0 if cw else 1.0)
    d = np.mod(d, TWO_PI)
    d = np.where(d > TWO_PI - tol, d - TWO_PI, d)
    return d


def seg_lengths(V: np.ndarray) -> np.ndarray:
    return np.linalg.norm(np.diff(V, axis=0), axis=1)


def point_segment_dist(p: np.ndarray, a: np.ndarray, b: np.ndarray) -> np.ndarray:
    """distance from p to each segment a[i]b[i]"""
    ab = b - a
    den = (ab * ab).sum(axis=1)
    t = np.where(den > 0, ((p - a) * ab).sum(axis=1) / np.where(den > 0, den, 1), 0.0)
    t = np.clip(t, 0, 1)
    proj = a + ab * t[:, None]
    return np.linalg.norm(proj - p, axis=1)


# ------------------------------------------------------------------ generation
def _grid(rng, lo, hi, step=8):
    return rng.randint(lo * step, hi * step) / step


def gen_case(rng, shape: str | None = None, ratio=(0.0, 2.5), max_samples: int = 12000, malformed: float = 0.0) -> dict:
    """One tracer request.  `ratio` = log10 range of (path length / resolution)."""
    for _ in range(1000):
        c = _gen_case(rng, shape, ratio, malformed)
        if c is None:
            continue
        if c.get("est_samples", 0) <= max_samples:
            return c
    raise core.Infra("generator could not produce a case within the sample budget")


def _common(rng):
    start = [0.0, 0.0, 0.0] if rng.random() < 0.08 else [_grid(rng, -50, 50) for _ in range(3)]
    return {
        "cw": rng.random() < 0.5,
        "rel": rng.random() < 0.5,
        "start": start,
        "units": "in" if rng.random() < 0.35 else "mm",
        "switch": rng.random() < 0.25,
        "dp": rng.choice([5, 6, 6, 9]),
    }


def _gen_case(rng, shape, ratio, malformed):
    shape = shape or rng.choice(SHAPES)
    c = _common(rng)
    c["shape"] = shape
    s = c["start"]
    res = 10 ** rng.uniform(-3, 1)
    lr = 10 ** rng.uniform(*ratio)  # wanted path length / resolution
    if rng.random() < 0.06:
        lr = 10 ** rng.uniform(-1.3, 0)  # very short paths: the max(2, ...) floor
    L = lr * res
    bad = rng.random() < malformed
    min_r = 2000 * 10.0 ** (-c["dp"])
    if shape in ("arc", "circle", "arc_radius"):
        sweep = TWO_PI if shape == "circle" else rng.choice([rng.uniform(0.05, TWO_PI - 0.05), rng.uniform(0.05, TWO_PI - 0.05), math.pi / 2, math.pi, 3 * math.pi / 2])
        kz = 0.0 if (shape == "circle" or rng.random() < 0.4) else rng.choice([-1, 1]) * rng.uniform(0.05, 1.5)
        if shape != "circle" and rng.random() < 0.15:
            # steep helical arc: the vertical displacement (either sign) dominates the planar arc length
            sweep = rng.uniform(0.05, 0.8)
            kz = rng.choice([-1, 1]) * rng.uniform(1.0, 5.0)
        r = L / math.hypot(sweep, kz)
        if not (min_r <= r <= 400):
            return None
        alpha = rng.uniform(0, TWO_PI)  # direction start -> centre
        cen = (r * math.cos(alpha), r * math.sin(alpha))
        cx, cy = s[0] + cen[0], s[1] + cen[1]
        a0 = math.atan2(s[1] - cy, s[0] - cx)
        a1 = a0 + (-sweep if c["cw"] else sweep)
        rr = math.hypot(cen[0], cen[1])
        tgt = [cx + rr * math.cos(a1), cy + rr * math.sin(a1), s[2] + kz * r]
        c["res"] = res
        c["est_samples"] = 10 * lr
        if shape == "circle":
            c["center"] = list(cen)
            return c
        if shape == "arc":
            c["center"] = list(cen)
            c["target"] = tgt if (kz != 0.0 or rng.random() < 0.5) else [tgt[0], tgt[1], None]
            if bad:
                k = rng.choice([0.5, 0.9, 1.1, 2.0])
                c["target"] = [cx + k * rr * math.cos(a1), cy + k * rr * math.sin(a1), tgt[2]]
                c["invalid"] = "arc-radii-differ"
            return c
        # arc_radius: same geometry, described by the signed radius
        if abs(sweep - math.pi) < 1e-9:
            c["thin"] = True  # semicircle: centre ill-conditioned in floating point (h ~ 0)
        minor = sweep < math.pi
        c["target"] = tgt if (kz != 0.0 or rng.random() < 0.5) else [tgt[0], tgt[1], None]
        c["radius"] = rr if minor else -rr
        d = math.hypot(tgt[0] - s[0], tgt[1] - s[1])
        h2 = rr * rr - (d / 2) ** 2
        if h2 < (1e-4 * rr) ** 2:
            c["thin"] = True
        if bad:
            k = rng.choice([0.0, 0.3, 0.9])
            c["radius"] = math.copysign(k * d / 2, c["radius"]) if k else 0.0
            c["invalid"] = "radius-too-small"
            if abs(abs(c["radius"]) - d / 2) <= 0.011:
                c["marginal"] = True
        return c
    if shape in ("helix", "spiral", "thread"):
        turns = rng.choice([1, 1, 2, 3, 5])
        if shape == "thread":
            pitch = 10 ** rng.uniform(-1, 0.7)
            dz = rng.choice([-1, 1]) * pitch * (turns + rng.uniform(0.05, 0.95)) if rng.random() < 0.85 else rng.choice([-1, 1]) * pitch * rng.uniform(0.1, 0.9)
            turns = max(1, int(abs(dz) / pitch))
            sweep = math.pi + TWO_PI * (turns - 1)
            # L^2 = (r*sweep)^2 + dz^2
            if L <= abs(dz) * 1.02:
                return None
            r = math.sqrt(L * L - dz * dz) / sweep
            if not (min_r <= r <= 400):
                return None
            beta = rng.uniform(0, TWO_PI)
            tgt = [s[0] + 2 * r * math.cos(beta), s[1] + 2 * r * math.sin(beta), s[2] + dz]
            if rng.random() < 0.04:
                tgt[0], tgt[1] = s[0], s[1]  # degenerate: vertical line
            c.update(target=tgt, pitch=pitch, res=res, est_samples=10 * lr)
            if bad:
                c["pitch"] = rng.choice([0.0, -1.0])
                c["invalid"] = "pitch"
            return c
        base = rng.uniform(0.05, TWO_PI - 0.05) if rng.random() < 0.8 else rng.choice([math.pi / 2, math.pi, TWO_PI])
        sweep = base + TWO_PI * (turns - 1)
        ratio_r = 1.0 if (shape == "helix" and rng.random() < 0.4) else rng.choice([0.3, 0.5, 0.8, 1.5, 2.0, 3.0])
        kz = 0.0 if rng.random() < 0.4 else rng.choice([-1, 1]) * rng.uniform(0.1, 2.0)
        if shape == "spiral":
            # r0 = 0, r1 = R:  length ~ integral of sqrt(R^2 + (R*theta*sweep)^2 + dz^2)
            approx = 0.5 * sweep + 0.6
            R_ = L / math.hypot(approx, kz)
            if not (min_r <= R_ <= 400):
                return None
            beta = rng.uniform(0, TWO_PI)
            tgt = [s[0] + R_ * math.cos(beta), s[1] + R_ * math.sin(beta), s[2] + kz * R_]
            c.update(target=tgt if (kz != 0.0 or rng.random() < 0.5) else tgt[:2] + [None], turns=turns, res=res, est_samples=10 * lr * 1.3)
        else:
            mean = (1 + ratio_r) / 2
            r0 = L / math.hypot(mean * sweep, kz, ratio_r - 1)
            if not (min_r <= r0 <= 400) or r0 * ratio_r < min_r:
                return None
            alpha = rng.uniform(0, TWO_PI)
            cen = (r0 * math.cos(alpha), r0 * math.sin(alpha))
            if base == TWO_PI:
                # whole turns: the target lies on the ray centre -> start, *exactly* (axis-aligned centre, so the
                # two polar angles are the same float and their difference is exactly zero)
                cen = rng.choice([(r0, 0.0), (-r0, 0.0), (0.0, r0), (0.0, -r0)])
            cx, cy = s[0] + cen[0], s[1] + cen[1]
            a0 = math.atan2(s[1] - cy, s[0] - cx)
            a1 = a0 + (-base if c["cw"] else base)
            r1 = math.hypot(*cen) * ratio_r
            tgt = [cx + r1 * math.cos(a1), cy + r1 * math.sin(a1), s[2] + kz * r0]
            if base == TWO_PI:
                tgt[0] = cx - cen[0] * ratio_r
                tgt[1] = cy - cen[1] * ratio_r
            c.update(target=tgt if (kz != 0.0 or rng.random() < 0.5) else tgt[:2] + [None], center=list(cen), turns=turns, res=res, est_samples=10 * lr * 1.3)
        if bad:
            c["turns"] = rng.choice([0, -1])
            c["invalid"] = "turns"
        return c
    if shape == "spline" and not bad and rng.random() < 0.12:
        # fine detail far from the origin: control points a few hundredths apart at coordinates in the thousands, traced at a
        # resolution finer than their spacing (a closeness test relative to the magnitude of the coordinates would merge them)
        far = [rng.choice([-1, 1]) * float(rng.randint(500, 5000)) for _ in range(3)]
        c.update(start=far, units="mm", switch=False, dp=rng.choice([5, 6]), fine_far=True)
        res = rng.choice([0.002, 0.004, 0.005])
        pts, prev = [], list(far)
        for _ in range(rng.randint(2, 4)):
            while True:
                d = [rng.randint(-3, 3) / 64 for _ in range(3)]
                if any(d):
                    break
            p = [prev[i] + d[i] for i in range(3)]
            pts.append(p)
            prev = p
        P = [far] + pts
        poly = sum(math.dist(P[i], P[i + 1]) for i in range(len(P) - 1))
        c.update(points=pts, res=res, est_samples=10 * 1.6 * poly / res)
        return c
    if shape in ("spline", "polyline"):
        k = rng.randint(1, 6)
        span = max(L / (1.5 * k), 0.25)
        if span > 200:
            return None
        step = 4 if span > 2 else 64
        pts, prev = [], list(s)
        for _ in range(k):
            p = [prev[i] + round(rng.uniform(-span, span) * step) / step for i in range(3)]
            if shape == "polyline" and rng.random() < 0.25:
                p[2] = None
            if rng.random() < 0.1:
                p = list(prev)  # duplicate of the previous control point
            elif rng.random() < 0.15 and len(pts) >= 1:
                # come back to an earlier location (closed loop, out-and-back): not a *consecutive* duplicate
                back = rng.choice([list(s)] + [q for q in pts[:-1] if None not in q]) if len(pts) >= 1 else list(s)
                p = [float(v) for v in back]
            pts.append(p)
            prev = [prev[i] if v is None else v for i, v in enumerate(p)]
        if shape == "polyline" and rng.random() < 0.3:
            pts = [p[:2] if p[2] is None else p for p in pts]
        c.update(points=pts, res=res, est_samples=(10 * lr * 2 if shape == "spline" else 0))
        if shape == "spline" and bad:
            c["points"] = [list(s)] * rng.randint(1, 3)
            c["invalid"] = "spline-needs-two-points"
        if shape == "spline" and all(list(p) == list(s) for p in c["points"]):
            c["invalid"] = "spline-needs-two-points"
        if shape == "spline" and not c["rel"] and not bad and lr <= 60 and len(pts) >= 2 and rng.random() < 0.9 and all(None not in q for q in pts):
            # the same control list is traced twice on one builder: first from right next to it, then (measured)
            # from a start far away - nothing remembered from the first trace may shape the second
            far = [pts[0][0] + 60.0 * span * k, pts[0][1] - 20.0 * span * k, pts[0][2]]
            c["start"] = far
            s = far
            c["warm_near"] = [pts[0][0] + 0.25, pts[0][1], pts[0][2]]
        if shape == "spline":
            # real sample count depends on the actual spline length; estimate from the control polygon
            P = [s] + pts
            poly = sum(math.dist(P[i], P[i + 1]) for i in range(len(P) - 1))
            c["est_samples"] = 10 * 1.6 * poly / res
        return c
    if shape == "parametric":
        name = rng.choice(["line", "parabola", "ellipse"])
        if name == "line":
            u = [rng.uniform(-1, 1) for _ in range(3)]
            nu = math.sqrt(sum(x * x for x in u)) or 1.0
            d = [x / nu * L for x in u]
            fn = {"name": "line", "a": list(s), "d": d}
            end = [s[i] + d[i] for i in range(3)]
        elif name == "parabola":
            w = L * rng.uniform(0.3, 0.7) * rng.choice([-1, 1])
            kk = L * rng.uniform(0.2, 0.6) * rng.choice([-1, 1])
            h = 0.0 if rng.random() < 0.5 else L * rng.uniform(-0.3, 0.3)
            fn = {"name": "parabola", "a": list(s), "w": w, "k": kk, "h": h}
            end = [s[0] + w, s[1] + kk, s[2] + h]
        else:
            rx = L / TWO_PI * rng.uniform(0.6, 1.4)
            ry = L / TWO_PI * rng.uniform(0.6, 1.4)
            fn = {"name": "ellipse", "a": list(s), "rx": rx, "ry": ry}
            end = list(s)
        if L < 20 * 10.0 ** (-c["dp"]) or L > 3000:
            return None
        if bad:
            fn["length"] = rng.choice([0.0, -1.0])
            c["invalid"] = "length"
        c.update(fn=fn, end=end, res=res, est_samples=10 * lr * 1.5)
        return c
    raise core.Infra(f"unknown shape {shape}")

"""Adapter: runs line-protocol builder operations (see lean/GscribModel/Drv/Builder.lean) on a real
`gscrib.GCodeBuilder` and produces the same canonical record the Lean driver prints.

Everything observed goes through public API: a recording writer, `g.position`, `g.state.*`,
`get_parameter`.  Floats are canonicalised to exact fractions of their 9-decimal rounding (exact on the
harness' dyadic grid)."""
from __future__ import annotations

import math
import re
from fractions import Fraction

# a machine reads plain signed decimals only: `Z5e-05` is the word Z5 followed by the word E-05 (no exponent notation)
NUM = r"[-+]?(?:\d+\.?\d*|\.\d+)"
TOKEN = re.compile(r"([A-Za-z])(" + NUM + r")")


def frac(s: str) -> Fraction:
    return Fraction(s)


def show(q) -> str:
    q = Fraction(q)
    return str(q.numerator) if q.denominator == 1 else f"{q.numerator}/{q.denominator}"


def canon_float(x) -> str:
    if x is None:
        return "~"
    if isinstance(x, float) and (math.isinf(x) or math.isnan(x)):
        return "~" if x == float("-inf") else repr(x)
    if isinstance(x, int) and abs(x) > 10**300:
        return "huge" if x > 0 else "-huge"
    return show(Fraction(repr(round(float(x), 9))))


NUMPY = {"on": False, "kind": "float64"}   # harness switch (`cfg np=1`): numbers reach the API as numpy scalars


def parse_val(s: str):
    v = _parse_val(s)
    if NUMPY["on"] and isinstance(v, (int, float)) and abs(v) < 1e300:
        import numpy as np
        return np.float64(v)
    return v


def _parse_val(s: str):
    if s == "nan":
        return float("nan")
    if s == "inf":
        return float("inf")
    if s == "-inf":
        return float("-inf")
    if s in ("huge", "-huge"):
        # a Python int too large for a double: finite for every comparison, but no number the formatter can write
        return 10**400 if s == "huge" else -(10**400)
    f = Fraction(s)
    return int(f) if f.denominator == 1 and abs(f) < 2**53 and "/" not in s and "." not in s else float(f)


def lex_line(text: str, comment_symbol: str = ";"):
    """Independent block lexer: returns (codes, {letter: Fraction}, raw tokens) of one emitted line."""
    body = text.split(comment_symbol, 1)[0]
    codes, words = [], []
    for tok in body.split():
        pos = 0
        while pos < len(tok):
            m = TOKEN.match(tok, pos)
            if not m:
                raise ValueError(f"unlexable token {tok!r} in {text!r}")
            pos = m.end()
            letter, num = m.group(1).upper(), m.group(2)
            if letter in ("G", "M"):
                codes.append(letter + num)
            else:
                words.append((letter, Fraction(num)))
    return codes, words


def canon_stmt(text: str) -> str:
    try:
        codes, words = lex_line(text)
    except ValueError:
        # not a block of address words: reported by the harness as malformed output, never silently canonicalised
        return "!BAD(" + text.replace(" ", "_").replace(";", "|").replace(",", "|") + ")"
    ax = [(k, v) for k, v in words if k in "XYZ"]
    ax.sort(key=lambda e: "XYZ".index(e[0]))
    other = sorted((k, show(v)) for k, v in words if k not in "XYZ")
    toks = codes + [f"{k}:{show(v)}" for k, v in ax] + [f"{k}:{v}" for k, v in other]
    return ",".join(toks) if toks else "_"


class Recorder:
    """A BaseWriter that keeps every byte string it is given."""

    def __init__(self):
        from gscrib.writers import BaseWriter  # noqa

        self.chunks = []

    def make(self):
        from gscrib.writers import BaseWriter

        rec = self

        class _W(BaseWriter):
            def connect(self):
                return self

            def disconnect(self, wait=True):
                pass

            def write(self, data):
                rec.chunks.append(bytes(data))

            def flush(self):
                pass

        return _W()


class Impl:
    PLANES = ["xy", "yz", "zx"]
    FMODES = ["1/time", "units/min", "units/rev"]

    def __init__(self, dp: int = 5):
        from gscrib import GCodeBuilder

        self.dp = dp
        self.rec = Recorder()
        self.g = GCodeBuilder(output=None, print_lines=False, decimal_places=dp, line_endings="\n")
        self.g.add_writer(self.rec.make())
        self.ctx = []
        self.hooks = {}
        self.hook_log = []
        self.letters = set("XYZFSE")

    # ---- hooks
    def _mk_hook(self, spec):
        kind, _, arg = spec.partition(":")

        class _Log:
            @staticmethod
            def append(call, _log=self.hook_log):
                # a move towards a non-finite coordinate is rejected; its hook call is not part of the model
                if all(math.isfinite(v) for v in tuple(call[1])):
                    _log.append(call)

        log = _Log
        if kind == "record":
            def hook(origin, target, params, state):
                log.append((origin, target))
                return params
        elif kind == "limitF":
            mx = float(Fraction(arg))

            def hook(origin, target, params, state):
                log.append((origin, target))
                if params.get("F") is not None and params.get("F") > mx:
                    params.update(F=mx)
                return params
        elif kind == "drop":
            key = arg.upper()

            def hook(origin, target, params, state):
                log.append((origin, target))
                # a NEW dictionary with fewer keys than the hook was given (hooks return the parameters to use)
                return type(params)({k: v for k, v in params.items() if k.upper() != key})
        elif kind == "extrude":
            from gscrib.hooks import extrusion_hook

            layer, nozzle, fil = (float(Fraction(x)) for x in arg.split(":"))
            inner = extrusion_hook(layer, nozzle, fil)

            def hook(origin, target, params, state):
                log.append((origin, target))
                return inner(origin, target, params, state)
        else:
            raise ValueError(spec)

        class _Owner:
            """hooks are registered as bound methods: `obj.on_move` is a fresh (equal, not identical) object each time"""

            def on_move(self, origin, target, params, state, _f=hook):
                return _f(origin, target, params, state)

        return _Owner()

    @staticmethod
    def model_hook_spec(spec: str) -> str:
        """`extrude:<layer>:<nozzle>:<filament>` -> `extrude:<k>` with k the exact ratio of the two floats the hook uses."""
        kind, _, arg = spec.partition(":")
        if kind != "extrude":
            return spec
        layer, nozzle, fil = (float(Fraction(x)) for x in arg.split(":"))
        radius = fil / 2.0
        cross_section = math.pi * radius * radius
        extrusion_area = nozzle * layer
        return "extrude:" + show(Fraction(extrusion_area) / Fraction(cross_section))

    # ---- one operation
    def apply(self, line: str):
        """Execute one op line; returns (possibly completed op line, record)."""
        g = self.g
        n0 = len(self.rec.chunks)
        ws = line.split()
        op, args = ws[0], ws[1:]
        out = "ok"
        if op == "ehalt" and len(args) > 1:
            static_line = "ehalt " + args[0]     # the model has no message text: whatever happens, this is its op
        else:
            static_line = None
        huge = "huge" in line
        try:
            line = self._call(op, args, line)
        except Exception as e:  # noqa
            out = type(e).__name__
            if huge and out == "OverflowError":
                out = "ValueError"  # an unrepresentable magnitude refused: the same outcome class as a non-finite value
            if static_line:
                line = static_line
            if op in ("enter",) and self.ctx and self.ctx[-1] is None:
                self.ctx.pop()
        new = self.rec.chunks[n0:]
        text = b"".join(new).decode("utf-8")
        stmts = [canon_stmt(l) for l in text.split("\n")[:-1]] if text else []
        return line, f"out={out} stmts={';'.join(stmts) if stmts else '-'} {self.state_record()}"

    # ---- tracer operations: executed on the real tracer, observed as the sequence of `move` calls it makes
    def apply_trace(self, line: str):
        """`trace <shape> args…` -> list of (move line, record), one per `g.move` call the tracer issued.
        The model sees the same moves (exact rationals of the floats the tracer passed)."""
        g = self.g
        ws = line.split()
        shape, args = ws[1], ws[2:]
        calls = []
        orig = type(g).move

        def wrapped(point=None, **kw):
            n0 = len(self.rec.chunks)
            out = "ok"
            pt = tuple(point) if point is not None else (kw.pop("x", None), kw.pop("y", None), kw.pop("z", None))
            ln = "move " + " ".join(f"{a}={'-' if v is None else _val(v)}" for a, v in zip("xyz", pt))
            for k, v in kw.items():
                if k != "comment":
                    ln += f" {k.upper()}:{_val(v)}"
                    self.letters.add(k.upper())
            ln = self._with_h(ln, {a: float(v) for a, v in zip("xyz", pt) if v is not None}, False)
            try:
                orig(g, point, **kw) if point is not None else orig(g, **dict(zip("xyz", pt)), **kw)
            except Exception as e:  # noqa
                out = type(e).__name__
                raise
            finally:
                text = b"".join(self.rec.chunks[n0:]).decode("utf-8")
                stmts = [canon_stmt(l) for l in text.split("\n")[:-1]] if text else []
                calls.append((ln, f"out={out} stmts={';'.join(stmts) if stmts else '-'} {self.state_record()}"))

        g.move = wrapped
        err = None
        try:
            f = [] if shape in ("polyline", "spline", "parametric") else [float(Fraction(a)) for a in args]
            kw = {}
            if shape == "polyline":
                pts = [tuple(float(Fraction(c)) for c in p.split(";")) for p in args]
                g.trace.polyline(pts)
            elif shape == "arc":
                g.trace.arc(tuple(f[:3]) if len(f) == 5 else tuple(f[:2]), tuple(f[-2:]))
            elif shape == "arc_radius":
                g.trace.arc_radius(tuple(f[:-1]), f[-1])
            elif shape == "circle":
                g.trace.circle(tuple(f[:2]))
            elif shape == "helix":
                g.trace.helix(tuple(f[:3]), tuple(f[3:5]), int(f[5]))
            elif shape == "thread":
                g.trace.thread(tuple(f[:3]), f[3])
            elif shape == "spiral":
                g.trace.spiral(tuple(f[:3]), int(f[3]))
            elif shape == "spline":
                pts = [tuple(float(Fraction(c)) for c in p.split(";")) for p in args]
                g.trace.spline(pts)
            elif shape == "parametric":
                # a user curve in absolute coordinates: straight line p0 -> p1 (p0 need not be the current position)
                import numpy as np
                p0, p1 = (np.array([float(Fraction(c)) for c in p.split(";")]) for p in args[:2])
                length = float(np.linalg.norm(p1 - p0))
                g.trace.parametric(lambda th: p0 + np.asarray(th)[:, None] * (p1 - p0), length)
            else:
                raise RuntimeError("harness: unknown shape " + shape)
        except RuntimeError:
            raise
        except Exception as e:  # noqa
            err = type(e).__name__
        finally:
            del g.move
        self.last_trace_error = err
        self.trace_errors = getattr(self, "trace_errors", []) + ([f"{shape}:{err}"] if err else [])
        return calls

    def _move_args(self, args):
        kw, pt = {}, {}
        for a in args:
            if a[:2] in ("x=", "y=", "z="):
                if a[2:] != "-":
                    pt[a[0]] = parse_val(a[2:])
            elif a.startswith("h="):
                pass
            else:
                k, v = a.split(":")
                # parameter names are case-insensitive by contract (`ParamsDict`); `cfg lower=1` spells them in lower case
                kw[k.lower() if getattr(self, "lower", False) else k] = parse_val(v)
                self.letters.add(k.upper())
        return pt, kw

    def _with_h(self, line, pt, absolute):
        """hypot(dx, dy) of the move about to be issued (a parameter of the model's extrusion hook)."""
        g = self.g
        try:
            cur = g.position.resolve()
            if absolute or not g.distance_mode.is_relative:
                tx = pt.get("x", cur.x)
                ty = pt.get("y", cur.y)
            else:
                tx = cur.x + (pt.get("x") or 0)
                ty = cur.y + (pt.get("y") or 0)
            h = math.hypot(tx - cur.x, ty - cur.y)
            if math.isfinite(h):
                return re.sub(r" h=\S+", "", line) + " h=" + show(Fraction(h))
        except Exception:
            pass
        return re.sub(r" h=\S+", "", line) + " h=0"

    def _call(self, op, args, line):
        g = self.g
        if op == "fmtdp":
            # harness-only (the builder model does not render text): the formatter's precision changes mid-program
            g.format.set_decimal_places(int(args[0]))
            self.dp = int(args[0])
        elif op in ("move", "rapid", "moveabs", "rapidabs"):
            pt, kw = self._move_args(args)
            line = self._with_h(line, pt, op.endswith("abs"))
            fn = {"move": g.move, "rapid": g.rapid, "moveabs": g.move_absolute, "rapidabs": g.rapid_absolute}[op]
            fn(*self._spell(pt), **pt, **kw)
        elif op == "setaxis":
            pt, kw = self._move_args(args)
            g.set_axis(*self._spell(pt), **pt, **kw)
        elif op == "home":
            pt, kw = self._move_args(args)
            g.auto_home(*self._spell(pt), **pt, **kw)
        elif op == "probe":
            pt, kw = self._move_args(args[1:])
            g.probe(args[0], *self._spell(pt), **pt, **kw)
        elif op == "dist":
            g.set_distance_mode({"rel": "relative", "abs": "absolute"}.get(args[0], args[0]))
        elif op == "enter":
            cm = g.relative_mode() if args[0] == "rel" else g.absolute_mode()
            self.ctx.append(cm)
            cm.__enter__()
        elif op == "exit":
            if self.ctx:
                cm = self.ctx.pop()
                cm.__exit__(None, None, None)
        elif op == "exitraise":
            # the body of the `with` block raised: the context manager sees the exception and lets it propagate
            if self.ctx:
                cm = self.ctx.pop()
                exc = KeyError("raised inside the with-block by the harness")
                try:
                    cm.__exit__(KeyError, exc, None)
                except KeyError:
                    pass
        elif op == "feed":
            g.set_feed_rate(parse_val(args[0]))
        elif op == "power":
            g.set_tool_power(parse_val(args[0]))
        elif op == "toolon":
            g.tool_on(args[0], parse_val(args[1]))
        elif op == "tooloff":
            g.tool_off()
        elif op == "poweron":
            g.power_on(args[0], parse_val(args[1]))
        elif op == "poweroff":
            g.power_off()
        elif op == "coolon":
            g.coolant_on(args[0])
        elif op == "cooloff":
            g.coolant_off()
        elif op == "toolchange":
            g.tool_change(args[0], int(args[1]))
        elif op == "halt":
            _, kw = self._move_args(args[1:])
            mode = args[0]
            if mode == "pause" and not kw and self._alt():
                g.pause()
            elif mode == "optional-pause" and not kw and self._alt():
                g.pause(True)
            elif mode == "end-without-reset" and not kw and self._alt():
                g.stop()
            elif mode == "end-with-reset" and not kw and self._alt():
                g.stop(True)
            elif mode == "wait-for-motion" and not kw and self._alt():
                g.wait()
            else:
                g.halt(mode, **kw)
        elif op == "ehalt":
            n = int(args[1]) if len(args) > 1 else 0
            msg = "harness" if not n else ("tool crash: " + "x" * n)[:n]
            g.emergency_halt(msg, args[0] == "1")
            line = "ehalt " + args[0]
        elif op == "bed":
            g.set_bed_temperature(parse_val(args[0]))
        elif op == "hotend":
            g.set_hotend_temperature(parse_val(args[0]))
        elif op == "chamber":
            g.set_chamber_temperature(parse_val(args[0]))
        elif op == "sleep":
            g.sleep(parse_val(args[0]))
        elif op == "fan":
            g.set_fan_speed(parse_val(args[0]), int(args[1]))
        elif op == "units":
            g.set_length_units(args[0])
        elif op == "plane":
            i = int(args[0])
            g.set_plane(self.PLANES[i] if i < 3 else "bogus")
        elif op == "dir":
            g.set_direction("counter" if args[0] == "ccw" else "clockwise")
        elif op == "res":
            g.set_resolution(float(Fraction(args[0])))
        elif op == "emode":
            g.set_extrusion_mode("relative" if args[0] == "rel" else "absolute")
        elif op == "fmode":
            i = int(args[0])
            g.set_feed_mode(self.FMODES[i] if i < 3 else "bogus")
        elif op == "tunits":
            g.set_time_units("milliseconds" if args[0] == "ms" else "seconds")
        elif op == "tempunits":
            g.set_temperature_units("kelvin" if args[0] == "k" else "celsius")
        elif op == "query":
            g.query("temperature" if args[0] == "t" else "position")
        elif op == "comment":
            g.comment("harness comment")
        elif op == "boundsaxes":
            v = [float(Fraction(a)) for a in args]
            g.set_bounds("axes", tuple(v[:3]), tuple(v[3:]))
        elif op == "bounds":
            lo, hi = Fraction(args[1]), Fraction(args[2])
            g.set_bounds(args[0], _num(lo), _num(hi))
        elif op == "hookctx":
            # `with g.move_hook(hook):` entered / left (also on the exception path); the model sees add / remove
            spec = args[1]
            if args[0] == "enter":
                if spec not in self.hooks:
                    self.hooks[spec] = self._mk_hook(spec)
                cm = g.move_hook(self.hooks[spec].on_move)
                cm.__enter__()
                self.hook_ctx = getattr(self, "hook_ctx", []) + [(spec, cm)]
                line = f"hook add {self.model_hook_spec(spec)}"
            else:
                stack = getattr(self, "hook_ctx", [])
                if stack:
                    spec, cm = stack.pop()
                    if args[0] == "exitraise":
                        try:
                            cm.__exit__(KeyError, KeyError("raised in the with-block by the harness"), None)
                        except KeyError:
                            pass
                    else:
                        cm.__exit__(None, None, None)
                    line = f"hook remove {self.model_hook_spec(spec)}"
                else:
                    line = "comment"
                    g.comment("harness comment")
        elif op == "hook":
            spec = args[1]
            if args[0] == "add":
                if spec not in self.hooks:
                    self.hooks[spec] = self._mk_hook(spec)
                g.add_hook(self.hooks[spec].on_move)
            else:
                if spec in self.hooks:
                    g.remove_hook(self.hooks[spec].on_move)
            line = f"hook {args[0]} {self.model_hook_spec(spec)}"
        else:
            raise RuntimeError(f"harness: unknown op {op}")
        return line

    _alt_flip = 0

    def _spell(self, pt):
        """The target of a move is given `as a Point object or as individual x, y, z coordinates`: every fourth call passes
        it as a point, every eighth call as a point *and* keyword coordinates (the point is the target; by the documented
        contract of `_process_move_params` the keyword coordinates are then replaced by the point's).  Returns the
        positional arguments; `pt` is emptied or refilled with the decoy keywords in place."""
        self._spell_n = getattr(self, "_spell_n", 0) + 1
        if self._spell_n % 4 != 0:
            return ()
        from gscrib.geometry import Point
        target = Point(pt.get("x"), pt.get("y"), pt.get("z"))
        decoy = self._spell_n % 8 == 0
        axes = ("xyz" if self._spell_n % 16 == 0 else list(pt)) if decoy else []     # also for axes the point leaves out
        pt.clear()
        for a in axes:
            pt[a] = 777.25
        return (target,)

    def _alt(self):
        # alternate between the convenience wrappers (pause/stop/wait) and halt(mode)
        Impl._alt_flip ^= 1
        return bool(Impl._alt_flip)

    # ---- observation
    def state_record(self) -> str:
        g, s = self.g, self.g.state

        def pt(p):
            return ",".join(canon_float(v) for v in (p.x, p.y, p.z))

        def b(v):
            return "1" if v else "0"

        ps = []
        for k in sorted(self.letters):
            v, v2 = g.get_parameter(k), s.get_parameter(k)
            if (v is None) != (v2 is None) or (v is not None and v != v2):
                ps.append(f"{k}:MISMATCH({v!r}|{v2!r})".replace(",", ";").replace(" ", ""))
            elif v is not None:
                ps.append(f"{k}:{canon_float(v)}")
        last = "-"
        if self.hook_log:
            o, t = self.hook_log[-1]
            last = f"{pt(o)}>{pt(t)}"
        return (
            f"pos={pt(g.position)} spos={pt(s.position)} rel={b(g.distance_mode.is_relative)} "
            f"srel={b(s.distance_mode.is_relative)} tool={b(s.is_tool_active)} coola={b(s.is_coolant_active)} "
            f"spin={s.spin_mode.value} pmode={s.power_mode.value} cool={s.coolant_mode.value} "
            f"power={canon_float(s.tool_power)} feed={canon_float(s.feed_rate)} tnum={s.tool_number} "
            f"swap={s.tool_swap_mode.value} halt={s.halt_mode.value} bed={canon_float(s.target_bed_temperature)} "
            f"hot={canon_float(s.target_hotend_temperature)} ch={canon_float(s.target_chamber_temperature)} "
            f"erel={b(s.extrusion_mode.value == 'relative')} fmode={self.FMODES.index(s.feed_mode.value)} "
            f"inches={b(s.length_units.value == 'inches')} plane={self.PLANES.index(s.plane.value)} "
            f"ccw={b(s.direction.value != 'clockwise')} res={canon_float(s.resolution)} "
            f"ms={b(s.time_units.value == 'milliseconds')} kelvin={b(s.temperature_units.value == 'kelvin')} "
            f"params={','.join(ps) if ps else '-'} nhook={len(self.hook_log)} lasthook={last}"
        )


def _val(v) -> str:
    v = float(v)
    if math.isnan(v):
        return "nan"
    if math.isinf(v):
        return "inf" if v > 0 else "-inf"
    return show(Fraction(v))


def _num(q: Fraction):
    return int(q) if q.denominator == 1 else float(q)


def parse_record(rec: str) -> dict:
    return dict(f.split("=", 1) for f in rec.split(" "))

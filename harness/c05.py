"""C05 - a rejected command has no effect.

Model: Model/Builder.lean; theorems: Props/C05.lean.  Oracle: complete observable state before == after
and no byte written, for every call of the history that raised."""
from __future__ import annotations

from . import builder_common as bc
from . import core
from .builder_impl import parse_record

PROP = "C05"
KEYS = bc.ALL_KEYS
STATE_KEYS = [k for k in bc.ALL_KEYS if k not in ("out", "stmts", "nhook", "lasthook")]
W = dict(move=24, moveabs=10, setaxis=6, home=3, probe=7, dist=5, enter=3, exit=3, feed=5, power=4, toolon=6, tooloff=3,
         poweron=5, poweroff=3, coolon=4, cooloff=3, toolchange=5, halt=9, ehalt=1, temp=6, misc=7, bounds=7, hook=3)
FINDING = "C05-absolute-bypass-hook-params"
INIT = ("out=ok stmts=- pos=~,~,~ spos=0,0,0 rel=0 srel=0 tool=0 coola=0 spin=off pmode=off cool=off power=0 feed=0 tnum=0 "
        "swap=off halt=off bed=~ hot=~ ch=~ erel=0 fmode=1 inches=0 plane=0 ccw=0 res=1/10 ms=0 kelvin=0 params=- nhook=0 lasthook=-")


def oracle(lines, recs, im):
    out = []
    prev = parse_record(INIT)
    hooks = set()
    for i, (ln, rec) in enumerate(zip(lines, recs)):
        r = parse_record(rec)
        ws = ln.split()
        if r["out"] != "ok":
            changed = [k for k in STATE_KEYS if r[k] != prev[k]]
            site = ""
            if ws[0] == "moveabs" and prev["rel"] == "1" and hooks:
                site = "bypass-with-hooks"
            if changed:
                out.append((i, f"rejected `{ln}` ({r['out']}) changed {[(k, prev[k], r[k]) for k in changed]}", "state-changed"))
            if r["stmts"] != "-":
                out.append((i, f"rejected `{ln}` ({r['out']}) wrote {r['stmts']}", "wrote:" + site))
        if ws[0] == "hook" and r["out"] == "ok":
            (hooks.add if ws[1] == "add" else hooks.discard)(ws[2])
        prev = r
    return out


def histories(R, n):
    hs = []
    for _ in range(n):
        g = bc.Gen(R.rng, W, malformed=R.rng.choice([0.1, 0.25, 0.5]))
        hs.append(g.history(R.rng.randint(8, 35)))
    return hs


def creep_cases(R, n):
    """oracle-only (the coordinates are decimal fractions, off the exact grid the model is compared on): equal relative
    steps whose binary sum overshoots a decimal axis limit by a rounding error, the refused step carrying new F / S words"""
    for _ in range(n):
        h = bc.Gen(R.rng, W).creep()
        lines, recs, im = bc.run_impl(h)
        R.evaluations += 1
        R.count("creep", "creep-rejections:%d" % sum(1 for r in recs if not r.startswith("out=ok")))
        for step, msg, tag in oracle(lines, recs, im):
            R.fail({"history": lines[: step + 1]}, msg, tag=tag, step=step)


def witness():
    h = ["dist rel", "bounds feed-rate 200 1000", "hook add limitF:100", "moveabs x=1 F:500"]
    lines, recs, im = bc.run_impl(h)
    r = parse_record(recs[-1])
    still = r["out"] != "ok" and r["stmts"] != "-"
    return still, f"{h} -> out={r['out']} stmts={r['stmts']}"


def run(R: core.Run):
    R.rule = ("random histories (8-35 calls) over the whole builder API with 10-50% malformed arguments (NaN, +-inf, negative, "
              "bad enum, one grid step outside a bound, interlock violations) so that calls fail at their first, middle and "
              "last validation step; non-trivial = contains a rejected call after at least one emitting call; distinct by hash")
    R.assumptions = ["exact arithmetic on the dyadic grid", "hooks return parameters that pass validation (else: known finding)"]
    nt = lambda lines, recs: any("out=ok" not in r.split(" ", 1)[0] for r in recs[1:]) and any("stmts=-" not in r for r in recs)
    corpus = [["boundsaxes -10 -10 -10 10 10 10", "move x=1000", "dist rel", "move x=-995"],
              ["bounds bed-temperature 0 120", "halt wait-for-bed S:500", "halt wait-for-bed S:100 P:nan"],
              ["dist rel", "moveabs x=inf", "moveabs x=1 F:-1"], ["feed nan", "toolon clockwise inf", "power -1"],
              ["bounds feed-rate 100 200", "move x=1 F:500 S:5", "probe towards z=-1 F:1"]]
    bc.correspond(R, corpus, KEYS, True, "corpus", oracle, nt)
    bc.correspond(R, histories(R, R.n(1500, 20000)), KEYS, True, "random", oracle, nt)
    creep_cases(R, R.n(60, 600))
    if R.broken:
        R.search_batches += 1
        for h in histories(R, R.n(1500, 5000)):
            lines, recs, im = bc.run_impl(h)
            R.evaluations += 1
            for step, msg, tag in oracle(lines, recs, im):
                R.fail({"history": lines[: step + 1]}, msg, tag=tag, step=step)
    preds = {FINDING: lambda fl: fl.get("tag") == "wrote:bypass-with-hooks" and "G90;G91" in fl.get("message", "")}
    return preds, {FINDING: witness}


def replay(data):
    return bc.replay(data, KEYS, oracle)

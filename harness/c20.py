"""C20 - move hooks see the true move; extrusion matches path length.

Model: Model/Builder.lean (hooks as data, calls as an output of `step`) + Machine.lean (EMachine);
theorems: Props/C20.lean.  Oracle: an independent position + extruder interpreter of the bytes the real builder
wrote, against the hook calls recorded by wrappers around the real hooks (incl. the bundled `extrusion_hook`)."""
from __future__ import annotations

import math
from fractions import Fraction

from . import builder_common as bc
from . import core
from .builder_impl import Impl, parse_record, show

PROP = "C20"
KEYS = ["out", "stmts", "pos", "rel", "erel", "feed", "power", "params", "nhook", "lasthook"]
W = dict(move=40, moveabs=8, setaxis=8, dist=6, enter=2, exit=2, feed=2, misc=2, hook=6)
FINDING = "C20-abs-after-relative"


def gen_history(R):
    r = R.rng
    g = bc.Gen(r, W, malformed=0.04)
    geo = (show(Fraction(r.choice([3, 5, 8]), 40)), show(Fraction(r.choice([8, 16, 24]), 40)), show(Fraction(r.choice([56, 70, 114]), 40)))
    ext = "extrude:" + ":".join(geo)
    h = ["setaxis x=0 y=0 z=0"]
    n = r.randint(6, 35)
    use_ext = r.random() < 0.6
    if use_ext:
        h.append("hook add " + ext)
    for _ in range(n):
        x = r.random()
        if use_ext and x < 0.10:
            h.append("emode " + r.choice(["rel", "abs"]))
        elif use_ext and x < 0.18:
            h.append("setaxis E:" + show(Fraction(r.randint(0, 64), 32)))
        elif x < 0.22:
            h.append(f"hook {r.choice(['add', 'add', 'remove'])} "
                     f"{r.choice(['record', 'limitF:600', 'limitF:100', ext, 'drop:Q', 'drop:F', 'drop:E', 'drop:S'])}")
        elif x < 0.25:
            h.append(r.choice(["hookctx enter " + r.choice(["record", "limitF:600"]), "hookctx exit x", "hookctx exitraise x"]))
        elif x < 0.27:
            pts = " ".join(";".join(show(Fraction(r.randint(-160, 160), 32)) for _ in range(3)) for _ in range(r.randint(1, 4)))
            h.append("trace polyline " + pts)
        else:
            op = g.op()
            if op.split()[0] in ("move", "moveabs") and r.random() < 0.25:
                op += " Q:" + str(r.randint(0, 3))     # a marker parameter some hook may consume
            if use_ext:
                op = " ".join(w for w in op.split() if not w.startswith("E:"))  # the hook owns E
            h.append(op)
    return h


def oracle(lines, recs, im):
    out = []
    pos = {"X": None, "Y": None, "Z": None}
    rel = False
    epos, erel = Fraction(0), False
    switched = False           # the last statement that set E was a relative-mode move: remembered E != extruder position (not ESync)
    hooks = []
    ncalls = 0
    for i, (ln, rec) in enumerate(zip(lines, recs)):
        r = parse_record(rec)
        ws = ln.split()
        new_calls = im.hook_log[ncalls:int(r["nhook"])] if int(r["nhook"]) <= len(im.hook_log) else []
        ncalls = int(r["nhook"])
        g1 = 0
        for s in ([] if r["stmts"] == "-" else r["stmts"].split(";")):
            toks = [] if s == "_" else s.split(",")
            codes = {t for t in toks if ":" not in t}
            words = {t.split(":")[0]: Fraction(t.split(":")[1]) for t in toks if ":" in t}
            if "G90" in codes:
                rel = False
            elif "G91" in codes:
                rel = True
            elif "M82" in codes:
                erel = False
            elif "M83" in codes:
                erel = True
            elif "G92" in codes:
                for a in "XYZ":
                    if a in words:
                        pos[a] = words[a]
                if "E" in words:
                    epos, switched = words["E"], False
            elif codes & {"G0", "G1"}:
                before = dict(pos)
                for a in "XYZ":
                    if a in words:
                        pos[a] = (None if pos[a] is None else pos[a] + words[a]) if rel else words[a]
                e_before = epos
                was_switched = switched
                if "E" in words:
                    epos = epos + words["E"] if erel else words["E"]
                    switched = erel
                if "G1" in codes:
                    g1 += 1
                    if hooks:
                        if len(new_calls) != len(hooks):
                            out.append((i, f"`{ln}`: {len(new_calls)} hook calls for {len(hooks)} registered hooks", "call-count"))
                        for (o, t) in new_calls:
                            for a, ov, tv in zip("XYZ", tuple(o), tuple(t)):
                                if before[a] is not None and abs(Fraction(float(ov)) - before[a]) > Fraction(1, 10**9):
                                    out.append((i, f"hook origin {a}={ov}, machine was at {show(before[a])}", "origin"))
                                if pos[a] is not None and abs(Fraction(float(tv)) - pos[a]) > Fraction(1, 10**5):
                                    out.append((i, f"hook target {a}={tv}, machine went to {show(pos[a])}", "target"))
                        lim = [Fraction(h.split(":")[1]) for h in hooks if h.startswith("limitF")]
                        if lim and "F" in words and words["F"] > min(lim):
                            out.append((i, f"emitted F={words['F']} above the hook's limit {min(lim)}", "params"))
                        if "F" in words and Fraction(r["feed"]) != words["F"]:
                            out.append((i, f"emitted F={words['F']} but state.feed_rate={r['feed']}", "params"))
                        # a parameter the LAST hook of the chain removes (and no later hook adds) is neither written nor remembered
                        if hooks[-1].startswith("drop:") and hooks[-1].split(":")[1] in words:
                            out.append((i, f"`{ln}` wrote {hooks[-1].split(':')[1]} although the last hook ({hooks[-1]}) returned "
                                           f"the parameters without it", "params"))
                        ext = [h for h in hooks if h.startswith("extrude")]
                        if ext and new_calls and ext[-1] == hooks[-1]:
                            layer, nozzle, fil = (float(Fraction(x)) for x in ext[-1].split(":")[1:])
                            o, t = new_calls[-1]
                            want = nozzle * layer / (math.pi * (fil / 2) ** 2) * math.hypot(float(t.x) - float(o.x), float(t.y) - float(o.y))
                            got = float(words.get("E", 0)) if erel else float(epos - e_before)
                            if "E" not in words or abs(got - want) > 2e-5:
                                tag = "extrusion" + (":abs-switched" if (not erel and was_switched) else "")
                                out.append((i, f"`{ln}` commanded {got} of filament, k x XY length = {want}", tag))
                    elif new_calls:
                        out.append((i, "hook called although none is registered", "call-count"))
        if r["out"] == "ok" and not g1 and new_calls:
            out.append((i, f"`{ln}` emitted no linear move but made {len(new_calls)} hook calls", "call-count"))
        if ws[0] == "hook" and r["out"] == "ok":
            spec = ws[2]
            if ws[1] == "add" and spec not in hooks:
                hooks.append(spec)
            if ws[1] == "remove" and spec in hooks:
                hooks.remove(spec)
    return out


class ImplSpec(Impl):
    """keeps the harness-side hook spec (geometry) next to the model-side one"""


def run_impl_keep_specs(h):
    """run_impl rewrites `hook add extrude:<l>:<n>:<f>` to the model form; the oracle needs the original lines"""
    lines, recs, im = bc.run_impl(h)
    return lines, recs, im


def correspond(R, hs, label):
    done = []
    for h in hs:
        lines, recs, im = bc.run_impl(h)
        # the oracle reads the harness-side form of `hook …` lines (they carry the extrusion geometry)
        olines = [src if src.startswith("hook ") else ln for ln, src in zip(lines, im.src_lines)]
        for step, msg, tag in oracle(olines, recs, im):
            R.fail({"history": h, "step_line": olines[step]}, msg, tag=tag, step=step)
        done.append((lines, recs))
    model = bc.run_model([l for l, _ in done])
    for (lines, recs), mrecs in zip(done, model):
        R.case({"history": lines[:12]}, nontrivial=sum(1 for r in recs if "nhook=0" not in r) >= 2)
        R.count(label)
        for ln, rec in zip(lines, recs):
            R.count("op:" + ln.split()[0], "out:" + rec.split(" ", 1)[0][4:])
        for i, (ir, mr) in enumerate(zip(recs, mrecs)):
            bad = bc.diff(ir, mr, KEYS, False)
            if bad:
                R.disagree(f"builder[{','.join(bad)}]", {"history": lines[: i + 1]},
                           {k: parse_record(ir).get(k) for k in bad}, {k: parse_record(mr).get(k) for k in bad}, step=i)
                break


WITNESS = ["setaxis x=0 y=0 z=0", "hook add extrude:1/5:2/5:7/4", "emode rel", "move x=3 y=4", "move x=6 y=8", "emode abs", "move x=9 y=12"]


def witness():
    lines, recs, im = bc.run_impl(WITNESS)
    fails = oracle(WITNESS, recs, im)
    return bool(fails), f"{WITNESS} -> {fails[0][1] if fails else 'ok'}"


def hook_cases(R, n):
    """oracle-only: hooks that veto a move by raising, call the API themselves, or return parameters the move is refused for
    (builder_common.hook_sessions).  For every linear move the registered hooks are called once each, in registration order, up to
    the first one that raises - also for the moves that follow a vetoed one."""
    for case, events, _specs in bc.hook_sessions(R.rng, n):
        R.evaluations += 1
        R.count("hook-sessions")
        for k, e in enumerate(events):
            if e["name"] not in ("move", "move_absolute"):
                continue
            reg, got = e["registered"], e["hooks"]
            R.count("hook-sessions:move " + ("vetoed" if e["raised"] == "RuntimeError" else "refused" if e["raised"] else "done"))
            if e["name"] == "move_absolute" and e["raised"] in ("ValueError",) and not got:
                continue                      # refused by the validation that precedes the hooks
            ok = got == reg[:len(got)] and (len(got) == len(reg) or e["raised"] == "RuntimeError") and len(got) >= 1
            if not ok:
                R.fail(dict(case, step=k), f"`{e['call']}` ({'raised ' + e['raised'] if e['raised'] else 'done'}) called hooks {got}, "
                       f"registered {reg}: every hook is called once per linear move, in order, up to the first that raises", tag="hook-calls")
                break


def run(R: core.Run):
    R.rule = ("random histories of moves, rapids, absolute-bypass moves, polylines, distance- and extrusion-mode switches and E "
              "resets with a recording hook, an F limiter (parameter-modifying) and the bundled extrusion hook with random "
              "geometry; non-trivial = at least two calls that reached a hook; distinct by hash")
    R.assumptions = ["hypot and pi are trusted to libm; E compared after formatting at 5 decimals (tolerance 2e-5)",
                     "hooks are the data-described ones of the model; arbitrary user hooks are not modelled"]
    correspond(R, [WITNESS, ["setaxis x=0 y=0 z=0", "hook add record", "hook add limitF:100", "move x=1 F:500", "rapid x=2 F:500",
                             "dist rel", "move x=1 y=1 F:50", "moveabs x=0 F:700", "probe towards z=-1 F:20", "hook remove record", "move y=2"]],
               "corpus")
    correspond(R, [gen_history(R) for _ in range(R.n(1000, 20000))], "random")
    hook_cases(R, R.n(200, 2500))
    if R.broken:
        R.search_batches += 1
        for _ in range(R.n(1000, 5000)):
            h = gen_history(R)
            lines, recs, im = bc.run_impl(h)
            R.evaluations += 1
    preds = {FINDING: lambda fl: fl.get("tag") == "extrusion:abs-switched"}
    return preds, {FINDING: witness}


def replay(data):
    return bc.replay(data, KEYS)

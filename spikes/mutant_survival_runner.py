"""Design-phase check: which candidate 'realistic' mutants survive the repository's own test suite."""
import os, shutil, subprocess, sys, json, concurrent.futures as cf
MUTANTS = [
 ("P01_C08_feed_raw_number", "gscrib/gcode_builder.py", """        self.state._set_feed_rate(speed)
        statement = self.format.parameters({ "F": speed })""", """        self.state._set_feed_rate(speed)
        statement = "F" + str(speed)"""),
 ("P02_C08_no_finite_check", "gscrib/formatters/default_formatter.py", """        if not np.isfinite(float(number)):
            raise ValueError("Number cannot be infinite or NaN")
""", ""),
 ("P03_C11_helix_raw_target_z", "gscrib/geometry/tracer.py", """        total_angle = base_angle + turn_angle * (turns - 1)

        height = t.z - o.z if len(target) > 2 else 0""", """        total_angle = base_angle + turn_angle * (turns - 1)

        height = target[2] if len(target) > 2 else 0"""),
 ("P04_C13_copy_state_shallow_stack", "gscrib/geometry/transformer.py", "            copy.deepcopy(self._transforms_stack),", "            copy.copy(self._transforms_stack),"),
 ("P05_C13_named_ctx_no_revert", "gscrib/gcode_core.py", """        state = self.transform._copy_state()
        self.transform.restore_state(name)

        try:
            yield self.transform
        finally:
            self.transform._revert_state(state)""", """        state = self.transform._copy_state()
        self.transform.restore_state(name)

        yield self.transform"""),
 ("P06_C11_arc_center_from_target_rel", "gscrib/geometry/tracer.py", """        o = self._g.position.resolve()
        t = self._g.to_absolute(target)
        c = o + Point(*center).resolve()

        # Validate that both points lie on the same circle""", """        o = self._g.position.resolve()
        t = self._g.to_absolute(target)
        c = o + Point(*center).resolve()
        if self._g.distance_mode.is_relative and len(target) > 2:
            t = Point(t.x, t.y, target[2])

        # Validate that both points lie on the same circle"""),
 ("P07_C01_rapid_absolute_keeps_mode", "gscrib/gcode_core.py", """        with self.absolute_mode():
            statement, params = self._prepare_rapid(move, params, comment)
            self._update_axes(target_axes, params)
            self.write(statement)""", """        if True:
            statement, params = self._prepare_rapid(move, params, comment)
            self._update_axes(target_axes, params)
            self.write(statement)"""),
 ("P08_C02_tool_change_ignores_coolant", "gscrib/gcode_state.py", '        self._ensure_coolant_is_inactive("Tool change with coolant on.")\n', ""),
]

def one(m):
    name, path, old, new = m
    d=f"/tmp/mut/{name}"
    if os.path.exists(d): shutil.rmtree(d)
    shutil.copytree("/repo", d, ignore=shutil.ignore_patterns(".git",".benchmarks","docs","__pycache__"))
    fp=os.path.join(d,path); s=open(fp).read()
    if s.count(old)!=1:
        shutil.rmtree(d); return name, "PATTERN-NOT-UNIQUE(%d)"%s.count(old)
    open(fp,"w").write(s.replace(old,new))
    env=dict(os.environ, PYTHONPATH=d, PYTHONDONTWRITEBYTECODE="1")
    r=subprocess.run(["/venv/bin/python","-m","pytest","-q","-p","no:cacheprovider","--timeout=600","--no-header","-o","addopts=","--deselect","tests/test_file_writer.py::test_write_to_invalid_path","--deselect","tests/test_printrun_core.py::TestConnect::test_bad_ports"], cwd=d, env=env, capture_output=True, text=True)
    tail=[l for l in r.stdout.strip().splitlines() if l.strip()][-1] if r.stdout.strip() else r.stderr[-200:]
    # confirm the copy was the code under test
    chk=subprocess.run(["/venv/bin/python","-c","import gscrib;print(gscrib.__file__)"],cwd=d,env=env,capture_output=True,text=True).stdout.strip().splitlines()[-1]
    shutil.rmtree(d)
    return name, ("SURVIVES" if r.returncode==0 else "killed")+" | "+tail+" | "+chk
with cf.ThreadPoolExecutor(8) as ex:
    for name,res in ex.map(one, MUTANTS): print(f"{name:36s} {res}", flush=True)

"""Design-phase check: which candidate 'realistic' mutants survive the repository's own test suite.
Copies /repo to /tmp/mut/<name>, applies one textual edit, runs the full suite there, deletes the copy.
Verdicts observed on 2026-09-29 are in the trailing comments (SURVIVES = all 410 tests pass)."""
import os, shutil, subprocess, sys, json, concurrent.futures as cf
MUTANTS = [
 # ---- batch 1 ----
 ("M01_C02_halt_no_coolant_check", "gscrib/gcode_state.py", '            self._ensure_coolant_is_inactive("Halt with coolant on.")\n', ''),  # killed
 ("M02_C01_to_distance_mode_no_sub", "gscrib/gcode_core.py", "            point.resolve() - origin\n            if self.distance_mode.is_relative else", "            point.resolve()\n            if self.distance_mode.is_relative else"),  # killed
 ("M03_C03_feed_no_bounds", "gscrib/gcode_state.py", '        self._user_bounds.validate("feed-rate", speed)\n', ''),  # SURVIVES
 ("M04_C04_chain_right_multiply", "gscrib/geometry/transform.py", "self._set_matrix(translated_matrix @ self._matrix)", "self._set_matrix(self._matrix @ translated_matrix)"),  # killed
 ("M05_C07_no_S_tracking", "gscrib/gcode_builder.py", '        if params.get("S") is not None:\n            self.state._set_tool_power(params.get("S"))\n', ''),  # SURVIVES
 ("M06_C08_precision_minus_one", "gscrib/formatters/default_formatter.py", "precision=self._decimal_places,", "precision=max(self._decimal_places - 1, 0),"),  # killed
 ("M07_C10_enforce_strict", "gscrib/enums/types/direction.py", "            if angle >= 0:", "            if angle > 0:"),  # killed
 ("M08_C12_tolerance_half", "gscrib/geometry/tracer.py", "tolerance = resolution / 10", "tolerance = resolution / 2"),  # killed
 ("M09_C13_save_no_copy", "gscrib/geometry/transformer.py", "            transform = copy.deepcopy(self._current_transform)\n            self._transforms_stack.append(transform)", "            transform = self._current_transform\n            self._transforms_stack.append(transform)"),  # killed
 ("M10_C14_add_writer_dups", "gscrib/gcode_core.py", "        if not writer in self._writers:\n            self._writers.append(writer)", "        self._writers.append(writer)"),  # SURVIVES
 ("M11_C17_rfind", "gscrib/printrun/device.py", "eol = chunk.find(b'\\n')", "eol = chunk.rfind(b'\\n')"),  # SURVIVES
 ("M12_C18_last_wins", "gscrib/writers/printrun_writer.py", "        if key not in self._reported_params:\n            self._reported_params.add(key)\n            self._current_params[key] = value", "        if True:\n            self._reported_params.add(key)\n            self._current_params[key] = value"),  # SURVIVES
 ("M13_C20_hook_target_relative", "gscrib/gcode_builder.py", "            target = self.to_absolute(point)\n\n            for hook", "            target = point.resolve()\n\n            for hook"),  # killed
 ("M14_C15_checksum_no_prefix", "gscrib/printrun/printcore.py", 'command = prefix + "*" + str(self._checksum(prefix))', 'command = prefix + "*" + str(self._checksum(command))'),  # killed
 ("M15_C16_clear_after_send", "gscrib/writers/printrun_writer.py", "        self._ack_event.clear()\n        self._device.send(command)", "        self._device.send(command)\n        self._ack_event.clear()"),  # SURVIVES
 ("M16_C19_swap_xy", "gscrib/heightmaps/raster_heightmap.py", "self._interpolator(y, x)[0, 0]", "self._interpolator(x, y)[0, 0]"),  # SURVIVES
 ("M17_C11_abs_list_no_accumulate", "gscrib/gcode_core.py", "                current += Point(*point).resolve()\n                results.append(current)", "                results.append(current + Point(*point).resolve())"),  # killed
 ("M18_C02_power_off_keeps_flag", "gscrib/gcode_state.py", "        self._set_tool_power(power)\n        self._is_tool_active = (mode != PowerMode.OFF)", "        self._set_tool_power(power)\n        self._is_tool_active = self._is_tool_active or (mode != PowerMode.OFF)"),  # killed
 ("M19_C01_mask_wrong", "gscrib/geometry/point.py", "            self.x if x is None else None,\n            self.y if y is None else None,", "            self.x if x is None else None,\n            self.y if x is None else None,"),  # killed
 ("M20_C06_emergency_order", "gscrib/gcode_builder.py", "        self.tool_off()\n        self.coolant_off()\n        self.comment(f\"Emergency halt: {message}\")", "        self.coolant_off()\n        self.tool_off()\n        self.comment(f\"Emergency halt: {message}\")"),  # SURVIVES
 ("M21_C04_rel_uses_target", "gscrib/gcode_core.py", "move = (target - origin) if is_relative else target", "move = target"),  # killed
 ("M22_C12_oversample_1x", "gscrib/geometry/tracer.py", "num_segments = max(2, int(10 * length / resolution))", "num_segments = max(2, int(length / resolution))"),  # SURVIVES
 ("M23_C07_halt_wrong_temp", "gscrib/gcode_builder.py", "            elif mode == HaltMode.WAIT_FOR_HOTEND:\n                self.state._set_target_hotend_temperature(temperature)", "            elif mode == HaltMode.WAIT_FOR_HOTEND:\n                self.state._set_target_bed_temperature(temperature)"),  # SURVIVES
 ("M24_C10_arc_radius_center_sign", "gscrib/geometry/tracer.py", "        if is_clockwise == (radius > 0):", "        if is_clockwise != (radius > 0):"),  # SURVIVES
 # ---- batch 2 ----
 ("N01_C01_ctx_no_finally", "gscrib/gcode_core.py", "        mode = DistanceMode.ABSOLUTE\n        previous = self._distance_mode\n\n        if mode != self._distance_mode:\n            self.set_distance_mode(mode)\n\n        try:\n            yield\n        finally:\n            if previous != self._distance_mode:\n                self.set_distance_mode(previous)\n", "        mode = DistanceMode.ABSOLUTE\n        previous = self._distance_mode\n\n        if mode != self._distance_mode:\n            self.set_distance_mode(mode)\n\n        yield\n\n        if previous != self._distance_mode:\n            self.set_distance_mode(previous)\n"),  # SURVIVES
 ("N02_C01_probe_no_mask", "gscrib/gcode_builder.py", "        target_axes = target_axes.mask(move.x, move.y, move.z)\n", "        target_axes = target_axes\n"),  # killed
 ("N03_C01_move_abs_uses_to_absolute", "gscrib/gcode_core.py", "        move, params, comment = self._process_move_params(point, **kwargs)\n        target_axes = self._current_axes.replace(*move)\n\n        with self.absolute_mode():\n            statement, params = self._prepare_move(move, params, comment)", "        move, params, comment = self._process_move_params(point, **kwargs)\n        target_axes = self.to_absolute(move)\n\n        with self.absolute_mode():\n            statement, params = self._prepare_move(move, params, comment)"),  # killed
 ("N04_C02_wait_skips_guard", "gscrib/gcode_state.py", "        if mode != HaltMode.OFF:\n            self._ensure_tool_is_inactive(\"Halt with tool on.\")", "        if mode not in (HaltMode.OFF, HaltMode.WAIT_FOR_MOTION):\n            self._ensure_tool_is_inactive(\"Halt with tool on.\")"),  # SURVIVES
 ("N05_C04_combine_ignores_coupling", "gscrib/geometry/point.py", "        x = m.x if self.x is not None or o.x != t.x else None", "        x = m.x if self.x is not None else None"),  # SURVIVES
 ("N06_C08_tool_on_raw_number", "gscrib/gcode_builder.py", "        self.state._set_spin_mode(mode, speed)\n        params = self.format.parameters({ \"S\": speed })", "        self.state._set_spin_mode(mode, speed)\n        params = \"S\" + str(speed)"),  # killed
 ("N07_C11_abs_list_drops_carry", "gscrib/gcode_core.py", "                current = current.replace(*point)\n                results.append(current)", "                current = Point(*point).resolve()\n                results.append(current)"),  # killed
 ("N08_C13_revert_forgets_stack", "gscrib/geometry/transformer.py", "        self._current_transform = state[0]\n        self._transforms_stack = state[1]", "        self._current_transform = state[0]"),  # killed
 ("N09_C15_sentlines_off_by_one", "gscrib/printrun/printcore.py", "                self.sentlines[lineno] = command", "                self.sentlines[lineno + 1] = command"),  # SURVIVES
 ("N10_C15_resend_no_increment", "gscrib/printrun/printcore.py", "            self.resendfrom += 1\n            return", "            self.resendfrom = -1\n            return"),  # SURVIVES
 ("N11_C20_track_before_hooks", "gscrib/gcode_builder.py", "        if len(self._hooks) > 0:\n            origin = self.position.resolve()\n            target = self.to_absolute(point)\n\n            for hook in self._hooks:\n                params = hook(origin, target, params, self.state)\n\n        self._track_move_params(params)", "        self._track_move_params(params)\n\n        if len(self._hooks) > 0:\n            origin = self.position.resolve()\n            target = self.to_absolute(point)\n\n            for hook in self._hooks:\n                params = hook(origin, target, params, self.state)\n"),  # SURVIVES
 ("N12_C20_extrusion_uses_z", "gscrib/hooks/extrusion_hook.py", "segment_length = math.hypot(dt.x, dt.y)", "segment_length = math.hypot(dt.x, dt.y, dt.z)"),  # SURVIVES
 ("N13_C03_within_bounds_strict_upper", "gscrib/geometry/point.py", "                (min_bound <= value <= max_bound)", "                (min_bound <= value < max_bound)"),  # SURVIVES
 ("N14_C03_set_axis_skips_state", "gscrib/gcode_builder.py", "        target_axes = self._current_axes.replace(*point)\n        statement = self._get_statement(mode, params, comment)\n\n        self._update_axes(target_axes, params)", "        target_axes = self._current_axes.replace(*point)\n        statement = self._get_statement(mode, params, comment)\n\n        GCodeCore._update_axes(self, target_axes, params)"),  # SURVIVES
 ("N15_C10_helix_turns_off_by_one", "gscrib/geometry/tracer.py", "total_angle = base_angle + turn_angle * (turns - 1)", "total_angle = base_angle + turn_angle * turns"),  # SURVIVES
 ("N16_C10_arc_z_not_linear", "gscrib/geometry/tracer.py", "            z = o.z + thetas * height\n            return np.column_stack((x, y, z))\n\n        total_length = np.hypot(radius * total_angle, height)", "            z = o.z + thetas * thetas * height\n            return np.column_stack((x, y, z))\n\n        total_length = np.hypot(radius * total_angle, height)"),  # SURVIVES
 ("N17_C07_units_no_rescale", "gscrib/gcode_builder.py", "            self.set_resolution(length_units.scale(in_px))\n", ""),  # SURVIVES
 ("N18_C14_teardown_no_clear", "gscrib/gcode_core.py", "            writer.disconnect(wait)\n\n        self._writers.clear()", "            writer.disconnect(wait)"),  # SURVIVES
 ("N19_C17_drop_remainder", "gscrib/printrun/device.py", "                if eol + 1 < len(chunk):\n                    self._read_buffer.append(chunk[(eol+1):])", "                if eol + 2 < len(chunk):\n                    self._read_buffer.append(chunk[(eol+1):])"),  # SURVIVES
 ("N20_C18_fs_outside_status", "gscrib/writers/printrun_writer.py", 'elif key == "FS" and message.startswith("<"):', 'elif key == "FS":'),  # SURVIVES
 ("N21_C19_filter_prev_sample", "gscrib/heightmaps/raster_heightmap.py", "            if abs(point[2] - last_z) >= tolerance:\n                lines.append(point)\n                last_z = point[2]", "            if abs(point[2] - last_z) >= tolerance:\n                lines.append(point)\n            last_z = point[2]"),  # SURVIVES
 ("N22_C16_ok_anywhere", "gscrib/writers/printrun_writer.py", "            if lower_message.startswith(SUCCESS_PREFIXES):", "            if 'ok' in lower_message:"),  # SURVIVES
 ("N23_C06_coolant_off_guard", "gscrib/gcode_state.py", "        if mode != CoolantMode.OFF:\n            self._ensure_coolant_is_inactive(\"Coolant already active.\")", "        if mode != CoolantMode.OFF:\n            self._ensure_coolant_is_inactive(\"Coolant already active.\")\n        else:\n            self._ensure_tool_is_inactive(\"Stop the tool first.\")"),  # SURVIVES
 ("N24_C12_filter_no_reset", "gscrib/geometry/tracer.py", "            if remaining < tolerance:\n                remaining = resolution\n                continue", "            if remaining < tolerance:\n                remaining += resolution\n                continue"),  # SURVIVES
 # ---- batch 3 (verdicts: P01 SURVIVES, P02 killed, P03 SURVIVES, P04 SURVIVES, P05 SURVIVES, P06 SURVIVES, P07 killed, P08 killed) ----
 ("P01_C08_feed_raw_number", "gscrib/gcode_builder.py", """        self.state._set_feed_rate(speed)
        statement = self.format.parameters({ "F": speed })""", """        self.state._set_feed_rate(speed)
        statement = "F" + str(speed)"""),
 ("P02_C08_no_finite_check", "gscrib/formatters/default_formatter.py", """        if not np.isfinite(float(number)):
            raise ValueError("Number cannot be infinite or NaN")
""", ""),
 ("P03_C11_helix_raw_target_z", "gscrib/geometry/tracer.py", """        total_angle = base_angle + turn_angle * (turns - 1)

        height = t.z - o.z if len(target) > 2 else 0""", """        total_angle = base_angle + turn_angle * (turns - 1)

        height = target[2] if len(target) > 2 else 0"""),
 ("P04_C13_copy_state_shallow_stack", "gscrib/geometry/transformer.py", "            copy.deepcopy(self._transforms_stack),", "            copy.copy(self._transforms_stack),"),
 ("P05_C13_named_ctx_no_revert", "gscrib/gcode_core.py", """        state = self.transform._copy_state()
        self.transform.restore_state(name)

        try:
            yield self.transform
        finally:
            self.transform._revert_state(state)""", """        state = self.transform._copy_state()
        self.transform.restore_state(name)

        yield self.transform"""),
 ("P06_C11_arc_center_from_target_rel", "gscrib/geometry/tracer.py", """        o = self._g.position.resolve()
        t = self._g.to_absolute(target)
        c = o + Point(*center).resolve()

        # Validate that both points lie on the same circle""", """        o = self._g.position.resolve()
        t = self._g.to_absolute(target)
        c = o + Point(*center).resolve()
        if self._g.distance_mode.is_relative and len(target) > 2:
            t = Point(t.x, t.y, target[2])

        # Validate that both points lie on the same circle"""),
 ("P07_C01_rapid_absolute_keeps_mode", "gscrib/gcode_core.py", """        with self.absolute_mode():
            statement, params = self._prepare_rapid(move, params, comment)
            self._update_axes(target_axes, params)
            self.write(statement)""", """        if True:
            statement, params = self._prepare_rapid(move, params, comment)
            self._update_axes(target_axes, params)
            self.write(statement)"""),
 ("P08_C02_tool_change_ignores_coolant", "gscrib/gcode_state.py", '        self._ensure_coolant_is_inactive("Tool change with coolant on.")\n', ""),
]

def one(m):
    name, path, old, new = m
    d=f"/tmp/mut/{name}"
    if os.path.exists(d): shutil.rmtree(d)
    shutil.copytree("/repo", d, ignore=shutil.ignore_patterns(".git",".benchmarks","docs","__pycache__"))
    fp=os.path.join(d,path); s=open(fp).read()
    if s.count(old)!=1:
        shutil.rmtree(d); return name, "PATTERN-NOT-UNIQUE(%d)"%s.count(old)
    open(fp,"w").write(s.replace(old,new))
    env=dict(os.environ, PYTHONPATH=d, PYTHONDONTWRITEBYTECODE="1")
    r=subprocess.run(["/venv/bin/python","-m","pytest","-q","-p","no:cacheprovider","--timeout=600","--no-header","-o","addopts=","--deselect","tests/test_file_writer.py::test_write_to_invalid_path","--deselect","tests/test_printrun_core.py::TestConnect::test_bad_ports"], cwd=d, env=env, capture_output=True, text=True)
    tail=[l for l in r.stdout.strip().splitlines() if l.strip()][-1] if r.stdout.strip() else r.stderr[-200:]
    # confirm the copy was the code under test
    chk=subprocess.run(["/venv/bin/python","-c","import gscrib;print(gscrib.__file__)"],cwd=d,env=env,capture_output=True,text=True).stdout.strip().splitlines()[-1]
    shutil.rmtree(d)
    return name, ("SURVIVES" if r.returncode==0 else "killed")+" | "+tail+" | "+chk
with cf.ThreadPoolExecutor(8) as ex:
    for name,res in ex.map(one, MUTANTS): print(f"{name:36s} {res}", flush=True)

/-! Spike for C10/C12: `PathTracer._filter_segments` as a function on the list of sample distances.
    `mask[i] = true` means sample i+1 is kept (sample 0 is always kept by `vstack([points[0], ...])`). -/

def filterGo (res tol : Rat) : Rat → List Rat → List Bool
  | _,   []        => []
  | _,   [_]       => [true]                       -- `distances[:-1]` never visits the last one: it stays kept
  | rem, d :: d' :: ds =>
      let r := rem - d
      if r < tol then true :: filterGo res tol res (d' :: ds)
      else false :: filterGo res tol r (d' :: ds)

def filterMask (res : Rat) (ds : List Rat) : List Bool := filterGo res (res / 10) res ds

/-- accumulated (sum, last step) of every emitted segment -/
def segs : Rat → List Rat → List Bool → List (Rat × Rat)
  | acc, d :: ds, b :: bs => if b then (acc + d, d) :: segs 0 ds bs else segs (acc + d) ds bs
  | _, _, _ => []

theorem filterGo_length (res tol : Rat) : ∀ (rem : Rat) (ds : List Rat), (filterGo res tol rem ds).length = ds.length
  | _, [] => by simp [filterGo]
  | _, [_] => by simp [filterGo]
  | rem, d :: d' :: ds => by
      simp only [filterGo]
      split <;> simp [filterGo_length res tol _ (d' :: ds)]

theorem filterGo_ne_nil (res tol rem : Rat) (ds : List Rat) (h : ds ≠ []) : filterGo res tol rem ds ≠ [] := by
  intro e
  have := filterGo_length res tol rem ds
  rw [e] at this
  cases ds <;> simp_all

theorem filterGo_last (res tol : Rat) : ∀ (rem : Rat) (ds : List Rat), ds ≠ [] → (filterGo res tol rem ds).getLast? = some true
  | _, [], h => by simp at h
  | _, [_], _ => by simp [filterGo]
  | rem, d :: d' :: ds, _ => by
      simp only [filterGo]
      split
      · have ih := filterGo_last res tol res (d' :: ds) (by simp)
        have hne := filterGo_ne_nil res tol res (d' :: ds) (by simp)
        cases hg : filterGo res tol res (d' :: ds) with
        | nil => exact absurd hg hne
        | cons b bs => rw [hg] at ih; simpa [List.getLast?_cons_cons] using ih
      · have ih := filterGo_last res tol (rem - d) (d' :: ds) (by simp)
        have hne := filterGo_ne_nil res tol (rem - d) (d' :: ds) (by simp)
        cases hg : filterGo res tol (rem - d) (d' :: ds) with
        | nil => exact absurd hg hne
        | cons b bs => rw [hg] at ih; simpa [List.getLast?_cons_cons] using ih

/-- Every emitted segment except the last one has accumulated length > res - tol, and
    without its final sample step it is ≤ res - tol.  `acc` is what was accumulated before `ds`;
    the code maintains `acc ≤ res - tol` (i.e. `remaining ≥ tolerance`) between decisions. -/
theorem seg_bounds (res tol : Rat) (h0 : 0 ≤ res - tol) : ∀ (ds : List Rat) (acc : Rat), acc ≤ res - tol →
    ∀ s ∈ (segs acc ds (filterGo res tol (res - acc) ds)).dropLast,
      res - tol < s.1 ∧ s.1 - s.2 ≤ res - tol := by
  intro ds
  induction ds with
  | nil => intro acc _ s h; simp [filterGo, segs] at h
  | cons d ds ih =>
    cases ds with
    | nil => intro acc _ s h; simp [filterGo, segs] at h
    | cons d' ds =>
      intro acc hacc s h
      simp only [filterGo] at h
      split at h
      · rename_i hlt
        simp only [segs, if_true] at h
        have e0 : res = res - 0 := by grind
        cases hr : segs 0 (d' :: ds) (filterGo res tol res (d' :: ds)) with
        | nil => rw [hr] at h; simp at h
        | cons x xs =>
          rw [hr] at h
          simp only [List.dropLast_cons₂, List.mem_cons] at h
          rcases h with rfl | h
          · constructor <;> simp <;> grind
          · have := ih 0 (by simpa using h0) s
            rw [← e0, hr] at this
            exact this h
      · rename_i hge
        simp only [segs, Bool.false_eq_true, if_false] at h
        have e : res - acc - d = res - (acc + d) := by grind
        rw [e] at h
        exact ih (acc + d) (by grind) s h

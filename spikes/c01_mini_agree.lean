-- mini C01: one axis, abs/rel moves, G92, home, mode switches
inductive Op where
  | move (v : Option Rat)
  | setAxis (v : Option Rat)
  | home
  | setMode (rel : Bool)
deriving Repr

inductive Stmt where
  | g1 (x : Option Rat)
  | g92 (x : Option Rat)
  | g28
  | g90
  | g91
deriving Repr

structure B where
  pos : Option Rat := none
  rel : Bool := false

structure M where
  pos : Option Rat := none
  rel : Bool := false

def B.step (b : B) : Op → B × List Stmt
  | .move v =>
      let cur := b.pos.getD 0
      let tgt := if b.rel then cur + v.getD 0 else v.getD cur
      let word : Option Rat := match v with
        | none => none
        | some q => some q
      ({ b with pos := some tgt }, [.g1 word])
  | .setAxis v => ({ b with pos := match v with | some q => some q | none => b.pos }, [.g92 v])
  | .home => ({ b with pos := none }, [.g28])
  | .setMode r => ({ b with rel := r }, [if r then .g91 else .g90])

def M.exec (m : M) : Stmt → M
  | .g1 none => m
  | .g1 (some q) => if m.rel then { m with pos := m.pos.map (· + q) } else { m with pos := some q }
  | .g92 none => m
  | .g92 (some q) => { m with pos := some q }
  | .g28 => { m with pos := none }
  | .g90 => { m with rel := false }
  | .g91 => { m with rel := true }

def Agree (b : B) (m : M) : Prop :=
  b.rel = m.rel ∧ ∀ q, m.pos = some q → b.pos = some q

theorem step_agree (b : B) (m : M) (op : Op) (h : Agree b m) :
    Agree (b.step op).1 ((b.step op).2.foldl M.exec m) := by
  obtain ⟨hr, hp⟩ := h
  cases op with
  | move v =>
    cases v with
    | none =>
      simp only [B.step, List.foldl, M.exec, Agree]
      refine ⟨hr, ?_⟩
      intro q hq
      have := hp q hq
      cases hb : b.rel <;> simp_all
    | some w =>
      simp only [B.step, List.foldl, M.exec, Agree]
      cases hb : b.rel <;> cases hm : m.pos <;> simp_all <;> grind
  | setAxis v =>
    cases v <;> simp_all [B.step, M.exec, Agree]
  | home => simp_all [B.step, M.exec, Agree]
  | setMode r => cases r <;> simp_all [B.step, M.exec, Agree]

theorem run_agree (ops : List Op) (b : B) (m : M) (h : Agree b m) :
    let r := ops.foldl (fun (s : B × M) op => ((s.1.step op).1, (s.1.step op).2.foldl M.exec s.2)) (b, m)
    Agree r.1 r.2 := by
  induction ops generalizing b m with
  | nil => simpa
  | cons op ops ih => exact ih _ _ (step_agree b m op h)

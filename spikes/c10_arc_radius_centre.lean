/-! Spike for C10_arc_radius_choice: the centre constructed by `arc_radius` is equidistant (|r|) from start and
    target, and lies on the side that makes the arc minor for r > 0 / major for r < 0 in the selected direction.
    Square roots are abstracted: `d` with d² = |t−o|², `h` with h² = r² − (d/2)² (what `np.hypot`/`np.sqrt` return). -/

/-- centre offset branch: `sameSide = (is_clockwise == (radius > 0))` -/
def centre (ox oy tx ty h d : Rat) (sameSide : Bool) : Rat × Rat :=
  let ax := tx + ox; let ay := ty + oy; let dx := tx - ox; let dy := ty - oy
  if sameSide then (ax / 2 + h * dy / d, ay / 2 - h * dx / d)
  else (ax / 2 - h * dy / d, ay / 2 + h * dx / d)

theorem centre_equidistant (ox oy tx ty h d r : Rat) (s : Bool) (hd : d ≠ 0)
    (hd2 : d * d = (tx - ox) * (tx - ox) + (ty - oy) * (ty - oy))
    (hh2 : h * h = r * r - (d / 2) * (d / 2)) :
    let c := centre ox oy tx ty h d s
    (ox - c.1) * (ox - c.1) + (oy - c.2) * (oy - c.2) = r * r ∧
    (tx - c.1) * (tx - c.1) + (ty - c.2) * (ty - c.2) = r * r := by
  cases s <;> simp only [centre] <;> constructor <;> grind

/-- z-component of (o − c) × (t − c): negative = the short way round from o to t is clockwise -/
def cross (ox oy tx ty cx cy : Rat) : Rat := (ox - cx) * (ty - cy) - (oy - cy) * (tx - cx)

theorem centre_side (ox oy tx ty h d : Rat) (s : Bool) (hd : d ≠ 0)
    (hd2 : d * d = (tx - ox) * (tx - ox) + (ty - oy) * (ty - oy)) :
    let c := centre ox oy tx ty h d s
    cross ox oy tx ty c.1 c.2 = if s then -(h * d) else h * d := by
  cases s <;> simp only [centre, cross] <;> grind

#print axioms centre_equidistant

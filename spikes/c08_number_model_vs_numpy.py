import random, struct, math
from fractions import Fraction
from decimal import Decimal
import numpy as np
from gscrib.formatters import DefaultFormatter

def model(q: Fraction, dp: int) -> str:
    if q == 0: return "0"
    neg = q < 0; a = -q if neg else q
    s = a * 10**dp
    fl = s.numerator // s.denominator
    rem = s - fl
    if rem > Fraction(1,2) or (rem == Fraction(1,2) and fl % 2 == 1): fl += 1
    ip, fp = divmod(fl, 10**dp)
    txt = str(ip)
    if dp > 0:
        f = str(fp).rjust(dp, "0").rstrip("0")
        if f: txt += "." + f
    return ("-" if neg else "") + txt

rnd = random.Random(1)
f = DefaultFormatter()
bad = 0; tot = 0; outside = 0; outside_bad = 0
ex = []
for it in range(300000):
    dp = rnd.randint(0, 12)
    mode = rnd.random()
    if mode < 0.4:
        e = rnd.randint(-60, 50); x = math.ldexp(rnd.random()+0.5, e) * rnd.choice([-1,1])
    elif mode < 0.6:
        k = rnd.randint(-10**7, 10**7); x = (k + 0.5) / 10**dp   # near ties
        if rnd.random()<0.5: x = math.nextafter(x, rnd.choice([-math.inf, math.inf]))
    elif mode < 0.7:
        x = rnd.randint(-2**20, 2**20) / 2**rnd.randint(0, 12)  # dyadic exact ties
    elif mode < 0.8:
        x = struct.unpack('d', struct.pack('Q', rnd.getrandbits(52)))[0] * rnd.choice([-1,1])  # subnormal
    else:
        x = rnd.uniform(-1000, 1000)
    f.set_decimal_places(dp)
    got = f.number(x)
    want = model(Fraction(x), dp)
    ulp = math.ulp(x)
    inside = ulp <= 10.0**-dp
    tot += 1
    if inside:
        if got != want:
            bad += 1
            if len(ex) < 10: ex.append((repr(x), dp, got, want))
    else:
        outside += 1
        ok = (got == want) or (float(got) == x and (len(got.split(".")[1]) if "." in got else 0) <= dp)
        if not ok:
            outside_bad += 1
            if len(ex) < 10: ex.append(("OUT", repr(x), dp, got, want))
print("total", tot, "inside-mismatch", bad, "outside", outside, "outside-bad", outside_bad)
for e in ex: print(e)

/-! Spike for C14: GCodeCore's writer list and FileWriter sessions.
    Writers are identified by ids; a line is a byte string (List Nat). -/
abbrev Bytes := List Nat

inductive Kind | path | stream       -- path: opened/truncated by the writer; stream: a user-supplied file object
deriving DecidableEq, Repr

structure W where
  kind    : Kind
  open_   : Bool := false        -- FileWriter._file is not None
  content : Bytes := []          -- what the file/stream holds (flushed or not: see `dirty`)
  dirty   : Bool := false        -- unflushed data pending
deriving Repr

structure St where
  ws  : Nat → W                  -- all writer objects ever created
  reg : List Nat := []           -- GCodeCore._writers: ordered, duplicate-free

inductive Op where
  | add (i : Nat) | remove (i : Nat) | write (line : Bytes) | flush | teardown
deriving Repr

def W.write (w : W) (line : Bytes) : W :=
  -- lazy connect: a path writer that is not open re-opens with "wb+" and therefore truncates
  let base := if w.open_ then w.content else (match w.kind with | .path => [] | .stream => w.content)
  { w with open_ := true, content := base ++ line, dirty := true }

def W.disconnect (w : W) : W := { w with open_ := false, dirty := false }   -- close() flushes

def upd (f : Nat → W) (i : Nat) (w : W) : Nat → W := fun j => if j = i then w else f j

def step (s : St) : Op → St
  | .add i => if i ∈ s.reg then s else { s with reg := s.reg ++ [i] }
  | .remove i => { s with reg := s.reg.filter (· ≠ i) }
  | .write line => { s with ws := fun j => if j ∈ s.reg then (s.ws j).write line else s.ws j }
  | .flush => { s with ws := fun j => if j ∈ s.reg then { s.ws j with dirty := false } else s.ws j }
  | .teardown => { ws := fun j => if j ∈ s.reg then (s.ws j).disconnect else s.ws j, reg := [] }

/-- the registration list never holds a writer twice -/
theorem reg_nodup (s : St) (op : Op) (h : s.reg.Nodup) : (step s op).reg.Nodup := by
  cases op with
  | add i =>
    simp only [step]; split
    · exact h
    · rename_i hi
      exact List.nodup_append.mpr ⟨h, by simp, by intro a ha b hb; simp at hb; subst hb; exact fun e => hi (e ▸ ha)⟩
  | remove i => exact h.filter _
  | write l => exact h
  | flush => exact h
  | teardown => simp [step]

/-- C14_same_bytes / delivery, one step: a write appends exactly `line`, once, to every registered writer
    and leaves every other writer untouched -/
theorem write_delivers (s : St) (line : Bytes) (i : Nat) :
    (i ∈ s.reg → ∃ base, ((step s (.write line)).ws i).content = base ++ line ∧
        (( s.ws i).open_ = true → base = (s.ws i).content)) ∧
    (i ∉ s.reg → (step s (.write line)).ws i = s.ws i) := by
  constructor
  · intro hi
    simp only [step, hi, if_true, W.write]
    exact ⟨_, rfl, fun ho => by simp [ho]⟩
  · intro hi; simp [step, hi]

/-- C14_teardown: every registered writer is disconnected and the list is empty -/
theorem teardown_disconnects (s : St) :
    (step s .teardown).reg = [] ∧ ∀ i ∈ s.reg, ((step s .teardown).ws i).open_ = false := by
  refine ⟨rfl, fun i hi => ?_⟩
  simp [step, hi, W.disconnect]

/-- C14_file_content: after flush or teardown no registered writer has unflushed data -/
theorem flush_clean (s : St) (i : Nat) (hi : i ∈ s.reg) : ((step s .flush).ws i).dirty = false := by
  simp [step, hi]

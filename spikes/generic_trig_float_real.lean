import Mathlib.Analysis.SpecialFunctions.Trigonometric.Basic
import Mathlib.Analysis.SpecialFunctions.Complex.Arg
import Mathlib.Tactic.Ring
import Mathlib.Tactic.Linarith

structure Trig (K : Type) where
  cos : K → K
  sin : K → K
  atan2 : K → K → K
  hypot : K → K → K
  twoPi : K

structure V3 (K : Type) where
  x : K
  y : K
  z : K

section generic
variable {K : Type} [Add K] [Sub K] [Mul K] [Neg K] [LE K] [DecidableLE K] [OfNat K 0]

def enforce (T : Trig K) (cw : Bool) (a : K) : K :=
  if cw then (if (0:K) ≤ a then a - T.twoPi else a)
  else (if a ≤ (0:K) then a + T.twoPi else a)

def arcPoint (T : Trig K) (cx cy r a0 da oz h θ : K) : V3 K :=
  let a := a0 + da * θ
  ⟨cx + r * T.cos a, cy + r * T.sin a, oz + θ * h⟩
end generic

noncomputable def realTrig : Trig ℝ :=
  ⟨Real.cos, Real.sin, fun y x => Complex.arg ⟨x, y⟩, fun x y => ‖(⟨x, y⟩ : ℂ)‖, 2 * Real.pi⟩

def floatTrig : Trig Float := ⟨Float.cos, Float.sin, Float.atan2, fun x y => Float.sqrt (x*x+y*y), 6.283185307179586⟩

theorem arc_on_circle (cx cy r a0 da oz h θ : ℝ) :
    let p := arcPoint realTrig cx cy r a0 da oz h θ
    (p.x - cx)^2 + (p.y - cy)^2 = r^2 := by
  simp only [arcPoint, realTrig]
  have := Real.cos_sq_add_sin_sq (a0 + da * θ)
  nlinarith [this]

theorem enforce_cw_neg (a : ℝ) (h : -(2*Real.pi) < a) (h2 : a < 2*Real.pi) :
    enforce realTrig true a < 0 ∧ -(2*Real.pi) ≤ enforce realTrig true a := by
  unfold enforce realTrig
  simp only [if_true]
  split <;> constructor <;> linarith [Real.pi_pos]

#eval (arcPoint floatTrig 0 0 10 0 1.5707963 0 0 1).y

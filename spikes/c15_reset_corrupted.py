"""C15: the M110 reset itself is corrupted and the firmware does not already expect N0 (Marlin boots with last_N = 0, i.e. expects N1)."""
import time, logging
from unittest import mock
import fake_firmware_timed as fakefw
from gscrib.printrun import printcore, gcoder
logging.disable(logging.CRITICAL)
fw = fakefw.Firmware(corrupt={0})
fw.expected = 1          # Marlin after power-on: last_N = 0
fakefw.FakeSerial.fw = fw
job = ["G1 X0", "G1 X1", "G1 X2"]
with mock.patch("serial.Serial", fakefw.FakeSerial), mock.patch("gscrib.printrun.device.Device._disable_ttyhup"):
    core = printcore(); core.connect("/fake/port", 115200)
    while not core.online: time.sleep(0.01)
    time.sleep(0.2); fw.rx_index = 0; fw.accepted.clear(); fw.rxlog.clear(); fw.expected = 1
    core.startprint(gcoder.GCode(job))
    while core.printing: time.sleep(0.01)
    time.sleep(0.3); core.disconnect()
print("sent    :", fw.rxlog)
print("accepted:", [a for a in fw.accepted if a[0] != "raw"])

/-! Spike for C04: `_transform_move` + `Point.combine` under an arbitrary affine transform over ℚ.
    Per word: absolute image / linear image of the displacement; every axis whose transformed coordinate changes
    is mentioned; consequently `machine = A · tracked` is preserved by every move in either distance mode. -/

structure V3 where
  x : Rat
  y : Rat
  z : Rat
deriving DecidableEq, Repr

structure P3 where             -- a Point with unknown coordinates
  x : Option Rat
  y : Option Rat
  z : Option Rat
deriving DecidableEq, Repr

structure Aff where
  a11 : Rat
  a12 : Rat
  a13 : Rat
  a21 : Rat
  a22 : Rat
  a23 : Rat
  a31 : Rat
  a32 : Rat
  a33 : Rat
  tx : Rat
  ty : Rat
  tz : Rat
deriving Repr

def Aff.apply (A : Aff) (v : V3) : V3 :=
  ⟨A.a11*v.x + A.a12*v.y + A.a13*v.z + A.tx,
   A.a21*v.x + A.a22*v.y + A.a23*v.z + A.ty,
   A.a31*v.x + A.a32*v.y + A.a33*v.z + A.tz⟩
def Aff.lin (A : Aff) (v : V3) : V3 :=
  ⟨A.a11*v.x + A.a12*v.y + A.a13*v.z, A.a21*v.x + A.a22*v.y + A.a23*v.z, A.a31*v.x + A.a32*v.y + A.a33*v.z⟩

def P3.resolve (p : P3) : V3 := ⟨p.x.getD 0, p.y.getD 0, p.z.getD 0⟩

/-- `to_absolute` -/
def toAbsolute (cur : V3) (req : P3) (rel : Bool) : V3 :=
  if rel then ⟨cur.x + req.x.getD 0, cur.y + req.y.getD 0, cur.z + req.z.getD 0⟩
  else ⟨req.x.getD cur.x, req.y.getD cur.y, req.z.getD cur.z⟩

/-- `_transform_move`: (emitted words, new tracked position) -/
def transformMove (A : Aff) (cur : V3) (req : P3) (rel : Bool) : P3 × V3 :=
  let tgt := toAbsolute cur req rel
  let o := A.apply cur
  let t := A.apply tgt
  let mv : V3 := if rel then ⟨t.x - o.x, t.y - o.y, t.z - o.z⟩ else t
  (⟨if req.x.isSome ∨ o.x ≠ t.x then some mv.x else none,
    if req.y.isSome ∨ o.y ≠ t.y then some mv.y else none,
    if req.z.isSome ∨ o.z ≠ t.z then some mv.z else none⟩, tgt)

/-- what a machine at `m` does with the words of a G0/G1 -/
def execWords (m : V3) (w : P3) (rel : Bool) : V3 :=
  if rel then ⟨m.x + w.x.getD 0, m.y + w.y.getD 0, m.z + w.z.getD 0⟩
  else ⟨w.x.getD m.x, w.y.getD m.y, w.z.getD m.z⟩

/-- C04_abs_word: in G90 every mentioned axis carries the image of the requested target -/
theorem C04_abs_word (A : Aff) (cur : V3) (req : P3) :
    let r := transformMove A cur req false
    (∀ v, r.1.x = some v → v = (A.apply r.2).x) ∧ (∀ v, r.1.y = some v → v = (A.apply r.2).y) ∧
    (∀ v, r.1.z = some v → v = (A.apply r.2).z) := by
  simp only [transformMove]
  refine ⟨?_, ?_, ?_⟩ <;> intro v h <;> split at h <;> simp_all

/-- C04_rel_word: in G91 every mentioned axis carries the linear image of the requested displacement -/
theorem C04_rel_word (A : Aff) (cur : V3) (req : P3) :
    let r := transformMove A cur req true
    let d : V3 := ⟨req.x.getD 0, req.y.getD 0, req.z.getD 0⟩
    (∀ v, r.1.x = some v → v = (A.lin d).x) ∧ (∀ v, r.1.y = some v → v = (A.lin d).y) ∧
    (∀ v, r.1.z = some v → v = (A.lin d).z) := by
  simp only [transformMove, toAbsolute, Aff.apply, Aff.lin]
  refine ⟨?_, ?_, ?_⟩ <;> intro v h <;> split at h <;> simp_all <;> grind

/-- C04_mentions: an axis whose transformed coordinate has to change is mentioned -/
theorem C04_mentions (A : Aff) (cur : V3) (req : P3) (rel : Bool) :
    let r := transformMove A cur req rel
    ((A.apply cur).x ≠ (A.apply r.2).x → r.1.x.isSome) ∧ ((A.apply cur).y ≠ (A.apply r.2).y → r.1.y.isSome) ∧
    ((A.apply cur).z ≠ (A.apply r.2).z → r.1.z.isSome) := by
  simp only [transformMove]
  refine ⟨?_, ?_, ?_⟩ <;> intro h <;> simp [h]

theorem word_abs (c : Prop) [Decidable c] (o t : Rat) :
    (if c ∨ o ≠ t then some t else none).getD o = t := by
  by_cases hc : c
  · simp [hc]
  · by_cases ho : o = t
    · simp [hc, ho]
    · simp [hc, ho]

theorem word_rel (c : Prop) [Decidable c] (o t : Rat) :
    o + (if c ∨ o ≠ t then some (t - o) else none).getD 0 = t := by
  by_cases hc : c
  · simp [hc]; grind
  · by_cases ho : o = t
    · simp [hc, ho, Rat.add_zero]
    · simp [hc, ho]; grind

/-- C04_invariant: if the machine is at A·tracked, after the emitted move it is at A·(new tracked), both modes -/
theorem C04_invariant (A : Aff) (cur : V3) (req : P3) (rel : Bool) :
    let r := transformMove A cur req rel
    execWords (A.apply cur) r.1 rel = A.apply r.2 := by
  simp only [transformMove]
  generalize A.apply cur = o
  generalize A.apply (toAbsolute cur req rel) = t
  cases rel
  · simp only [execWords, Bool.false_eq_true, if_false]
    rw [word_abs, word_abs, word_abs]
  · simp only [execWords, if_true]
    rw [word_rel, word_rel, word_rel]

#print axioms C04_invariant
-- rotate 90° about z then translate (5,0,0): relative request x=+2 from (1,1,0) must emit Y (coupled axis), not only X
#eval transformMove ⟨0,-1,0, 1,0,0, 0,0,1, 5,0,0⟩ ⟨1,1,0⟩ ⟨some 2, none, none⟩ true

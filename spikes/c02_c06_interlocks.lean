/-! Spike for C02/C06: the interlock core of GState + GCodeBuilder with the tool-power bound, in two variants:
    `asIs` (OFF goes through `_set_tool_power(0)`, which validates 0 against the range) and repaired. -/
inductive Err | valueError | toolState | coolantState deriving DecidableEq, Repr
inductive Code | M03 | M04 | M05 | M06 | M07 | M08 | M09 | M00 | M01 | M02 | M30 | M60 | M109 | M190 | M191 | M400 | S | CMT
  deriving DecidableEq, Repr

structure St where
  tool    : Bool := false
  coolant : Bool := false
  power   : Rat := 0
  pBound  : Option (Rat × Rat) := none       -- set_bounds("tool-power", lo, hi)
deriving Repr

inductive Op where
  | toolOn (ccw : Bool) (v : Rat) | toolOff | powerOn (dyn : Bool) (v : Rat) | powerOff
  | coolantOn (flood : Bool) | coolantOff | toolChange (n : Int) | halt (c : Code) | emergency (reset : Bool)
  | setPowerBound (lo hi : Rat)
deriving Repr

def validatePower (s : St) (v : Rat) : Except Err Unit :=
  match s.pBound with
  | some (lo, hi) => if lo ≤ v ∧ v ≤ hi then (if v < 0 then .error .valueError else .ok ()) else .error .valueError
  | none => if v < 0 then .error .valueError else .ok ()

def isHalt : Code → Bool
  | .M00 | .M01 | .M02 | .M30 | .M60 | .M109 | .M190 | .M191 | .M400 => true
  | _ => false

/-- `_set_spin_mode` / `_set_power_mode` share this shape -/
def setToolMode (asIs : Bool) (s : St) (on : Bool) (v : Rat) : Except Err St :=
  if on then
    if s.tool then .error .toolState else
    match validatePower s v with
    | .error e => .error e
    | .ok _ => .ok { s with power := v, tool := true }
  else if asIs then
    match validatePower s 0 with          -- the defect: OFF validates power 0 against the configured range
    | .error e => .error e
    | .ok _ => .ok { s with power := 0, tool := false }
  else .ok { s with power := 0, tool := false }

def step (asIs : Bool) (s : St) : Op → St × List Code × Except Err Unit
  | .toolOn ccw v => match setToolMode asIs s true v with
      | .ok s' => (s', [.S, if ccw then .M04 else .M03], .ok ()) | .error e => (s, [], .error e)
  | .powerOn dyn v => match setToolMode asIs s true v with
      | .ok s' => (s', [.S, if dyn then .M04 else .M03], .ok ()) | .error e => (s, [], .error e)
  | .toolOff | .powerOff => match setToolMode asIs s false 0 with
      | .ok s' => (s', [.M05], .ok ()) | .error e => (s, [], .error e)
  | .coolantOn flood => if s.coolant then (s, [], .error .coolantState)
      else ({ s with coolant := true }, [if flood then .M08 else .M07], .ok ())
  | .coolantOff => ({ s with coolant := false }, [.M09], .ok ())
  | .toolChange n =>
      if n < 1 then (s, [], .error .valueError)
      else if s.tool then (s, [], .error .toolState)
      else if s.coolant then (s, [], .error .coolantState)
      else (s, [.M06], .ok ())
  | .halt c =>
      if !isHalt c then (s, [], .error .valueError)
      else if s.tool then (s, [], .error .toolState)
      else if s.coolant then (s, [], .error .coolantState)
      else (s, [c], .ok ())
  | .emergency reset =>
      match setToolMode asIs s false 0 with
      | .error e => (s, [], .error e)
      | .ok s1 => ({ s1 with coolant := false }, [.M05, .M09, .CMT, if reset then .M30 else .M00], .ok ())
  | .setPowerBound lo hi => if lo < hi then ({ s with pBound := some (lo, hi) }, [], .ok ()) else (s, [], .error .valueError)

/-- C02: no unsafe code is ever emitted, from any state, in either variant -/
theorem C02_no_unsafe_emit (asIs : Bool) (s : St) (op : Op) :
    let r := step asIs s op
    ((Code.M03 ∈ r.2.1 ∨ Code.M04 ∈ r.2.1) → s.tool = false) ∧
    ((Code.M07 ∈ r.2.1 ∨ Code.M08 ∈ r.2.1) → s.coolant = false) ∧
    (∀ c ∈ r.2.1, (c = .M06 ∨ isHalt c = true) → (op matches .emergency _) ∨ (s.tool = false ∧ s.coolant = false)) := by
  obtain ⟨t, c, p, b⟩ := s
  cases t <;> cases c <;> cases op <;> simp only [step, setToolMode] <;>
    (repeat' split) <;> simp_all [isHalt] <;> (try (intro c hc; cases c <;> simp_all [isHalt]))

/-- C06 on the repaired variant: switching off always succeeds, whatever the state and the bounds -/
theorem C06_tool_off (s : St) : ∃ s', step false s .toolOff = (s', [.M05], .ok ()) ∧ s'.tool = false := by
  simp [step, setToolMode]
theorem C06_coolant_off (asIs : Bool) (s : St) : ∃ s', step asIs s .coolantOff = (s', [.M09], .ok ()) ∧ s'.coolant = false := by
  simp [step]
theorem C06_emergency (s : St) (reset : Bool) :
    ∃ s', step false s (.emergency reset) = (s', [.M05, .M09, .CMT, if reset then .M30 else .M00], .ok ())
      ∧ s'.tool = false ∧ s'.coolant = false := by
  simp [step, setToolMode]

def isValueError : Except Err Unit → Bool
  | .error .valueError => true | _ => false

/-- the as-is code violates C06: tool running, tool-power range 100…1000, `tool_off()` is rejected -/
example : isValueError (step true { tool := true, power := 500, pBound := some (100, 1000) } .toolOff).2.2 = true := by
  decide
/-- …and the repaired variant accepts the same call -/
example : isValueError (step false { tool := true, power := 500, pBound := some (100, 1000) } .toolOff).2.2 = false := by
  decide
#print axioms C02_no_unsafe_emit

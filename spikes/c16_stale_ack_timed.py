import sys, time, logging
from unittest import mock
import fake_firmware_timed as fakefw
from gscrib.writers import SerialWriter
logging.disable(logging.CRITICAL)
T0=time.time()
ev=[]
class FW(fakefw.Firmware):
    def feed(self, line):
        ev.append((round(time.time()-T0,3),"fw-rx",line)); super().feed(line)
        ev.append((round(time.time()-T0,3),"fw-done",line))
lat = float(sys.argv[1]) if len(sys.argv)>1 else 0.3
fw = FW(latency=lat)
fakefw.FakeSerial.fw = fw
with mock.patch("serial.Serial", fakefw.FakeSerial), mock.patch("gscrib.printrun.device.Device._disable_ttyhup"):
    w = SerialWriter("/fake/port", 115200)
    w.connect()
    ev.append((round(time.time()-T0,3),"connected"))
    for i in range(4):
        w.write(b"G1 X%d\n" % i)
        ev.append((round(time.time()-T0,3),"write-returned", i))
    w.disconnect()
    ev.append((round(time.time()-T0,3),"disconnected"))
for e in ev: print(e)

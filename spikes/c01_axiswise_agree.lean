/-! Spike for C01 (identity transform): the motion core of GCodeCore/GCodeBuilder, one axis at a time.
    With no transform the three axes never interact except through "home everything" (a flag), so the
    3-axis theorem is this theorem for each axis.  Models the repaired `_update_axes` (validate, then commit). -/

abbrev OQ := Option Rat

inductive Op where
  | move (rapid : Bool) (req : OQ)            -- move()/rapid(): requested coordinate on this axis (None = not given)
  | moveAbs (rapid : Bool) (req : OQ)         -- move_absolute()/rapid_absolute()
  | setAxis (req : OQ)                        -- G92
  | home (req : OQ) (allNone : Bool)          -- G28; allNone = no axis was given at all
  | probe (req : OQ)                          -- G38.x
  | setMode (rel : Bool)
  | enterCtx (rel : Bool)                     -- with g.absolute_mode() / g.relative_mode()
  | exitCtx                                   -- leaving the innermost context (also on the exception path)
deriving Repr

inductive Stmt where
  | g01 (w : OQ) | g92 (w : OQ) | g28 (w : OQ) (all : Bool) | g38 (w : OQ) | g90 | g91
deriving Repr

structure B where
  pos  : OQ := none           -- GCodeCore._current_axes on this axis
  spos : OQ := some 0         -- GState._current_axes (starts at zero)
  rel  : Bool := false
  ctx  : List Bool := []      -- saved "previous" modes of the open contexts
deriving Repr

structure M where
  pos : OQ := none            -- the machine does not know where it is at power-on
  rel : Bool := false
deriving Repr, DecidableEq

def setModeStmts (b : B) (r : Bool) : B × List Stmt := ({ b with rel := r }, [if r then .g91 else .g90])

def B.step (b : B) : Op → B × List Stmt
  | .move _ req =>
      let cur := b.pos.getD 0
      let tgt := if b.rel then cur + req.getD 0 else req.getD cur      -- to_absolute
      let mv  := if b.rel then tgt - cur else tgt
      -- combine with the identity transform: origin ≠ target only if requested
      let word : OQ := if req.isSome ∨ cur ≠ tgt then some mv else none
      ({ b with pos := some tgt, spos := some tgt }, [.g01 word])
  | .moveAbs _ req =>
      let tgt : OQ := match req with | some q => some q | none => b.pos   -- current.replace(move): unknown stays unknown
      let b' := { b with pos := tgt, spos := tgt }
      if b.rel then (b', [.g90, .g01 req, .g91]) else (b', [.g01 req])
  | .setAxis req =>
      let tgt : OQ := match req with | some q => some q | none => b.pos
      ({ b with pos := tgt, spos := tgt }, [.g92 req])
  | .home req allNone =>
      let tgt : OQ := if allNone ∨ req.isSome then none else b.pos
      ({ b with pos := tgt, spos := tgt }, [.g28 req allNone])
  | .probe req =>
      let cur := b.pos.getD 0
      let tgt := if b.rel then cur + req.getD 0 else req.getD cur
      let mv  := if b.rel then tgt - cur else tgt
      let word : OQ := if req.isSome ∨ cur ≠ tgt then some mv else none
      let after : OQ := if word.isSome then none else some tgt            -- target_axes.mask(move)
      ({ b with pos := after, spos := after }, [.g38 word])
  | .setMode r => setModeStmts b r
  | .enterCtx r =>
      let b1 := { b with ctx := b.rel :: b.ctx }
      if r ≠ b.rel then setModeStmts b1 r else (b1, [])
  | .exitCtx =>
      match b.ctx with
      | [] => (b, [])
      | prev :: rest =>
          let b1 := { b with ctx := rest }
          if prev ≠ b.rel then setModeStmts b1 prev else (b1, [])

def M.exec (m : M) : Stmt → M
  | .g01 none => m
  | .g01 (some q) => if m.rel then { m with pos := m.pos.map (· + q) } else { m with pos := some q }
  | .g92 none => m
  | .g92 (some q) => { m with pos := some q }
  | .g28 w all => if all ∨ w.isSome then { m with pos := none } else m
  | .g38 none => m
  | .g38 (some _) => { m with pos := none }
  | .g90 => { m with rel := false }
  | .g91 => { m with rel := true }

/-- builder and machine agree on the mode, and wherever the machine knows its coordinate both of the
    builder's reports (`g.position`, `g.state.position`) show exactly that coordinate -/
def Agree (b : B) (m : M) : Prop :=
  b.rel = m.rel ∧ ∀ q, m.pos = some q → b.pos = some q ∧ b.spos = some q

theorem step_agree (b : B) (m : M) (op : Op) (h : Agree b m) :
    Agree (b.step op).1 ((b.step op).2.foldl M.exec m) := by
  obtain ⟨hr, hp⟩ := h
  cases op with
  | move rp req =>
    cases req with
    | none =>
      cases hb : b.rel <;> cases hm : m.pos <;>
        simp_all [B.step, M.exec, Agree, List.foldl] <;> (try grind)
    | some w =>
      cases hb : b.rel <;> cases hm : m.pos <;>
        simp_all [B.step, M.exec, Agree, List.foldl] <;> (try grind)
  | moveAbs rp req =>
    have hr' : m.rel = b.rel := hr.symm
    cases req with
    | none =>
      cases hb : b.rel
      · simp only [B.step, hb, Bool.false_eq_true, if_false, List.foldl, M.exec]
        exact ⟨by simp [hb, hr'], fun q hq => by have := hp q hq; simp [this]⟩
      · simp only [B.step, hb, if_true, List.foldl, M.exec]
        refine ⟨by simp, fun q hq => ?_⟩
        have := hp q (by simpa using hq); simp [this]
    | some w =>
      cases hb : b.rel
      · simp only [B.step, hb, Bool.false_eq_true, if_false, List.foldl, M.exec, hr']
        exact ⟨by simp [hb, hr'], fun q hq => by simp at hq; simp [hq]⟩
      · simp only [B.step, hb, if_true, List.foldl, M.exec]
        refine ⟨by simp, fun q hq => ?_⟩
        simp at hq; simp [hq]
  | setAxis req =>
    cases req <;> cases hm : m.pos <;> simp_all [B.step, M.exec, Agree, List.foldl]
  | home req allNone =>
    cases req <;> cases allNone <;> cases hm : m.pos <;> simp_all [B.step, M.exec, Agree, List.foldl]
  | probe req =>
    -- whatever word is emitted, the machine forgets the axis exactly when the builder does
    have key : ∀ (word : OQ) (tgt : Rat),
        Agree { b with pos := if word.isSome then none else some tgt, spos := if word.isSome then none else some tgt }
              (M.exec m (.g38 word)) ↔
        (word.isSome = true ∨ ∀ q, m.pos = some q → q = tgt) := by
      intro word tgt
      cases word <;> simp [Agree, M.exec, hr]
      constructor <;> intro h q hq <;> exact (h q hq).symm
    cases req with
    | none =>
      simp only [B.step, List.foldl]
      rw [key]
      right
      intro q hq
      have hbq := (hp q hq).1
      cases hb : b.rel <;> simp [hbq, Rat.add_zero]
    | some w =>
      simp only [B.step, List.foldl]
      rw [key]; simp
  | setMode r =>
    cases r <;> simp_all [B.step, setModeStmts, M.exec, Agree, List.foldl]
  | enterCtx r =>
    cases r <;> cases hb : b.rel <;> simp_all [B.step, setModeStmts, M.exec, Agree, List.foldl]
  | exitCtx =>
    cases hc : b.ctx with
    | nil => simp_all [B.step, Agree]
    | cons prev rest =>
      cases prev <;> cases hb : b.rel <;> simp_all [B.step, setModeStmts, M.exec, Agree, List.foldl]

def runBM : B × M → List Op → B × M
  | s, [] => s
  | (b, m), op :: ops => runBM ((b.step op).1, (b.step op).2.foldl M.exec m) ops

/-- **C01 (per axis, identity transform)**: after *every* prefix of *every* call history the machine, driven only by
    the emitted statements, is where the builder says it is on every axis whose machine coordinate is known. -/
theorem C01_agree_run : ∀ (ops : List Op) (b : B) (m : M), Agree b m → Agree (runBM (b, m) ops).1 (runBM (b, m) ops).2
  | [], _, _, h => h
  | op :: ops, b, m, h => C01_agree_run ops _ _ (step_agree b m op h)

theorem agree_init : Agree {} {} := by simp [Agree]

/-- non-vacuity: a history mixing G92, relative moves, a nested context, an absolute bypass, probe and home -/
example : (runBM ({}, {}) [.setAxis (some 0), .setMode true, .move false (some (3/2)), .enterCtx false,
            .move true (some 10), .enterCtx true, .move false (some (-1)), .exitCtx, .exitCtx,
            .moveAbs false (some 4), .probe (some 1), .setAxis (some 2), .home none false, .move false (some (1/4))]).2
          = ({ pos := some (9/4), rel := true } : M) := by
  decide +kernel
#print axioms C01_agree_run

/-! ### C11 in the same per-axis model: the same waypoint, given as a coordinate in G90 and as an offset in G91,
    takes the machine to the same place (plain moves and polylines; curves reduce to this because the tracer
    converts every vertex with `to_distance_mode` and calls `move`). -/
theorem C11_move_same_position (b : B) (p t : Rat) (hp : b.pos = some p) (rp : Bool) :
    let bA := { b with rel := false }
    let bR := { b with rel := true }
    let mA : M := { pos := some p, rel := false }
    let mR : M := { pos := some p, rel := true }
    ((bA.step (.move rp (some t))).2.foldl M.exec mA).pos = some t ∧
    ((bR.step (.move rp (some (t - p)))).2.foldl M.exec mR).pos = some t ∧
    (bA.step (.move rp (some t))).1.pos = some t ∧ (bR.step (.move rp (some (t - p)))).1.pos = some t := by
  simp [B.step, M.exec, List.foldl, hp]
  grind

/-- `to_distance_mode` followed by `move` (what `polyline`/`parametric` do for every absolute vertex v) -/
def traceVertex (b : B) (v : Rat) : B × List Stmt :=
  let cur := b.pos.getD 0
  b.step (.move false (some (if b.rel then v - cur else v)))

theorem traceVertex_reaches (b : B) (m : M) (v : Rat) (h : Agree b m) (hk : ∃ q, m.pos = some q) :
    ((traceVertex b v).2.foldl M.exec m).pos = some v ∧ (traceVertex b v).1.pos = some v := by
  obtain ⟨hr, hp⟩ := h
  obtain ⟨q, hq⟩ := hk
  have hb := (hp q hq).1
  cases hrel : b.rel <;> simp_all [traceVertex, B.step, M.exec, List.foldl] <;> grind

/-! ### C20 (hook arguments) in the same model: `_prepare_move` computes origin = position.resolve() and
    target = to_absolute(emitted move vector); the hook therefore sees the machine's true before/after. -/
def hookArgs (b : B) (req : OQ) : Rat × Rat :=
  let cur := b.pos.getD 0
  let tgt := if b.rel then cur + req.getD 0 else req.getD cur
  let mv  := if b.rel then tgt - cur else tgt
  let word : OQ := if req.isSome ∨ cur ≠ tgt then some mv else none
  -- to_absolute(word) evaluated by the builder inside _prepare_move
  let seen := if b.rel then cur + word.getD 0 else word.getD cur
  (cur, seen)

theorem C20_hook_sees_true_move (b : B) (m : M) (req : OQ) (q : Rat) (h : Agree b m) (hq : m.pos = some q) :
    (hookArgs b req).1 = q ∧
    some (hookArgs b req).2 = ((b.step (.move false req)).2.foldl M.exec m).pos := by
  obtain ⟨hr, hp⟩ := h
  have hb := (hp q hq).1
  cases req <;> cases hrel : b.rel <;> simp_all [hookArgs, B.step, M.exec, List.foldl] <;> grind

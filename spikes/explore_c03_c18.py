"""Exploratory oracles for C03 (bounded words) and C18 (report parsing) on whatever gscrib is importable. Not machinery."""
import random, re, sys, math
from fractions import Fraction as Fr
from collections import Counter
from gscrib import GCodeBuilder
from gscrib.writers import BaseWriter
class Rec(BaseWriter):
    def __init__(self): self.lines=[]
    def connect(self): return self
    def disconnect(self, wait=True): pass
    def write(self, b): self.lines.append(b.decode())
W=re.compile(r'^([A-Z])(-?\d+(?:\.\d+)?)$')
def c03(seed):
    rnd=random.Random(seed); issues=[]
    g=GCodeBuilder(output=None,line_endings="\n"); r=Rec(); g.add_writer(r)
    lo=[rnd.randint(-10,0) for _ in range(3)]; hi=[l+rnd.randint(1,20) for l in lo]
    B={'axes':(lo,hi)}
    g.set_bounds("axes",tuple(lo),tuple(hi))
    for name,(a,b) in {"feed-rate":(100,1000),"tool-power":(0,500),"tool-number":(1,5),"bed-temperature":(0,100),"hotend-temperature":(0,250),"chamber-temperature":(0,60)}.items():
        if rnd.random()<0.8: g.set_bounds(name,a,b); B[name]=(a,b)
    g.set_axis(x=lo[0],y=lo[1],z=lo[2])
    def pick(a,b): return rnd.choice([a,b,a-1,b+1,(a+b)/2,float('nan'),a,b])
    # inclusive acceptance: absolute moves to every corner of the box must be accepted
    try:
        g.move(x=hi[0],y=hi[1],z=hi[2]); g.move(x=lo[0],y=lo[1],z=lo[2])
    except ValueError as e: issues.append(('C03 boundary value rejected (bounds are inclusive)',seed,str(e)[:50]))
    n=len(r.lines); mpos=[Fr(lo[0]),Fr(lo[1]),Fr(lo[2])]; mrel=[False]
    for i in range(30):
        k=rnd.choice(['move','rapid','move_absolute','set_axis','dist','feed','power','tool_on','tool_off','tool_change','bed','hotend','chamber','halt_t','polyline'])
        try:
            c={a:pick(lo[j],hi[j]) for j,a in enumerate('xyz') if rnd.random()<0.5}
            p={}
            if rnd.random()<0.4: p['F']=pick(100,1000)
            if rnd.random()<0.3: p['S']=pick(0,500)
            if k=='set_axis': g.set_axis(**c)
            elif k in('move','rapid','move_absolute'): getattr(g,k)(**c,**p)
            elif k=='dist': g.set_distance_mode(rnd.choice(['absolute','relative']))
            elif k=='feed': g.set_feed_rate(pick(100,1000))
            elif k=='power': g.set_tool_power(pick(0,500))
            elif k=='tool_on': g.tool_on('cw',pick(0,500))
            elif k=='tool_off': g.tool_off()
            elif k=='tool_change': g.tool_change('manual',rnd.choice([0,1,5,6,3]))
            elif k=='bed': g.set_bed_temperature(pick(0,100))
            elif k=='hotend': g.set_hotend_temperature(pick(0,250))
            elif k=='chamber': g.set_chamber_temperature(pick(0,60))
            elif k=='halt_t': g.halt(rnd.choice(['wait-for-bed','wait-for-hotend','wait-for-chamber']),S=pick(0,100))
            elif k=='polyline': g.trace.polyline([tuple(pick(lo[j],hi[j]) for j in range(3)) for _ in range(2)])
        except Exception: pass
        for l in r.lines[n:]:
            toks=l.split(';')[0].split(); c0=toks[0] if toks else ''
            words={m.group(1):Fr(m.group(2)) for t in toks[0:] for m in [W.match(t)] if m and not re.fullmatch(r'[GM]\d+(\.\d+)?',t)}
            def chk(name,v):
                if name in B and not (B[name][0]<=v<=B[name][1]): issues.append(('C03 '+name+' out of range',seed,i,l.strip()))
            motion=c0 in('G0','G1') or c0.startswith('G38')
            # own interpreter in builder coordinates (per emitted line, not per call)
            if c0=='G90': mrel[0]=False
            if c0=='G91': mrel[0]=True
            if motion or c0=='G92':
                tgt=list(mpos)
                for j,a in enumerate('XYZ'):
                    if a in words:
                        tgt[j]= (mpos[j]+words[a]) if (mrel[0] and c0!='G92') else words[a]
                for j in range(3):
                    if not (lo[j]<=tgt[j]<=hi[j]): issues.append(('C03 axes target outside box',seed,i,l.strip(),[float(t) for t in tgt])); break
                if not c0.startswith('G38'): mpos[:]=tgt
            if 'F' in words and motion: chk('feed-rate',words['F'])
            if l.startswith('F'): chk('feed-rate',Fr(re.match(r'F(-?[\d.]+)',l).group(1)))
            if 'S' in words and (c0 in('G0','G1') or c0.startswith('G38')): chk('tool-power',words['S'])
            if l.startswith('S'): chk('tool-power',Fr(re.match(r'S(-?[\d.]+)',l).group(1)))
            if 'M06' in toks:
                t=[x for x in toks if re.fullmatch(r'T\d+',x)]
                if t: chk('tool-number',int(t[0][1:]))
            temp=words.get('S',words.get('R'))
            if temp is not None:
                if c0 in('M140','M190'): chk('bed-temperature',temp)
                if c0 in('M104','M109'): chk('hotend-temperature',temp)
                if c0 in('M141','M191'): chk('chamber-temperature',temp)
        n=len(r.lines)
    return issues

def render_report(rnd):
    def num(): 
        v=rnd.choice([rnd.randint(-300,300), rnd.randint(-30000,30000)/100, rnd.randint(0,5000)/1000])
        return ("%d"%v) if isinstance(v,int) else ("%.2f"%v if rnd.random()<0.5 else "%.3f"%v)
    fam=rnd.choice(['pos','temp','grbl','prb'])
    exp={}
    if fam=='pos':
        vals={k:num() for k in 'XYZE'}; cnt={k:str(rnd.randint(-9999,9999)) for k in 'XYZ'}
        keys=list('XYZE'); 
        s=" ".join(f"{k}:{vals[k]}" for k in keys)+" Count "+" ".join(f"{k}:{cnt[k]}" for k in 'XYZ'); exp=dict(vals)
    elif fam=='temp':
        t,b=num(),num(); s=f"T:{t} /{num()} B:{b} /{num()} @:{rnd.randint(0,127)} B@:{rnd.randint(0,127)}"; exp={'T':t,'B':b}
        if rnd.random()<0.5: s="ok "+s
    elif fam=='grbl':
        x,y,z,f,sp=num(),num(),num(),str(rnd.randint(0,5000)),str(rnd.randint(0,24000))
        fields=[f"MPos:{x},{y},{z}",f"FS:{f},{sp}",f"WCO:{num()},{num()},{num()}"]; rnd.shuffle(fields)
        s="<Idle|"+"|".join(fields)+">"; exp={'X':x,'Y':y,'Z':z,'F':f,'S':sp}
    else:
        x,y,z=num(),num(),num(); s=f"[PRB:{x},{y},{z}:1]"; exp={'X':x,'Y':y,'Z':z}
    return s,exp
def c18(seed):
    from gscrib.writers.printrun_writer import PrintrunWriter
    rnd=random.Random(seed); issues=[]
    w=PrintrunWriter("serial","localhost","/dev/null",115200); cur={}
    for i in range(10):
        s,exp=render_report(rnd); w._on_device_message(s+"\n"); 
        for k,v in exp.items(): cur[k]=float(v)
        for k,v in cur.items():
            got=w.get_parameter(k)
            if got!=v: issues.append(('C18 reading'+(' (leading ok)' if s.startswith('ok') else ''),seed,i,s,k,got,v)); cur[k]=got
    return issues
if __name__=="__main__":
    N=int(sys.argv[1]) if len(sys.argv)>1 else 200
    for name,f in (('C03',c03),('C18',c18)):
        cnt=Counter(); ex={}
        for s in range(N):
            for iss in f(s): cnt[iss[0]]+=1; ex.setdefault(iss[0],iss)
        print(name,dict(cnt))
        for v in ex.values(): print("   e.g.",v)

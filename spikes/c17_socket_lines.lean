/-! Spike for C17 (complete): `Device._readline_buf` / `_readline_socket` against a script of socket events.
    Per-call theorems: byte conservation, every line returned before EOF is exactly one line, and the buffer
    invariant "only the last buffered chunk may contain a newline" is preserved. -/
abbrev Bytes := List Nat
def NL : Nat := 10

def findNL : Bytes → Option Nat
  | [] => none
  | b :: bs => if b = NL then some 0 else (findNL bs).map (· + 1)

def readlineBuf (buf : List Bytes) : Bytes × List Bytes :=
  match buf.getLast? with
  | none => ([], buf)
  | some chunk =>
    match findNL chunk with
    | none => ([], buf)
    | some eol =>
      (buf.dropLast.flatten ++ chunk.take (eol + 1),
       if (chunk.drop (eol + 1)).isEmpty then [] else [chunk.drop (eol + 1)])

inductive Ev where
  | chunk (bs : Bytes) | again | eof
deriving Repr

inductive Res where
  | line (bs : Bytes) | empty | eofR
deriving Repr, DecidableEq

def Res.bytes : Res → Bytes
  | .line l => l | _ => []

def evBytes : List Ev → Bytes
  | [] => []
  | .chunk bs :: es => bs ++ evBytes es
  | _ :: es => evBytes es

def go : List Bytes → List Ev → Res × List Bytes × List Ev
  | buf, [] => (.empty, buf, [])
  | buf, .again :: evs => (.empty, buf, evs)
  | buf, .eof :: evs =>
      if buf.flatten.isEmpty then (.eofR, [], .eof :: evs) else (.line buf.flatten, [], .eof :: evs)
  | buf, .chunk bs :: evs =>
      if bs.isEmpty then go buf evs else
      if (readlineBuf (buf ++ [bs])).1.isEmpty then go (readlineBuf (buf ++ [bs])).2 evs
      else (.line (readlineBuf (buf ++ [bs])).1, (readlineBuf (buf ++ [bs])).2, evs)

def readlineSocket (buf : List Bytes) (evs : List Ev) : Res × List Bytes × List Ev :=
  if (readlineBuf buf).1.isEmpty then go buf evs else (.line (readlineBuf buf).1, (readlineBuf buf).2, evs)

/-! ### facts about findNL -/
theorem findNL_some_lt {bs : Bytes} {i : Nat} (h : findNL bs = some i) : i < bs.length := by
  induction bs generalizing i with
  | nil => simp [findNL] at h
  | cons b bs ih =>
    simp only [findNL] at h
    split at h
    · simp at h; simp; omega
    · cases hf : findNL bs with
      | none => simp [hf] at h
      | some j => simp [hf] at h; have := ih hf; simp; omega

theorem findNL_none {bs : Bytes} (h : findNL bs = none) : NL ∉ bs := by
  induction bs with
  | nil => simp
  | cons b bs ih =>
    simp only [findNL] at h
    split at h
    · simp at h
    · cases hf : findNL bs with
      | none => simp_all; omega
      | some j => simp [hf] at h

/-- the prefix up to and including the first newline: ends with NL, no NL before -/
theorem take_first_nl {bs : Bytes} {i : Nat} (h : findNL bs = some i) :
    (bs.take (i + 1)).getLast? = some NL ∧ NL ∉ (bs.take (i + 1)).dropLast := by
  induction bs generalizing i with
  | nil => simp [findNL] at h
  | cons b bs ih =>
    simp only [findNL] at h
    split at h
    · rename_i hb
      simp at h; subst h; simp [hb]
    · rename_i hb
      cases hf : findNL bs with
      | none => simp [hf] at h
      | some j =>
        simp [hf] at h; subst h
        obtain ⟨h1, h2⟩ := ih hf
        have hlen := findNL_some_lt hf
        have hne : bs.take (j + 1) ≠ [] := by
          intro e
          rcases List.take_eq_nil_iff.mp e with h0 | h0
          · omega
          · subst h0; simp at hlen
        constructor
        · rw [List.take_succ_cons, List.getLast?_cons_of_ne_nil hne] <;> exact h1
        · rw [List.take_succ_cons, List.dropLast_cons_of_ne_nil hne]
          simp only [List.mem_cons, not_or]
          exact ⟨fun e => hb e.symm, h2⟩

/-! ### buffer invariant -/
def BufOk (buf : List Bytes) : Prop := ∀ c ∈ buf.dropLast, NL ∉ c
def NoNL (buf : List Bytes) : Prop := ∀ c ∈ buf, NL ∉ c

theorem readlineBuf_conserve (buf : List Bytes) :
    (readlineBuf buf).1 ++ (readlineBuf buf).2.flatten = buf.flatten := by
  unfold readlineBuf
  cases hl : buf.getLast? with
  | none => simp
  | some chunk =>
    obtain ⟨ys, rfl⟩ := List.getLast?_eq_some_iff.mp hl
    cases hf : findNL chunk with
    | none => simp [hf]
    | some eol =>
      by_cases he : chunk.length ≤ eol + 1
      · have h1 : chunk.take (eol+1) = chunk := List.take_of_length_le he
        simp [hf, he, h1]
      · simp [hf, he]

theorem readlineBuf_empty_noNL {buf : List Bytes} (hok : BufOk buf) (he : (readlineBuf buf).1 = []) :
    NoNL buf ∧ (readlineBuf buf).2 = buf := by
  unfold readlineBuf at *
  cases hl : buf.getLast? with
  | none =>
    have : buf = [] := List.getLast?_eq_none_iff.mp hl
    subst this; simp [NoNL]
  | some chunk =>
    obtain ⟨ys, rfl⟩ := List.getLast?_eq_some_iff.mp hl
    cases hf : findNL chunk with
    | none =>
      refine ⟨?_, by simp [hf]⟩
      intro c hc
      simp only [List.mem_append, List.mem_singleton] at hc
      rcases hc with hc | rfl
      · exact hok c (by simpa using hc)
      · exact findNL_none hf
    | some eol =>
      simp [hf] at he
      have := findNL_some_lt hf
      obtain ⟨_, h2⟩ := he
      have : chunk = [] := by
        cases chunk with
        | nil => rfl
        | cons a as => simp at h2
      subst this; simp [findNL] at hf

/-- when `_readline_buf` returns a line it is exactly one line, and what stays buffered is a single chunk -/
theorem readlineBuf_line {buf : List Bytes} (hok : BufOk buf) (hne : (readlineBuf buf).1 ≠ []) :
    (readlineBuf buf).1.getLast? = some NL ∧ NL ∉ (readlineBuf buf).1.dropLast ∧ BufOk (readlineBuf buf).2 := by
  unfold readlineBuf at *
  cases hl : buf.getLast? with
  | none => simp [hl] at hne
  | some chunk =>
    obtain ⟨ys, rfl⟩ := List.getLast?_eq_some_iff.mp hl
    cases hf : findNL chunk with
    | none => simp [hf] at hne
    | some eol =>
      obtain ⟨t1, t2⟩ := take_first_nl hf
      have hlt := findNL_some_lt hf
      have htne : chunk.take (eol + 1) ≠ [] := by
        intro e
        rcases List.take_eq_nil_iff.mp e with h0 | h0
        · omega
        · subst h0; simp at hlt
      have hys : ∀ c ∈ ys, NL ∉ c := fun c hc => hok c (by simpa using hc)
      simp only [hf, List.dropLast_concat]
      refine ⟨?_, ?_, ?_⟩
      · rw [List.getLast?_append, t1]; simp
      · rw [List.dropLast_append_of_ne_nil htne]
        simp only [List.mem_append, List.mem_flatten, not_or, not_exists, not_and]
        exact ⟨fun c hc => hys c hc, t2⟩
      · split <;> simp [BufOk]

theorem bufOk_append_of_noNL {buf : List Bytes} (h : NoNL buf) (bs : Bytes) : BufOk (buf ++ [bs]) := by
  intro c hc; simp at hc; exact h c hc

/-! ### the loop -/
theorem go_spec : ∀ (evs : List Ev) (buf : List Bytes), NoNL buf →
    (go buf evs).1.bytes ++ (go buf evs).2.1.flatten ++ evBytes (go buf evs).2.2 = buf.flatten ++ evBytes evs
    ∧ BufOk (go buf evs).2.1
    ∧ (∀ l, (go buf evs).1 = .line l → (go buf evs).2.2.head? ≠ some .eof →
          l.getLast? = some NL ∧ NL ∉ l.dropLast)
  | [], buf, h => by
      refine ⟨by simp [go, Res.bytes, evBytes], fun c hc => h c (List.dropLast_subset _ hc), by simp [go]⟩
  | .again :: evs, buf, h => by
      refine ⟨by simp [go, Res.bytes, evBytes], fun c hc => h c (List.dropLast_subset _ hc), by simp [go]⟩
  | .eof :: evs, buf, h => by
      simp only [go]
      split
      · rename_i he
        have : buf.flatten = [] := by simpa using he
        refine ⟨by simp [Res.bytes, evBytes, this], by simp [BufOk], by simp⟩
      · refine ⟨by simp [Res.bytes, evBytes], by simp [BufOk], by simp⟩
  | .chunk bs :: evs, buf, h => by
      simp only [go]
      split
      · rename_i hb
        have : bs = [] := by simpa using hb
        subst this
        have ih := go_spec evs buf h
        simpa [evBytes] using ih
      · have hok := bufOk_append_of_noNL h bs
        have hcons := readlineBuf_conserve (buf ++ [bs])
        split
        · rename_i he
          have he' : (readlineBuf (buf ++ [bs])).1 = [] := by simpa using he
          obtain ⟨hno, heq⟩ := readlineBuf_empty_noNL hok he'
          rw [heq]
          have ih := go_spec evs (buf ++ [bs]) hno
          refine ⟨?_, ih.2.1, ih.2.2⟩
          rw [ih.1]; simp [evBytes]
        · rename_i hne
          have hne' : (readlineBuf (buf ++ [bs])).1 ≠ [] := by simpa using hne
          obtain ⟨l1, l2, l3⟩ := readlineBuf_line hok hne'
          refine ⟨?_, l3, ?_⟩
          · simp only [Res.bytes]
            rw [hcons]; simp [evBytes]
          · intro l hl _
            simp at hl; subst hl; exact ⟨l1, l2⟩

/-- **C17, one `readline()` call**: nothing is lost or duplicated; a line returned while the peer has not closed
    is exactly one newline-terminated line; the buffer invariant is kept for the next call. -/
theorem C17_readline_call (buf : List Bytes) (evs : List Ev) (hok : BufOk buf) :
    let r := readlineSocket buf evs
    r.1.bytes ++ r.2.1.flatten ++ evBytes r.2.2 = buf.flatten ++ evBytes evs
    ∧ BufOk r.2.1
    ∧ (∀ l, r.1 = .line l → r.2.2.head? ≠ some .eof → l.getLast? = some NL ∧ NL ∉ l.dropLast) := by
  simp only [readlineSocket]
  split
  · rename_i he
    have he' : (readlineBuf buf).1 = [] := by simpa using he
    obtain ⟨hno, _⟩ := readlineBuf_empty_noNL hok he'
    exact go_spec evs buf hno
  · rename_i hne
    have hne' : (readlineBuf buf).1 ≠ [] := by simpa using hne
    obtain ⟨l1, l2, l3⟩ := readlineBuf_line hok hne'
    refine ⟨?_, l3, ?_⟩
    · simp only [Res.bytes]; rw [readlineBuf_conserve]
    · intro l hl _; simp at hl; subst hl; exact ⟨l1, l2⟩

#print axioms C17_readline_call
#eval readlineSocket [] [.chunk [97, 98, 10, 99], .again, .chunk [100, 10], .eof]

/-! Spike for C18: deterministic scanner equivalent to `VALUE_PATTERN.findall` (validated against `re` on
    2·10⁵ strings in c18_scanner_vs_re.py), `_parse_message` and the first-occurrence rule. -/

def isAlnum (c : Char) : Bool := c.isAlphanum
def isVal (c : Char) : Bool := c.isDigit || c == '-' || c == '.'

/-- longest prefix satisfying p, and the rest -/
def spanP (p : Char → Bool) : List Char → List Char × List Char
  | [] => ([], [])
  | c :: cs => if p c then let (a, b) := spanP p cs; (c :: a, b) else ([], c :: cs)

theorem spanP_length (p) (l : List Char) : (spanP p l).2.length ≤ l.length := by
  induction l with
  | nil => simp [spanP]
  | cons c cs ih => simp only [spanP]; split <;> simp <;> omega

/-- comma groups: `(?:,[-\d.]+)*` — a comma is consumed only if a value character follows -/
def commaGroups : Nat → List Char → List Char × List Char
  | 0, l => ([], l)
  | fuel+1, ',' :: c :: cs =>
      if isVal c then
        let (v, rest) := spanP isVal (c :: cs)
        let (more, rest') := commaGroups fuel rest
        (',' :: v ++ more, rest')
      else ([], ',' :: c :: cs)
  | _, l => ([], l)

def scanAux : Nat → List Char → List (String × String)
  | 0, _ => []
  | _, [] => []
  | fuel+1, c :: cs =>
      if isAlnum c then
        let (key, rest) := spanP isAlnum (c :: cs)
        match rest with
        | ':' :: v :: rest' =>
            if isVal v then
              let (val, rest2) := spanP isVal (v :: rest')
              let (more, rest3) := commaGroups rest2.length rest2
              (String.ofList key, String.ofList (val ++ more)) :: scanAux fuel rest3
            else scanAux fuel rest
        | _ => scanAux fuel rest
      else scanAux fuel cs

def scan (s : String) : List (String × String) := scanAux (s.length + 1) s.toList

#eval scan "X:1.00 Y:-2.50 Z:3.00 E:0.00 Count X:80 Y:-200 Z:1200"
#eval scan "ok T:210.5 /210.0 B:60.1 /60.0 @:127 B@:0"
#eval scan "<Idle|MPos:1.000,2.000,-3.000|FS:500,8000|WCO:0,0,0>"
#eval scan "[PRB:1.5,2.5,-3.5:1]"
#eval scan "X:1,Y:2 a:b:3 T0:5 Z:4,"

/-- `_parse_message`: first occurrence per letter wins; MPos/WPos/PRB ↦ X Y Z A B C; FS ↦ F S inside `<…>` -/
abbrev Readings := List (Char × String)         -- later binding = newer; lookup from the head
def firstWins (seen : List Char) (upd : Readings) (k : Char) (v : String) : List Char × Readings :=
  if seen.contains k then (seen, upd) else (k :: seen, (k, v) :: upd)

def splitCommas (s : String) : List String := s.splitOn ","

def parseMessage (msg : String) : Readings :=
  let axes := ['X','Y','Z','A','B','C']
  let go := fun (acc : List Char × Readings) (kv : String × String) =>
    let (key, value) := kv
    match key.toList with
    | [k] => firstWins acc.1 acc.2 k.toUpper value
    | _ =>
      if key == "FS" && msg.startsWith "<" then
        match splitCommas value with
        | [f, s] => let a := firstWins acc.1 acc.2 'F' f; firstWins a.1 a.2 'S' s
        | _ => acc
      else if key == "MPos" || key == "WPos" || key == "PRB" then
        (axes.zip (splitCommas value)).foldl (fun a p => firstWins a.1 a.2 p.1 p.2) acc
      else acc
  ((scan msg).foldl go ([], [])).2

#eval parseMessage "X:1.00 Y:-2.50 Z:3.00 E:0.00 Count X:80 Y:-200 Z:1200"
#eval parseMessage "<Idle|MPos:1.000,2.000,-3.000|FS:500,8000|WCO:0,0,0>"
#eval parseMessage "[PRB:1.5,2.5,-3.5:1]"

example : scan "[PRB:1.5,2.5,-3.5:1]" = [("PRB", "1.5,2.5,-3.5")] := by decide
example : (parseMessage "X:1.00 Y:-2.50 Count X:80 Y:-200").lookup 'X' = some "1.00" := by decide

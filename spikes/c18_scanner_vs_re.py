import re, random
VALUE_PATTERN = re.compile(r'([A-Za-z0-9]+):([-\d\.]+(?:,[-\d\.]+)*)')
def isalnum(c): return c.isascii() and c.isalnum()
def isval(c): return c in "-.0123456789"
def scan(s):
    """deterministic model of findall: returns list of (key, value)"""
    out=[]; i=0; n=len(s)
    while i < n:
        # find leftmost match start >= i
        if not isalnum(s[i]): i+=1; continue
        # maximal alnum run starting at i (i is guaranteed to be at a run start or inside after a previous match end)
        j=i
        while j<n and isalnum(s[j]): j+=1
        # key candidate s[i:j]; need ':' at j and a value char at j+1
        if j<n and s[j]==':' and j+1<n and isval(s[j+1]):
            k=j+1
            while k<n and isval(s[k]): k+=1
            # groups ,value+
            while k+1<n and s[k]==',' and isval(s[k+1]):
                k+=1
                while k<n and isval(s[k]): k+=1
            out.append((s[i:j], s[j+1:k])); i=k
        else:
            # no match starting anywhere in this run (every suffix of the run hits the same boundary) 
            # BUT: key must be [A-Za-z0-9]+ and backtracking could shorten the key only if ':' follows a shorter prefix - impossible inside an alnum run
            i=j
    return out
rnd=random.Random(2); alpha="XYZTBEab019:,.-+ |<>[]/@"
bad=0
for it in range(200000):
    s="".join(rnd.choice(alpha) for _ in range(rnd.randint(0,30)))
    a=VALUE_PATTERN.findall(s); b=scan(s)
    if a!=b:
        bad+=1
        if bad<6: print(repr(s), a, b)
print("mismatches", bad)

"""Exploratory oracle for C07 (state mirrors emitted program) on the unchanged tree, no bounds, no rejected calls. Not machinery."""
import random, re, sys
from fractions import Fraction as Fr
from gscrib import GCodeBuilder
from gscrib.writers import BaseWriter
class Rec(BaseWriter):
    def __init__(self): self.lines=[]
    def connect(self): return self
    def disconnect(self, wait=True): pass
    def write(self, b): self.lines.append(b.decode())
W=re.compile(r'^([A-Z])(-?\d+(?:\.\d+)?)$')
class Modal:
    def __init__(s):
        s.tool=False; s.start=None; s.S=None; s.cool='off'; s.T=None; s.F=None; s.rel=False; s.erel=False; s.fmode='G94'; s.units='G21'; s.plane='G17'
        s.bed=s.hot=s.ch=None; s.params={}
    def exec(s,line):
        toks=line.split(';')[0].split()
        codes=[t for t in toks if re.fullmatch(r'[GM]\d+(\.\d+)?',t)]
        words={}
        for t in toks:
            m=W.match(t)
            if m and t not in codes: words[m.group(1)]=Fr(m.group(2))
        tnum=[t for t in toks if re.fullmatch(r'T\d+',t)]
        c0=codes[0] if codes else None
        for c in codes:
            if c in('M03','M04'): s.tool=True; s.start=c
            elif c=='M05': s.tool=False
            elif c=='M07': s.cool='mist'
            elif c=='M08': s.cool='flood'
            elif c=='M09': s.cool='off'
            elif c=='M06' and tnum: s.T=int(tnum[0][1:])
            elif c=='G90': s.rel=False
            elif c=='G91': s.rel=True
            elif c=='M82': s.erel=False
            elif c=='M83': s.erel=True
            elif c in('G93','G94','G95'): s.fmode=c
            elif c in('G20','G21'): s.units=c
            elif c in('G17','G18','G19'): s.plane=c
        motion = c0 in('G0','G1') or (c0 or '').startswith('G38')
        if 'S' in words and (c0 is None or motion or c0 in('M03','M04')): s.S=words['S']
        if 'F' in words and (c0 is None or motion): s.F=words['F']
        temp = words.get('S', words.get('R'))
        if temp is not None:
            if c0 in('M140','M190'): s.bed=temp
            if c0 in('M104','M109'): s.hot=temp
            if c0 in('M141','M191'): s.ch=temp
        if motion or c0 in('G92','G28'):
            for k,v in words.items():
                if k not in 'XYZ': s.params[k]=v
CODE={'clockwise':'M03','counter':'M04','constant':'M03','dynamic':'M04'}
def hist(seed):
    rnd=random.Random(seed); issues=[]
    g=GCodeBuilder(output=None,line_endings="\n"); r=Rec(); g.add_writer(r); m=Modal(); n=0; last_api=None
    vals=[0,1,5,20.5,100,250,1000]
    for i in range(40):
        k=rnd.choice(['move','rapid','probe','set_axis','auto_home','tool_on','tool_off','power_on','power_off','coolant_on','coolant_off','tool_change','set_feed_rate','set_tool_power',
                      'bed','hotend','chamber','halt_t','halt','dist','emode','fmode','units','plane','sleep','fan','query'])
        p={}
        if rnd.random()<0.4: p['F']=rnd.choice(vals)
        if rnd.random()<0.3: p['S']=rnd.choice(vals)
        if rnd.random()<0.3: p['E']=rnd.choice(vals)
        if rnd.random()<0.1: p['A']=rnd.choice(vals)
        c={a:rnd.choice(vals) for a in 'xyz' if rnd.random()<0.5}
        try:
            if k in('move','rapid','set_axis','auto_home'): getattr(g,k)(**c,**p)
            elif k=='probe': g.probe('towards',**c,**p)
            elif k=='tool_on': md=rnd.choice(['cw','ccw']); g.tool_on(md,rnd.choice(vals)); last_api=('spin',md)
            elif k=='tool_off': g.tool_off()
            elif k=='power_on': md=rnd.choice(['constant','dynamic']); g.power_on(md,rnd.choice(vals)); last_api=('power',md)
            elif k=='power_off': g.power_off()
            elif k=='coolant_on': g.coolant_on(rnd.choice(['mist','flood']))
            elif k=='coolant_off': g.coolant_off()
            elif k=='tool_change': g.tool_change(rnd.choice(['manual','automatic']),rnd.choice([1,2,15]))
            elif k=='set_feed_rate': g.set_feed_rate(rnd.choice(vals))
            elif k=='set_tool_power': g.set_tool_power(rnd.choice(vals))
            elif k=='bed': g.set_bed_temperature(rnd.choice(vals))
            elif k=='hotend': g.set_hotend_temperature(rnd.choice(vals))
            elif k=='chamber': g.set_chamber_temperature(rnd.choice(vals))
            elif k=='halt_t': g.halt(rnd.choice(['wait-for-bed','wait-for-hotend','wait-for-chamber']),**{rnd.choice(['S','R','s','r']):rnd.choice(vals)})
            elif k=='halt': g.halt(rnd.choice(['pause','wait-for-motion','optional-pause']),**({} if rnd.random()<0.5 else {'S':rnd.choice(vals)}))
            elif k=='dist': g.set_distance_mode(rnd.choice(['absolute','relative']))
            elif k=='emode': g.set_extrusion_mode(rnd.choice(['absolute','relative']))
            elif k=='fmode': g.set_feed_mode(rnd.choice(['1/time','units/min','units/rev']))
            elif k=='units':
                u=rnd.choice(['mm','in']); before_u=g.state.length_units.value; before_r=g.state.resolution
                g.set_length_units(u)
                same = (u=='mm')==(before_u=='millimeters')
                want = before_r   # the conversion through pixels is an identity (see DESIGN C07)
                if abs(g.state.resolution-want)>1e-9*max(1,abs(want)): issues.append(('C07 resolution not rescaled',seed,i,k,g.state.resolution,want))
            elif k=='plane': g.set_plane(rnd.choice(['xy','yz','zx']))
            elif k=='sleep': g.sleep(rnd.choice(vals))
            elif k=='fan': g.set_fan_speed(rnd.choice([0,100,255]))
            elif k=='query': g.query(rnd.choice(['position','temperature']))
        except Exception as e: pass
        for l in r.lines[n:]: m.exec(l)
        n=len(r.lines); s=g.state
        def chk(name,got,want):
            if want is not None and got!=want: issues.append(('C07 '+name,seed,i,k,got,want))
        chk('tool active',s.is_tool_active,m.tool)
        if m.tool:
            if last_api[0]=='spin': chk('start code',CODE[s.spin_mode.value],m.start)
            else: chk('start code',CODE[s.power_mode.value],m.start)
            chk('power',Fr(s.tool_power),m.S)
        chk('coolant',s.coolant_mode.value,m.cool); chk('tool number',s.tool_number if m.T is not None else None,m.T)
        chk('feed',Fr(s.feed_rate) if m.F is not None else None,m.F)
        chk('dist',s.distance_mode.value=='relative',m.rel); chk('emode',s.extrusion_mode.value=='relative',m.erel)
        chk('fmode',{'1/time':'G93','units/min':'G94','units/rev':'G95'}[s.feed_mode.value],m.fmode)
        chk('units',{'millimeters':'G21','inches':'G20'}[s.length_units.value],m.units); chk('plane',{'xy':'G17','zx':'G18','yz':'G19'}[s.plane.value],m.plane)
        chk('bed',s.target_bed_temperature if m.bed is not None else None,None if m.bed is None else float(m.bed)); chk('hotend',s.target_hotend_temperature if m.hot is not None else None,None if m.hot is None else float(m.hot))
        chk('chamber',s.target_chamber_temperature if m.ch is not None else None,None if m.ch is None else float(m.ch))
        for pk,pv in m.params.items():
            gv=g.get_parameter(pk)
            if gv is None or Fr(gv)!=pv: issues.append(('C07 param '+pk,seed,i,k,gv,pv))
    return issues
if __name__=="__main__":
    from collections import Counter
    N=int(sys.argv[1]) if len(sys.argv)>1 else 300
    cnt=Counter(); ex={}
    for sd in range(N):
        for iss in hist(sd): cnt[iss[0]]+=1; ex.setdefault(iss[0],iss)
    print(dict(cnt))
    for v in ex.values(): print("  e.g.",v)

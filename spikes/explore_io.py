"""Exploratory oracles for C14 (writers) and C17 (socket line splitting) on the unchanged tree. Not machinery."""
import io, os, random, sys, tempfile, shutil
from unittest import mock
from gscrib import GCodeBuilder
from gscrib.writers import BaseWriter, FileWriter
from gscrib.printrun.device import Device, READ_EMPTY, READ_EOF

class Rec(BaseWriter):
    def __init__(self): self.data=b""; self.connected=True
    def connect(self): self.connected=True; return self
    def disconnect(self, wait=True): self.connected=False
    def write(self, b): self.data+=b

def c14(seed, tmp):
    rnd=random.Random(seed); issues=[]
    le=rnd.choice(["\\n","\\r\\n","os"])
    g=GCodeBuilder(output=None, line_endings=le)
    ws=[]
    for i in range(rnd.randint(1,4)):
        kind=rnd.choice(['path','bytesio','stringio','rec'])
        if kind=='path': p=os.path.join(tmp,f"f{seed}_{i}.gcode"); ws.append((kind,FileWriter(p),p))
        elif kind=='bytesio': s=io.BytesIO(); ws.append((kind,FileWriter(s),s))
        elif kind=='stringio': s=io.StringIO(newline=''); ws.append((kind,FileWriter(s),s))
        else: w=Rec(); ws.append((kind,w,w))
    expected={id(w):b"" for _,w,_ in ws}
    registered=[]; reopen=set()
    class Tap(BaseWriter):
        def __init__(s): s.lines=[]
        def connect(s): return s
        def disconnect(s,wait=True): pass
        def write(s,b): s.lines.append(b)
    tap=Tap(); g.add_writer(tap)
    for step in range(rnd.randint(5,25)):
        k=rnd.choice(['add','add','remove','emit','emit','emit','flush','teardown'])
        if k=='add':
            _,w,_=rnd.choice(ws); g.add_writer(w)
            if w not in registered: registered.append(w)
        elif k=='remove':
            _,w,_=rnd.choice(ws); g.remove_writer(w)
            if w in registered: registered.remove(w)
        elif k=='emit':
            n0=len(tap.lines)
            rnd.choice([lambda: g.move(x=rnd.randint(0,9)), lambda: g.comment("héllo ✓ %d"%step), lambda: g.tool_off(), lambda: g.set_distance_mode("relative")])()
            for b in tap.lines[n0:]:
                for w in registered:
                    if id(w) in reopen: expected[id(w)]=b""; reopen.discard(id(w))
                    expected[id(w)]+=b
        elif k=='teardown':
            g.teardown()
            for kind,w,h in ws:
                if w in registered:
                    got=content(kind,w,h)
                    if got is not None and got!=expected[id(w)]: issues.append(('C14 content after mid teardown',seed,step,kind))
                    if kind=='path': reopen.add(id(w))      # a path writer re-opens (truncates) at its next write
            registered.clear(); g.add_writer(tap)
            try:
                g.get_writer(1); issues.append(('C14 writers left after teardown',seed,step))
            except IndexError: pass
        else:
            g.flush()
            for kind,w,h in ws:
                if w in registered:   # flush() only promises something for writers registered now
                    got=content(kind,w,h)
                    if got is not None and got!=expected[id(w)]: issues.append(('C14 content after flush',seed,step,kind,got[-40:],expected[id(w)][-40:]))
    g.teardown()
    for kind,w,h in ws:
        if w not in registered: continue
        got=content(kind,w,h)
        if got is not None and got!=expected[id(w)]: issues.append(('C14 content after teardown',seed,kind,len(got),len(expected[id(w)])))
        if kind=='rec' and w in registered and w.connected: issues.append(('C14 not disconnected',seed))
    return issues

def content(kind,w,h):
    if kind=='path':
        if not os.path.exists(h): return b""
        return open(h,'rb').read()
    if kind=='bytesio': return h.getvalue()
    if kind=='stringio': return h.getvalue().encode('utf-8')
    return h.data

def c17(seed):
    rnd=random.Random(seed); issues=[]
    n=rnd.randint(0,400)
    stream=bytes(rnd.choice(b"ab\n\n\r0123 ok") for _ in range(n))
    # fragment
    chunks=[]; i=0
    while i<len(stream):
        k=rnd.randint(1,rnd.choice([1,3,16,256])); chunks.append(stream[i:i+k]); i+=k
    script=[]
    for c in chunks:
        while rnd.random()<0.3: script.append(None)
        script.append(c)
    while rnd.random()<0.3: script.append(None)
    script.append(b"")  # EOF forever
    it=iter(script)
    class SockFile:
        def read(self, n):
            try: v=next(it)
            except StopIteration: return b""
            assert v is None or len(v)<=n
            return v
    class Sel:
        def select(self, t): return rnd.random()<0.5
    d=Device(); d._type='socket'; d._device=object(); d._socketfile=SockFile(); d._selector=Sel(); d._is_connected=True
    # when select returns True the code reads AGAIN -> consumes next script item; fine, still a valid fragmentation
    out=[]
    for _ in range(len(stream)+len(script)*3+10):
        r=d.readline()
        if r is READ_EOF: break
        if r!=READ_EMPTY: out.append(r)
    else: issues.append(('C17 no EOF',seed))
    if b"".join(out)!=stream: issues.append(('C17 bytes differ',seed,len(b"".join(out)),len(stream)))
    for j,l in enumerate(out):
        if l.count(b"\n")>1 or (b"\n" in l and not l.endswith(b"\n")): issues.append(('C17 bad cut',seed,j,l))
        if b"\n" not in l and j!=len(out)-1: issues.append(('C17 unterminated before end',seed,j,l))
    return issues

if __name__=="__main__":
    from collections import Counter
    N=int(sys.argv[1]) if len(sys.argv)>1 else 300
    tmp=tempfile.mkdtemp(prefix="gscrib_c14_")
    try:
        for name,f in (('C14',lambda s:c14(s,tmp)),('C17',c17)):
            cnt=Counter(); ex={}
            for s in range(N):
                for iss in f(s): cnt[iss[0]]+=1; ex.setdefault(iss[0],iss)
            print(name, dict(cnt))
            for v in ex.values(): print("   e.g.",v)
    finally: shutil.rmtree(tmp)

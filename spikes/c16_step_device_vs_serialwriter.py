"""Spike C16: real SerialWriter over a step-controlled port; main thread decides when each reply is released."""
import threading, time, queue, logging, sys
from unittest import mock
from gscrib.writers import SerialWriter
from gscrib.excepts import DeviceError
logging.disable(logging.CRITICAL)
from c15_sender_twin_vs_printcore import StepSerial, quiesce

def run(n_stmts, reply_plan, stale_m110=True):
    """reply_plan: per user statement, list of reply lines (status lines then terminal)."""
    ev=[]
    with mock.patch("serial.Serial", StepSerial), mock.patch("gscrib.printrun.device.Device._disable_ttyhup"):
        w = SerialWriter("/fake", 115200)
        conn = threading.Thread(target=w.connect); conn.start()
        ser=None
        t0=time.time()
        while StepSerial.inst is None or not StepSerial.inst.tx:
            time.sleep(0.002)
        ser=StepSerial.inst
        # handshake: ack G4 P0
        ser.rxq.put(b"ok\n"); quiesce(ser, 0.05)
        # startprint: first M110 -> ack it so the print thread can finish the empty job
        seen=len(ser.tx); ev.append(("tx-after-handshake", list(ser.tx)))
        ser.rxq.put(b"ok\n"); quiesce(ser, 0.15)
        ev.append(("tx-after-first-m110-ack", list(ser.tx)))
        conn.join(timeout=3); ev.append(("connected", not conn.is_alive()))
        base=len(ser.tx)
        # device has NOT yet acked the second M110 (outstanding ack) if stale_m110
        if not stale_m110:
            ser.rxq.put(b"ok\n"); quiesce(ser, 0.05)
        results={}
        def writer():
            for i in range(n_stmts):
                try:
                    w.write(b"G1 X%d\n" % i); results[i]=("returned", time.time())
                except DeviceError as e:
                    results[i]=("raised "+type(e).__name__, time.time())
        wt=threading.Thread(target=writer); wt.start()
        time.sleep(0.1)
        log=[]
        pending_replies=[]
        if stale_m110: pending_replies.append(("m110","ok"))
        for i in range(n_stmts):
            for r in reply_plan[i]: pending_replies.append((i,r))
        for owner, r in pending_replies:
            before=dict(results)
            ser.rxq.put((r+"\n").encode()); quiesce(ser, 0.03)
            newly=[k for k in results if k not in before]
            log.append((owner, r, "released ->", [(k,results[k][0]) for k in newly], "tx", ser.tx[base:]))
        wt.join(timeout=2)
        ev.append(("writer-done", not wt.is_alive()))
        w.disconnect(False)
    return ev, log

ev, log = run(3, [["ok"],["echo:busy","ok"],["ok"]], stale_m110=True)
for e in ev: print(e)
for l in log: print(l)
print("---- no stale ack")
ev, log = run(3, [["ok"],["X:1.00 Y:2.00 Z:3.00 E:0.00 Count X:0 Y:0 Z:0","ok"],["error: boom"]], stale_m110=False)
for e in ev: print(e)
for l in log: print(l)

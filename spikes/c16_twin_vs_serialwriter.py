"""Spike C16: Python twin of the direct-write LTS vs the real SerialWriter (threads) under random reply scripts.
The harness owns the device: for each statement it decides the reply script (status lines, ok / error) and releases
reply lines one by one, recording after each release which write() calls have completed and how."""
import threading, time, queue, logging, sys, random
from unittest import mock
from gscrib.writers import SerialWriter
from gscrib.excepts import DeviceError
logging.disable(logging.CRITICAL)
from c15_sender_twin_vs_printcore import StepSerial, quiesce

class Twin:
    """step-level model: ack flag, stored error, statement in flight"""
    def __init__(self, stale): self.ack=False; self.err=False; self.waiting=None; self.next=0; self.out=[]; self.stale=stale
    def w_send(self): self.ack=False; self.waiting=self.next; self.next+=1
    def listen(self, line):
        l=line.strip().lower()
        if l.startswith('ok'): self.ack=True
        elif l.startswith(('error','alarm','!!')): self.err=True; self.ack=True
    def w_wake(self):
        if self.waiting is not None and self.ack:
            self.out.append((self.waiting, 'raised' if self.err else 'returned')); self.err=False; self.waiting=None; return True
        return False

def run_case(seed):
    rnd=random.Random(seed)
    n=rnd.randint(1,5); stale=rnd.random()<0.3
    scripts=[]
    for i in range(n):
        s=[rnd.choice(["echo:busy: processing","X:1.00 Y:2.00 Z:3.00 E:0.00 Count X:0 Y:0 Z:0","T:20.0 /0.0 B:21.0 /0.0","// note","echo:lookahead buffer full","[MSG:Token rejected]"]) for _ in range(rnd.randint(0,2))]
        s.append(rnd.choice(["ok","ok","ok","ok T:21.5 /0.0","error: checksum","Alarm: hard limit","!! fatal"]))
        scripts.append(s)
    with mock.patch("serial.Serial", StepSerial), mock.patch("gscrib.printrun.device.Device._disable_ttyhup"):
        StepSerial.inst=None
        w=SerialWriter("/fake",115200)
        conn=threading.Thread(target=w.connect); conn.start()
        while StepSerial.inst is None or not StepSerial.inst.tx: time.sleep(0.002)
        ser=StepSerial.inst
        ser.rxq.put(b"ok\n"); quiesce(ser,0.05)          # handshake G4 P0
        ser.rxq.put(b"ok\n"); quiesce(ser,0.15)          # first M110
        conn.join(timeout=3); base=len(ser.tx)
        if not stale: ser.rxq.put(b"ok\n"); quiesce(ser,0.05)   # second M110 acked before the first write
        results=[]
        def writer():
            for i in range(n):
                try: w.write(b"G1 X%d\n"%i); results.append((i,'returned'))
                except DeviceError: results.append((i,'raised'))
        wt=threading.Thread(target=writer); wt.start(); time.sleep(0.08)
        tw=Twin(stale); tw.w_send()
        impl_trace=[]; model_trace=[]
        pending=(["ok"] if stale else [])
        # device answers statement k only after it received it: emulate by appending script k when tx shows it
        answered=0
        for _ in range(200):
            # device consumes newly transmitted statements
            while answered < len(ser.tx)-base and answered < n:
                pending += scripts[answered]; answered+=1
            if not pending: 
                if len(results)==n: break
                time.sleep(0.01); 
                if answered>=n and not pending: break
                continue
            line=pending.pop(0)
            before=len(results)
            ser.rxq.put((line+"\n").encode()); quiesce(ser,0.04)
            impl_trace.append((line, tuple(results[before:])))
            mb=len(tw.out); tw.listen(line)
            while tw.w_wake():
                if tw.next<n: tw.w_send()
            model_trace.append((line, tuple(tw.out[mb:])))
        wt.join(timeout=2)
        w.disconnect(False)
    return impl_trace, model_trace, stale, scripts

if __name__=="__main__":
    N=int(sys.argv[1]) if len(sys.argv)>1 else 20
    agree=0; early=0
    for s in range(N):
        it,mt,stale,scripts=run_case(s)
        ok = it==mt; agree+=ok
        if stale: early+=1
        if not ok: print("DISAGREE seed",s,"stale",stale,"\n impl ",it,"\n model",mt)
    print("cases",N,"agree",agree,"with stale ack",early)

structure V3 where
  x : Rat
  y : Rat
  z : Rat
deriving DecidableEq, Repr

structure Aff where
  a11 : Rat
  a12 : Rat
  a13 : Rat
  a21 : Rat
  a22 : Rat
  a23 : Rat
  a31 : Rat
  a32 : Rat
  a33 : Rat
  tx : Rat
  ty : Rat
  tz : Rat
deriving DecidableEq, Repr

def Aff.apply (A : Aff) (v : V3) : V3 :=
  ⟨A.a11*v.x + A.a12*v.y + A.a13*v.z + A.tx,
   A.a21*v.x + A.a22*v.y + A.a23*v.z + A.ty,
   A.a31*v.x + A.a32*v.y + A.a33*v.z + A.tz⟩

def Aff.comp (A B : Aff) : Aff :=
  ⟨A.a11*B.a11 + A.a12*B.a21 + A.a13*B.a31, A.a11*B.a12 + A.a12*B.a22 + A.a13*B.a32, A.a11*B.a13 + A.a12*B.a23 + A.a13*B.a33,
   A.a21*B.a11 + A.a22*B.a21 + A.a23*B.a31, A.a21*B.a12 + A.a22*B.a22 + A.a23*B.a32, A.a21*B.a13 + A.a22*B.a23 + A.a23*B.a33,
   A.a31*B.a11 + A.a32*B.a21 + A.a33*B.a31, A.a31*B.a12 + A.a32*B.a22 + A.a33*B.a32, A.a31*B.a13 + A.a32*B.a23 + A.a33*B.a33,
   A.a11*B.tx + A.a12*B.ty + A.a13*B.tz + A.tx,
   A.a21*B.tx + A.a22*B.ty + A.a23*B.tz + A.ty,
   A.a31*B.tx + A.a32*B.ty + A.a33*B.tz + A.tz⟩

def Aff.trans (p : V3) : Aff := ⟨1,0,0, 0,1,0, 0,0,1, p.x, p.y, p.z⟩
def Aff.lin (A : Aff) : Aff := { A with tx := 0, ty := 0, tz := 0 }

theorem comp_apply (A B : Aff) (v : V3) : (A.comp B).apply v = A.apply (B.apply v) := by
  simp only [Aff.comp, Aff.apply, V3.mk.injEq]
  refine ⟨?_, ?_, ?_⟩ <;> grind

-- pivot conjugation fixes the pivot for linear maps
theorem pivot_fixed (L : Aff) (p : V3) (hl : L.tx = 0 ∧ L.ty = 0 ∧ L.tz = 0) :
    (((Aff.trans p).comp L).comp (Aff.trans ⟨-p.x, -p.y, -p.z⟩)).apply p = p := by
  obtain ⟨h1, h2, h3⟩ := hl
  simp only [Aff.comp, Aff.apply, Aff.trans, h1, h2, h3]
  cases p; simp only [V3.mk.injEq]
  refine ⟨?_, ?_, ?_⟩ <;> grind

-- relative move: difference of images is the linear image of the difference
theorem diff_linear (A : Aff) (u v : V3) :
    (A.apply u).x - (A.apply v).x = (A.lin.apply ⟨u.x - v.x, u.y - v.y, u.z - v.z⟩).x := by
  simp only [Aff.apply, Aff.lin]; grind

import io, sys, traceback
from gscrib import GCodeBuilder
from gscrib.writers import BaseWriter

class Rec(BaseWriter):
    def __init__(self): self.lines=[]
    def connect(self): return self
    def disconnect(self, wait=True): pass
    def write(self, b): self.lines.append(b)

def mk(**kw):
    g = GCodeBuilder(output=None, line_endings="\n", **kw)
    r = Rec(); g.add_writer(r)
    return g, r

def attempt(label, f):
    try:
        f(); print(label, "-> OK")
    except Exception as e:
        print(label, "-> EXC", type(e).__name__, e)

# C06: tool-power bounds excluding zero
g,r = mk()
g.set_bounds("tool-power", 100, 1000)
g.tool_on("cw", 500)
attempt("C06 tool_off with bounds 100..1000", g.tool_off)
print(" active:", g.state.is_tool_active, r.lines)
attempt("C06 emergency_halt", lambda: g.emergency_halt("x"))
print(" active:", g.state.is_tool_active, r.lines)

# C03: probe out of bounds
g,r = mk()
g.set_bounds("axes", (0,0,0), (20,20,20))
attempt("C03 probe x=1000", lambda: g.probe("towards", x=1000))
print(r.lines)
attempt("C03 move x=1000", lambda: g.move(x=1000))
print(" pos core", g.position, "state", g.state.position, r.lines)

# C05: move with F then out-of-bounds
g,r = mk()
g.set_bounds("axes", (0,0,0), (20,20,20))
g.move(x=1,y=1,z=1,F=100)
attempt("C05 move x=1000 F=200", lambda: g.move(x=1000, F=200))
print(" pos core", g.position, "state", g.state.position, "feed", g.state.feed_rate, "param F", g.get_parameter("F"), "X", g.get_parameter("X"))

# C05 halt with bad temperature
g,r = mk()
g.set_bounds("bed-temperature", 0, 100)
attempt("C05 halt wait-for-bed S=500", lambda: g.halt("wait-for-bed", S=500))
print(" halt_mode", g.state.halt_mode, r.lines)

# C09
g,r = mk()
g.comment("hello\nM3 S1000")
g.move(x=1, comment="a\nG1 X999")
print(r.lines)
g,r = mk(comment_symbols="(")
g.comment("a) G1 X5 (b")
print(r.lines)

# C11 circle in relative mode
g,r = mk()
g.move(x=10,y=0,z=0)
g.set_distance_mode("relative")
attempt("C11 circle relative", lambda: g.trace.circle(center=(-10,0)))
print(len(r.lines), g.position)

# C10 thread from non-origin
g,r = mk()
g.move(x=10,y=0,z=0)
n0=len(r.lines)
g.trace.thread(target=(20,0,10), pitch=1)
import re, math
pts=[]
x=y=z=None
for l in r.lines[n0:]:
    s=l.decode()
    m=dict(re.findall(r'([XYZ])(-?[\d.]+)', s.split(';')[0]))
    pts.append(m)
print("thread first lines", r.lines[n0:n0+3], "final", g.position)

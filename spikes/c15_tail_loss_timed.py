import sys, time, logging
from unittest import mock
import fake_firmware_timed as fakefw
from gscrib.printrun import printcore, gcoder
logging.disable(logging.CRITICAL)
T0=time.time()
ev=[]
class FW(fakefw.Firmware):
    def feed(self, line):
        ev.append((round(time.time()-T0,4),"fw-rx",line)); super().feed(line)
class Q:
    def __init__(s,q): s.q=q
    def put(s,x): ev.append((round(time.time()-T0,4),"fw-tx",x.strip())); s.q.put(x)
    def get(s,**k): return s.q.get(**k)
fw = FW(corrupt={6,7}, resend_ok_gap=0.05, latency=0.01)
fw.out = Q(fw.out)
fakefw.FakeSerial.fw = fw
job = ["G1 X%d" % i for i in range(5)] + ["; comment only", "G1 Y1 ; trailing"]
with mock.patch("serial.Serial", fakefw.FakeSerial), mock.patch("gscrib.printrun.device.Device._disable_ttyhup"):
    core = printcore()
    core.sendcb = lambda c,g: ev.append((round(time.time()-T0,4),"send",c, core.resendfrom, core.lineno, core.clear))
    core.connect("/fake/port", 115200)
    while not core.online: time.sleep(0.01)
    time.sleep(0.2)
    fw.rx_index=0; ev.clear()
    core.startprint(gcoder.GCode(job))
    while core.printing: time.sleep(0.01)
    time.sleep(0.5)
    core.disconnect()
for e in ev[-22:]: print(e)
print([a for a in fw.accepted if a[0]!="raw"])

import io, sys, os
import numpy as np
from gscrib import GCodeBuilder
from gscrib.writers import BaseWriter, FileWriter
from gscrib.geometry import CoordinateTransformer, Point
from gscrib.formatters import DefaultFormatter

# C13 named aliasing
t = CoordinateTransformer()
t.translate(1,0,0)
t.save_state("a")
t.restore_state("a")
t.translate(5,0,0)
t.restore_state("a")
print("C13 named restored apply (expect 1,0,0):", t.apply_transform(Point(0,0,0)))

# C18 leading ok
from gscrib.writers.printrun_writer import PrintrunWriter
w = PrintrunWriter("serial", "localhost", "/dev/null", 115200)
w._on_device_message("ok T:210.5 /210.0 B:60.1 /60.0 @:127 B@:0")
print("C18 with ok:", w.get_parameter("T"), w.get_parameter("B"))
w._on_device_message("T:210.5 /210.0 B:60.1 /60.0 @:127 B@:0")
print("C18 without ok:", w.get_parameter("T"), w.get_parameter("B"))
w._on_device_message("X:1.00 Y:-2.50 Z:3.00 E:0.00 Count X:80 Y:-200 Z:1200")
print("M114:", [w.get_parameter(k) for k in "XYZE"])
w._on_device_message("<Idle|MPos:1.000,2.000,-3.000|FS:500,8000|WCO:0,0,0>")
print("grbl:", [w.get_parameter(k) for k in "XYZFS"])
w._on_device_message("[PRB:1.5,2.5,-3.5:1]")
print("prb:", [w.get_parameter(k) for k in "XYZ"])

# C14 truncation
p="/tmp/scratch/out.gcode"
fw = FileWriter(p)
g = GCodeBuilder(output=None, line_endings="\n")
g.add_writer(fw)
g.move(x=1); g.teardown()
g.add_writer(fw); g.move(x=2); g.flush()
print("C14 file:", open(p,'rb').read())
g.teardown()

# C08
f = DefaultFormatter()
for v in [1e15+0.25, 123456789.123456789, np.float32(12345.678), np.float32(0.1), -0.000001, 1e-320, 2.5e-6, 0.000005, 0.000015, 1e22, np.int64(5), True, -0.0, 5e-324]:
    try: print(repr(v), "->", f.number(v))
    except Exception as e: print(repr(v), "EXC", type(e).__name__, e)
f.set_decimal_places(12)
for v in [4503.1234567890123, 1e15+0.25, np.float32(0.1), 0.1]:
    print("dp12", repr(v), "->", f.number(v))
f.set_decimal_places(0)
for v in [0.5, 1.5, 2.5, -0.5, 0.4]:
    print("dp0", repr(v), "->", f.number(v))

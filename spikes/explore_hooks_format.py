"""Exploratory oracles for C20 (hooks/extrusion), C08 (line grammar) and C03 (bounded words) on the unchanged tree. Not machinery."""
import random, re, sys, math
from fractions import Fraction as Fr
import numpy as np
from gscrib import GCodeBuilder
from gscrib.hooks import extrusion_hook
from gscrib.writers import BaseWriter
class Rec(BaseWriter):
    def __init__(self): self.raw=[]
    def connect(self): return self
    def disconnect(self, wait=True): pass
    def write(self, b): self.raw.append(b)
W=re.compile(r'\b([A-Z])(-?\d+(?:\.\d+)?)')

def c20(seed):
    rnd=random.Random(seed); issues=[]
    g=GCodeBuilder(output=None,line_endings="\n",decimal_places=9); r=Rec(); g.add_writer(r)
    layer,noz,fil=rnd.choice([0.2,0.3]),rnd.choice([0.4,0.6]),rnd.choice([1.75,2.85])
    k=(noz*layer)/(math.pi*(fil/2)**2)
    calls=[]
    def probe_hook(o,t,p,s): calls.append((tuple(o),tuple(t))); return p
    def limit_feed(o,t,p,s):
        if p.get('F') is not None: p.update(F=min(p.get('F'),300))
        return p
    g.add_hook(probe_hook); g.add_hook(extrusion_hook(layer,noz,fil)); g.add_hook(limit_feed)
    g.set_axis(x=0,y=0,z=0,E=0)
    pos=[0.0,0.0,0.0]; rel=False; erel=False; epos=0.0; switched_without_reset=False
    n0=len(r.raw)
    for i in range(rnd.randint(5,25)):
        op=rnd.choice(['move','move','move','rapid','dist','emode','ereset','poly'])
        ncalls=len(calls); nlines=len(r.raw)
        if op=='dist': rel=not rel; g.set_distance_mode('relative' if rel else 'absolute')
        elif op=='emode':
            erel=not erel; g.set_extrusion_mode('relative' if erel else 'absolute')
            if not erel: switched_without_reset=True
        elif op=='ereset': g.set_axis(E=0); epos=0.0; switched_without_reset=False
        elif op in('move','rapid'):
            c={a: rnd.randint(-20,20)/2 for a in 'xyz' if rnd.random()<0.6}
            if rnd.random()<0.5: c['F']=rnd.choice([100,250,500,900])
            getattr(g,op)(**c)
        else:
            g.trace.polyline([tuple(rnd.randint(-20,20)/2 for _ in range(3)) for _ in range(2)])
        for b in r.raw[nlines:]:
            l=b.decode().split(';')[0]; w=dict(W.findall(l)); code=l.split()[0] if l.split() else ''
            if code in('G0','G1'):
                old=list(pos)
                for j,a in enumerate('XYZ'):
                    if a in w: pos[j]=pos[j]+float(w[a]) if rel else float(w[a])
                if 'F' in w and abs(float(w['F'])-g.state.feed_rate)>1e-9: issues.append(('C20 state.feed_rate != emitted F (hook result not tracked)',seed,i,w['F'],g.state.feed_rate))
                if 'F' in w and g.get_parameter('F') is not None and abs(float(w['F'])-g.get_parameter('F'))>1e-9: issues.append(('C20 remembered F != emitted F',seed,i))
                if code=='G1':
                    # hook call expected
                    if ncalls>=len(calls): issues.append(('C20 missing hook call',seed,i)); continue
                    o,t=calls[ncalls]; ncalls+=1
                    if max(abs(a-b) for a,b in zip(o,old))>1e-9 or max(abs(a-b) for a,b in zip(t,pos))>1e-9: issues.append(('C20 hook origin/target wrong',seed,i,o,old,t,pos,rel))
                    L=math.hypot(pos[0]-old[0],pos[1]-old[1]); want=k*L
                    if 'E' not in w: issues.append(('C20 no E word',seed,i)); continue
                    e=float(w['E'])
                    cmd = e if erel else e-epos
                    if abs(cmd-want)>1e-6:
                        issues.append(('C20 extrusion amount' + (' (after M83->M82 without reset)' if switched_without_reset else ''),seed,i,cmd,want,erel))
                    epos = epos+e if erel else e
                else:
                    if 'E' in w: issues.append(('C20 E on rapid',seed,i))
        if ncalls!=len(calls): issues.append(('C20 extra hook calls',seed,i,op))
    return issues

LINE=re.compile(r'^(?:[A-Z]+-?\d+(?:\.\d+)?)(?: +[A-Z]+-?\d+(?:\.\d+)?)*(?: *;.*)?$|^;.*$')
def c08_lines(seed):
    rnd=random.Random(seed); issues=[]
    le=rnd.choice(["\\n","\\r\\n"]); end={"\\n":b"\n","\\r\\n":b"\r\n"}[le]
    g=GCodeBuilder(output=None,line_endings=le,decimal_places=rnd.randint(0,12)); r=Rec(); g.add_writer(r)
    vals=[0,1,-1,0.5,1e-7,-2.5e-6,123456.789,1e15,-1e15,5e-324,np.float64(3.25),np.int64(7),1/3]
    v=lambda: rnd.choice(vals)
    ops=[lambda: g.move(x=v(),y=v(),F=abs(v())), lambda: g.rapid(z=v()), lambda: g.set_axis(x=v()), lambda: g.auto_home(), lambda: g.probe('towards',z=v(),F=abs(v())),
         lambda: g.set_feed_rate(abs(v())), lambda: g.set_tool_power(abs(v())), lambda: g.tool_on('cw',abs(v())), lambda: g.tool_off(), lambda: g.tool_change('manual',rnd.choice([1,7,12,123,12345])),
         lambda: g.coolant_on('mist'), lambda: g.coolant_off(), lambda: g.sleep(abs(v())), lambda: g.set_fan_speed(rnd.choice([0,128,255])), lambda: g.set_bed_temperature(abs(v())),
         lambda: g.halt('wait-for-hotend',S=abs(v())), lambda: g.pause(), lambda: g.comment("plain text"), lambda: g.annotate("k","v v"), lambda: g.query('position'),
         lambda: g.set_length_units('in'), lambda: g.set_plane('zx'), lambda: g.set_extrusion_mode('relative'), lambda: g.set_feed_mode('inverse-time'), lambda: g.emergency_halt("stop now")]
    for i in range(40):
        n=len(r.raw)
        try: rnd.choice(ops)()
        except Exception as e: continue
        for b in r.raw[n:]:
            if not b.endswith(end) or b.count(b"\n")!=1: issues.append(('C08 terminator',seed,b)); continue
            s=b[:-len(end)].decode()
            if '\r' in s or '\n' in s: issues.append(('C08 embedded break',seed,b))
            if not LINE.match(s): issues.append(('C08 grammar',seed,s))
            if re.search(r'\d[eE][-+]?\d',s.split(';')[0]) or 'nan' in s.split(';')[0].lower() or 'inf' in s.split(';')[0].lower(): issues.append(('C08 exponent/nan',seed,s))
    return issues

if __name__=="__main__":
    from collections import Counter
    N=int(sys.argv[1]) if len(sys.argv)>1 else 300
    for name,f in (('C20',c20),('C08',c08_lines)):
        cnt=Counter(); ex={}
        for s in range(N):
            for iss in f(s): cnt[iss[0]]+=1; ex.setdefault(iss[0],iss)
        print(name, dict(cnt))
        for v in ex.values(): print("   e.g.",v)

/-! Spike for C13_reverse: exact inverse of an affine map (adjugate / determinant) over ℚ and
    `reverse (apply v) = v` whenever det ≠ 0. -/
structure V3 where
  x : Rat
  y : Rat
  z : Rat
deriving DecidableEq, Repr
structure Aff where
  a11 : Rat
  a12 : Rat
  a13 : Rat
  a21 : Rat
  a22 : Rat
  a23 : Rat
  a31 : Rat
  a32 : Rat
  a33 : Rat
  tx : Rat
  ty : Rat
  tz : Rat
deriving Repr
def Aff.apply (A : Aff) (v : V3) : V3 :=
  ⟨A.a11*v.x + A.a12*v.y + A.a13*v.z + A.tx, A.a21*v.x + A.a22*v.y + A.a23*v.z + A.ty, A.a31*v.x + A.a32*v.y + A.a33*v.z + A.tz⟩
def Aff.det (A : Aff) : Rat :=
  A.a11*(A.a22*A.a33 - A.a23*A.a32) - A.a12*(A.a21*A.a33 - A.a23*A.a31) + A.a13*(A.a21*A.a32 - A.a22*A.a31)
/-- adjugate (transpose of the cofactor matrix), not yet divided by det -/
def Aff.adj (A : Aff) : Aff :=
  ⟨A.a22*A.a33 - A.a23*A.a32, A.a13*A.a32 - A.a12*A.a33, A.a12*A.a23 - A.a13*A.a22,
   A.a23*A.a31 - A.a21*A.a33, A.a11*A.a33 - A.a13*A.a31, A.a13*A.a21 - A.a11*A.a23,
   A.a21*A.a32 - A.a22*A.a31, A.a12*A.a31 - A.a11*A.a32, A.a11*A.a22 - A.a12*A.a21, 0, 0, 0⟩
/-- `Transform.reverse`: adj/det applied to (p − t) -/
def Aff.reverse (A : Aff) (p : V3) : V3 :=
  let d := A.det; let J := A.adj
  let q : V3 := ⟨p.x - A.tx, p.y - A.ty, p.z - A.tz⟩
  ⟨(J.a11*q.x + J.a12*q.y + J.a13*q.z) / d, (J.a21*q.x + J.a22*q.y + J.a23*q.z) / d, (J.a31*q.x + J.a32*q.y + J.a33*q.z) / d⟩

theorem adj_mul (A : Aff) (v : V3) :
    let J := A.adj; let p := A.apply v
    J.a11*(p.x - A.tx) + J.a12*(p.y - A.ty) + J.a13*(p.z - A.tz) = A.det * v.x ∧
    J.a21*(p.x - A.tx) + J.a22*(p.y - A.ty) + J.a23*(p.z - A.tz) = A.det * v.y ∧
    J.a31*(p.x - A.tx) + J.a32*(p.y - A.ty) + J.a33*(p.z - A.tz) = A.det * v.z := by
  simp only [Aff.adj, Aff.apply, Aff.det]
  refine ⟨?_, ?_, ?_⟩ <;> grind

theorem C13_reverse (A : Aff) (v : V3) (hd : A.det ≠ 0) : A.reverse (A.apply v) = v := by
  obtain ⟨h1, h2, h3⟩ := adj_mul A v
  simp only [Aff.reverse]
  cases v with | mk x y z =>
  simp only [V3.mk.injEq] at *
  refine ⟨?_, ?_, ?_⟩
  · rw [h1]; grind
  · rw [h2]; grind
  · rw [h3]; grind
#print axioms C13_reverse

import Mathlib.Tactic.Linarith
import Mathlib.Tactic.Ring
import Mathlib.Data.Rat.Defs
import Mathlib.Algebra.Order.Field.Rat

/-- C19_sparse_between: a barycentric (convex) combination of three vertex heights lies between their min and max -/
theorem convex3_bounds (w1 w2 w3 h1 h2 h3 lo hi : ℚ)
    (p1 : 0 ≤ w1) (p2 : 0 ≤ w2) (p3 : 0 ≤ w3) (hs : w1 + w2 + w3 = 1)
    (l1 : lo ≤ h1) (l2 : lo ≤ h2) (l3 : lo ≤ h3) (u1 : h1 ≤ hi) (u2 : h2 ≤ hi) (u3 : h3 ≤ hi) :
    lo ≤ w1 * h1 + w2 * h2 + w3 * h3 ∧ w1 * h1 + w2 * h2 + w3 * h3 ≤ hi := by
  constructor
  · have a := mul_le_mul_of_nonneg_left l1 p1
    have b := mul_le_mul_of_nonneg_left l2 p2
    have c := mul_le_mul_of_nonneg_left l3 p3
    have : lo = w1 * lo + w2 * lo + w3 * lo := by
      have : (w1 + w2 + w3) * lo = lo := by rw [hs, one_mul]
      linarith [this]
    linarith
  · have a := mul_le_mul_of_nonneg_left u1 p1
    have b := mul_le_mul_of_nonneg_left u2 p2
    have c := mul_le_mul_of_nonneg_left u3 p3
    have : hi = w1 * hi + w2 * hi + w3 * hi := by
      have : (w1 + w2 + w3) * hi = hi := by rw [hs, one_mul]
      linarith [this]
    linarith

/-- at a vertex the interpolant returns the stored height -/
theorem convex3_vertex (h1 h2 h3 : ℚ) : (1:ℚ) * h1 + 0 * h2 + 0 * h3 = h1 := by ring
#print axioms convex3_bounds

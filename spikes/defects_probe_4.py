"""C05 leak escalates to a C03/C01 violation: a rejected move poisons the origin of the next relative move."""
from gscrib import GCodeBuilder
from gscrib.writers import BaseWriter
class Rec(BaseWriter):
    def __init__(self): self.lines=[]
    def connect(self): return self
    def disconnect(self, wait=True): pass
    def write(self, b): self.lines.append(b.decode())
g=GCodeBuilder(output=None, line_endings="\n"); r=Rec(); g.add_writer(r)
g.set_bounds("axes",(-10,-10,-10),(10,10,10))
g.set_axis(x=0,y=0,z=0)
try: g.move(x=1000)
except ValueError as e: print("rejected:", e)
g.set_distance_mode("relative")
g.move(x=-995)          # builder believes 1000-995 = 5 (inside the box); the machine is at 0 and goes to -995
print(r.lines, "builder:", g.position, "state:", g.state.position)

-- Spike for C17: Device._readline_buf / _readline_socket over lists of bytes (Nat), newline = 10
abbrev Bytes := List Nat
def NL : Nat := 10

/-- index of first newline, if any -/
def findNL : Bytes → Option Nat
  | [] => none
  | b :: bs => if b = NL then some 0 else (findNL bs).map (· + 1)

/-- `_readline_buf`: look only at the last chunk -/
def readlineBuf (buf : List Bytes) : Bytes × List Bytes :=
  match buf.getLast? with
  | none => ([], buf)
  | some chunk =>
    match findNL chunk with
    | none => ([], buf)
    | some eol =>
      let line := buf.dropLast.flatten ++ chunk.take (eol + 1)
      let rest := chunk.drop (eol + 1)
      (line, if rest.isEmpty then [] else [rest])

inductive Ev where
  | chunk (bs : Bytes)   -- non-empty read
  | again                -- no data (after select timeout)
  | eof
deriving Repr

inductive Res where
  | line (bs : Bytes)
  | empty
  | eofR
deriving Repr, DecidableEq

/-- one call of `_readline_socket` against a script of socket events; returns result, new buffer, remaining script -/
def readlineSocket : List Bytes → List Ev → Res × List Bytes × List Ev
  | buf, evs =>
    let (l, buf') := readlineBuf buf
    if !l.isEmpty then (.line l, buf', evs) else go buf evs
where
  go : List Bytes → List Ev → Res × List Bytes × List Ev
  | buf, [] => (.empty, buf, [])          -- script exhausted: behaves like 'again'
  | buf, .again :: evs => (.empty, buf, evs)
  | buf, .eof :: evs =>
      let l := buf.flatten
      if !l.isEmpty then (.line l, [], .eof :: evs) else (.eofR, [], .eof :: evs)
  | buf, .chunk bs :: evs =>
      if bs.isEmpty then go buf evs else
      let (l, buf') := readlineBuf (buf ++ [bs])
      if !l.isEmpty then (.line l, buf', evs) else go buf' evs

-- basic facts
theorem findNL_some_lt {bs : Bytes} {i : Nat} (h : findNL bs = some i) : i < bs.length := by
  induction bs generalizing i with
  | nil => simp [findNL] at h
  | cons b bs ih =>
    simp only [findNL] at h
    split at h
    · simp at h; simp; omega
    · cases hf : findNL bs with
      | none => simp [hf] at h
      | some j => simp [hf] at h; have := ih hf; simp; omega

/-- conservation: bytes of returned line ++ bytes left in buffer = bytes that were in the buffer -/
theorem readlineBuf_conserve (buf : List Bytes) :
    (readlineBuf buf).1 ++ (readlineBuf buf).2.flatten = buf.flatten := by
  unfold readlineBuf
  cases hl : buf.getLast? with
  | none => simp
  | some chunk =>
    obtain ⟨ys, rfl⟩ := List.getLast?_eq_some_iff.mp hl
    cases hf : findNL chunk with
    | none => simp [hf]
    | some eol =>
      by_cases he : chunk.length ≤ eol + 1
      · have h0 : chunk.drop (eol+1) = [] := List.drop_eq_nil_of_le he
        have h1 : chunk.take (eol+1) = chunk := List.take_of_length_le he
        simp [hf, he, h1]
      · simp [hf, he]

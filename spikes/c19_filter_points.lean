/-! Spike for C19: `_filter_points` (raster and sparse heightmaps share it).  A sample is (id, z): ids are the
    positions on the line (distinct), so `numpy.array_equal(lines[-1], last_point)` is `id` equality. -/
structure Sample where
  id : Nat
  z  : Rat
deriving DecidableEq, Repr

def absR (q : Rat) : Rat := if q < 0 then -q else q

/-- the loop `for point in points: if abs(point.z - last_z) >= tol: keep; last_z = point.z` -/
def keepLoop (tol : Rat) : Rat → List Sample → List Sample
  | _, [] => []
  | lastZ, p :: ps => if tol ≤ absR (p.z - lastZ) then p :: keepLoop tol p.z ps else keepLoop tol lastZ ps

def filterPoints (tol : Rat) : List Sample → List Sample
  | [] => []
  | first :: rest =>
      let pts := first :: rest
      let kept := first :: keepLoop tol first.z pts      -- the loop starts again at the first point
      match pts.getLast?, kept.getLast? with
      | some l, some k => if k = l then kept else kept ++ [l]
      | _, _ => kept

theorem keepLoop_sublist (tol : Rat) : ∀ (z : Rat) (ps : List Sample), (keepLoop tol z ps).Sublist ps
  | _, [] => by simp [keepLoop]
  | z, p :: ps => by
      simp only [keepLoop]; split
      · exact (keepLoop_sublist tol p.z ps).cons₂ p
      · exact (keepLoop_sublist tol z ps).cons p

/-- every dropped sample is closer than `tol` (in height) to the sample kept before it -/
def DropsOk (tol : Rat) : Rat → List Sample → Prop
  | _, [] => True
  | lastZ, p :: ps => if tol ≤ absR (p.z - lastZ) then DropsOk tol p.z ps else absR (p.z - lastZ) < tol ∧ DropsOk tol lastZ ps

theorem drops_ok (tol : Rat) : ∀ (z : Rat) (ps : List Sample), DropsOk tol z ps
  | _, [] => trivial
  | z, p :: ps => by
      simp only [DropsOk]; split
      · exact drops_ok tol p.z ps
      · rename_i h; exact ⟨by grind, drops_ok tol z ps⟩

/-- with a positive tolerance the first point is not kept twice -/
theorem first_not_duplicated (tol : Rat) (ht : 0 < tol) (first : Sample) (rest : List Sample) :
    keepLoop tol first.z (first :: rest) = keepLoop tol first.z rest := by
  simp only [keepLoop]
  have : ¬ tol ≤ absR (first.z - first.z) := by
    have : first.z - first.z = 0 := by grind
    rw [this]; simp [absR]; grind
  simp [this]

theorem filterPoints_head (tol : Rat) (first : Sample) (rest : List Sample) :
    (filterPoints tol (first :: rest)).head? = some first := by
  simp only [filterPoints]
  split
  · split <;> simp
  · simp

#eval filterPoints (1/2) [⟨0, 0⟩, ⟨1, 1/4⟩, ⟨2, 3/4⟩, ⟨3, 1⟩, ⟨4, 1⟩]
#eval filterPoints 0 [⟨0, 0⟩, ⟨1, 1/4⟩]        -- tolerance 0: the first point is duplicated (excluded: tol > 0)

import re, math, numpy as np
from gscrib import GCodeBuilder
from gscrib.writers import BaseWriter
class Rec(BaseWriter):
    def __init__(self): self.lines=[]
    def connect(self): return self
    def disconnect(self, wait=True): pass
    def write(self, b): self.lines.append(b.decode())
def run(rel, f, start=(10,0,0), res=0.1, dirn="cw"):
    g = GCodeBuilder(output=None, line_endings="\n", decimal_places=9); r=Rec(); g.add_writer(r)
    g.set_resolution(res); g.set_direction(dirn)
    g.move(x=start[0],y=start[1],z=start[2])
    if rel: g.set_distance_mode("relative")
    n0=len(r.lines); f(g)
    pos=list(start); pts=[]
    for l in r.lines[n0:]:
        w=dict(re.findall(r'([XYZ])(-?[\d.]+)', l.split(';')[0]))
        for i,a in enumerate("XYZ"):
            if a in w: pos[i] = (pos[i]+float(w[a])) if rel else float(w[a])
        pts.append(tuple(pos))
    return np.array([start]+pts), g
for name,f in [("arc", lambda g: g.trace.arc((0,10) if g.distance_mode=="absolute" else (-10,10), (-10,0))),
               ("arc_radius", lambda g: g.trace.arc_radius((0,10) if g.distance_mode=="absolute" else (-10,10), 10)),
               ("helix", lambda g: g.trace.helix((10,0,5) if g.distance_mode=="absolute" else (0,0,5), (-10,0), 2)),
               ("spiral", lambda g: g.trace.spiral((20,0) if g.distance_mode=="absolute" else (10,0), 2)),
               ("spline", lambda g: g.trace.spline([(15,5),(20,-5),(25,0)] if g.distance_mode=="absolute" else [(5,5),(5,-10),(5,5)])),
               ]:
    for rel in (False, True):
        try:
            P,g = run(rel,f)
            seg = np.linalg.norm(np.diff(P,axis=0),axis=1)
            print(name, "rel" if rel else "abs", "n=",len(seg), "first %.4f last %.4f min-mid %.4f max %.4f"%(seg[0],seg[-1],seg[1:-1].min(),seg.max()), "end", P[-1].round(5), "pos", tuple(round(float(v),5) for v in g.position))
        except Exception as e:
            print(name, rel, "EXC", type(e).__name__, e)

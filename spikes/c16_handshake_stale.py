"""C16 residual: a device that is slow to answer the connect probes (G4 P0) and later answers all of them."""
import threading, time, logging, sys
from unittest import mock
from gscrib.writers import SerialWriter
logging.disable(logging.CRITICAL)
from c15_sender_twin_vs_printcore import StepSerial, quiesce
with mock.patch("serial.Serial", StepSerial), mock.patch("gscrib.printrun.device.Device._disable_ttyhup"):
    StepSerial.inst=None
    w=SerialWriter("/fake",115200)
    conn=threading.Thread(target=w.connect); conn.start()
    while StepSerial.inst is None: time.sleep(0.002)
    ser=StepSerial.inst
    t0=time.time()
    while len([x for x in ser.tx if x=="G4 P0"])<2 and time.time()-t0<5: time.sleep(0.01)   # 15 empty reads -> second probe
    print("probes sent before any answer:", ser.tx)
    ser.rxq.put(b"ok\n"); quiesce(ser,0.1)      # answer to probe 1 -> online, startprint
    for _ in range(4):                            # acks for M110 #1, M110 #2 (and whatever is awaited)
        if conn.is_alive(): ser.rxq.put(b"ok\n"); quiesce(ser,0.15)
    conn.join(timeout=3); print("connected:", not conn.is_alive(), "tx:", ser.tx)
    base=len(ser.tx); done=[]
    wt=threading.Thread(target=lambda: (w.write(b"G1 X0\n"), done.append(0)), daemon=True); wt.start(); time.sleep(0.1)
    print("statement on the wire:", ser.tx[base:], "returned before any reply:", bool(done))
    ser.rxq.put(b"ok\n"); quiesce(ser,0.05)      # the LATE answer to probe 2 (stale)
    print("after the stale probe answer -> write returned:", bool(done), "(device has not answered G1 X0 yet)")
    ser.rxq.put(b"ok\n"); quiesce(ser,0.05); wt.join(timeout=1)
    w.disconnect(False)

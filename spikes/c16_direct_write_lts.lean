/-! Spike for C16: `PrintrunWriter.write` (clear ack; enqueue; wait ack; raise stored error), the sender thread,
    the listener callback and a device that answers every statement with status lines followed by exactly one
    terminal reply, as a transition system.  Statement ids are ghost indices 0,1,2,…  -/

inductive Reply where
  | status                      -- any line that is neither ok… nor error…/alarm…/!!…
  | ok  (k : Nat)               -- terminal: acknowledgement (k is ghost: which statement the device answered)
  | bad (k : Nat)               -- terminal: error reply
deriving Repr, DecidableEq

def Reply.terminal : Reply → Bool
  | .status => false | _ => true

inductive WState where
  | idle | waiting (k : Nat)
deriving Repr, DecidableEq

structure St where
  next     : Nat := 0                 -- id of the next statement the caller will write
  wstate   : WState := .idle
  ack      : Bool := false            -- threading.Event
  err      : Bool := false            -- _device_error is not None
  priq     : List Nat := []
  toDev    : List Nat := []           -- bytes on the wire, one statement each
  toHost   : List Reply := []         -- reply lines on the wire (head = oldest)
  devDone  : List Nat := []           -- ghost: statements whose terminal reply the device has emitted
  devLog   : List Nat := []           -- device receive log
  outcomes : List (Nat × Bool) := []  -- (statement, raised?) in order of return
deriving Repr

inductive Act where
  | wSend                         -- write(): _ack_event.clear(); device.send(cmd)
  | wWake                         -- _ack_event.wait() returns; _abort_on_device_error()
  | sSend                         -- sender thread pops the priority queue and writes to the port
  | dProcess (nStatus : Nat) (isErr : Bool)   -- device consumes one statement, emits nStatus status lines + terminal
  | lListen                       -- reader thread delivers one line to _on_device_message
deriving Repr, DecidableEq

def step (s : St) : Act → Option St
  | .wSend =>
      if s.wstate = .idle then
        some { s with ack := false, priq := s.priq ++ [s.next], wstate := .waiting s.next, next := s.next + 1 }
      else none
  | .wWake =>
      match s.wstate with
      | .waiting k =>
          if s.ack then some { s with wstate := .idle, outcomes := s.outcomes ++ [(k, s.err)], err := false }
          else none
      | .idle => none
  | .sSend =>
      match s.priq with
      | [] => none
      | k :: ks => some { s with priq := ks, toDev := s.toDev ++ [k] }
  | .dProcess n isErr =>
      match s.toDev with
      | [] => none
      | k :: ks =>
          some { s with toDev := ks, devLog := s.devLog ++ [k], devDone := s.devDone ++ [k],
                        toHost := s.toHost ++ List.replicate n .status ++ [if isErr then .bad k else .ok k] }
  | .lListen =>
      match s.toHost with
      | [] => none
      | r :: rs =>
          let s := { s with toHost := rs }
          match r with
          | .status => some s                                   -- parsed for readings, no ack
          | .ok _   => some { s with ack := true }
          | .bad _  => some { s with ack := true, err := true }

def run (s : St) : List Act → Option St
  | [] => some s
  | a :: as => (step s a).bind (fun s' => run s' as)

/-- terminal replies still on the wire -/
def termOf (l : List Reply) : List Reply := l.filter (·.terminal)

/-- Invariant when no acknowledgement is outstanding at the first write. -/
def SInv (s : St) : Prop :=
  (∀ p ∈ s.outcomes, p.1 ∈ s.devDone) ∧
  match s.wstate with
  | .idle => s.priq = [] ∧ s.toDev = [] ∧ termOf s.toHost = [] ∧ s.err = false
  | .waiting k =>
        (s.priq = [k] ∧ s.toDev = [] ∧ termOf s.toHost = [] ∧ s.ack = false ∧ s.err = false)
      ∨ (s.priq = [] ∧ s.toDev = [k] ∧ termOf s.toHost = [] ∧ s.ack = false ∧ s.err = false)
      ∨ (s.priq = [] ∧ s.toDev = [] ∧ (termOf s.toHost = [.ok k] ∨ termOf s.toHost = [.bad k]) ∧ s.ack = false ∧ s.err = false ∧ k ∈ s.devDone)
      ∨ (s.priq = [] ∧ s.toDev = [] ∧ termOf s.toHost = [] ∧ s.ack = true ∧ k ∈ s.devDone)

theorem inv_init : SInv {} := by simp [SInv, termOf]

theorem filter_replicate_status (n : Nat) : (List.replicate n Reply.status).filter (·.terminal) = [] := by
  induction n with
  | zero => simp
  | succ n ih => simp [List.replicate_succ, Reply.terminal, ih]

theorem step_inv {s s' : St} (a : Act) (h : SInv s) (hs : step s a = some s') : SInv s' := by
  obtain ⟨hout, hw⟩ := h
  cases a with
  | wSend =>
    simp only [step] at hs
    split at hs
    · rename_i hidle
      simp at hs; subst hs
      rw [hidle] at hw
      obtain ⟨hp, ht, hf, he⟩ := hw
      refine ⟨hout, ?_⟩
      simp only
      exact Or.inl ⟨by simp [hp], ht, hf, by simp, he⟩
    · simp at hs
  | wWake =>
    simp only [step] at hs
    cases hws : s.wstate with
    | idle => simp [hws] at hs
    | waiting k =>
      rw [hws] at hs hw
      simp only at hs
      split at hs
      · rename_i hack
        simp at hs; subst hs
        rcases hw with h | h | h | h
        · simp [h.2.2.2.1] at hack
        · simp [h.2.2.2.1] at hack
        · simp [h.2.2.2.1] at hack
        · refine ⟨?_, ?_⟩
          · intro p hp
            simp only [List.mem_append, List.mem_singleton] at hp
            rcases hp with hp | rfl
            · exact hout p hp
            · exact h.2.2.2.2
          · simp only
            exact ⟨h.1, h.2.1, h.2.2.1, by simp⟩
      · simp at hs
  | sSend =>
    simp only [step] at hs
    cases hp : s.priq with
    | nil => simp [hp] at hs
    | cons k ks =>
      rw [hp] at hs; simp at hs; subst hs
      refine ⟨hout, ?_⟩
      cases hws : s.wstate with
      | idle => rw [hws] at hw; simp [hw.1] at hp
      | waiting j =>
        rw [hws] at hw
        simp only
        rcases hw with h | h | h | h
        · rw [h.1] at hp; simp at hp; obtain ⟨rfl, rfl⟩ := hp
          exact Or.inr (Or.inl ⟨rfl, by simp [h.2.1], h.2.2.1, h.2.2.2.1, h.2.2.2.2⟩)
        · simp [h.1] at hp
        · simp [h.1] at hp
        · simp [h.1] at hp
  | dProcess n isErr =>
    simp only [step] at hs
    cases ht : s.toDev with
    | nil => simp [ht] at hs
    | cons k ks =>
      rw [ht] at hs; simp at hs; subst hs
      refine ⟨fun p hp => by simp; exact Or.inl (hout p hp), ?_⟩
      cases hws : s.wstate with
      | idle => rw [hws] at hw; simp [hw.2.1] at ht
      | waiting j =>
        rw [hws] at hw
        simp only
        rcases hw with h | h | h | h
        · simp [h.2.1] at ht
        · rw [h.2.1] at ht; simp at ht; obtain ⟨rfl, rfl⟩ := ht
          refine Or.inr (Or.inr (Or.inl ⟨h.1, rfl, ?_, h.2.2.2.1, h.2.2.2.2, by simp⟩))
          have hf : s.toHost.filter (·.terminal) = [] := h.2.2.1
          have hrep := filter_replicate_status n
          cases isErr
          · left; simp only [termOf, List.filter_append, hf, hrep, List.nil_append]; simp [Reply.terminal]
          · right; simp only [termOf, List.filter_append, hf, hrep, List.nil_append]; simp [Reply.terminal]
        · simp [h.2.1] at ht
        · simp [h.2.1] at ht
  | lListen =>
    simp only [step] at hs
    cases hth : s.toHost with
    | nil => simp [hth] at hs
    | cons r rs =>
      rw [hth] at hs
      cases hws : s.wstate with
      | idle =>
        rw [hws] at hw
        have hf : (r :: rs).filter (·.terminal) = [] := by have := hw.2.2.1; simpa [termOf, hth] using this
        cases r with
        | status => simp at hs; subst hs; refine ⟨hout, ?_⟩; simp only [hws]; refine ⟨hw.1, hw.2.1, ?_, hw.2.2.2⟩; simpa [termOf, Reply.terminal] using hf
        | ok k => simp [Reply.terminal] at hf
        | bad k => simp [Reply.terminal] at hf
      | waiting j =>
        rw [hws] at hw
        cases r with
        | status =>
          simp at hs; subst hs
          refine ⟨hout, ?_⟩
          simp only [hws]
          have hfl : termOf rs = termOf s.toHost := by simp [termOf, hth, Reply.terminal]
          rcases hw with h | h | h | h
          · exact Or.inl ⟨h.1, h.2.1, by rw [hfl]; exact h.2.2.1, h.2.2.2.1, h.2.2.2.2⟩
          · exact Or.inr (Or.inl ⟨h.1, h.2.1, by rw [hfl]; exact h.2.2.1, h.2.2.2.1, h.2.2.2.2⟩)
          · exact Or.inr (Or.inr (Or.inl ⟨h.1, h.2.1, by rw [hfl]; exact h.2.2.1, h.2.2.2.1, h.2.2.2.2.1, h.2.2.2.2.2⟩))
          · exact Or.inr (Or.inr (Or.inr ⟨h.1, h.2.1, by rw [hfl]; exact h.2.2.1, h.2.2.2.1, h.2.2.2.2⟩))
        | ok k =>
          simp at hs; subst hs
          refine ⟨hout, ?_⟩
          simp only [hws]
          have hfl : termOf s.toHost = .ok k :: termOf rs := by simp [termOf, hth, Reply.terminal]
          rcases hw with h | h | h | h
          · rw [hfl] at h; simp at h
          · rw [hfl] at h; simp at h
          · rw [hfl] at h
            obtain ⟨hp, ht, hin, _, _, hd⟩ := h
            rcases hin with hin | hin
            · simp at hin; obtain ⟨rfl, hrs⟩ := hin
              exact Or.inr (Or.inr (Or.inr ⟨hp, ht, hrs, by simp, hd⟩))
            · simp at hin
          · rw [hfl] at h; simp at h
        | bad k =>
          simp at hs; subst hs
          refine ⟨hout, ?_⟩
          simp only [hws]
          have hfl : termOf s.toHost = .bad k :: termOf rs := by simp [termOf, hth, Reply.terminal]
          rcases hw with h | h | h | h
          · rw [hfl] at h; simp at h
          · rw [hfl] at h; simp at h
          · rw [hfl] at h
            obtain ⟨hp, ht, hin, _, _, hd⟩ := h
            rcases hin with hin | hin
            · simp at hin
            · simp at hin; obtain ⟨rfl, hrs⟩ := hin
              exact Or.inr (Or.inr (Or.inr ⟨hp, ht, hrs, by simp, hd⟩))
          · rw [hfl] at h; simp at h

theorem run_inv : ∀ (acts : List Act) (s s' : St), SInv s → run s acts = some s' → SInv s'
  | [], s, s', h, hr => by simp [run] at hr; subst hr; exact h
  | a :: as, s, s', h, hr => by
      simp only [run] at hr
      cases hst : step s a with
      | none => simp [hst] at hr
      | some s1 => simp [hst] at hr; exact run_inv as s1 s' (step_inv a h hst) hr

/-- **C16_sync_partial**: with no acknowledgement outstanding before the first write, every `write()` that has
    returned (or raised) did so after the device emitted the terminal reply to that very statement — for every
    interleaving of caller, sender thread, reader thread and device, any number of status lines, any error replies. -/
theorem C16_sync_partial (acts : List Act) (s : St) (hr : run {} acts = some s) :
    ∀ p ∈ s.outcomes, p.1 ∈ s.devDone :=
  (run_inv acts {} s inv_init hr).1

#print axioms C16_sync_partial

/-- The stale-ack finding: one un-awaited `ok` (the second M110's) on the wire when the first write starts.
    `write 0` returns although the device has not even received statement 0. -/
example :
    (run { toHost := [.ok 999] } [.wSend, .lListen, .wWake]).map (fun s => (s.outcomes, s.devDone, s.devLog))
      = some ([(0, false)], [], []) := by decide

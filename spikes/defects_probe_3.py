import math
from gscrib import GCodeBuilder
from gscrib.writers import BaseWriter
from gscrib.hooks import extrusion_hook
class Rec(BaseWriter):
    def __init__(self): self.lines=[]
    def connect(self): return self
    def disconnect(self, wait=True): pass
    def write(self, b): self.lines.append(b.decode())
def mk(**kw):
    g = GCodeBuilder(output=None, line_endings="\n", **kw); r=Rec(); g.add_writer(r); return g,r
def attempt(label,f):
    try: f(); print(label,"-> OK")
    except Exception as e: print(label,"-> EXC",type(e).__name__,e)
g,r=mk(); g.set_bounds("axes",(0,0,0),(20,20,20)); g.move(x=1,y=1,z=1); g.set_distance_mode("relative"); n=len(r.lines)
attempt("move_absolute oob in rel", lambda: g.move_absolute(x=100)); print(r.lines[n:], g.position, g.distance_mode)
g,r=mk(); attempt("tool_on inf", lambda: g.tool_on("cw", math.inf)); print(r.lines, g.state.is_tool_active, g.state.tool_power)
g,r=mk(); attempt("set_feed_rate nan", lambda: g.set_feed_rate(math.nan)); print(r.lines, g.state.feed_rate)
g,r=mk(); attempt("set_feed_rate -1", lambda: g.set_feed_rate(-1)); print(r.lines, g.state.feed_rate)
# extrusion hook rel->abs
g,r=mk(); g.add_hook(extrusion_hook(0.2,0.4,1.75)); g.set_axis(x=0,y=0,z=0,E=0)
g.set_extrusion_mode("relative"); g.move(x=10); g.move(x=20)
g.set_extrusion_mode("absolute"); g.move(x=30)
print(r.lines)
# hook with transform? skip. E reset
g.set_axis(E=0); g.move(x=40); print(r.lines[-2:])
# tracer with hook in relative distance mode
g,r=mk(); g.add_hook(extrusion_hook(0.2,0.4,1.75)); g.set_axis(x=0,y=0,z=0,E=0); g.set_distance_mode("relative"); g.move(x=10); g.move(x=10); print(r.lines[-2:])

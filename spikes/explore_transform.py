"""Exploratory oracles for C04 / C13 on the unchanged tree (prototype; not machinery)."""
import random, re, sys, copy, math
import numpy as np
from gscrib import GCodeBuilder
from gscrib.writers import BaseWriter
from gscrib.geometry import CoordinateTransformer, Point

class Rec(BaseWriter):
    def __init__(self): self.lines=[]
    def connect(self): return self
    def disconnect(self, wait=True): pass
    def write(self, b): self.lines.append(b.decode())
WORD=re.compile(r'\b([XYZ])(-?\d+(?:\.\d+)?)')

def rand_transform(rnd, t):
    k=rnd.choice(['translate','scale','rotate','reflect','mirror','pivot'])
    if k=='translate': t.translate(rnd.randint(-20,20)/4, rnd.randint(-20,20)/4, rnd.randint(-20,20)/4)
    elif k=='scale':
        n=rnd.choice([1,2,3]); t.scale(*[rnd.choice([0.5,2.0,-1.0,3.0,1.0]) for _ in range(n)])
    elif k=='rotate': t.rotate(rnd.choice([0,90,-90,180,30,45,123.4]), rnd.choice(['x','y','z']))
    elif k=='reflect': t.reflect([float(rnd.randint(-3,3)) or 1.0, float(rnd.randint(-3,3)), float(rnd.randint(-3,3))])
    elif k=='mirror': t.mirror(rnd.choice(['xy','yz','zx']))
    else: t.set_pivot((rnd.randint(-8,8)/2, rnd.randint(-8,8)/2, rnd.randint(-8,8)/2))
    return k

def c04(seed):
    rnd=random.Random(seed); issues=[]
    g=GCodeBuilder(output=None,line_endings="\n",decimal_places=9); r=Rec(); g.add_writer(r)
    g.set_axis(x=0,y=0,z=0)   # machine and builder agree at origin before any transform
    for _ in range(rnd.randint(1,5)): rand_transform(rnd,g.transform)
    M=g.transform._current_transform._matrix.copy()
    # machine now considered at T(tracked)? it's at (0,0,0) in machine coords; T(0)!=0 in general, so first do an absolute full move to sync
    g.move(x=1.0,y=2.0,z=3.0)
    mach=np.array([float(v) for _,v in sorted(dict(WORD.findall(r.lines[-1].split(';')[0])).items())]) if len(WORD.findall(r.lines[-1]))==3 else None
    if mach is None: return [('C04 first full move did not mention all axes', seed, r.lines[-1])]
    rel=False
    for i in range(rnd.randint(3,10)):
        if rnd.random()<0.25:
            rel=not rel; g.set_distance_mode('relative' if rel else 'absolute')
        c={a: rnd.randint(-40,40)/4 for a in 'xyz' if rnd.random()<0.5}
        kind=rnd.choice(['move','rapid'])
        before=np.array([*g.position.resolve(),1.0],dtype=float)
        n0=len(r.lines); getattr(g,kind)(**c)
        line=r.lines[n0].split(';')[0]; w={k:float(v) for k,v in WORD.findall(line)}
        after=np.array([*g.position.resolve(),1.0],dtype=float)
        Tb=(M@before)[:3]; Ta=(M@after)[:3]
        for j,a in enumerate('XYZ'):
            expect = (Ta[j]-Tb[j]) if rel else Ta[j]
            if a in w:
                if abs(w[a]-expect)>1e-6: issues.append(('C04 word',seed,i,kind,c,rel,a,w[a],expect))
                mach[j] = mach[j]+w[a] if rel else w[a]
            else:
                if a.lower() in c: issues.append(('C04 requested axis not emitted',seed,i,a))
        if np.abs(mach-Ta).max()>1e-6: issues.append(('C04 machine != T(tracked)',seed,i,kind,c,rel,mach.tolist(),Ta.tolist(),line)); break
    return issues

def c13(seed):
    rnd=random.Random(seed); issues=[]
    t=CoordinateTransformer()
    # reference model: immutable 4x4 matrices + pivot
    cur=(np.eye(4), np.zeros(3)); stack=[]; named={}
    def ref_chain(m):
        nonlocal cur
        M,p=cur; P=np.eye(4); P[:3,3]=p; Pi=np.eye(4); Pi[:3,3]=-p
        cur=(P@m@Pi@M, p)
    for i in range(rnd.randint(5,25)):
        k=rnd.choice(['translate','scale','rotate','pivot','save','restore','save_named','restore_named','delete'])
        try:
            if k=='translate':
                v=[rnd.randint(-8,8)/2 for _ in range(3)]; t.translate(*v); m=np.eye(4); m[:3,3]=v; ref_chain(m)
            elif k=='scale':
                s=rnd.choice([0.5,2.0,-1.0]); t.scale(s); ref_chain(np.diag([s,s,s,1.0]))
            elif k=='rotate':
                a=rnd.choice([90,-90,180]); t.rotate(a,'z'); c,s_=math.cos(math.radians(a)),math.sin(math.radians(a)); m=np.eye(4); m[:2,:2]=[[c,-s_],[s_,c]]; ref_chain(m)
            elif k=='pivot':
                p=[rnd.randint(-4,4)/2 for _ in range(3)]; t.set_pivot(p); cur=(cur[0], np.array(p))
            elif k=='save': t.save_state(); stack.append(cur)
            elif k=='restore':
                if stack: t.restore_state(); cur=stack.pop()
            elif k=='save_named':
                n=rnd.choice('ab'); t.save_state(n); named[n]=cur
            elif k=='restore_named':
                n=rnd.choice('ab')
                if n in named: t.restore_state(n); cur=named[n]
            elif k=='delete':
                n=rnd.choice('ab')
                if n in named: t.delete_state(n); del named[n]
        except Exception as e:
            issues.append(('C13 exception',seed,i,k,repr(e))); break
        p=np.array([1.5,-2.0,0.5,1.0]); got=np.array(t.apply_transform(Point(*p[:3]))); want=(cur[0]@p)[:3]
        if np.abs(got-want).max()>1e-9: issues.append(('C13 mapping differs from immutable spec',seed,i,k)); break
        back=np.array(t.reverse_transform(Point(*got)))
        if np.abs(back-p[:3]).max()>1e-7: issues.append(('C13 reverse',seed,i,k,back.tolist()))
    return issues

def c13ctx(seed):
    """transform context managers must restore the exact mapping and stack, also when the body raises"""
    from gscrib import GCodeCore
    rnd=random.Random(seed); issues=[]
    g=GCodeCore(output=None); t=g.transform
    for _ in range(rnd.randint(0,3)): rand_transform(rnd,t)
    t.save_state(); rand_transform(rnd,t); t.save_state("n"); rand_transform(rnd,t)
    probe=Point(1.5,-2.0,0.5)
    def sig(): return (tuple(np.round(np.array(t.apply_transform(probe),dtype=float),9)), len(t._transforms_stack), tuple(tuple(np.round(np.array(x.apply(probe),dtype=float),9)) for x in t._transforms_stack))
    named_before=tuple(np.round(np.array(t._named_transforms["n"].apply(probe),dtype=float),9))
    before=sig()
    kind=rnd.choice(['current','named']); boom=rnd.random()<0.5
    try:
        ctx = g.current_transform() if kind=='current' else g.named_transform("n")
        with ctx:
            for _ in range(rnd.randint(1,3)): rand_transform(rnd,t)
            if rnd.random()<0.5: t.save_state()
            if rnd.random()<0.5 and t._transforms_stack: t.restore_state(); rand_transform(rnd,t)
            if boom: raise RuntimeError("body failed")
    except RuntimeError: pass
    if sig()!=before: issues.append(('C13 context did not restore ('+kind+(', raised' if boom else '')+')',seed))
    named_after=tuple(np.round(np.array(t._named_transforms["n"].apply(probe),dtype=float),9))
    if named_after!=named_before: issues.append(('C13 named state changed by context ('+kind+')',seed))
    return issues

if __name__=="__main__":
    from collections import Counter
    N=int(sys.argv[1]) if len(sys.argv)>1 else 400
    for name,f in (('C04',c04),('C13',c13),('C13ctx',c13ctx)):
        cnt=Counter(); ex={}
        for s in range(N):
            for iss in f(s): cnt[iss[0]]+=1; ex.setdefault(iss[0],iss)
        print(name, dict(cnt))
        for v in ex.values(): print("   e.g.",v)

import Mathlib.Analysis.SpecialFunctions.Trigonometric.Basic
import Mathlib.Analysis.SpecialFunctions.Complex.Arg
import Mathlib.Tactic.Ring
import Mathlib.Tactic.Linarith
import Mathlib.Tactic.FieldSimp

structure Trig (K : Type) where
  cos : K → K
  sin : K → K
  atan2 : K → K → K      -- atan2 y x
  hypot : K → K → K
  twoPi : K

section generic
variable {K : Type} [Add K] [Sub K] [Mul K] [LE K] [DecidableLE K] [OfNat K 0] [OfNat K 1]

def enforce (T : Trig K) (cw : Bool) (a : K) : K :=
  if cw then (if (0:K) ≤ a then a - T.twoPi else a)
  else (if a ≤ (0:K) then a + T.twoPi else a)

/-- `arc`: end point of the parametric function at θ = 1, as the code computes it -/
def arcEndXY (T : Trig K) (cw : Bool) (cx cy ox oy tx ty : K) : K × K :=
  let dox := ox - cx; let doy := oy - cy
  let dtx := tx - cx; let dty := ty - cy
  let r := T.hypot dox doy
  let a0 := T.atan2 doy dox
  let a1 := T.atan2 dty dtx
  let tot := enforce T cw (a1 - a0)
  (cx + r * T.cos (a0 + tot * 1), cy + r * T.sin (a0 + tot * 1))
end generic

noncomputable def realTrig : Trig ℝ :=
  ⟨Real.cos, Real.sin, fun y x => Complex.arg ⟨x, y⟩, fun x y => ‖(⟨x, y⟩ : ℂ)‖, 2 * Real.pi⟩

theorem enforce_mod (cw : Bool) (a : ℝ) :
    ∃ k : ℤ, enforce realTrig cw a = a + k * (2 * Real.pi) := by
  unfold enforce realTrig
  cases cw <;> simp only [Bool.false_eq_true, if_true, if_false] <;> split
  · exact ⟨1, by simp⟩
  · exact ⟨0, by simp⟩
  · exact ⟨-1, by simp; ring⟩
  · exact ⟨0, by simp⟩

/-- C10_arc_end: when start and target are equidistant from the centre (and not at it),
    the curve evaluated at θ = 1 is the target. -/
theorem arc_end (cw : Bool) (cx cy ox oy tx ty : ℝ)
    (hr : ‖(⟨ox - cx, oy - cy⟩ : ℂ)‖ = ‖(⟨tx - cx, ty - cy⟩ : ℂ)‖)
    (hne : (⟨tx - cx, ty - cy⟩ : ℂ) ≠ 0) :
    arcEndXY realTrig cw cx cy ox oy tx ty = (tx, ty) := by
  obtain ⟨k, hk⟩ := enforce_mod cw (Complex.arg ⟨tx - cx, ty - cy⟩ - Complex.arg ⟨ox - cx, oy - cy⟩)
  simp only [arcEndXY, mul_one]
  have hk' : enforce realTrig cw (realTrig.atan2 (ty - cy) (tx - cx) - realTrig.atan2 (oy - cy) (ox - cx))
      = Complex.arg ⟨tx - cx, ty - cy⟩ - Complex.arg ⟨ox - cx, oy - cy⟩ + k * (2 * Real.pi) := hk
  rw [hk']
  have e : realTrig.atan2 (oy - cy) (ox - cx) + (Complex.arg ⟨tx - cx, ty - cy⟩ - Complex.arg ⟨ox - cx, oy - cy⟩ + k * (2 * Real.pi))
      = Complex.arg ⟨tx - cx, ty - cy⟩ + k * (2 * Real.pi) := by
    simp only [realTrig]; ring
  rw [e]
  simp only [realTrig, Real.cos_add_int_mul_two_pi, Real.sin_add_int_mul_two_pi]
  rw [hr, Complex.cos_arg hne, Complex.sin_arg]
  have hpos : ‖(⟨tx - cx, ty - cy⟩ : ℂ)‖ ≠ 0 := norm_ne_zero_iff.mpr hne
  ext <;> simp <;> field_simp <;> ring

"""Simulated Marlin-style firmware behind a fake serial.Serial, for exploring printcore behaviour."""
import threading, time, queue, re
from functools import reduce

class Firmware:
    def __init__(self, corrupt=(), latency=0.0, resend_ok_gap=0.0, log=None):
        self.expected = 0
        self.accepted = []
        self.rx_index = 0        # transmission counter (numbered lines only)
        self.corrupt = set(corrupt)
        self.latency = latency
        self.gap = resend_ok_gap
        self.rxlog = []
        self.out = queue.Queue()
    def feed(self, line: str):
        self.rxlog.append(line)
        time.sleep(self.latency)
        m = re.match(r'^N(-?\d+) (.*)\*(\d+)$', line)
        if not m:
            # unnumbered command
            self.accepted.append(("raw", line)); self.out.put("ok\n"); return
        n, cmd, cs = int(m.group(1)), m.group(2), int(m.group(3))
        idx = self.rx_index; self.rx_index += 1
        good = reduce(lambda a,b:a^b, map(ord, "N%d %s" % (n, cmd))) == cs and idx not in self.corrupt
        is110 = "M110" in cmd
        if not good:
            self.out.put("Error:checksum mismatch, Last Line: %d\n" % (self.expected-1))
            self.out.put("Resend: %d\n" % self.expected)
            time.sleep(self.gap)
            self.out.put("ok\n"); return
        if is110:
            m2 = re.search(r'M110 N(-?\d+)', cmd); self.expected = int(m2.group(1)) + 1
            self.out.put("ok\n"); return
        if n != self.expected:
            self.out.put("Error:Line Number is not Last Line Number+1, Last Line: %d\n" % (self.expected-1))
            self.out.put("Resend: %d\n" % self.expected)
            time.sleep(self.gap)
            self.out.put("ok\n"); return
        self.expected += 1
        self.accepted.append((n, cmd))
        self.out.put("ok\n")

class FakeSerial:
    fw = None
    def __init__(self, *a, **k):
        self.is_open = False; self.port=None; self.dtr=None; self.parity=None
        self.inq = queue.Queue()
        self.t = None
    def open(self):
        self.is_open = True
        self.t = threading.Thread(target=self._run, daemon=True); self.t.start()
    def _run(self):
        while self.is_open:
            try: line = self.inq.get(timeout=0.05)
            except queue.Empty: continue
            FakeSerial.fw.feed(line)
    def close(self): self.is_open = False
    def write(self, data):
        for l in data.decode().split("\n"):
            if l: self.inq.put(l)
    def readline(self):
        try: return FakeSerial.fw.out.get(timeout=0.05).encode()
        except queue.Empty: return b''

import Mathlib.Tactic.Linarith
import Mathlib.Tactic.Ring
import Mathlib.Tactic.FieldSimp
import Mathlib.Algebra.Order.Field.Rat
import Mathlib.Algebra.Order.Floor.Defs
import Mathlib.Data.Rat.Floor

/-! Spike for C08 (numeric core): `DefaultFormatter.number` as sign-magnitude round-half-even at `dp` decimals,
    represented by its digit structure (sign, integer part, dp fraction digits, trailing zeros trimmed), and the
    theorem |value − q| ≤ ½·10⁻ᵈᵖ.  (Rendering the structure to characters and lexing it back is the separate
    round trip of c08_digits_roundtrip.lean.) -/

/-- round half to even, on a non-negative rational -/
def roundHE (s : ℚ) : ℤ :=
  let f := ⌊s⌋
  let r := s - f
  if 1/2 < r ∨ (r = 1/2 ∧ f % 2 = 1) then f + 1 else f

theorem roundHE_err (s : ℚ) : |(roundHE s : ℚ) - s| ≤ 1/2 := by
  have h1 : (⌊s⌋ : ℚ) ≤ s := Int.floor_le s
  have h2 : s < ⌊s⌋ + 1 := Int.lt_floor_add_one s
  unfold roundHE
  simp only
  split
  · rename_i h
    push_cast
    rw [abs_le]
    rcases h with h | ⟨h, _⟩ <;> constructor <;> linarith
  · rename_i h
    have h' : s - ⌊s⌋ ≤ 1/2 := by
      by_contra hc; exact h (Or.inl (not_le.mp hc))
    rw [abs_le]; constructor <;> linarith

theorem roundHE_nonneg (s : ℚ) (hs : 0 ≤ s) : 0 ≤ roundHE s := by
  have : 0 ≤ ⌊s⌋ := Int.floor_nonneg.mpr hs
  unfold roundHE; simp only; split <;> omega

/-- the number the formatter prints: sign · roundHE(|q|·10^dp) / 10^dp -/
def printedValue (dp : ℕ) (q : ℚ) : ℚ :=
  (if q < 0 then -1 else 1) * (roundHE (|q| * 10 ^ dp) : ℚ) / 10 ^ dp

/-- **C08_number_error** -/
theorem C08_number_error (dp : ℕ) (q : ℚ) : |printedValue dp q - q| ≤ (1/2) / 10 ^ dp := by
  have hp : (0:ℚ) < 10 ^ dp := by positivity
  have herr := roundHE_err (|q| * 10 ^ dp)
  have key : printedValue dp q - q = (if q < 0 then -1 else 1) * ((roundHE (|q| * 10 ^ dp) : ℚ) - |q| * 10 ^ dp) / 10 ^ dp := by
    unfold printedValue
    split
    · rename_i hq; rw [abs_of_neg hq]; field_simp; ring
    · rename_i hq; rw [abs_of_nonneg (not_lt.mp hq)]; field_simp
  rw [key, abs_div, abs_mul, abs_of_pos hp]
  have : |(if q < 0 then (-1:ℚ) else 1)| = 1 := by split <;> simp
  rw [this, one_mul]
  exact div_le_div_of_nonneg_right herr hp.le

/-- digit structure: integer part and exactly dp fraction digits of the rounded magnitude -/
def intPart (dp : ℕ) (n : ℕ) : ℕ := n / 10 ^ dp
def fracPart (dp : ℕ) (n : ℕ) : ℕ := n % 10 ^ dp

theorem int_frac_value (dp n : ℕ) : ((intPart dp n : ℚ) + (fracPart dp n : ℚ) / 10 ^ dp) = (n : ℚ) / 10 ^ dp := by
  have hp : (0:ℚ) < 10 ^ dp := by positivity
  have h := Nat.div_add_mod n (10 ^ dp)
  unfold intPart fracPart
  field_simp
  have : ((10 ^ dp * (n / 10 ^ dp) + n % 10 ^ dp : ℕ) : ℚ) = (n : ℚ) := by exact_mod_cast congrArg (Nat.cast (R := ℚ)) h
  push_cast at this
  linarith

#print axioms C08_number_error

/-! Spike for C15: printcore's stop-and-wait sender, a Marlin-style firmware and two FIFO channels as a
    transition system; safety ("accepted log is a prefix of the job") for every schedule and fault pattern
    that leaves the initial M110 reset intact.  Job = list of numbered commands (comment/host lines already
    skipped; they only set `clear` and advance the queue index). -/

structure Frame where
  n    : Int
  cmd  : String
  m110 : Bool
  good : Bool          -- false = corrupted in transit (detected by the checksum)
deriving Repr, DecidableEq

inductive Reply where
  | ok | resend (n : Int) | err
deriving Repr, DecidableEq

structure St where
  -- sender
  qi         : Nat := 0
  lineno     : Nat := 0
  resendfrom : Int := -1
  clear      : Bool := false
  printing   : Bool := true
  sent       : List String := []
  txCount    : Nat := 0
  -- channels (head = oldest)
  toFw       : List Frame := []
  toS        : List Reply := []
  -- firmware
  expected   : Int := 0
  accepted   : List String := []
  resets     : Nat := 0          -- ghost: good M110 frames processed so far
deriving Repr

inductive Act where
  | sendnext | listen | fw
deriving Repr, DecidableEq

variable (lines : List String) (faulty : Nat → Bool)

def transmit (s : St) (n : Int) (cmd : String) (m110 : Bool) : St :=
  { s with toFw := s.toFw ++ [⟨n, cmd, m110, !faulty s.txCount⟩], txCount := s.txCount + 1 }

/-- state right after `startprint`: `_reset_line_numbers` has sent `M110 N-1` -/
def init (e0 : Int) : St := transmit faulty { expected := e0 } (-1) "M110 N-1" true

def step (s : St) : Act → Option St
  | .sendnext =>
      if s.printing && s.clear then
        let s := { s with clear := false }
        if s.resendfrom < (s.lineno : Int) ∧ s.resendfrom > -1 then
          match s.sent[s.resendfrom.toNat]? with
          | some cmd => some { transmit faulty s s.resendfrom cmd false with resendfrom := s.resendfrom + 1 }
          | none => none                      -- KeyError in the real code; unreachable (invariant)
        else
          let s := { s with resendfrom := -1 }
          match lines[s.qi]? with
          | some cmd =>
              let s' := transmit faulty s s.lineno cmd false
              some { s' with sent := s.sent ++ [cmd], lineno := s.lineno + 1, qi := s.qi + 1 }
          | none =>
              let s' := { s with printing := false, clear := true, qi := 0, lineno := 0 }
              some (transmit faulty s' (-1) "M110 N-1" true)
      else none
  | .listen =>
      match s.toS with
      | [] => none
      | r :: rs =>
          let s := { s with toS := rs }
          match r with
          | .ok => some { s with clear := true }
          | .resend n => some { s with resendfrom := n, clear := true }
          | .err => some s
  | .fw =>
      match s.toFw with
      | [] => none
      | f :: fs =>
          let s := { s with toFw := fs }
          if !f.good then some { s with toS := s.toS ++ [.err, .resend s.expected, .ok] }
          else if f.m110 then some { s with expected := f.n + 1, toS := s.toS ++ [.ok], resets := s.resets + 1 }
          else if f.n ≠ s.expected then some { s with toS := s.toS ++ [.err, .resend s.expected, .ok] }
          else some { s with expected := s.expected + 1, accepted := s.accepted ++ [f.cmd], toS := s.toS ++ [.ok] }

def run (s : St) : List Act → Option St
  | [] => some s
  | a :: as => (step lines faulty s a).bind (fun s' => run s' as)

-- a concrete schedule: 2-line job, no faults, eager firmware
#eval (run ["G1 X0", "G1 X1"] (fun _ => false) (init (fun _ => false) 1)
        [.fw, .listen, .sendnext, .fw, .listen, .sendnext, .fw, .listen, .sendnext, .fw, .listen]).map (·.accepted)
-- the reset-corrupted witness: e0 = 1, transmission 0 corrupted → first line skipped
#eval (run ["G1 X0", "G1 X1", "G1 X2"] (fun i => i == 0) (init (fun i => i == 0) 1)
        [.fw, .listen, .listen, .listen, .sendnext, .fw, .listen, .listen, .listen, .sendnext, .fw, .listen, .sendnext, .fw, .listen, .sendnext, .fw, .listen]).map (·.accepted)


/-! ### Safety -/

def m110Frame (g : Bool) : Frame := ⟨-1, "M110 N-1", true, g⟩

/-- numbered frames carry the command of their line number -/
def Numbered (f : Frame) : Prop := f.m110 = false ∧ ∃ k : Nat, f.n = (k : Int) ∧ lines[k]? = some f.cmd

def SInv (s : St) : Prop :=
  (s.resets = 0 ∧ s.toFw = [m110Frame true] ∧ s.toS = [] ∧ s.clear = false ∧ s.printing = true ∧
      s.lineno = 0 ∧ s.sent = [] ∧ s.qi = 0 ∧ s.accepted = [])
  ∨ (s.resets = 1 ∧ 0 ≤ s.expected ∧ s.accepted = lines.take s.expected.toNat ∧
      ( (s.printing = true ∧ s.sent = lines.take s.lineno ∧ s.qi = s.lineno ∧ s.lineno ≤ lines.length ∧
            ∀ f ∈ s.toFw, Numbered lines f)
      ∨ (s.printing = false ∧ ∃ mid post, s.toFw = mid ++ post ∧ (∀ f ∈ mid, Numbered lines f) ∧
            (post = [] ∨ ∃ g, post = [m110Frame g])) ))
  ∨ (s.resets = 2 ∧ s.printing = false ∧ s.toFw = [] ∧ ∃ k, s.accepted = lines.take k)

theorem inv_init (e0 : Int) (h0 : faulty 0 = false) : SInv lines (init faulty e0) := by
  refine Or.inl ?_
  simp [init, transmit, h0, m110Frame]

theorem accepted_prefix_of_inv {s : St} (h : SInv lines s) : ∃ k, s.accepted = lines.take k := by
  rcases h with h | h | h
  · exact ⟨0, by simp [h.2.2.2.2.2.2.2.2]⟩
  · exact ⟨_, h.2.2.1⟩
  · exact h.2.2.2

theorem take_succ_of_getElem? {l : List String} {k : Nat} {c : String} (h : l[k]? = some c) :
    l.take k ++ [c] = l.take (k + 1) := by
  rw [List.take_succ, h]; simp

theorem listen_inv {s s' : St} (h : SInv lines s) (hs : step lines faulty s .listen = some s') : SInv lines s' := by
  simp only [step] at hs
  cases hts : s.toS with
  | nil => simp [hts] at hs
  | cons r rs =>
    rw [hts] at hs
    rcases h with h | h | h
    · simp [h.2.2.1] at hts
    · cases r <;> simp at hs <;> subst hs <;> exact Or.inr (Or.inl h)
    · cases r <;> simp at hs <;> subst hs <;> exact Or.inr (Or.inr h)

theorem fw_inv {s s' : St} (h : SInv lines s) (hs : step lines faulty s .fw = some s') : SInv lines s' := by
  simp only [step] at hs
  cases htf : s.toFw with
  | nil => simp [htf] at hs
  | cons f fs =>
    rw [htf] at hs
    rcases h with h | h | h
    · -- phase 0: the head is the intact reset
      obtain ⟨hr, hfw, hto, hc, hp, hl, hse, hq, ha⟩ := h
      rw [hfw] at htf
      simp only [List.cons.injEq] at htf
      obtain ⟨rfl, rfl⟩ := htf
      simp [m110Frame] at hs
      subst hs
      refine Or.inr (Or.inl ⟨by simp [hr], by simp, by simp [ha], Or.inl ⟨hp, ?_, ?_, ?_, ?_⟩⟩)
      · simp [hse, hl]
      · simp [hq, hl]
      · simp [hl]
      · simp
    · obtain ⟨hr, he, ha, hcase⟩ := h
      rcases hcase with ⟨hp, hse, hq, hl, hall⟩ | ⟨hp, mid, post, hsplit, hmid, hpost⟩
      · -- printing: every frame is numbered
        have hf := hall f (by simp [htf])
        have hfs : ∀ g ∈ fs, Numbered lines g := fun g hg => hall g (by simp [htf, hg])
        obtain ⟨hm, k, hk, hline⟩ := hf
        by_cases hg : f.good
        · by_cases hne : f.n = s.expected
          · simp [hg, hm, hne] at hs; subst hs
            refine Or.inr (Or.inl ⟨hr, by simp; omega, ?_, Or.inl ⟨hp, hse, hq, hl, hfs⟩⟩)
            have hk' : s.expected.toNat = k := by omega
            simp only
            rw [ha, hk', show (s.expected + 1).toNat = k + 1 by omega]
            exact take_succ_of_getElem? hline
          · simp [hg, hm, hne] at hs; subst hs
            exact Or.inr (Or.inl ⟨hr, he, ha, Or.inl ⟨hp, hse, hq, hl, hfs⟩⟩)
        · simp [hg] at hs; subst hs
          exact Or.inr (Or.inl ⟨hr, he, ha, Or.inl ⟨hp, hse, hq, hl, hfs⟩⟩)
      · -- job finished: numbered frames then possibly the trailing reset
        rw [htf] at hsplit
        cases mid with
        | nil =>
          -- head is the trailing reset
          rcases hpost with rfl | ⟨g, rfl⟩
          · simp at hsplit
          · simp only [List.nil_append, List.cons.injEq] at hsplit
            obtain ⟨rfl, rfl⟩ := hsplit
            cases g with
            | true =>
              simp [m110Frame] at hs; subst hs
              exact Or.inr (Or.inr ⟨by simp [hr], hp, rfl, ⟨_, ha⟩⟩)
            | false =>
              simp [m110Frame] at hs; subst hs
              exact Or.inr (Or.inl ⟨hr, he, ha, Or.inr ⟨hp, [], [], by simp, by simp, Or.inl rfl⟩⟩)
        | cons m mid' =>
          simp only [List.cons_append, List.cons.injEq] at hsplit
          obtain ⟨rfl, rfl⟩ := hsplit
          have hf := hmid f (by simp)
          have hmid' : ∀ g ∈ mid', Numbered lines g := fun g hg => hmid g (by simp [hg])
          obtain ⟨hm, k, hk, hline⟩ := hf
          by_cases hg : f.good
          · by_cases hne : f.n = s.expected
            · simp [hg, hm, hne] at hs; subst hs
              refine Or.inr (Or.inl ⟨hr, by simp; omega, ?_, Or.inr ⟨hp, mid', post, rfl, hmid', hpost⟩⟩)
              have hk' : s.expected.toNat = k := by omega
              simp only
              rw [ha, hk', show (s.expected + 1).toNat = k + 1 by omega]
              exact take_succ_of_getElem? hline
            · simp [hg, hm, hne] at hs; subst hs
              exact Or.inr (Or.inl ⟨hr, he, ha, Or.inr ⟨hp, mid', post, rfl, hmid', hpost⟩⟩)
          · simp [hg] at hs; subst hs
            exact Or.inr (Or.inl ⟨hr, he, ha, Or.inr ⟨hp, mid', post, rfl, hmid', hpost⟩⟩)
    · simp [h.2.2.1] at htf

theorem sendnext_inv {s s' : St} (h : SInv lines s) (hs : step lines faulty s .sendnext = some s') : SInv lines s' := by
  simp only [step] at hs
  by_cases hen : (s.printing && s.clear) = true
  · simp only [hen, if_true] at hs
    have hp : s.printing = true := by simp at hen; exact hen.1
    have hc : s.clear = true := by simp at hen; exact hen.2
    rcases h with h | h | h
    · simp [h.2.2.2.1] at hc
    · obtain ⟨hr, he, ha, hcase⟩ := h
      rcases hcase with ⟨_, hse, hq, hl, hall⟩ | ⟨hp', _⟩
      · by_cases hre : s.resendfrom < (s.lineno : Int) ∧ s.resendfrom > -1
        · -- resend a stored line
          simp only [hre, and_self, if_true] at hs
          cases hget : s.sent[s.resendfrom.toNat]? with
          | none => simp [hget] at hs
          | some cmd =>
            simp only [hget] at hs
            simp at hs; subst hs
            have hlt : s.resendfrom.toNat < s.lineno := by omega
            have hline : lines[s.resendfrom.toNat]? = some cmd := by
              rw [hse] at hget
              rw [List.getElem?_take] at hget
              simpa [hlt] using hget
            refine Or.inr (Or.inl ⟨hr, he, ha, Or.inl ⟨hp, hse, hq, hl, ?_⟩⟩)
            intro f hf
            simp only [transmit, List.mem_append, List.mem_singleton] at hf
            rcases hf with hf | rfl
            · exact hall f hf
            · exact ⟨rfl, s.resendfrom.toNat, by simp; omega, hline⟩
        · simp only [hre, if_false] at hs
          cases hq' : lines[s.qi]? with
          | some cmd =>
            simp only [hq'] at hs
            simp at hs; subst hs
            have hlen : s.lineno < lines.length := by
              have := (List.getElem?_eq_some_iff.mp hq').1; omega
            refine Or.inr (Or.inl ⟨hr, he, ha, Or.inl ⟨hp, ?_, by simp [hq], by simp; omega, ?_⟩⟩)
            · simp only
              rw [hse]; rw [hq] at hq'
              exact take_succ_of_getElem? hq'
            · intro f hf
              simp only [transmit, List.mem_append, List.mem_singleton] at hf
              rcases hf with hf | rfl
              · exact hall f hf
              · exact ⟨rfl, s.lineno, by simp, by rw [← hq]; exact hq'⟩
          | none =>
            simp only [hq'] at hs
            simp at hs; subst hs
            refine Or.inr (Or.inl ⟨hr, he, ha, Or.inr ⟨rfl, s.toFw, [m110Frame (!faulty s.txCount)], ?_, hall, Or.inr ⟨_, rfl⟩⟩⟩)
            simp [transmit, m110Frame]
      · simp [hp'] at hp
    · simp [h.2.1] at hp
  · simp [hen] at hs

theorem step_inv {s s' : St} (a : Act) (h : SInv lines s) (hs : step lines faulty s a = some s') : SInv lines s' := by
  cases a
  · exact sendnext_inv lines faulty h hs
  · exact listen_inv lines faulty h hs
  · exact fw_inv lines faulty h hs

theorem run_inv : ∀ (acts : List Act) (s s' : St), SInv lines s → run lines faulty s acts = some s' → SInv lines s'
  | [], s, s', h, hr => by simp [run] at hr; subst hr; exact h
  | a :: as, s, s', h, hr => by
      simp only [run] at hr
      cases hst : step lines faulty s a with
      | none => simp [hst] at hr
      | some s1 =>
        simp [hst] at hr
        exact run_inv as s1 s' (step_inv lines faulty a h hst) hr

/-- **C15_accept_prefix_partial**: whatever the schedule and whichever transmissions other than the
    initial reset are corrupted, the firmware's accepted log is a prefix of the job, in order, each line once. -/
theorem C15_accept_prefix_partial (e0 : Int) (h0 : faulty 0 = false) (acts : List Act) (s : St)
    (hr : run lines faulty (init faulty e0) acts = some s) : ∃ k, s.accepted = lines.take k :=
  accepted_prefix_of_inv lines (run_inv lines faulty acts _ s (inv_init lines faulty e0 h0) hr)

#print axioms C15_accept_prefix_partial

/-- Witness of the `ResetCorrupted` finding (e₀ = 1, transmission 0 corrupted): the first job line is skipped.
    This is the history replayed on the real `printcore` in `c15_reset_corrupted.py`. -/
example :
    (run ["G1 X0", "G1 X1", "G1 X2"] (fun i => i == 0) (init (fun i => i == 0) 1)
      [.fw, .listen, .listen, .listen, .sendnext, .fw, .listen, .listen, .listen, .sendnext, .fw, .listen,
       .sendnext, .fw, .listen, .sendnext, .fw, .listen]).map (·.accepted) = some ["G1 X1", "G1 X2"] := by
  decide

/-- non-vacuity of the safety theorem's hypotheses: a faulty run (transmission 2 corrupted) that is reachable -/
example :
    (run ["G1 X0", "G1 X1"] (fun i => i == 2) (init (fun i => i == 2) 5)
      [.fw, .listen, .sendnext, .fw, .listen, .sendnext, .fw, .listen, .listen, .sendnext, .listen, .sendnext, .fw, .fw,
       .listen, .listen]).map (fun s => (s.accepted, s.printing)) = some (["G1 X0", "G1 X1"], false) := by
  decide


/-! ### Completeness without faults: stop-and-wait token invariant -/

def noFault : Nat → Bool := fun _ => false

/-- exactly one "token": with the sender (clear), on the wire as a frame, or on the wire as an `ok` -/
def Tok (lines : List String) (s : St) : Prop :=
  (s.resets = 0 ∧ s.toFw = [m110Frame true] ∧ s.toS = [] ∧ s.clear = false ∧ s.printing = true ∧
      s.lineno = 0 ∧ s.qi = 0 ∧ s.accepted = [] ∧ s.resendfrom = -1)
  ∨ (s.resets = 1 ∧ s.printing = true ∧ s.resendfrom = -1 ∧ s.qi = s.lineno ∧ s.lineno ≤ lines.length ∧
      ( (s.clear = true ∧ s.toFw = [] ∧ s.toS = [] ∧ s.expected = s.lineno ∧ s.accepted = lines.take s.lineno)
      ∨ (s.clear = false ∧ s.toS = [] ∧ ∃ k cmd, s.lineno = k + 1 ∧ lines[k]? = some cmd ∧
            s.toFw = [⟨(k : Int), cmd, false, true⟩] ∧ s.expected = k ∧ s.accepted = lines.take k)
      ∨ (s.clear = false ∧ s.toFw = [] ∧ s.toS = [.ok] ∧ s.expected = s.lineno ∧ s.accepted = lines.take s.lineno)))
  ∨ (s.printing = false ∧ s.accepted = lines ∧ (∀ f ∈ s.toFw, f.m110 = true) )

theorem tok_init (lines : List String) (e0 : Int) : Tok lines (init noFault e0) := by
  refine Or.inl ?_
  simp [init, transmit, noFault, m110Frame]

theorem tok_step (lines : List String) {s s' : St} (a : Act) (h : Tok lines s)
    (hs : step lines noFault s a = some s') : Tok lines s' := by
  rcases h with h | h | h
  · -- only the firmware can move: it consumes the reset
    obtain ⟨hr, hfw, hto, hc, hp, hl, hq, ha, hrf⟩ := h
    cases a with
    | sendnext => simp [step, hp, hc] at hs
    | listen => simp [step, hto] at hs
    | fw =>
      simp [step, hfw, m110Frame] at hs; subst hs
      refine Or.inr (Or.inl ⟨by simp [hr], hp, hrf, by simp [hq, hl], by simp [hl], Or.inr (Or.inr ⟨hc, rfl, by simp [hto], by simp [hl], by simp [ha, hl]⟩)⟩)
  · obtain ⟨hr, hp, hrf, hq, hl, hcase⟩ := h
    rcases hcase with ⟨hc, hfw, hto, he, ha⟩ | ⟨hc, hto, k, cmd, hk, hline, hfw, he, ha⟩ | ⟨hc, hfw, hto, he, ha⟩
    · -- token with the sender
      cases a with
      | listen => simp [step, hto] at hs
      | fw => simp [step, hfw] at hs
      | sendnext =>
        simp only [step, hp, hc, Bool.and_self, if_true, hrf] at hs
        simp at hs
        cases hq' : lines[s.qi]? with
        | some cmd =>
          simp [hq'] at hs; subst hs
          have hlen : s.lineno < lines.length := by
            have := (List.getElem?_eq_some_iff.mp hq').1; omega
          refine Or.inr (Or.inl ⟨by simp [transmit, hr], by simp [transmit, hp], by simp [transmit], by simp [transmit, hq],
            by simp [transmit]; omega,
            Or.inr (Or.inl ⟨by simp [transmit], by simp [transmit, hto], s.lineno, cmd, by simp [transmit],
              by rw [← hq]; exact hq', by simp [transmit, hfw, noFault], by simp [transmit, he], by simp [transmit, ha]⟩)⟩)
        | none =>
          simp [hq'] at hs; subst hs
          have hge : lines.length ≤ s.lineno := by
            have := List.getElem?_eq_none_iff.mp hq'; omega
          refine Or.inr (Or.inr ⟨by simp [transmit], ?_, ?_⟩)
          · simp only [transmit]; rw [ha]; exact List.take_of_length_le hge
          · intro f hf; simp [transmit, hfw] at hf; subst hf; rfl
    · -- a numbered frame is on the wire
      cases a with
      | sendnext => simp [step, hp, hc] at hs
      | listen => simp [step, hto] at hs
      | fw =>
        simp [step, hfw, he] at hs; subst hs
        refine Or.inr (Or.inl ⟨hr, hp, hrf, hq, hl, Or.inr (Or.inr ⟨hc, rfl, by simp [hto], by simp [hk, he], ?_⟩)⟩)
        simp only [hk]
        rw [ha]; exact take_succ_of_getElem? hline
    · -- the acknowledgement is on the wire
      cases a with
      | sendnext => simp [step, hp, hc] at hs
      | fw => simp [step, hfw] at hs
      | listen =>
        simp [step, hto] at hs; subst hs
        exact Or.inr (Or.inl ⟨hr, hp, hrf, hq, hl, Or.inl ⟨rfl, hfw, rfl, he, ha⟩⟩)
  · obtain ⟨hp, ha, hm⟩ := h
    cases a with
    | sendnext => simp [step, hp] at hs
    | listen =>
      simp only [step] at hs
      cases hts : s.toS with
      | nil => simp [hts] at hs
      | cons r rs => rw [hts] at hs; cases r <;> simp at hs <;> subst hs <;> exact Or.inr (Or.inr ⟨hp, ha, hm⟩)
    | fw =>
      simp only [step] at hs
      cases htf : s.toFw with
      | nil => simp [htf] at hs
      | cons f fs =>
        rw [htf] at hs
        have hf := hm f (by simp [htf])
        have hfs : ∀ g ∈ fs, g.m110 = true := fun g hg => hm g (by simp [htf, hg])
        by_cases hg : f.good <;> simp [hg, hf] at hs <;> subst hs <;> exact Or.inr (Or.inr ⟨hp, ha, hfs⟩)

theorem tok_run (lines : List String) : ∀ (acts : List Act) (s s' : St), Tok lines s →
    run lines noFault s acts = some s' → Tok lines s'
  | [], s, s', h, hr => by simp [run] at hr; subst hr; exact h
  | a :: as, s, s', h, hr => by
      simp only [run] at hr
      cases hst : step lines noFault s a with
      | none => simp [hst] at hr
      | some s1 => simp [hst] at hr; exact tok_run lines as s1 s' (tok_step lines a h hst) hr

/-- no action is enabled -/
def Quiescent (lines : List String) (s : St) : Prop := ∀ a, step lines noFault s a = none

/-- **C15_complete (no faults)**: whatever the schedule, once nothing more can happen the firmware has accepted
    exactly the job, in order, each line once. -/
theorem C15_complete_nofault (lines : List String) (e0 : Int) (acts : List Act) (s : St)
    (hr : run lines noFault (init noFault e0) acts = some s) (hq : Quiescent lines s) : s.accepted = lines := by
  have h := tok_run lines acts _ s (tok_init lines e0) hr
  rcases h with h | h | h
  · have := hq .fw; simp [step, h.2.1, m110Frame] at this
  · obtain ⟨_, hp, hrf, hq', hl, hcase⟩ := h
    rcases hcase with ⟨hc, _⟩ | ⟨_, _, k, cmd, _, _, hfw, _⟩ | ⟨_, _, hto, _⟩
    · have := hq .sendnext
      simp only [step, hp, hc, Bool.and_self, if_true, hrf] at this
      simp at this
      cases hq2 : lines[s.qi]? <;> simp [hq2] at this
    · have := hq .fw; simp [step, hfw] at this
      split at this <;> simp at this
    · have := hq .listen; simp [step, hto] at this
  · exact h.2.1

#print axioms C15_complete_nofault

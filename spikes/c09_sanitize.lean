/-! Spike for C09 (over the repaired `DefaultFormatter.comment`, candidate fix F4):
    `sanitize` = collapse CR/LF runs to one blank, then replace every occurrence of the closing delimiter by a blank
    (Python `str.replace`: leftmost, non-overlapping).  Goal: the sanitised text contains no line break and no
    occurrence of the closing delimiter, for one- and two-character delimiters (all of COMMENT_ENDINGS). -/

def isBreak (c : Char) : Bool := c == '\n' || c == '\r'

/-- `re.sub(r"[\r\n]+", " ", text)` -/
def collapseBreaks : List Char → List Char
  | [] => []
  | c :: cs =>
      if isBreak c then
        match cs with
        | d :: _ => if isBreak d then collapseBreaks cs else ' ' :: collapseBreaks cs
        | [] => [' ']
      else c :: collapseBreaks cs

theorem collapseBreaks_noBreak : ∀ (l : List Char), ∀ c ∈ collapseBreaks l, isBreak c = false
  | [] => by simp [collapseBreaks]
  | c :: cs => by
      intro x hx
      simp only [collapseBreaks] at hx
      split at hx
      · cases cs with
        | nil => simp at hx; subst hx; decide
        | cons d ds =>
          simp only at hx
          split at hx
          · exact collapseBreaks_noBreak (d :: ds) x hx
          · simp only [List.mem_cons] at hx
            rcases hx with rfl | hx
            · decide
            · exact collapseBreaks_noBreak (d :: ds) x hx
      · rename_i hc
        simp only [List.mem_cons] at hx
        rcases hx with rfl | hx
        · simpa using hc
        · exact collapseBreaks_noBreak cs x hx

/-- replace every occurrence of a one-character delimiter by a blank -/
def replace1 (a : Char) (l : List Char) : List Char := l.map (fun c => if c = a then ' ' else c)

theorem replace1_free (a : Char) (ha : a ≠ ' ') (l : List Char) : a ∉ replace1 a l := by
  simp only [replace1, List.mem_map, not_exists, not_and]
  intro c _ h
  split at h
  · exact ha h.symm
  · rename_i hc; exact hc h

/-- replace every occurrence of the two-character delimiter `a b` by a blank, leftmost, non-overlapping -/
def replace2 (a b : Char) : List Char → List Char
  | x :: y :: rest => if x = a ∧ y = b then ' ' :: replace2 a b rest else x :: replace2 a b (y :: rest)
  | l => l

/-- "a b" occurs somewhere in l -/
def occurs2 (a b : Char) : List Char → Bool
  | x :: y :: rest => (x == a && y == b) || occurs2 a b (y :: rest)
  | _ => false

theorem replace2_head (a b : Char) (hb : b ≠ ' ') (hab : a ≠ b) :
    ∀ (l : List Char), (replace2 a b l).head? = some b → l.head? = some b
  | [] => by simp [replace2]
  | [x] => by simp [replace2]
  | x :: y :: rest => by
      simp only [replace2]
      split
      · intro h; simp at h; exact absurd h.symm hb
      · intro h; simpa using h

theorem replace2_free (a b : Char) (ha : a ≠ ' ') (hb : b ≠ ' ') (hab : a ≠ b) :
    ∀ (n : Nat) (l : List Char), l.length ≤ n → occurs2 a b (replace2 a b l) = false
  | 0, l, h => by
      have : l = [] := List.length_eq_zero_iff.mp (Nat.le_zero.mp h)
      subst this; simp [replace2, occurs2]
  | n+1, [], _ => by simp [replace2, occurs2]
  | n+1, [x], _ => by simp [replace2, occurs2]
  | n+1, x :: y :: rest, h => by
      simp only [replace2]
      split
      · -- matched: a blank, then the processed rest; the blank cannot start an occurrence because a ≠ ' '
        have ih := replace2_free a b ha hb hab n rest (by simp at h; omega)
        cases hr : replace2 a b rest with
        | nil => simp [occurs2]
        | cons z zs =>
          rw [hr] at ih
          simp only [occurs2, Bool.or_eq_false_iff]
          refine ⟨?_, ih⟩
          have : (' ' == a) = false := by simpa using ha.symm
          simp [this]
      · rename_i hno
        have ih := replace2_free a b ha hb hab n (y :: rest) (by simp at h ⊢; omega)
        cases hr : replace2 a b (y :: rest) with
        | nil => simp [occurs2]
        | cons z zs =>
          rw [hr] at ih
          simp only [occurs2, Bool.or_eq_false_iff]
          refine ⟨?_, ih⟩
          -- if x = a and z = b then by the head lemma y = b, contradicting "no match here"
          by_cases hx : x = a
          · by_cases hz : z = b
            · have hh := replace2_head a b hb hab (y :: rest) (by rw [hr]; simp [hz])
              simp at hh
              exact absurd ⟨hx, hh⟩ hno
            · simp [hz]
          · simp [hx]

/-- the sanitiser of the repaired `comment()` for a two-character closing delimiter such as "*/" -/
def sanitize2 (a b : Char) (text : List Char) : List Char := replace2 a b (collapseBreaks text)
def sanitize1 (a : Char) (text : List Char) : List Char := replace1 a (collapseBreaks text)

theorem replace2_noBreak (a b : Char) : ∀ (n : Nat) (l : List Char), l.length ≤ n →
    (∀ c ∈ l, isBreak c = false) → ∀ c ∈ replace2 a b l, isBreak c = false
  | 0, l, h, _ => by
      have : l = [] := List.length_eq_zero_iff.mp (Nat.le_zero.mp h)
      subst this; simp [replace2]
  | n+1, [], _, _ => by simp [replace2]
  | n+1, [x], _, hl => by simpa [replace2] using hl
  | n+1, x :: y :: rest, h, hl => by
      intro c hc
      simp only [replace2] at hc
      split at hc
      · simp only [List.mem_cons] at hc
        rcases hc with rfl | hc
        · decide
        · exact replace2_noBreak a b n rest (by simp at h; omega) (fun d hd => hl d (by simp [hd])) c hc
      · simp only [List.mem_cons] at hc
        rcases hc with rfl | hc
        · exact hl _ (by simp)
        · exact replace2_noBreak a b n (y :: rest) (by simp at h ⊢; omega) (fun d hd => hl d (by simp at hd ⊢; exact Or.inr hd)) c hc

/-- **C09 core**: whatever the caller's text, the sanitised text has no line break and no closing delimiter -/
theorem sanitize2_safe (a b : Char) (ha : a ≠ ' ') (hb : b ≠ ' ') (hab : a ≠ b) (text : List Char) :
    (∀ c ∈ sanitize2 a b text, isBreak c = false) ∧ occurs2 a b (sanitize2 a b text) = false :=
  ⟨replace2_noBreak a b _ _ (Nat.le_refl _) (collapseBreaks_noBreak text),
   replace2_free a b ha hb hab _ _ (Nat.le_refl _)⟩

theorem sanitize1_safe (a : Char) (ha : a ≠ ' ') (hbr : isBreak a = false) (text : List Char) :
    (∀ c ∈ sanitize1 a text, isBreak c = false) ∧ a ∉ sanitize1 a text := by
  refine ⟨?_, replace1_free a ha _⟩
  intro c hc
  simp only [sanitize1, replace1, List.mem_map] at hc
  obtain ⟨d, hd, rfl⟩ := hc
  split
  · decide
  · exact collapseBreaks_noBreak text d hd

#eval String.ofList (sanitize2 '*' '/' "a */ b **// c\r\n\nG1 X9 */".toList)
#eval String.ofList (sanitize2 '*' '/' "a */ b **// c

G1 X9 */".toList)
#print axioms sanitize2_safe

"""Exploratory oracle for C09 on the unchanged tree: which texts change the executable words / line count. Not machinery."""
import re, sys, itertools
from gscrib import GCodeBuilder
from gscrib.writers import BaseWriter
class Rec(BaseWriter):
    def __init__(self): self.raw=b""
    def connect(self): return self
    def disconnect(self, wait=True): pass
    def write(self, b): self.raw+=b
PAIRS={"(" : ")", "[":"]", "{":"}", "<":">", '"':'"', "'":"'", "/*":"*/"}
def strip(text, style):
    """independent lexer: remove comments under `style`, return list of executable token lists per physical line"""
    lines=re.split(r'\r\n|\n|\r', text)
    if lines and lines[-1]=="": lines=lines[:-1]
    out=[]
    for l in lines:
        if style in PAIRS:
            o,c=style,PAIRS[style]; res=""; i=0
            while i<len(l):
                if l.startswith(o,i):
                    j=l.find(c,i+len(o))
                    if j<0: i=len(l)       # unterminated: rest of line is comment
                    else: i=j+len(c)
                else: res+=l[i]; i+=1
            out.append(res.split())
        else:
            k=l.find(style); out.append((l if k<0 else l[:k]).split())
    return out
def emit(style, text):
    g=GCodeBuilder(output=None,line_endings="\n",comment_symbols=style); r=Rec(); g.add_writer(r)
    g.comment(text); g.annotate("key", text); g.move(x=1, comment=text); g.set_axis(x=0, comment=text); g.probe("towards", z=-1, comment=text)
    g.emergency_halt(text)
    return r.raw.decode()
if __name__=="__main__":
    payloads=["hello","a\nM3 S1000","a\rG1 X9","a\r\nG1 X9","x G1 X9","x\x85G1 X9","x\x0bG1 X9","x\x0cG1 X9","tab\there","semi;colon","paren ) G1 X5 (","brack ] G1 X5 [","brace } G1 X5 {","gt > G1 X5 <",'quote " G1 X5 "',"apos ' G1 X5 '","star */ G1 X5 /*","trail   ","  lead","é✓","hash # G1 X5","{} {0} %s","\\n literal"]
    for style in [";","(","[","<",'"',"'","/*","#","//"]:
        base=strip(emit(style,"innocuous"),style)
        bad=[]
        for p in payloads:
            try: got=strip(emit(style,p),style)
            except Exception as e: bad.append((p,"EXC "+type(e).__name__)); continue
            if got!=base: bad.append((p, "lines %d vs %d"%(len(got),len(base)) if len(got)!=len(base) else "words differ"))
        print(repr(style), "->", bad)

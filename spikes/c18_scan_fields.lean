/-! Spike for C18 (string level): the scanner run on a rendered report returns exactly the report's fields.
    Simplified scanner without comma groups here (single values), tokens separated by one blank. -/

def isAlnum (c : Char) : Bool := c.isAlphanum
def isVal (c : Char) : Bool := c.isDigit || c == '-' || c == '.'

def spanP (p : Char → Bool) : List Char → List Char × List Char
  | [] => ([], [])
  | c :: cs => if p c then ((spanP p cs).1.cons c, (spanP p cs).2) else ([], c :: cs)

theorem spanP_append (p : Char → Bool) (a b : List Char) (ha : ∀ c ∈ a, p c = true)
    (hb : ∀ c, b.head? = some c → p c = false) : spanP p (a ++ b) = (a, b) := by
  induction a with
  | nil =>
    cases b with
    | nil => simp [spanP]
    | cons c cs => simp [spanP, hb c rfl]
  | cons x xs ih =>
    have hx : p x = true := ha x (by simp)
    have := ih (fun c hc => ha c (by simp [hc]))
    simp [spanP, hx, this]

theorem spanP_length_le (p) (l : List Char) : (spanP p l).2.length ≤ l.length := by
  induction l with
  | nil => simp [spanP]
  | cons c cs ih => simp only [spanP]; split <;> simp <;> omega

/-- scanner: at an alphanumeric run followed by ':' and a value character, emit (key, value) -/
def scanAux : Nat → List Char → List (List Char × List Char)
  | 0, _ => []
  | _, [] => []
  | fuel+1, c :: cs =>
      if isAlnum c then
        let key := (spanP isAlnum (c :: cs)).1
        let rest := (spanP isAlnum (c :: cs)).2
        match rest with
        | ':' :: v :: rest' =>
            if isVal v then
              ((key, (spanP isVal (v :: rest')).1)) :: scanAux fuel (spanP isVal (v :: rest')).2
            else scanAux fuel rest
        | _ => scanAux fuel rest
      else scanAux fuel cs

/-- a rendered field `K:val` followed by a blank and the rest of the line -/
theorem scan_field (fuel : Nat) (key val rest : List Char)
    (hk : key ≠ []) (hka : ∀ c ∈ key, isAlnum c = true)
    (hv : val ≠ []) (hva : ∀ c ∈ val, isVal c = true) :
    scanAux (fuel + 1) (key ++ ':' :: val ++ ' ' :: rest) = (key, val) :: scanAux fuel (' ' :: rest) := by
  obtain ⟨k0, ks, rfl⟩ := List.exists_cons_of_ne_nil hk
  obtain ⟨v0, vs, rfl⟩ := List.exists_cons_of_ne_nil hv
  have hk0 : isAlnum k0 = true := hka k0 (by simp)
  have hv0 : isVal v0 = true := hva v0 (by simp)
  have hspan : spanP isAlnum (k0 :: ks ++ (':' :: (v0 :: vs ++ ' ' :: rest))) = (k0 :: ks, ':' :: (v0 :: vs ++ ' ' :: rest)) :=
    spanP_append isAlnum (k0 :: ks) _ hka (by intro c hc; simp at hc; subst hc; decide)
  have hspanv : spanP isVal (v0 :: vs ++ ' ' :: rest) = (v0 :: vs, ' ' :: rest) :=
    spanP_append isVal (v0 :: vs) _ hva (by intro c hc; simp at hc; subst hc; decide)
  have e : (k0 :: ks) ++ ':' :: (v0 :: vs) ++ ' ' :: rest = k0 :: (ks ++ (':' :: (v0 :: vs ++ ' ' :: rest))) := by simp
  rw [e]
  simp only [scanAux, hk0, if_true]
  have hspan' : spanP isAlnum (k0 :: (ks ++ ':' :: (v0 :: vs ++ ' ' :: rest))) = (k0 :: ks, ':' :: (v0 :: vs ++ ' ' :: rest)) := by
    simpa using hspan
  rw [hspan']
  simp only [List.cons_append, hv0, if_true]
  have hspanv' : spanP isVal (v0 :: (vs ++ ' ' :: rest)) = (v0 :: vs, ' ' :: rest) := by simpa using hspanv
  rw [hspanv']

/-- a blank between tokens is skipped -/
theorem scan_blank (fuel : Nat) (rest : List Char) : scanAux (fuel + 1) (' ' :: rest) = scanAux fuel rest := by
  simp [scanAux, isAlnum]

#print axioms scan_field
#eval (scanAux 100 "X:1.00 Y:-2.50 Count X:80".toList).map (fun p => (String.ofList p.1, String.ofList p.2))

/-! Spike for C08: own decimal digit printer and parser over `List Char` with a round-trip proof
    (no reliance on `Nat.repr` lemmas), and the shape of `fmtNumber`. -/

def digitChar (d : Nat) : Char := Char.ofNat (48 + d)
def charDigit (c : Char) : Option Nat := if 48 ≤ c.toNat ∧ c.toNat ≤ 57 then some (c.toNat - 48) else none

theorem charDigit_digitChar (d : Nat) (h : d < 10) : charDigit (digitChar d) = some d := by
  have : d = 0 ∨ d = 1 ∨ d = 2 ∨ d = 3 ∨ d = 4 ∨ d = 5 ∨ d = 6 ∨ d = 7 ∨ d = 8 ∨ d = 9 := by omega
  rcases this with rfl | rfl | rfl | rfl | rfl | rfl | rfl | rfl | rfl | rfl <;> decide

/-- little-endian digits, at least one -/
def digitsLE (n : Nat) : List Nat :=
  if h : n < 10 then [n] else (n % 10) :: digitsLE (n / 10)
termination_by n
decreasing_by omega

def ofDigitsLE : List Nat → Nat
  | [] => 0
  | d :: ds => d + 10 * ofDigitsLE ds

theorem ofDigitsLE_digitsLE (n : Nat) : ofDigitsLE (digitsLE n) = n := by
  induction n using Nat.strongRecOn with
  | _ n ih =>
    rw [digitsLE]
    split
    · simp [ofDigitsLE]
    · rename_i h
      simp only [ofDigitsLE]
      rw [ih (n / 10) (by omega)]
      omega

theorem digitsLE_lt10 (n : Nat) : ∀ d ∈ digitsLE n, d < 10 := by
  induction n using Nat.strongRecOn with
  | _ n ih =>
    rw [digitsLE]
    split
    · intro d hd; simp at hd; omega
    · rename_i h
      intro d hd
      simp only [List.mem_cons] at hd
      rcases hd with rfl | hd
      · omega
      · exact ih (n / 10) (by omega) d hd

def renderNat (n : Nat) : List Char := (digitsLE n).reverse.map digitChar

/-- big-endian parser: fails on any non-digit, on the empty string -/
def parseNatAux : Nat → List Char → Option Nat
  | acc, [] => some acc
  | acc, c :: cs => match charDigit c with
      | some d => parseNatAux (10 * acc + d) cs
      | none => none
def parseNat (cs : List Char) : Option Nat := if cs.isEmpty then none else parseNatAux 0 cs

theorem parseNatAux_map (ds : List Nat) (h : ∀ d ∈ ds, d < 10) (acc : Nat) :
    parseNatAux acc (ds.map digitChar) = some (ds.foldl (fun a d => 10 * a + d) acc) := by
  induction ds generalizing acc with
  | nil => simp [parseNatAux]
  | cons d ds ih =>
    simp only [List.map_cons, parseNatAux, charDigit_digitChar d (h d (by simp)), List.foldl_cons]
    exact ih (fun x hx => h x (by simp [hx])) _

theorem foldl_reverse_eq (ds : List Nat) : (ds.reverse).foldl (fun a d => 10 * a + d) 0 = ofDigitsLE ds := by
  induction ds with
  | nil => simp [ofDigitsLE]
  | cons d ds ih => simp [List.foldl_append, ih, ofDigitsLE]; omega

theorem parseNat_renderNat (n : Nat) : parseNat (renderNat n) = some n := by
  unfold parseNat renderNat
  have hne : ((digitsLE n).reverse.map digitChar).isEmpty = false := by
    rw [digitsLE]; split <;> simp
  rw [hne]
  simp only [Bool.false_eq_true, if_false]
  rw [parseNatAux_map _ (by intro d hd; exact digitsLE_lt10 n d (by simpa using hd))]
  rw [foldl_reverse_eq, ofDigitsLE_digitsLE]

/-- every rendered character is a decimal digit: in particular no 'e', 'E', 'n', 'i' -/
theorem renderNat_all_digits (n : Nat) : ∀ c ∈ renderNat n, (charDigit c).isSome := by
  intro c hc
  simp only [renderNat, List.mem_map, List.mem_reverse] at hc
  obtain ⟨d, hd, rfl⟩ := hc
  simp [charDigit_digitChar d (digitsLE_lt10 n d hd)]

#eval String.ofList (renderNat 1000000000000000)
#print axioms parseNat_renderNat

"""Exploratory oracle for C19 on the unchanged tree. Not machinery."""
import random, sys, math
import numpy as np
from gscrib.heightmaps import RasterHeightMap, SparseHeightMap, FlatHeightMap

def raster(seed):
    rnd=random.Random(seed); rng=np.random.default_rng(seed); issues=[]
    h=rnd.randint(4,12); w=rnd.randint(4,12)
    if rnd.random()<0.5: img=rng.integers(0,256,(h,w),dtype=np.uint8); mx=255.0
    else: img=rng.integers(0,65536,(h,w),dtype=np.uint16); mx=65535.0
    hm=RasterHeightMap(img); sc=rnd.choice([1.0,0.5,3.0]); hm.set_scale(sc)
    for y in range(h):
        for x in range(w):
            got=hm.get_depth_at(x,y); want=sc*float(np.float32(img[y,x]/mx))
            if abs(got-want)>1e-5*max(1,abs(want)): issues.append(('C19 raster sample',seed,(x,y),got,want))
    for (x,y) in [(-1,0),(0,-1),(w,0),(0,h),(-0.001,1),(w+5,h+5)]:
        if hm.get_depth_at(x,y)!=0.0: issues.append(('C19 raster outside',seed,(x,y),hm.get_depth_at(x,y)))
    # sample_path
    tol=rnd.choice([0.01,0.05,0.2,0.378]); hm.set_tolerance(tol)
    for _ in range(5):
        x1,y1,x2,y2=[rnd.randint(0,w-1),rnd.randint(0,h-1),rnd.randint(0,w-1),rnd.randint(0,h-1)]
        pts=hm.sample_path([x1,y1,x2,y2])
        full=hm._interpolate_line(np.array([x1,y1,x2,y2],dtype=float))
        issues+=check_path(seed,'raster',pts,full,(x1,y1),(x2,y2),tol,lambda x,y: hm.get_depth_at(x,y))
    return issues

def check_path(seed,kind,pts,full,a,b,tol,depth):
    issues=[]
    if tuple(pts[0][:2])!=tuple(map(float,a)) or tuple(pts[-1][:2])!=tuple(map(float,b)): issues.append(('C19 path ends',seed,kind,pts[0],pts[-1],a,b))
    # subsequence of full, in order
    idx=[]; j=0
    for p in pts:
        while j<len(full) and not np.array_equal(full[j],p): j+=1
        if j==len(full): issues.append(('C19 path not subsequence',seed,kind)); return issues
        idx.append(j)
        # do not advance j: duplicates allowed? advance to keep order strict
        j+=1
    for p in pts:
        if abs(depth(p[0],p[1])-p[2])>1e-9: issues.append(('C19 path height',seed,kind,p))
    # dropped samples: differ from previously kept by < tol
    kept=set(idx); last=full[0][2]
    for k,q in enumerate(full):
        if k in kept: last=q[2]
        elif abs(q[2]-last)>=tol and k!=len(full)-1: issues.append(('C19 dropped >= tol',seed,kind,k,q[2],last,tol))
    return issues

def sparse(seed):
    rnd=random.Random(seed); issues=[]
    n=rnd.randint(4,15)
    pts=set()
    while len(pts)<n: pts.add((rnd.randint(0,20),rnd.randint(0,20)))
    pts=list(pts)
    xs=np.array([p[0] for p in pts],float); ys=np.array([p[1] for p in pts],float)
    if np.linalg.matrix_rank(np.c_[xs-xs[0],ys-ys[0]])<2: return []
    zs=np.array([rnd.randint(-50,50)/10 for _ in pts])
    hm=SparseHeightMap(np.c_[xs,ys,zs]); sc=rnd.choice([1.0,2.0,0.25]); hm.set_scale(sc)
    for (x,y),z in zip(pts,zs):
        got=hm.get_depth_at(x,y)
        if abs(got-sc*z)>1e-9: issues.append(('C19 sparse sample',seed,(x,y),float(got),sc*z))
    lo,hi=sc*zs.min(),sc*zs.max()
    from scipy.spatial import Delaunay
    tri=Delaunay(np.c_[xs,ys])
    for _ in range(50):
        q=(rnd.uniform(-5,25),rnd.uniform(-5,25)); got=float(hm.get_depth_at(*q))
        inside=tri.find_simplex(np.array([q]))[0]>=0
        if inside and not (lo-1e-9<=got<=hi+1e-9): issues.append(('C19 sparse range',seed,q,got,lo,hi))
        if not inside and got!=0.0: issues.append(('C19 sparse outside nonzero',seed,q,got))
    tol=rnd.choice([0.1,0.378,1.0]); hm.set_tolerance(tol)
    for _ in range(3):
        a=(rnd.uniform(0,20),rnd.uniform(0,20)); b=(rnd.uniform(0,20),rnd.uniform(0,20))
        p=hm.sample_path([*a,*b]); full=hm._interpolate_line(np.array([*a,*b]))
        issues+=check_path(seed,'sparse',p,full,a,b,tol,lambda x,y: float(hm.get_depth_at(x,y)))
    return issues

if __name__=="__main__":
    from collections import Counter
    N=int(sys.argv[1]) if len(sys.argv)>1 else 100
    for name,f in (('raster',raster),('sparse',sparse)):
        cnt=Counter(); ex={}
        for s in range(N):
            for iss in f(s): cnt[iss[0]]+=1; ex.setdefault(iss[0],iss)
        print(name, dict(cnt))
        for v in ex.values(): print("   e.g.",v)
    f=FlatHeightMap(); print("flat", f.get_depth_at(3,4), f.sample_path([0,1,2,3]).tolist())

"""Exploratory enumeration of C05 leaks (rejected call changes state or emits) and C03 holes on the unchanged tree. Not machinery."""
import random, re, sys, math, itertools
from collections import Counter
from gscrib import GCodeBuilder
from gscrib.writers import BaseWriter
class Rec(BaseWriter):
    def __init__(self): self.raw=[]
    def connect(self): return self
    def disconnect(self, wait=True): pass
    def write(self, b): self.raw.append(b)
NAN=float('nan'); INF=float('inf')
def snap(g,r):
    s=g.state
    def f(v):
        try:
            return None if v is None else ('nan' if isinstance(v,float) and math.isnan(v) else float(v))
        except Exception: return str(v)
    d=dict(pos=tuple(f(v) for v in g.position), spos=tuple(f(v) for v in s.position), dist=str(g.distance_mode), sdist=str(s.distance_mode),
           feed=f(s.feed_rate), power=f(s.tool_power), tool=s.is_tool_active, cool=s.is_coolant_active, halt=str(s.halt_mode), spin=str(s.spin_mode), pmode=str(s.power_mode),
           cmode=str(s.coolant_mode), tnum=s.tool_number, swap=str(s.tool_swap_mode), bed=f(s.target_bed_temperature), hot=f(s.target_hotend_temperature), ch=f(s.target_chamber_temperature),
           params={k:f(g.get_parameter(k)) for k in 'XYZFSE'}, sparams={k:f(s.get_parameter(k)) for k in 'XYZFSE'}, emode=str(s.extrusion_mode), fmode=str(s.feed_mode),
           units=str(s.length_units), plane=str(s.plane), res=f(s.resolution), direction=str(s.direction), nbytes=sum(len(b) for b in r.raw))
    return d
def reach(rnd):
    g=GCodeBuilder(output=None,line_endings="\n"); r=Rec(); g.add_writer(r)
    g.set_bounds("axes",(-10,-10,-10),(10,10,10)); g.set_bounds("feed-rate",100,1000); g.set_bounds("tool-power",0,500)
    g.set_bounds("tool-number",1,5); g.set_bounds("bed-temperature",0,100); g.set_bounds("hotend-temperature",0,250); g.set_bounds("chamber-temperature",0,60)
    g.set_axis(x=1,y=1,z=1); g.move(x=2,F=200)
    if rnd.random()<0.5: g.set_distance_mode("relative")
    st=rnd.choice(['idle','tool','cool','both'])
    if st in('tool','both'): g.tool_on('cw',100)
    if st in('cool','both'): g.coolant_on('mist')
    return g,r,st
CALLS={
 'move oob':lambda g: g.move(x=1000), 'move oob +F':lambda g: g.move(x=1000,F=300), 'move nan':lambda g: g.move(x=NAN), 'move ok xyz, F oob':lambda g: g.move(x=3,F=5000),
 'move F ok, S oob':lambda g: g.move(x=3,F=300,S=9999), 'move F nan':lambda g: g.move(x=3,F=NAN), 'move E inf':lambda g: g.move(x=3,E=INF),
 'rapid oob':lambda g: g.rapid(y=-500), 'rapid F ok then oob':lambda g: g.rapid(y=-500,F=300),
 'move_absolute oob':lambda g: g.move_absolute(z=99), 'rapid_absolute oob':lambda g: g.rapid_absolute(z=99), 'set_axis oob':lambda g: g.set_axis(x=77), 'set_axis nan':lambda g: g.set_axis(x=NAN),
 'auto_home nan':lambda g: g.auto_home(x=NAN), 'probe F oob':lambda g: g.probe('towards',z=0,F=99999), 'probe nan':lambda g: g.probe('towards',z=NAN), 'probe bad mode':lambda g: g.probe('sideways',z=0),
 'set_feed_rate oob':lambda g: g.set_feed_rate(5), 'set_feed_rate nan':lambda g: g.set_feed_rate(NAN), 'set_feed_rate -1':lambda g: g.set_feed_rate(-1),
 'set_tool_power oob':lambda g: g.set_tool_power(501), 'set_tool_power inf':lambda g: g.set_tool_power(INF),
 'tool_on oob':lambda g: g.tool_on('cw',9999), 'tool_on bad mode':lambda g: g.tool_on('sideways',10), 'tool_on off':lambda g: g.tool_on('off',10), 'tool_on again':lambda g: g.tool_on('ccw',10),
 'power_on oob':lambda g: g.power_on('constant',9999), 'power_on again':lambda g: g.power_on('dynamic',10),
 'coolant_on again':lambda g: g.coolant_on('flood'), 'coolant_on off':lambda g: g.coolant_on('off'),
 'tool_change oob':lambda g: g.tool_change('manual',9), 'tool_change 0':lambda g: g.tool_change('manual',0), 'tool_change active':lambda g: g.tool_change('manual',2),
 'halt active':lambda g: g.halt('pause'), 'halt off':lambda g: g.halt('off'), 'halt bed oob':lambda g: g.halt('wait-for-bed',S=500), 'halt hotend nan':lambda g: g.halt('wait-for-hotend',S=NAN),
 'set_bed oob':lambda g: g.set_bed_temperature(500), 'set_bed nan':lambda g: g.set_bed_temperature(NAN), 'set_hotend oob':lambda g: g.set_hotend_temperature(999), 'set_chamber oob':lambda g: g.set_chamber_temperature(999),
 'sleep -1':lambda g: g.sleep(-1), 'sleep nan':lambda g: g.sleep(NAN), 'fan 300':lambda g: g.set_fan_speed(300), 'fan nan':lambda g: g.set_fan_speed(NAN),
 'set_resolution 0':lambda g: g.set_resolution(0), 'units bad':lambda g: g.set_length_units('furlongs'), 'plane bad':lambda g: g.set_plane('ab'), 'dist bad':lambda g: g.set_distance_mode('sideways'),
 'emode bad':lambda g: g.set_extrusion_mode('x'), 'annotate bad key':lambda g: g.annotate('not valid','v'), 'stop active':lambda g: g.stop(), 'wait active':lambda g: g.wait(),
 'emergency (tool-power min>0 n/a)':lambda g: None,
}
if __name__=="__main__":
    rnd=random.Random(0); leaks={}
    for name,call in CALLS.items():
        for trial in range(12):
            g,r,st=reach(rnd); a=snap(g,r)
            try: call(g); out='ok'
            except Exception as e: out=type(e).__name__
            if out=='ok': continue
            b=snap(g,r)
            diff={k:(a[k],b[k]) for k in a if a[k]!=b[k]}
            if diff: leaks.setdefault((name,out),{}).update({k:v for k,v in diff.items()})
    for (name,out),d in leaks.items(): print(f"LEAK {name:28s} {out:18s} changed: {sorted(d)}")
    print(len(leaks),"leaky call kinds of",len(CALLS))

def roundHE (s : Rat) : Int :=
  let f := s.floor
  let r := s - (f : Rat)
  if (1/2 : Rat) < r ∨ (r = 1/2 ∧ f % 2 = 1) then f + 1 else f

theorem roundHE_err (s : Rat) : ((roundHE s : Int) : Rat) - s ≤ 1/2 ∧ s - ((roundHE s : Int) : Rat) ≤ 1/2 := by
  have h1 := Rat.floor_le s
  have h2 := Rat.lt_floor_add_one s
  simp only [roundHE]
  split
  · rename_i h
    have : ((s.floor + 1 : Int) : Rat) = (s.floor : Rat) + 1 := by simp [Rat.intCast_add]
    rcases h with h | ⟨h, _⟩ <;> constructor <;> grind
  · rename_i h
    have h' : ¬ ((1/2 : Rat) < s - (s.floor : Rat)) := fun hh => h (Or.inl hh)
    constructor <;> grind

def pow10 : Nat → Rat
  | 0 => 1
  | n+1 => 10 * pow10 n
theorem pow10_pos (n : Nat) : 0 < pow10 n := by
  induction n with
  | zero => simp [pow10]
  | succ n ih => simp [pow10]; grind

def roundDp (dp : Nat) (q : Rat) : Rat := (roundHE (q * pow10 dp) : Rat) / pow10 dp

theorem roundDp_err (dp : Nat) (q : Rat) :
    roundDp dp q - q ≤ (1/2) / pow10 dp ∧ q - roundDp dp q ≤ (1/2) / pow10 dp := by
  have hp := pow10_pos dp
  have hne : pow10 dp ≠ 0 := by grind
  obtain ⟨a, b⟩ := roundHE_err (q * pow10 dp)
  unfold roundDp
  have e1 : q = (q * pow10 dp) / pow10 dp := by
    rw [Rat.mul_div_cancel hne]
  constructor
  · sorry
  · sorry

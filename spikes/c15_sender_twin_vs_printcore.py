"""Spike: step-controlled firmware + Python twin of the printcore stop-and-wait LTS; compare tx sequences."""
import threading, time, queue, re, random, logging, sys
from functools import reduce
from unittest import mock
from gscrib.printrun import printcore, gcoder
logging.disable(logging.CRITICAL)

def cs(s): return reduce(lambda a,b:a^b, map(ord,s))
def strip_comment(l): return gcoder.gcode_strip_comment_exp.sub("", l).strip()

class FwModel:
    """Marlin-style firmware twin (pure)."""
    def __init__(self, corrupt): self.expected=0; self.accepted=[]; self.idx=0; self.corrupt=set(corrupt)
    def rx(self, line):
        m = re.match(r'^N(-?\d+) (.*)\*(\d+)$', line)
        if not m: self.accepted.append(("raw",line)); return ["ok"]
        n,cmd,c = int(m.group(1)), m.group(2), int(m.group(3))
        i=self.idx; self.idx+=1
        good = cs("N%d %s"%(n,cmd))==c and i not in self.corrupt
        if not good: return ["Error:checksum mismatch, Last Line: %d"%(self.expected-1), "Resend: %d"%self.expected, "ok"]
        if "M110" in cmd:
            self.expected = int(re.search(r'M110 N(-?\d+)',cmd).group(1))+1; return ["ok"]
        if n!=self.expected: return ["Error:Line Number is not Last Line Number+1, Last Line: %d"%(self.expected-1), "Resend: %d"%self.expected, "ok"]
        self.expected+=1; self.accepted.append((n,cmd)); return ["ok"]

class SenderModel:
    """Twin of printcore's print thread + listener at atomic-step granularity."""
    def __init__(self, job):
        self.job=[l.strip() for l in job if l.strip()]; self.lineno=0; self.resendfrom=-1; self.clear=False
        self.qi=0; self.sent={}; self.printing=True; self.tx=[]
        self._send("M110 N-1", -1, True)   # startprint -> _reset_line_numbers
    def _send(self, cmd, lineno=0, calc=False):
        if calc:
            p="N%d %s"%(lineno,cmd); cmd=p+"*"+str(cs(p))
            if "M110" not in cmd: self.sent[lineno]=cmd
        self.tx.append(cmd)
    def listen(self, line):
        if line.startswith("ok") or line.startswith("start") or line.startswith("Grbl "): self.clear=True
        if line.lower().startswith("resend") or line.startswith("rs"):
            l=line
            for h in ["N:","N",":"]: l=l.replace(h," ")
            for w in l.split():
                try: self.resendfrom=int(w); break
                except: pass
            self.clear=True
    def run_sender(self):
        while self.printing and self.clear: self.sendnext()
    def sendnext(self):
        self.clear=False
        if self.resendfrom < self.lineno and self.resendfrom > -1:
            self._send(self.sent[self.resendfrom], self.resendfrom, False); self.resendfrom+=1; return
        self.resendfrom=-1
        if self.qi < len(self.job):
            raw=self.job[self.qi]
            if raw.lstrip().startswith(";@"): self.qi+=1; self.clear=True; return
            t=strip_comment(raw)
            if t: self._send(t, self.lineno, True); self.lineno+=1
            else: self.clear=True
            self.qi+=1
        else:
            self.printing=False; self.clear=True; self.qi=0; self.lineno=0; self._send("M110 N-1",-1,True)

class StepSerial:
    inst=None
    def __init__(self,*a,**k):
        self.is_open=False; self.port=None; self.dtr=None; self.parity=None
        self.rxq=queue.Queue(); self.tx=[]; self.reads=0; StepSerial.inst=self
    def open(self): self.is_open=True
    def close(self): self.is_open=False
    def write(self,data):
        for l in data.decode().split("\n"):
            if l: self.tx.append(l)
    def readline(self):
        self.reads+=1
        try: return self.rxq.get(timeout=0.02)
        except queue.Empty: return b''

def quiesce(ser, settle=0.012):
    # wait until rx consumed and tx stable for `settle`
    t_end=time.time()+2
    last=len(ser.tx); t_stable=time.time()
    while time.time()<t_end:
        time.sleep(0.002)
        if not ser.rxq.empty(): t_stable=time.time(); continue
        if len(ser.tx)!=last: last=len(ser.tx); t_stable=time.time(); continue
        if time.time()-t_stable>settle: return

def run_case(job, corrupt, sched_seed):
    rnd=random.Random(sched_seed)
    with mock.patch("serial.Serial", StepSerial), mock.patch("gscrib.printrun.device.Device._disable_ttyhup"):
        core=printcore(); core.connect("/fake",115200); ser=StepSerial.inst
        # handshake: answer the first G4 P0
        t0=time.time()
        while not ser.tx and time.time()-t0<2: time.sleep(0.002)
        ser.rxq.put(b"ok\n"); 
        while not core.online: time.sleep(0.002)
        quiesce(ser); base=len(ser.tx)
        fw=FwModel(corrupt); sm=SenderModel(job); fw2=FwModel(corrupt)
        core.startprint(gcoder.GCode(job))
        t0=time.time()
        while core.send_thread is not None and time.time()-t0<1: time.sleep(0.002)
        quiesce(ser)
        inbox_i=base; pending=[]          # impl side
        m_inbox_i=0; m_pending=[]          # model side
        trace=[]
        for step in range(400):
            impl_new = len(ser.tx)-inbox_i; model_new=len(sm.tx)-m_inbox_i
            acts=[]
            if impl_new>0 or model_new>0: acts.append("fw")
            if pending or m_pending: acts.append("rel")
            if not acts: break
            a=rnd.choice(acts); trace.append(a)
            if a=="fw":
                if impl_new>0: pending += fw.rx(ser.tx[inbox_i]); inbox_i+=1
                if model_new>0: m_pending += fw2.rx(sm.tx[m_inbox_i]); m_inbox_i+=1
            else:
                if pending: ser.rxq.put((pending.pop(0)+"\n").encode()); quiesce(ser)
                if m_pending: sm.listen(m_pending.pop(0)); sm.run_sender()
        time.sleep(0.05)
        core.disconnect()
        return ser.tx[base:], sm.tx, fw.accepted, fw2.accepted, trace

if __name__ == "__main__":
    rnd=random.Random(7); agree=0; n=0; lost=0
    for case in range(int(sys.argv[1]) if len(sys.argv)>1 else 25):
        L=rnd.randint(1,6)
        job=[rnd.choice(["G1 X%d"%i, "G1 Y%d ; c"%i, "; only comment", "M105"]) for i in range(L)]
        ntx=L+6
        corrupt=set(rnd.sample(range(1,ntx), rnd.randint(0,3)))
        itx, mtx, iacc, macc, tr = run_case(job, corrupt, rnd.randint(0,10**6))
        n+=1; ok = (itx==mtx and iacc==macc); agree+=ok
        want=[strip_comment(l) for l in job if strip_comment(l)]
        complete = [c for _,c in macc if _!="raw"]==want
        lost += (not complete)
        if not ok:
            print("DISAGREE job",job,"corrupt",corrupt); print(" impl ",itx); print(" model",mtx); print(" sched","".join(x[0] for x in tr))
        elif not complete:
            print("AGREE but incomplete (tail loss): job",job,"corrupt",sorted(corrupt),"accepted",[c for _,c in macc])
    print("cases",n,"agree",agree,"incomplete-in-both",lost)

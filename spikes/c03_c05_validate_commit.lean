/-! Spike for C03/C05 over the repaired (validate-then-commit) move path, one axis, with Python number semantics
    for NaN/±inf (`Val`).  Order transcribed from the patched code:
      _transform_move: bounds(target)  →  _prepare_move: format(all words)  →  _track_move_params: validate F, validate S,
      commit F, commit S  →  _update_axes: commit position  →  write. -/

inductive Val where
  | fin (q : Rat) | nan | pinf | ninf
deriving DecidableEq, Repr

/-- Python `a <= b` on floats: false whenever a NaN is involved -/
def Val.le : Val → Val → Bool
  | .fin a, .fin b => a ≤ b
  | .nan, _ => false | _, .nan => false
  | .ninf, _ => true | _, .pinf => true
  | .pinf, _ => false | _, .ninf => false

def Val.isFinite : Val → Bool | .fin _ => true | _ => false
def Val.add : Val → Val → Val
  | .fin a, .fin b => .fin (a + b)
  | .nan, _ => .nan | _, .nan => .nan
  | .pinf, .ninf => .nan | .ninf, .pinf => .nan
  | .pinf, _ => .pinf | _, .pinf => .pinf
  | .ninf, _ => .ninf | _, .ninf => .ninf

structure Range where
  lo : Rat
  hi : Rat
deriving Repr

/-- `BoundManager.validate`: `not (min <= value <= max)` raises; absent bound accepts everything -/
def inRange (r : Option Range) (v : Val) : Bool :=
  match r with
  | none => true
  | some r => Val.le (.fin r.lo) v && Val.le v (.fin r.hi)

/-- `_validate_feed_rate` / `_validate_tool_power` after fix F3f: bound, then `not v >= 0` or `v == inf` rejects -/
def validNonNeg (r : Option Range) (v : Val) : Bool :=
  inRange r v && Val.le (.fin 0) v && v != .pinf

structure St where
  pos    : Rat := 0            -- tracked coordinate (known here; unknown axes resolve to 0 anyway)
  rel    : Bool := false
  feed   : Rat := 0
  power  : Rat := 0
  bAxes  : Option Range := none
  bFeed  : Option Range := none
  bPower : Option Range := none
deriving Repr

structure Stmt where
  x : Option Rat
  f : Option Rat
  s : Option Rat
  target : Rat                -- builder-coordinate target (audit record for C03)
deriving Repr

inductive Out | ok | valueError deriving DecidableEq, Repr

def toFin : Val → Option Rat | .fin q => some q | _ => none

def target (st : St) (req : Option Val) : Val :=
  match req with
  | none => .fin st.pos
  | some v => if st.rel then Val.add (.fin st.pos) v else v

def optAll (p : Val → Bool) : Option Val → Bool | none => true | some v => p v

/-- all the validation the repaired move performs before it commits anything, in the order of the code:
    bounds on the target (`_transform_move`), finiteness of every word (formatter), F then S (`_track_move_params`) -/
def checks (st : St) (req f s : Option Val) : Bool :=
  inRange st.bAxes (target st req) &&
  (optAll Val.isFinite req && optAll Val.isFinite f && optAll Val.isFinite s && (target st req).isFinite) &&
  optAll (validNonNeg st.bFeed) f && optAll (validNonNeg st.bPower) s

/-- move(x=req, F=f, S=s) on the repaired code -/
def move (st : St) (req f s : Option Val) : St × List Stmt × Out :=
  if checks st req f s then
    match toFin (target st req) with
    | none => (st, [], .valueError)
    | some t =>
      ({ st with pos := t, feed := (f.bind toFin).getD st.feed, power := (s.bind toFin).getD st.power },
       [⟨req.bind toFin, f.bind toFin, s.bind toFin, t⟩], .ok)
  else (st, [], .valueError)

/-- **C05_reject_noop**: a rejected move changes nothing and emits nothing (all inputs incl. NaN/±inf, all bounds) -/
theorem C05_reject_noop (st : St) (req f s : Option Val) :
    (move st req f s).2.2 = .valueError → (move st req f s).1 = st ∧ (move st req f s).2.1 = [] := by
  unfold move
  split
  · split
    · intro _; exact ⟨rfl, rfl⟩
    · intro h; simp at h
  · intro _; exact ⟨rfl, rfl⟩

/-- **C03_nan**: a NaN never passes a configured bound -/
theorem C03_nan (r : Range) : inRange (some r) .nan = false := by simp [inRange, Val.le]

theorem inRange_fin {r : Range} {q : Rat} (h : inRange (some r) (.fin q) = true) : r.lo ≤ q ∧ q ≤ r.hi := by
  simpa [inRange, Val.le] using h

/-- **C03_axes / C03_words**: whatever is emitted lies inside the bounds in force (inclusive) -/
theorem C03_emitted_within (st : St) (req f s : Option Val) (stmt : Stmt) (h : stmt ∈ (move st req f s).2.1) :
    (∀ r, st.bAxes = some r → r.lo ≤ stmt.target ∧ stmt.target ≤ r.hi) ∧
    (∀ r q, st.bFeed = some r → stmt.f = some q → r.lo ≤ q ∧ q ≤ r.hi) ∧
    (∀ r q, st.bPower = some r → stmt.s = some q → r.lo ≤ q ∧ q ≤ r.hi) := by
  unfold move at h
  split at h
  · rename_i hc
    simp only [checks, Bool.and_eq_true] at hc
    obtain ⟨⟨⟨hax, _⟩, hf⟩, hs⟩ := hc
    split at h
    · simp at h
    · rename_i t ht
      simp at h; subst h
      have hT : target st req = .fin t := by
        generalize target st req = T at ht; cases T <;> simp [toFin] at ht; subst ht; rfl
      refine ⟨?_, ?_, ?_⟩
      · intro r hr; rw [hr, hT] at hax; exact inRange_fin hax
      · intro r q hr hq
        cases f with
        | none => simp at hq
        | some v =>
          cases v <;> simp [toFin] at hq
          subst hq
          simp only [optAll, validNonNeg, Bool.and_eq_true, hr] at hf
          exact inRange_fin hf.1.1
      · intro r q hr hq
        cases s with
        | none => simp at hq
        | some v =>
          cases v <;> simp [toFin] at hq
          subst hq
          simp only [optAll, validNonNeg, Bool.and_eq_true, hr] at hs
          exact inRange_fin hs.1.1
  · simp at h

/-- **C03_accepts_inclusive**: a finite absolute target exactly on the upper bound, nothing else wrong, is accepted -/
example : (move { bAxes := some ⟨-10, 10⟩ } (some (.fin 10)) none none).2.2 = .ok := by decide
/-- witnesses: NaN coordinates are rejected even without bounds; a rejected F leaves S untouched -/
example : (move {} (some .nan) (some (.fin 100)) none).2.2 = .valueError := by decide
example : (move { bFeed := some ⟨100, 1000⟩ } (some (.fin 1)) (some (.fin 5000)) (some (.fin 3))).1.power = 0 := by decide
#print axioms C03_emitted_within
#print axioms C05_reject_noop

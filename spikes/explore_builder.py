"""Exploratory oracles on the unchanged tree for C01, C02, C03, C06, C07 (prototype of harness/oracle).
Not machinery: random histories through the public API, independent interpreters on the captured bytes."""
import random, re, math, sys, copy, traceback
from fractions import Fraction as Fr
from gscrib import GCodeBuilder
from gscrib.writers import BaseWriter
from gscrib.excepts import ToolStateError, CoolantStateError

class Rec(BaseWriter):
    def __init__(self): self.lines=[]
    def connect(self): return self
    def disconnect(self, wait=True): pass
    def write(self, b): self.lines.append(b.decode())

WORD = re.compile(r'([A-Z])(-?\d+(?:\.\d+)?)')
def parse(line):
    body = line.split(';')[0].strip()
    toks = body.split()
    codes=[t for t in toks if re.fullmatch(r'[GMT]\d+(\.\d+)?', t)]
    words={m.group(1):Fr(m.group(2)) for t in toks for m in [WORD.fullmatch(t)] if m and not re.fullmatch(r'[GMT]\d+(\.\d+)?', t)}
    return codes, words, toks

class Machine:
    def __init__(self): self.pos={'X':None,'Y':None,'Z':None}; self.rel=False
    def exec(self, line):
        codes, words, toks = parse(line)
        if not codes: return
        c=codes[0]
        if c in ('G90',): self.rel=False
        elif c=='G91': self.rel=True
        elif c in ('G0','G1','G00','G01'):
            for a in 'XYZ':
                if a in words:
                    if self.rel: self.pos[a] = None if self.pos[a] is None else self.pos[a]+words[a]
                    else: self.pos[a]=words[a]
        elif c=='G92':
            for a in 'XYZ':
                if a in words: self.pos[a]=words[a]
        elif c=='G28':
            ax=[a for a in 'XYZ' if a in words] or list('XYZ')
            for a in ax: self.pos[a]=None
        elif c.startswith('G38'):
            for a in 'XYZ':
                if a in words: self.pos[a]=None

class Modal:
    def __init__(self): self.tool=False; self.start=None; self.S=None; self.cool='off'; self.T=None; self.F=None
    def exec(self,line):
        codes, words, toks = parse(line)
        for c in codes:
            if c in ('M03','M04'):
                self.unsafe = getattr(self,'unsafe',[])
                if self.tool: self.unsafe.append(('tool start while running', line))
                self.tool=True; self.start=c
            elif c=='M05': self.tool=False
            elif c in ('M07','M08'):
                if self.cool!='off': self.unsafe=getattr(self,'unsafe',[])+[('coolant start while on',line)]
                self.cool={'M07':'mist','M08':'flood'}[c]
            elif c=='M09': self.cool='off'
            elif c in ('M06','M00','M01','M02','M30','M60','M109','M190','M191','M400'):
                if self.tool or self.cool!='off': self.unsafe=getattr(self,'unsafe',[])+[('halt/change while active',line)]
        if 'S' in words and (not codes or codes[0] in ('G0','G1','M03','M04') or codes[0].startswith('G38')): self.S=words['S']
        if 'F' in words and (not codes or codes[0] in ('G0','G1') or codes[0].startswith('G38')): self.F=words['F']

GRID=[Fr(k,32) for k in range(-640,641)]
def val(rnd): return float(rnd.choice(GRID))
def coords(rnd):
    d={}
    for a in 'xyz':
        if rnd.random()<0.5: d[a]=val(rnd)
    return d

def gen_op(rnd, with_bounds):
    r=rnd.random()
    ops=[]
    k=rnd.choice(['move','move','move','rapid','move_absolute','rapid_absolute','set_axis','auto_home','probe','set_distance_mode',
                  'tool_on','tool_off','power_on','power_off','coolant_on','coolant_off','tool_change','halt','pause','stop','wait',
                  'emergency_halt','set_feed_rate','set_tool_power','polyline','absctx','relctx','set_bed','halt_temp'])
    return k

def run_history(seed, n=30, bounds=False, verbose=False):
    rnd=random.Random(seed)
    g=GCodeBuilder(output=None, line_endings="\n"); r=Rec(); g.add_writer(r)
    m=Machine(); mo=Modal(); nexec=0
    issues=[]
    if bounds:
        g.set_bounds("axes",(-10,-10,-10),(10,10,10)); g.set_bounds("feed-rate",100,1000); g.set_bounds("tool-power",0 if rnd.random()<0.5 else 50,500)
        g.set_bounds("tool-number",1,5); g.set_bounds("bed-temperature",0,100)
    ctx=[]
    for i in range(n):
        k=gen_op(rnd,bounds)
        c=coords(rnd); extra={}
        if rnd.random()<0.3: extra['F']=rnd.choice([50,100,500,1000,2000])
        if rnd.random()<0.2: extra['S']=rnd.choice([0,10,100,500,900])
        before_active=(g.state.is_tool_active, g.state.is_coolant_active)
        desc=(k,c,extra)
        try:
            if k in ('move','rapid','move_absolute','rapid_absolute','set_axis','auto_home'): getattr(g,k)(**c,**extra)
            elif k=='probe': g.probe(rnd.choice(['towards','away']), **c, **extra)
            elif k=='set_distance_mode': g.set_distance_mode(rnd.choice(['absolute','relative']))
            elif k=='tool_on': g.tool_on(rnd.choice(['cw','ccw']), rnd.choice([0,100,600]))
            elif k=='tool_off': g.tool_off()
            elif k=='power_on': g.power_on(rnd.choice(['constant','dynamic']), rnd.choice([0,100,600]))
            elif k=='power_off': g.power_off()
            elif k=='coolant_on': g.coolant_on(rnd.choice(['mist','flood']))
            elif k=='coolant_off': g.coolant_off()
            elif k=='tool_change': g.tool_change(rnd.choice(['manual','automatic']), rnd.choice([0,1,3,9]))
            elif k=='halt': g.halt(rnd.choice(['pause','optional-pause','end-with-reset','pallet-exchange','wait-for-motion']))
            elif k=='halt_temp': g.halt(rnd.choice(['wait-for-bed','wait-for-hotend','wait-for-chamber']), **{rnd.choice(['S','R','s']): rnd.choice([20,60,150])})
            elif k=='pause': g.pause(rnd.random()<0.5)
            elif k=='stop': g.stop(rnd.random()<0.5)
            elif k=='wait': g.wait()
            elif k=='emergency_halt':
                n_before=len(r.lines); rst=rnd.random()<0.5; g.emergency_halt("msg", rst)
                seq=[ (l.split(';')[0].split() or [';'])[0] for l in r.lines[n_before:]]
                if seq!=['M05','M09',';','M30' if rst else 'M00']: issues.append(('C06 emergency sequence',seed,i,seq))
            elif k=='set_feed_rate': g.set_feed_rate(rnd.choice([50,100,500,2000]))
            elif k=='set_tool_power': g.set_tool_power(rnd.choice([0,10,100,900]))
            elif k=='set_bed': g.set_bed_temperature(rnd.choice([20,60,150]))
            elif k=='polyline': g.trace.polyline([tuple(val(rnd) for _ in range(3)) for _ in range(rnd.randint(1,3))])
            elif k=='absctx':
                with g.absolute_mode(): g.move(**coords(rnd))
            elif k=='relctx':
                with g.relative_mode(): g.move(**coords(rnd)); 
            out='ok'
        except (ToolStateError, CoolantStateError, ValueError) as e:
            out=type(e).__name__
        for l in r.lines[nexec:]:
            m.exec(l); mo.exec(l)
        nexec=len(r.lines)
        # C01 oracle (only meaningful if no rejected call has corrupted the core; record anyway)
        for a,ax in zip('xyz','XYZ'):
            mv=m.pos[ax]
            if mv is not None:
                bv=getattr(g.position,a); sv=getattr(g.state.position,a)
                if bv is None or Fr(bv)!=mv: issues.append(('C01 core', seed, i, desc, out, ax, mv, bv))
                if sv is None or Fr(sv)!=mv: issues.append(('C01 state', seed, i, desc, out, ax, mv, sv))
        if (g.distance_mode=='relative')!=m.rel: issues.append(('C01 mode',seed,i,desc))
        # C02/C07 flags
        if g.state.is_tool_active!=mo.tool: issues.append(('C07 tool flag',seed,i,desc,out))
        if (g.state.coolant_mode.value)!=mo.cool: issues.append(('C07 coolant',seed,i,desc,out, g.state.coolant_mode.value, mo.cool))
        if mo.tool and mo.S is not None and Fr(g.state.tool_power)!=mo.S: issues.append(('C07 power',seed,i,desc,out,g.state.tool_power,mo.S))
        if mo.F is not None and Fr(g.state.feed_rate)!=mo.F: issues.append(('C07 feed',seed,i,desc,out,g.state.feed_rate,mo.F))
        for u in getattr(mo,'unsafe',[]): issues.append(('C02 unsafe',seed,i,u)); 
        mo.unsafe=[]
        # C02 converse: rejection of an off command
        if k in ('tool_off','power_off','coolant_off','emergency_halt') and out!='ok': issues.append(('C06 off rejected',seed,i,desc,out))
    return issues

if __name__=="__main__":
    N=int(sys.argv[1]) if len(sys.argv)>1 else 300
    from collections import Counter
    for bounds in (False, True):
        cnt=Counter(); ex={}
        for s in range(N):
            for iss in run_history(s, 30, bounds):
                cnt[iss[0]]+=1; ex.setdefault(iss[0], iss)
        print("bounds" if bounds else "no bounds", dict(cnt))
        for k,v in ex.items(): print("   e.g.", v)

"""Spike C16: schedule points inside write() that the step harness cannot reach are forced by an instrumented Event:
`clear()` is delayed, the device answers instantly. Correct order (clear; send) is unaffected; the reordered
variant (send; clear) loses the acknowledgement and write() never returns."""
import threading, time, queue, logging, sys
from unittest import mock
from gscrib.writers import SerialWriter
logging.disable(logging.CRITICAL)
from c15_sender_twin_vs_printcore import StepSerial, quiesce

class SlowClearEvent(threading.Event):
    def clear(self):
        time.sleep(0.05); super().clear()

class AutoSerial(StepSerial):
    """answers every received line with 'ok' immediately"""
    def write(self, data):
        super().write(data)
        for l in data.decode().split("\n"):
            if l: self.rxq.put(b"ok\n")

def run():
    with mock.patch("serial.Serial", AutoSerial), mock.patch("gscrib.printrun.device.Device._disable_ttyhup"):
        w = SerialWriter("/fake", 115200); w.connect(); time.sleep(0.3)
        w._writer_delegate._ack_event = SlowClearEvent()
        done=[]
        def writer():
            for i in range(3): w.write(b"G1 X%d\n" % i); done.append(i)
        t=threading.Thread(target=writer, daemon=True); t.start(); t.join(timeout=3)
        ok = len(done)==3
        try: w.disconnect(False)
        except Exception: pass
        return ok, done
if __name__=="__main__":
    ok,done=run(); print("all writes returned:", ok, done)

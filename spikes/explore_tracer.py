"""Exploratory oracles for C10/C11/C12 on the unchanged tree. Not machinery."""
import random, re, sys, math
import numpy as np
from gscrib import GCodeBuilder
from gscrib.writers import BaseWriter
class Rec(BaseWriter):
    def __init__(self): self.lines=[]
    def connect(self): return self
    def disconnect(self, wait=True): pass
    def write(self, b): self.lines.append(b.decode())
W=re.compile(r'\b([XYZ])(-?\d+(?:\.\d+)?)')
def run(shape, args, start, rel, res, dirn, units=None):
    g=GCodeBuilder(output=None,line_endings="\n",decimal_places=9); r=Rec(); g.add_writer(r)
    g.set_resolution(res); g.set_direction(dirn)
    g.move(x=start[0],y=start[1],z=start[2])
    if rel: g.set_distance_mode("relative")
    n0=len(r.lines)
    a=dict(args)
    def conv(p):  # absolute waypoint -> argument in current mode
        p=tuple(p)
        if not rel: return p
        return tuple(pi-si for pi,si in zip(p,start))
    if shape=='arc': g.trace.arc(conv(a['target']), a['center'])
    elif shape=='arc_radius': g.trace.arc_radius(conv(a['target']), a['radius'])
    elif shape=='circle': g.trace.circle(a['center'])
    elif shape=='helix': g.trace.helix(conv(a['target']), a['center'], a['turns'])
    elif shape=='spiral': g.trace.spiral(conv(a['target']), a['turns'])
    elif shape=='thread': g.trace.thread(conv(a['target']), a['pitch'])
    elif shape=='spline':
        pts=a['points']
        if rel:
            prev=start; out=[]
            for p in pts: out.append(tuple(pi-qi for pi,qi in zip(p,prev))); prev=p
            pts=out
        g.trace.spline(pts)
    elif shape=='polyline':
        pts=a['points']
        if rel:
            prev=start; out=[]
            for p in pts: out.append(tuple(pi-qi for pi,qi in zip(p,prev))); prev=p
            pts=out
        g.trace.polyline(pts)
    pos=list(start); P=[tuple(start)]
    for l in r.lines[n0:]:
        w=dict(W.findall(l.split(';')[0]))
        for i,ax in enumerate('XYZ'):
            if ax in w: pos[i]=pos[i]+float(w[ax]) if rel else float(w[ax])
        P.append(tuple(pos))
    return np.array(P), g

def gen(rnd):
    shape=rnd.choice(['arc','arc_radius','circle','helix','spiral','thread','spline','polyline'])
    start=tuple(rnd.randint(-40,40)/4 for _ in range(3))
    res=rnd.choice([0.05,0.1,0.5,1.0]); dirn=rnd.choice(['cw','ccw'])
    if shape in('arc','circle','helix'):
        c=(rnd.randint(-40,40)/4 or 1.0, rnd.randint(-40,40)/4)   # relative to start
        cx,cy=start[0]+c[0],start[1]+c[1]; r=math.hypot(c[0],c[1])
        ang=rnd.uniform(0,2*math.pi)
        if shape=='arc':
            t=(cx+r*math.cos(ang), cy+r*math.sin(ang), start[2]+rnd.choice([0,0,2.5,-1.0]))
            return shape,dict(target=t,center=c),start,res,dirn
        if shape=='circle': return shape,dict(center=c),start,res,dirn
        r2=r*rnd.choice([1.0,1.0,0.5,2.0]); t=(cx+r2*math.cos(ang),cy+r2*math.sin(ang),start[2]+rnd.choice([0,5.0,-2.0]))
        return shape,dict(target=t,center=c,turns=rnd.randint(1,3)),start,res,dirn
    if shape=='arc_radius':
        d=(rnd.randint(-20,20)/4 or 2.0, rnd.randint(-20,20)/4); dist=math.hypot(*d)
        rad=dist/2*rnd.choice([1.0,1.2,2.0,5.0])*rnd.choice([1,-1])
        return shape,dict(target=(start[0]+d[0],start[1]+d[1],start[2]+rnd.choice([0,0,1.5])),radius=rad),start,res,dirn
    if shape=='spiral':
        t=(start[0]+rnd.randint(-20,20)/4, start[1]+rnd.randint(-20,20)/4, start[2]+rnd.choice([0,3.0])); return shape,dict(target=t,turns=rnd.randint(1,3)),start,res,dirn
    if shape=='thread':
        t=(start[0]+rnd.randint(-20,20)/4, start[1]+rnd.randint(-20,20)/4, start[2]+rnd.choice([4.0,-6.0,10.0])); return shape,dict(target=t,pitch=rnd.choice([1.0,2.0,0.5])),start,res,dirn
    pts=[tuple(rnd.randint(-40,40)/4 for _ in range(3)) for _ in range(rnd.randint(2,5))]
    return shape,dict(points=pts),start,res,dirn

def check(seed):
    rnd=random.Random(seed); issues=[]
    shape,a,start,res,dirn=gen(rnd)
    try: Pa,ga=run(shape,a,start,False,res,dirn)
    except Exception as e: return [('abs exception',shape,seed,repr(e)[:80])]
    try: Pr,gr=run(shape,a,start,True,res,dirn)
    except Exception as e: issues.append(('C11 rel exception',shape,seed,repr(e)[:80])); Pr=None
    if Pr is not None:
        if len(Pa)!=len(Pr): issues.append(('C11 vertex count',shape,seed,len(Pa),len(Pr)))
        elif np.abs(Pa-Pr).max()>1e-5: issues.append(('C11 vertices differ',shape,seed,float(np.abs(Pa-Pr).max())))
    P=Pa; seg=np.linalg.norm(np.diff(P,axis=0),axis=1)
    # end on target
    tgt = a.get('target', a['points'][-1] if 'points' in a else start)
    if np.abs(P[-1]-np.array(tgt)).max()>1e-6: issues.append(('C10 end != target',shape,seed,P[-1].tolist(),tgt))
    sgn = -1 if dirn=='cw' else 1
    if shape in('arc','circle','arc_radius','helix','thread','spiral'):
        if shape in ('arc','circle','helix'): c=(start[0]+a['center'][0], start[1]+a['center'][1])
        elif shape=='spiral': c=(start[0],start[1])
        elif shape=='thread': c=((start[0]+tgt[0])/2,(start[1]+tgt[1])/2)
        else: c=None
        if c is not None:
            rad=np.hypot(P[:,0]-c[0],P[:,1]-c[1])
            ang=np.unwrap(np.arctan2(P[:,1]-c[1],P[:,0]-c[0]))
            if shape in('arc','circle','thread'):
                if rad.max()-rad.min()>1e-5*max(1,rad.max()): issues.append(('C10 radius not constant',shape,seed,float(rad.min()),float(rad.max())))
            if rad.min()>1e-6:
                d=np.diff(ang)*sgn
                if (d<-1e-7).any(): issues.append(('C10 not monotone in direction',shape,seed))
                sweep=abs(ang[-1]-ang[0])
                if shape in('arc','circle','helix','thread') and sweep>1e-6:
                    zlin=P[0,2]+(P[-1,2]-P[0,2])*np.abs(ang-ang[0])/sweep
                    if np.abs(P[:,2]-zlin).max()>1e-5*max(1,abs(P[-1,2]-P[0,2])): issues.append(('C10 z not linear in angle',shape,seed,float(np.abs(P[:,2]-zlin).max())))
                if shape=='circle' and abs(sweep-2*math.pi)>1e-5: issues.append(('C10 circle sweep',shape,seed,sweep))
                if shape in('helix','spiral') and not (2*math.pi*(a['turns']-1)-1e-6 < sweep <= 2*math.pi*a['turns']+1e-6): issues.append(('C10 turns',shape,seed,sweep,a['turns']))
        if shape=='arc_radius':
            # recover centre from 3 points
            A,B,C=P[0][:2],P[len(P)//2][:2],P[-1][:2]
            M=np.array([[B[0]-A[0],B[1]-A[1]],[C[0]-A[0],C[1]-A[1]]]); rhs=0.5*np.array([B@B-A@A,C@C-A@A])
            try:
                cc=np.linalg.solve(M,rhs); rad=np.hypot(P[:,0]-cc[0],P[:,1]-cc[1])
                if abs(rad.mean()-abs(a['radius']))>1e-3*abs(a['radius']): issues.append(('C10 arc_radius radius',shape,seed,float(rad.mean()),a['radius']))
                ang=np.unwrap(np.arctan2(P[:,1]-cc[1],P[:,0]-cc[0])); sweep=abs(ang[-1]-ang[0])
                if a['radius']>0 and sweep>math.pi+1e-3: issues.append(('C10 arc_radius major for +r',shape,seed,sweep))
                if a['radius']<0 and sweep<math.pi-1e-3: issues.append(('C10 arc_radius minor for -r',shape,seed,sweep))
                if ((np.diff(ang)*sgn)<-1e-7).any(): issues.append(('C10 arc_radius direction',shape,seed))
            except np.linalg.LinAlgError: pass
    if shape=='polyline':
        if len(P)-1!=len(a['points']) or np.abs(P[1:]-np.array(a['points'])).max()>1e-9: issues.append(('C10 polyline',shape,seed))
    if shape=='spline':
        for cp in a['points']:
            if np.linalg.norm(P-np.array(cp),axis=1).min()>res*1.0+1e-9: issues.append(('C10 spline misses control point',shape,seed,float(np.linalg.norm(P-np.array(cp),axis=1).min()),res))
    # C12
    if shape in('arc','circle','arc_radius') or (shape=='helix' and abs(np.hypot(tgt[0]-(start[0]+a['center'][0]),tgt[1]-(start[1]+a['center'][1]))-math.hypot(*a['center']))<1e-9):
        if len(seg)>3:
            if seg.max()>1.05*res: issues.append(('C12 segment too long',shape,seed,float(seg.max()),res))
            if seg[1:-1].min()<0.85*res: issues.append(('C12 interior segment too short',shape,seed,float(seg[1:-1].min()),res))
    if shape!='polyline':
        try:
            Ph,_=run(shape,a,start,False,res/2,dirn)
            if len(Ph)<len(P): issues.append(('C12 halving fewer segments',shape,seed,len(P),len(Ph)))
        except Exception as e: pass
    return issues

if __name__=="__main__":
    from collections import Counter
    N=int(sys.argv[1]) if len(sys.argv)>1 else 300
    cnt=Counter(); ex={}
    for s in range(N):
        for iss in check(s): cnt[(iss[0],iss[1])]+=1; ex.setdefault((iss[0],iss[1]),iss)
    for k,v in sorted(cnt.items()): print(k,v, "  e.g.", ex[k][2:])

"""Design-phase check: do the draft oracles (explore_*.py, twin spikes) notice the suite-surviving mutants?
For each mutant: copy /repo to /tmp/mutsens/<name>, apply the edit, run the mapped script with PYTHONPATH at the copy,
compare its issue summary with the summary obtained on the unchanged tree."""
import os, shutil, subprocess, sys, re, concurrent.futures as cf
HERE=os.path.dirname(os.path.abspath(__file__))
src=open(os.path.join(HERE,'mutant_survival_runner.py')).read()
i=src.index('MUTANTS = ['); j=src.index('\n]\n', i); ns={}; exec(src[i:j+2], ns)
MUT={m[0]:m for m in ns['MUTANTS']}
MAP={ 'N01_C01_ctx_no_finally':('explore_builder.py','120'), 'N04_C02_wait_skips_guard':('explore_builder.py','120'),
 'M20_C06_emergency_order':('explore_builder.py','120'), 'N23_C06_coolant_off_guard':('explore_builder.py','120'),
 'M03_C03_feed_no_bounds':('explore_c03_c18.py','200'), 'N13_C03_within_bounds_strict_upper':('explore_c03_c18.py','200'), 'N14_C03_set_axis_skips_state':('explore_c03_c18.py','200'),
 'M12_C18_last_wins':('explore_c03_c18.py','200'), 'N20_C18_fs_outside_status':('explore_c03_c18.py','200'),
 'N05_C04_combine_ignores_coupling':('explore_transform.py','300'), 'P04_C13_copy_state_shallow_stack':('explore_transform.py','300'), 'P05_C13_named_ctx_no_revert':('explore_transform.py','300'),
 'M05_C07_no_S_tracking':('explore_c07.py','200'), 'M23_C07_halt_wrong_temp':('explore_c07.py','200'),
 'P01_C08_feed_raw_number':('explore_hooks_format.py','200'), 'N11_C20_track_before_hooks':('explore_hooks_format.py','200'), 'N12_C20_extrusion_uses_z':('explore_hooks_format.py','200'),
 'M24_C10_arc_radius_center_sign':('explore_tracer.py','150'), 'N15_C10_helix_turns_off_by_one':('explore_tracer.py','150'), 'N16_C10_arc_z_not_linear':('explore_tracer.py','150'),
 'P03_C11_helix_raw_target_z':('explore_tracer.py','150'), 'P06_C11_arc_center_from_target_rel':('explore_tracer.py','150'),
 'M22_C12_oversample_1x':('explore_tracer.py','150'), 'N24_C12_filter_no_reset':('explore_tracer.py','150'),
 'M10_C14_add_writer_dups':('explore_io.py','300'), 'N18_C14_teardown_no_clear':('explore_io.py','300'), 'M11_C17_rfind':('explore_io.py','300'), 'N19_C17_drop_remainder':('explore_io.py','300'),
 'M16_C19_swap_xy':('explore_heightmap.py','60'), 'N21_C19_filter_prev_sample':('explore_heightmap.py','60'),
 'N09_C15_sentlines_off_by_one':('c15_sender_twin_vs_printcore.py','30'), 'N10_C15_resend_no_increment':('c15_sender_twin_vs_printcore.py','30'),
 'M15_C16_clear_after_send':('c16_twin_vs_serialwriter.py','15'), 'N22_C16_ok_anywhere':('c16_twin_vs_serialwriter.py','15'),
}
def summary(out):
    """issue-kind -> count, parsed loosely from the scripts' printed dicts / DISAGREE lines"""
    d={}
    for k,v in re.findall(r"'([^']+?)': (\d+)", out): d[k]=d.get(k,0)+int(v)
    for k,sh,v in re.findall(r"^\('([^']+)', '([a-z_]+)'\) (\d+)", out, re.M): d[k+' / '+sh]=int(v)
    d['DISAGREE']=len(re.findall(r'^DISAGREE', out, re.M))
    m=re.search(r'cases (\d+) agree (\d+)', out)
    if m: d['agree']=int(m.group(2)); d['cases']=int(m.group(1))
    return d
def run(script,n,pp=None):
    env=dict(os.environ, PYTHONDONTWRITEBYTECODE="1")
    if pp: env['PYTHONPATH']=pp
    r=subprocess.run(["/venv/bin/python",os.path.join(HERE,script),n],cwd=HERE,env=env,capture_output=True,text=True,timeout=900)
    return r.stdout+r.stderr[-500:]
def one(name):
    script,n=MAP[name]; _,path,old,new=MUT[name]
    d=f"/tmp/mutsens/{name}"
    if os.path.exists(d): shutil.rmtree(d)
    shutil.copytree("/repo", d, ignore=shutil.ignore_patterns(".git",".benchmarks","docs","__pycache__","tests","examples"))
    fp=os.path.join(d,path); s=open(fp).read(); assert s.count(old)==1; open(fp,"w").write(s.replace(old,new))
    out=run(script,n,d); shutil.rmtree(d)
    return name, summary(out), out
ONLY=set(sys.argv[1:])
if __name__=="__main__":
    if ONLY: MAP={k:v for k,v in MAP.items() if k in ONLY}
    base={}
    keys=sorted(set(MAP.values()))
    with cf.ThreadPoolExecutor(8) as ex:
        nonthread=[k for k in keys if not k[0].startswith('c1')]
        for k,o in zip(nonthread, ex.map(lambda sn: run(*sn), nonthread)): base[k]=summary(o)
    for k in keys:
        if k[0].startswith('c1'): base[k]=summary(run(*k))
    os.makedirs("/tmp/mutsens",exist_ok=True)
    serial=[k for k,v in MAP.items() if v[0].startswith('c1')]; par=[k for k in MAP if k not in serial]
    res=[]
    with cf.ThreadPoolExecutor(8) as ex: res+=list(ex.map(one,par))
    for k in serial: res.append(one(k))          # thread-timing harnesses: one at a time
    caught=0
    for name,sm,out in sorted(res):
        b=base[MAP[name]]
        new={k:v for k,v in sm.items() if (k not in b or (k not in('agree','cases') and v>b.get(k,0)*1.5+2)) and v>0}
        if 'agree' in sm and sm.get('agree')!=sm.get('cases'): new['twin-disagreements']=sm['cases']-sm['agree']
        print(f"{name:38s} {'CAUGHT ' if new else 'missed '} {new if new else ''}")
        caught+=bool(new)
    print(f"{caught}/{len(res)} surviving mutants noticed by the draft oracles")
    shutil.rmtree("/tmp/mutsens",ignore_errors=True)

import GscribModel.Drv.Tracer
def main : IO Unit := GscribModel.TracerDrv.main

import GscribModel.Model.Proto
import GscribModel.Model.Socket
/-! Line-protocol driver: `lake env lean --run Driver.lean <mode>` reads one case/operation per
    line on stdin and prints exactly one record per line (`bad-op …` for an unparsable line). -/
open GscribModel GscribModel.Proto

namespace SocketDrv
open GscribModel.Socket
def parseEv (w : String) : Option Ev :=
  match w.toList with
  | ['a'] => some .again
  | ['e'] => some .eof
  | 'c' :: hex => match parseHex hex with
      | some (b :: bs) => some (.chunk b bs)
      | _ => none
  | _ => none
def showRes : Res → String
  | .line l => "l" ++ toHex l
  | .empty => "-"
  | .eofR => "E"
/-- `<ncalls> ev ev …` ↦ results, then the bytes still buffered -/
def handle (line : String) : String :=
  match words line with
  | n :: evs =>
    match n.toNat?, evs.mapM parseEv with
    | some n, some evs =>
      let r := calls n [] evs
      " ".intercalate (r.1.map showRes) ++ " | buf=" ++ toHex r.2.1.flatten
    | _, _ => "bad-op " ++ line
  | _ => "bad-op " ++ line
end SocketDrv

partial def loopPure (h : IO.FS.Stream) (out : IO.FS.Stream) (f : String → String) : IO Unit := do
  let line ← h.getLine
  if line.isEmpty then return ()
  out.putStrLn (f (line.dropEndWhile (· == (Char.ofNat 10))).toString)
  loopPure h out f

def main (args : List String) : IO UInt32 := do
  let stdin ← IO.getStdin
  let stdout ← IO.getStdout
  match args with
  | ["socket"] => loopPure stdin stdout SocketDrv.handle; return 0
  | _ => IO.eprintln s!"unknown mode {args}"; return 2

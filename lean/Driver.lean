import GscribModel.Drv.Socket
import GscribModel.Drv.Builder
import GscribModel.Drv.Heightmap
import GscribModel.Drv.Sender
import GscribModel.Drv.DirectWrite
import GscribModel.Drv.Writers
import GscribModel.Drv.Report
import GscribModel.Drv.Transform
import GscribModel.Drv.Format
import GscribModel.Drv.Tracer
import GscribModel.Drv.GState
import GscribModel.Drv.PointSrc
import GscribModel.Drv.SocketSrc
import GscribModel.Drv.ReportSrc
import GscribModel.Drv.BoundsSrc
import GscribModel.Drv.HookSrc
import GscribModel.Drv.WritersSrc
import GscribModel.Drv.TracerSrc
import GscribModel.Drv.FormatSrc
import GscribModel.Drv.XformSrc
import GscribModel.Drv.HeightSrc
import GscribModel.Drv.SenderSrc
import GscribModel.Drv.RecvSrc
import GscribModel.Drv.GcoderSrc
import GscribModel.Drv.DirectWriteSrc
/-! Line-protocol driver: `driver <mode>` (or `lake env lean --run Driver.lean <mode>`) reads one
    case/operation per line on stdin and prints exactly one record per line (`bad-op …` for an
    unparsable line).  Each mode lives in `GscribModel/Drv/<Mode>.lean`. -/
open GscribModel

def main (args : List String) : IO UInt32 := do
  match args with
  | ["socket"] => SocketDrv.main; return 0
  | ["builder"] => BuilderDrv.main; return 0
  | ["heightmap"] => HeightmapDrv.main; return 0
  | ["sender"] => SenderDrv.main; return 0
  | ["directwrite"] => DirectWriteDrv.main; return 0
  | ["writers"] => WritersDrv.main; return 0
  | ["report"] => ReportDrv.main; return 0
  | ["transform"] => TransformDrv.main; return 0
  | ["format"] => FormatDrv.main; return 0
  | ["tracer"] => TracerDrv.main; return 0
  | ["gstate"] => GStateDrv.main; return 0
  | ["point"] => PointSrcDrv.main; return 0
  | ["socketsrc"] => SocketSrcDrv.main; return 0
  | ["reportsrc"] => ReportSrcDrv.main; return 0
  | ["bounds"] => BoundsSrcDrv.main; return 0
  | ["hook"] => HookSrcDrv.main; return 0
  | ["writerssrc"] => WritersSrcDrv.main; return 0
  | ["tracersrc"] => TracerSrcDrv.main; return 0
  | ["formatsrc"] => FormatSrcDrv.main; return 0
  | ["xform"] => XformSrcDrv.main; return 0
  | ["heightsrc"] => HeightSrcDrv.main; return 0
  | ["sendersrc"] => SenderSrcDrv.main; return 0
  | ["recvsrc"] => RecvSrcDrv.main; return 0
  | ["gcodersrc"] => GcoderSrcDrv.main; return 0
  | ["dwritesrc"] => DirectWriteSrcDrv.main; return 0
  | _ => IO.eprintln s!"unknown mode {args}"; return 2

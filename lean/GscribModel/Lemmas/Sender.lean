import GscribModel.Model.Sender
set_option linter.unusedSimpArgs false
/-! Helper lemmas for C15 (model: `Model/Sender.lean`).

1. decimal printer/parser round trip, `decode (frame n cmd)`;
2. what the firmware does with a job frame / a reset frame (`fw_job`, `fw_reset`);
3. the three invariants: `FInv` (sender side, every fault pattern), `SInv` (safety),
   `Tok` (one flow-control token while no error triple is split) with `Clean` (no faults). -/
namespace GscribModel.Sender

/-! ## 1. numbers and frames -/

theorem charDigit_digitChar (d : Nat) (h : d < 10) : charDigit (digitChar d) = some d := by
  have : d = 0 ∨ d = 1 ∨ d = 2 ∨ d = 3 ∨ d = 4 ∨ d = 5 ∨ d = 6 ∨ d = 7 ∨ d = 8 ∨ d = 9 := by omega
  rcases this with rfl | rfl | rfl | rfl | rfl | rfl | rfl | rfl | rfl | rfl <;> decide

theorem digitChar_ne (d : Nat) (c : Char) (hc : charDigit c = none) : digitChar d ≠ c := by
  intro h
  have h10 : charDigit (digitChar (min d 9)) = some (min d 9) := charDigit_digitChar _ (by omega)
  have : digitChar d = digitChar (min d 9) := by
    by_cases hd : d < 10
    · have : min d 9 = d := by omega
      rw [this]
    · have h9 : min d 9 = 9 := by omega
      rw [h9]
      unfold digitChar
      split <;> first | rfl | omega
  rw [← this, h, hc] at h10
  cases h10

def ofDigitsLE : List Nat → Nat
  | [] => 0
  | d :: ds => d + 10 * ofDigitsLE ds

theorem ofDigitsLE_digitsLE : ∀ (f n : Nat), n ≤ f → ofDigitsLE (digitsLE f n) = n
  | 0, n, h => by
      have : n = 0 := by omega
      subst this; simp [digitsLE, ofDigitsLE]
  | f + 1, n, h => by
      rw [digitsLE]
      split
      · simp [ofDigitsLE]
      · simp only [ofDigitsLE]
        rw [ofDigitsLE_digitsLE f (n / 10) (by omega)]
        omega

theorem digitsLE_lt10 : ∀ (f n : Nat), ∀ d ∈ digitsLE f n, d < 10
  | 0, n => by intro d hd; simp [digitsLE] at hd; omega
  | f + 1, n => by
      intro d hd
      rw [digitsLE] at hd
      split at hd
      · simp at hd; omega
      · simp only [List.mem_cons] at hd
        rcases hd with rfl | hd
        · omega
        · exact digitsLE_lt10 f (n / 10) d hd

theorem digitsLE_ne_nil (f n : Nat) : digitsLE f n ≠ [] := by
  cases f <;> rw [digitsLE]
  · simp
  · split <;> simp

theorem parseNatAux_map (ds : List Nat) (h : ∀ d ∈ ds, d < 10) (acc : Nat) :
    parseNatAux acc (ds.map digitChar) = some (ds.foldl (fun a d => 10 * a + d) acc) := by
  induction ds generalizing acc with
  | nil => simp [parseNatAux]
  | cons d ds ih =>
    simp only [List.map_cons, parseNatAux, charDigit_digitChar d (h d (by simp)), List.foldl_cons]
    exact ih (fun x hx => h x (by simp [hx])) _

theorem foldl_reverse_eq (ds : List Nat) :
    (ds.reverse).foldl (fun a d => 10 * a + d) 0 = ofDigitsLE ds := by
  induction ds with
  | nil => simp [ofDigitsLE]
  | cons d ds ih => simp [List.foldl_append, ih, ofDigitsLE]; omega

theorem renderNat_ne_nil (n : Nat) : renderNat n ≠ [] := by
  simp [renderNat, digitsLE_ne_nil]

theorem parseNat_renderNat (n : Nat) : parseNat (renderNat n) = some n := by
  have hne : (renderNat n).isEmpty = false := by
    cases h : renderNat n with
    | nil => exact absurd h (renderNat_ne_nil n)
    | cons _ _ => rfl
  unfold parseNat
  rw [hne]
  simp only [Bool.false_eq_true, if_false]
  unfold renderNat
  rw [parseNatAux_map _ (by intro d hd; exact digitsLE_lt10 n n d (by simpa using hd))]
  rw [foldl_reverse_eq, ofDigitsLE_digitsLE n n (Nat.le_refl n)]

/-- a rendered natural number contains no character that is not a decimal digit -/
theorem not_mem_renderNat (n : Nat) (c : Char) (hc : charDigit c = none) : c ∉ renderNat n := by
  intro h
  simp only [renderNat, List.mem_map, List.mem_reverse] at h
  obtain ⟨d, _, hd⟩ := h
  exact digitChar_ne d c hc hd

theorem not_mem_renderInt (i : Int) (c : Char) (hc : charDigit c = none) (hm : c ≠ '-') : c ∉ renderInt i := by
  unfold renderInt
  split
  · intro h
    simp only [List.mem_cons] at h
    rcases h with h | h
    · exact hm h
    · exact not_mem_renderNat _ c hc h
  · exact not_mem_renderNat _ c hc

theorem renderNat_head_ne_minus (n : Nat) : ∀ c cs, renderNat n = c :: cs → c ≠ '-' := by
  intro c cs h hc
  have : c ∈ renderNat n := by rw [h]; simp
  subst hc
  exact not_mem_renderNat n '-' (by decide) this

theorem parseInt_renderInt (i : Int) : parseInt (renderInt i) = some i := by
  unfold renderInt
  split
  · rename_i h
    have hi : -(i.natAbs : Int) = i := by omega
    simp [parseInt, parseNat_renderNat, hi]
  · rename_i h
    have hi : (i.toNat : Int) = i := by omega
    cases hr : renderNat i.toNat with
    | nil => exact absurd hr (renderNat_ne_nil _)
    | cons c cs =>
      have hc : c ≠ '-' := renderNat_head_ne_minus _ c cs hr
      have : parseInt (c :: cs) = (parseNat (c :: cs)).map fun n => (n : Int) := by
        unfold parseInt
        split
        · rename_i heq; simp only [List.cons.injEq] at heq; exact absurd heq.1 hc
        · rfl
      rw [this, ← hr, parseNat_renderNat]
      simp [hi]

theorem splitFirst_append (c : Char) (a b : Text) (h : c ∉ a) : splitFirst c (a ++ c :: b) = some (a, b) := by
  induction a with
  | nil => simp [splitFirst]
  | cons x xs ih =>
    have hx : x ≠ c := by intro e; exact h (by simp [e])
    have hxs : c ∉ xs := by intro e; exact h (by simp [e])
    simp [splitFirst, hx, ih hxs]

theorem splitLast_none (c : Char) (b : Text) (h : c ∉ b) : splitLast c b = none := by
  induction b with
  | nil => rfl
  | cons x xs ih =>
    have hx : x ≠ c := by intro e; exact h (by simp [e])
    have hxs : c ∉ xs := by intro e; exact h (by simp [e])
    simp [splitLast, ih hxs, hx]

theorem splitLast_append (c : Char) (a b : Text) (h : c ∉ b) : splitLast c (a ++ c :: b) = some (a, b) := by
  induction a with
  | nil => simp [splitLast, splitLast_none c b h]
  | cons x xs ih => simp [splitLast, ih]

/-- `functools.reduce(xor, map(ord, s))` is the fold the firmware recomputes -/
theorem pyChecksum_eq_xorFold (t : Text) : pyChecksum t = xorFold t := by
  cases t with
  | nil => rfl
  | cons c cs => simp [pyChecksum, xorFold]

/-- the firmware decodes a frame built by `_send` into exactly the number and the command that went in,
    and the checksum it reads is the one it recomputes — for every line number and every command text -/
theorem decode_frame (n : Int) (cmd : Text) :
    decode (frame n cmd) = some ⟨n, cmd, xorFold (framePrefix n cmd), framePrefix n cmd⟩ := by
  have h1 : splitFirst ' ' (renderInt n ++ ' ' :: (cmd ++ '*' :: renderNat (pyChecksum (framePrefix n cmd))))
      = some (renderInt n, cmd ++ '*' :: renderNat (pyChecksum (framePrefix n cmd))) :=
    splitFirst_append ' ' _ _ (not_mem_renderInt n ' ' (by decide) (by decide))
  have h2 : splitLast '*' (cmd ++ '*' :: renderNat (pyChecksum (framePrefix n cmd)))
      = some (cmd, renderNat (pyChecksum (framePrefix n cmd))) :=
    splitLast_append '*' _ _ (not_mem_renderNat _ '*' (by decide))
  have hf : frame n cmd = 'N' :: (renderInt n ++ ' ' :: (cmd ++ '*' :: renderNat (pyChecksum (framePrefix n cmd)))) := by
    simp [frame, framePrefix]
  rw [hf]
  simp only [decode, h1, parseInt_renderInt, h2, parseNat_renderNat]
  simp [framePrefix, pyChecksum_eq_xorFold]

theorem m110Arg_resetCmd : m110Arg resetCmd = some (-1) := by decide

/-! ## 2. the job's command list and the queue index -/

theorem cmdsOf_append (a b : List Item) : cmdsOf (a ++ b) = cmdsOf a ++ cmdsOf b := by
  simp [cmdsOf, List.filterMap_append]

theorem take_succ_of_getElem? {α : Type} {l : List α} {k : Nat} {c : α} (h : l[k]? = some c) :
    l.take (k + 1) = l.take k ++ [c] := by
  rw [List.take_add_one, h]; rfl

theorem job_split {job : List Item} {qi : Nat} {it : Item} (h : job[qi]? = some it) :
    job = job.take qi ++ it :: job.drop (qi + 1) := by
  obtain ⟨hlt, hget⟩ := List.getElem?_eq_some_iff.mp h
  have h1 := (List.take_append_drop qi job).symm
  rw [List.drop_eq_getElem_cons hlt, hget] at h1
  exact h1

theorem cmds_progress_cmd {job : List Item} {qi : Nat} {c : Text} (h : job[qi]? = some (.cmd c)) :
    cmdsOf (job.take (qi + 1)) = cmdsOf (job.take qi) ++ [c]
    ∧ (cmdsOf job)[(cmdsOf (job.take qi)).length]? = some c := by
  refine ⟨?_, ?_⟩
  · rw [take_succ_of_getElem? h, cmdsOf_append]; rfl
  · have hs := job_split h
    have : cmdsOf job = cmdsOf (job.take qi) ++ c :: cmdsOf (job.drop (qi + 1)) := by
      conv => lhs; rw [hs]
      rw [cmdsOf_append]; rfl
    rw [this]
    simp

theorem cmds_progress_skip {job : List Item} {qi : Nat} (h : job[qi]? = some .skip) :
    cmdsOf (job.take (qi + 1)) = cmdsOf (job.take qi) := by
  rw [take_succ_of_getElem? h, cmdsOf_append]; simp [cmdsOf]

theorem cmds_progress_none {job : List Item} {qi : Nat} (h : job[qi]? = none) :
    cmdsOf (job.take qi) = cmdsOf job := by
  have : job.length ≤ qi := List.getElem?_eq_none_iff.mp h
  rw [List.take_of_length_le this]

/-! ## 3. steps that leave parts of the state alone; the firmware on a known frame -/

section
variable (job : List Item) (faulty : Nat → Bool)

/-- job lines carry no line-number reset of their own -/
def NoM110 (job : List Item) : Prop := ∀ c ∈ cmdsOf job, m110Arg c = none

theorem fw_sender_same {s s' : St} (h : step job faulty s .fw = some s') :
    s'.qi = s.qi ∧ s'.lineno = s.lineno ∧ s'.resendfrom = s.resendfrom ∧ s'.clear = s.clear ∧
    s'.printing = s.printing ∧ s'.sent = s.sent ∧ s'.tx = s.tx ∧ s'.txCount = s.txCount ∧
    s'.mid = s.mid ∧ s'.split = s.split := by
  simp only [step] at h
  split at h
  · cases h
  · split at h
    · cases h; simp
    · split at h
      · cases h; simp [triple]
      · split at h
        · cases h; simp
        · split at h <;> cases h <;> simp [triple]

theorem listen_same {s s' : St} (h : step job faulty s .listen = some s') :
    s'.qi = s.qi ∧ s'.lineno = s.lineno ∧ s'.printing = s.printing ∧ s'.sent = s.sent ∧ s'.tx = s.tx ∧
    s'.txCount = s.txCount ∧ s'.toFw = s.toFw ∧ s'.expected = s.expected ∧ s'.accepted = s.accepted ∧
    s'.split = s.split := by
  simp only [step] at h
  split at h
  · cases h
  · split at h <;> cases h <;> simp

theorem fw_job {s : St} {w : Wire} {ws : List Wire} {k : Int} {c : Text}
    (h : s.toFw = w :: ws) (ht : w.text = frame k c) (hno : m110Arg c = none) :
    step job faulty s .fw = some (
      if w.good = true ∧ k = s.expected then
        { s with toFw := ws, expected := s.expected + 1, accepted := s.accepted ++ [c], toS := s.toS ++ [.ok] }
      else triple { s with toFw := ws }) := by
  simp only [step, h, ht, decode_frame, hno]
  by_cases hg : w.good = true <;> by_cases hk : k = s.expected <;> simp [hg, hk]

theorem fw_reset {s : St} {g : Bool} {ws : List Wire} (h : s.toFw = ⟨resetFrame, g⟩ :: ws) :
    step job faulty s .fw = some (
      if g = true then { s with toFw := ws, expected := 0, toS := s.toS ++ [.ok] }
      else triple { s with toFw := ws }) := by
  simp only [step, h, resetFrame, decode_frame, m110Arg_resetCmd]
  cases g <;> simp

end

/-! ## 4. `FInv`: what the sender has written (holds for every fault pattern and schedule) -/

/-- `t` is the frame of the job's `k`-th command -/
def IsJobFrame (job : List Item) (t : Text) : Prop :=
  ∃ (k : Nat) (c : Text), (cmdsOf job)[k]? = some c ∧ t = frame (k : Int) c

structure FInv (job : List Item) (s : St) : Prop where
  /-- `sentlines[k]` is the frame of the job's `k`-th command, numbered `k` -/
  frames : ∀ (k : Nat) (t : Text), s.sent[k]? = some t → ∃ c, (cmdsOf job)[k]? = some c ∧ t = frame (k : Int) c
  /-- everything written is the reset or a stored frame -/
  txs : ∀ t ∈ s.tx, t = resetFrame ∨ t ∈ s.sent
  head : s.tx.head? = some resetFrame
  /-- while printing: `lineno` lines are stored, and `lineno` counts the commands before `queueindex` -/
  prog : s.printing = true → s.sent.length = s.lineno ∧ s.lineno = (cmdsOf (job.take s.qi)).length

section
variable (job : List Item) (faulty : Nat → Bool)

theorem finv_init (e0 : Int) : FInv job (init faulty e0) := by
  refine ⟨?_, ?_, ?_, ?_⟩ <;> simp [init, transmit, cmdsOf]

theorem finv_step {s s' : St} (a : Act) (h : FInv job s) (hs : step job faulty s a = some s') :
    FInv job s' := by
  cases a with
  | fw =>
    obtain ⟨h1, h2, h3, h4, h5, h6, h7, _⟩ := fw_sender_same job faulty hs
    exact ⟨by rw [h6]; exact h.frames, by rw [h6, h7]; exact h.txs, by rw [h7]; exact h.head,
      by rw [h5, h6, h2, h1]; exact h.prog⟩
  | listen =>
    obtain ⟨h1, h2, h3, h4, h5, _⟩ := listen_same job faulty hs
    exact ⟨by rw [h4]; exact h.frames, by rw [h4, h5]; exact h.txs, by rw [h5]; exact h.head,
      by rw [h3, h4, h2, h1]; exact h.prog⟩
  | sendnext =>
    simp only [step] at hs
    by_cases hen : (s.printing && s.clear) = true
    · simp only [hen, if_true] at hs
      have hp : s.printing = true := by simp at hen; exact hen.1
      obtain ⟨hlen, hline⟩ := h.prog hp
      by_cases hre : s.resendfrom < (s.lineno : Int) ∧ s.resendfrom > -1
      · simp only [hre, and_self, if_true] at hs
        cases hget : s.sent[s.resendfrom.toNat]? with
        | none => simp [hget] at hs
        | some t =>
          simp only [hget] at hs
          cases hs
          refine ⟨h.frames, ?_, ?_, fun _ => ⟨hlen, hline⟩⟩
          · intro u hu
            simp only [transmit, List.mem_append, List.mem_singleton] at hu
            rcases hu with hu | rfl
            · exact h.txs u hu
            · exact Or.inr (List.mem_of_getElem? hget)
          · have := h.head
            cases htx : s.tx with
            | nil => simp [htx] at this
            | cons x xs => simp [transmit, htx] at this ⊢; exact this
      · simp only [hre, if_false] at hs
        cases hq : (job[s.qi]? : Option Item) with
        | none =>
          simp only [hq] at hs
          cases hs
          refine ⟨h.frames, ?_, ?_, by simp [transmit]⟩
          · intro u hu
            simp only [transmit, List.mem_append, List.mem_singleton] at hu
            rcases hu with hu | rfl
            · exact h.txs u hu
            · exact Or.inl rfl
          · have := h.head
            cases htx : s.tx with
            | nil => simp [htx] at this
            | cons x xs => simp [transmit, htx] at this ⊢; exact this
        | some it =>
          cases it with
          | skip =>
            simp only [hq] at hs
            cases hs
            exact ⟨h.frames, h.txs, h.head, fun _ => ⟨hlen, by simp only; rw [cmds_progress_skip hq]; exact hline⟩⟩
          | cmd c =>
            simp only [hq] at hs
            cases hs
            obtain ⟨hc1, hc2⟩ := cmds_progress_cmd hq
            refine ⟨?_, ?_, ?_, fun _ => ⟨by simp [transmit, hlen], by simp only [transmit]; rw [hc1]; simp; exact hline⟩⟩
            · intro k t hk
              simp only [transmit] at hk
              by_cases hlt : k < s.sent.length
              · rw [List.getElem?_append_left hlt] at hk
                exact h.frames k t hk
              · have hge : s.sent.length ≤ k := by omega
                rw [List.getElem?_append_right hge] at hk
                have hk0 : k - s.sent.length = 0 := by
                  cases hd : k - s.sent.length with
                  | zero => rfl
                  | succ n => rw [hd] at hk; simp at hk
                rw [hk0] at hk
                simp at hk
                have hkeq : k = s.lineno := by omega
                subst hkeq
                exact ⟨c, by rw [hline]; exact hc2, hk.symm⟩
            · intro u hu
              simp only [transmit, List.mem_append, List.mem_singleton] at hu ⊢
              rcases hu with hu | rfl
              · rcases h.txs u hu with hr | hr
                · exact Or.inl hr
                · exact Or.inr (Or.inl hr)
              · exact Or.inr (Or.inr rfl)
            · have := h.head
              cases htx : s.tx with
              | nil => simp [htx] at this
              | cons x xs => simp [transmit, htx] at this ⊢; exact this
    · simp [hen] at hs

theorem finv_run : ∀ (acts : List Act) (s s' : St), FInv job s → run job faulty s acts = some s' → FInv job s'
  | [], s, s', h, hr => by simp [run] at hr; subst hr; exact h
  | a :: as, s, s', h, hr => by
      simp only [run] at hr
      cases hst : step job faulty s a with
      | none => simp [hst] at hr
      | some s1 =>
        simp [hst] at hr
        exact finv_run as s1 s' (finv_step job faulty a h hst) hr

end

/-! ## 5. `SInv`: safety (every schedule; every fault pattern sparing the reset, or any when `e0 = 0`) -/

def JobWire (job : List Item) (w : Wire) : Prop := IsJobFrame job w.text

def SInv (job : List Item) (s : St) : Prop :=
  -- the reset of `startprint` is on the wire; nobody else can move
  (∃ g, s.toFw = [⟨resetFrame, g⟩] ∧ (g = true ∨ s.expected = 0) ∧ s.toS = [] ∧ s.clear = false ∧
      s.printing = true ∧ s.accepted = [])
  -- streaming, then draining: the firmware has accepted the first `expected` commands
  ∨ (0 ≤ s.expected ∧ s.accepted = (cmdsOf job).take s.expected.toNat ∧
      ( (s.printing = true ∧ ∀ w ∈ s.toFw, JobWire job w)
      ∨ (s.printing = false ∧ ∃ mid post, s.toFw = mid ++ post ∧ (∀ w ∈ mid, JobWire job w) ∧
            (post = [] ∨ ∃ g, post = [⟨resetFrame, g⟩])) ))
  -- the trailing reset has been processed
  ∨ (s.printing = false ∧ s.toFw = [] ∧ ∃ k, s.accepted = (cmdsOf job).take k)

theorem accepted_prefix_of_sinv {job : List Item} {s : St} (h : SInv job s) :
    ∃ k, s.accepted = (cmdsOf job).take k := by
  rcases h with ⟨g, _, _, _, _, _, ha⟩ | h | h
  · exact ⟨0, by simp [ha]⟩
  · exact ⟨_, h.2.1⟩
  · exact h.2.2

section
variable (job : List Item) (faulty : Nat → Bool)

theorem sinv_init (e0 : Int) (h0 : faulty 0 = false ∨ e0 = 0) : SInv job (init faulty e0) := by
  refine Or.inl ⟨!faulty 0, ?_, ?_, ?_⟩
  · simp [init, transmit]
  · rcases h0 with h0 | h0
    · exact Or.inl (by simp [h0])
    · exact Or.inr (by simp [init, transmit, h0])
  · simp [init, transmit]

/-- the firmware consumes a job frame: the accepted log stays the first `expected` commands -/
theorem fw_job_accept {s s' : St} {w : Wire} {ws : List Wire} (hno : NoM110 job)
    (htf : s.toFw = w :: ws) (hw : JobWire job w) (he : 0 ≤ s.expected)
    (ha : s.accepted = (cmdsOf job).take s.expected.toNat)
    (hs : step job faulty s .fw = some s') :
    s'.toFw = ws ∧ s'.printing = s.printing ∧ 0 ≤ s'.expected ∧
      s'.accepted = (cmdsOf job).take s'.expected.toNat := by
  obtain ⟨k, c, hk, ht⟩ := hw
  have hc : m110Arg c = none := hno c (List.mem_of_getElem? hk)
  rw [fw_job job faulty htf ht hc] at hs
  by_cases hg : w.good = true ∧ (k : Int) = s.expected
  · simp only [hg, and_self, if_true, Option.some.injEq] at hs
    subst hs
    refine ⟨rfl, rfl, by simp only; omega, ?_⟩
    have hk' : s.expected.toNat = k := by omega
    simp only
    rw [ha, hk', show (s.expected + 1).toNat = k + 1 by omega]
    exact (take_succ_of_getElem? hk).symm
  · simp only [hg, if_false, Option.some.injEq] at hs
    subst hs
    exact ⟨rfl, rfl, he, ha⟩

theorem sinv_step (hno : NoM110 job) {s s' : St} (a : Act) (hf : FInv job s) (h : SInv job s)
    (hs : step job faulty s a = some s') : SInv job s' := by
  cases a with
  | listen =>
    simp only [step] at hs
    cases hts : s.toS with
    | nil => simp [hts] at hs
    | cons r rs =>
      rw [hts] at hs
      rcases h with ⟨g, _, _, hto, _⟩ | h | h
      · simp [hto] at hts
      · cases r <;> simp at hs <;> subst hs <;> exact Or.inr (Or.inl h)
      · cases r <;> simp at hs <;> subst hs <;> exact Or.inr (Or.inr h)
  | fw =>
    cases htf : s.toFw with
    | nil => simp [step, htf] at hs
    | cons w ws =>
      rcases h with ⟨g, hfw, hg, hto, hc, hp, ha⟩ | ⟨he, ha, hcase⟩ | h
      · rw [hfw] at htf
        simp only [List.cons.injEq] at htf
        obtain ⟨rfl, rfl⟩ := htf
        rw [fw_reset job faulty hfw] at hs
        cases g with
        | true =>
          simp at hs; subst hs
          exact Or.inr (Or.inl ⟨by simp, by simp [ha], Or.inl ⟨hp, by simp⟩⟩)
        | false =>
          have he0 : s.expected = 0 := by simpa using hg
          simp at hs; subst hs
          exact Or.inr (Or.inl ⟨by simp [triple, he0], by simp [triple, he0, ha], Or.inl ⟨hp, by simp [triple]⟩⟩)
      · rcases hcase with ⟨hp, hall⟩ | ⟨hp, mid, post, hsplit, hmid, hpost⟩
        · obtain ⟨h1, h2, h3, h4⟩ :=
            fw_job_accept job faulty hno htf (hall w (by simp [htf])) he ha hs
          refine Or.inr (Or.inl ⟨h3, h4, Or.inl ⟨by rw [h2]; exact hp, ?_⟩⟩)
          intro x hx; rw [h1] at hx; exact hall x (by simp [htf, hx])
        · rw [htf] at hsplit
          cases mid with
          | nil =>
            rcases hpost with rfl | ⟨g, rfl⟩
            · simp at hsplit
            · simp only [List.nil_append, List.cons.injEq] at hsplit
              obtain ⟨rfl, rfl⟩ := hsplit
              rw [fw_reset job faulty htf] at hs
              cases g with
              | true =>
                simp at hs; subst hs
                exact Or.inr (Or.inr ⟨hp, rfl, ⟨_, ha⟩⟩)
              | false =>
                simp at hs; subst hs
                exact Or.inr (Or.inl ⟨he, ha, Or.inr ⟨hp, [], [], by simp [triple], by simp, Or.inl rfl⟩⟩)
          | cons m mid' =>
            simp only [List.cons_append, List.cons.injEq] at hsplit
            obtain ⟨rfl, rfl⟩ := hsplit
            obtain ⟨h1, h2, h3, h4⟩ :=
              fw_job_accept job faulty hno htf (hmid w (by simp)) he ha hs
            exact Or.inr (Or.inl ⟨h3, h4, Or.inr ⟨by rw [h2]; exact hp, mid', post, h1,
              fun x hx => hmid x (by simp [hx]), hpost⟩⟩)
      · simp [h.2.1] at htf
  | sendnext =>
    simp only [step] at hs
    by_cases hen : (s.printing && s.clear) = true
    · simp only [hen, if_true] at hs
      have hp : s.printing = true := by simp at hen; exact hen.1
      have hc : s.clear = true := by simp at hen; exact hen.2
      obtain ⟨hlen, hline⟩ := hf.prog hp
      rcases h with ⟨g, _, _, _, hc', _⟩ | ⟨he, ha, hcase⟩ | h
      · simp [hc'] at hc
      · rcases hcase with ⟨_, hall⟩ | ⟨hp', _⟩
        · by_cases hre : s.resendfrom < (s.lineno : Int) ∧ s.resendfrom > -1
          · simp only [hre, and_self, if_true] at hs
            cases hget : s.sent[s.resendfrom.toNat]? with
            | none => simp [hget] at hs
            | some t =>
              simp only [hget] at hs
              cases hs
              obtain ⟨c, hk, ht⟩ := hf.frames _ t hget
              refine Or.inr (Or.inl ⟨he, ha, Or.inl ⟨hp, ?_⟩⟩)
              intro x hx
              simp only [transmit, List.mem_append, List.mem_singleton] at hx
              rcases hx with hx | rfl
              · exact hall x hx
              · exact ⟨_, c, hk, ht⟩
          · simp only [hre, if_false] at hs
            cases hq : (job[s.qi]? : Option Item) with
            | none =>
              simp only [hq] at hs
              cases hs
              exact Or.inr (Or.inl ⟨he, ha, Or.inr ⟨rfl, s.toFw, [⟨resetFrame, !faulty s.txCount⟩],
                by simp [transmit], hall, Or.inr ⟨_, rfl⟩⟩⟩)
            | some it =>
              cases it with
              | skip =>
                simp only [hq] at hs
                cases hs
                exact Or.inr (Or.inl ⟨he, ha, Or.inl ⟨hp, hall⟩⟩)
              | cmd c =>
                simp only [hq] at hs
                cases hs
                obtain ⟨_, hc2⟩ := cmds_progress_cmd hq
                refine Or.inr (Or.inl ⟨he, ha, Or.inl ⟨hp, ?_⟩⟩)
                intro x hx
                simp only [transmit, List.mem_append, List.mem_singleton] at hx
                rcases hx with hx | rfl
                · exact hall x hx
                · exact ⟨s.lineno, c, by rw [hline]; exact hc2, rfl⟩
        · simp [hp'] at hp
      · simp [h.1] at hp
    · simp [hen] at hs

theorem sinv_run (hno : NoM110 job) : ∀ (acts : List Act) (s s' : St), FInv job s → SInv job s →
    run job faulty s acts = some s' → SInv job s'
  | [], s, s', _, h, hr => by simp [run] at hr; subst hr; exact h
  | a :: as, s, s', hf, h, hr => by
      simp only [run] at hr
      cases hst : step job faulty s a with
      | none => simp [hst] at hr
      | some s1 =>
        simp [hst] at hr
        exact sinv_run hno as s1 s' (finv_step job faulty a hf hst) (sinv_step job faulty hno a hf h hst) hr

end

/-! ## 6. `Tok`: one flow-control token as long as no error triple is split -/

def InRange (s : St) : Prop := s.resendfrom < (s.lineno : Int) ∧ s.resendfrom > -1

def Tok (job : List Item) (s : St) : Prop :=
  -- the reset of `startprint` is on the wire
  (∃ g, s.toFw = [⟨resetFrame, g⟩] ∧ (g = true ∨ s.expected = 0) ∧ s.toS = [] ∧ s.clear = false ∧
      s.printing = true ∧ s.lineno = 0 ∧ s.accepted = [] ∧ s.mid = false)
  ∨ (s.printing = true ∧ 0 ≤ s.expected ∧ s.accepted = (cmdsOf job).take s.expected.toNat ∧
      -- the token is with the sender: next comes a new line …
      ( (s.clear = true ∧ s.toFw = [] ∧ s.toS = [] ∧ s.mid = false ∧ s.expected = s.lineno ∧ ¬ InRange s)
      -- … or the resend of the one line the firmware has not accepted
      ∨ (s.clear = true ∧ s.toFw = [] ∧ s.toS = [] ∧ s.mid = false ∧ s.expected + 1 = s.lineno ∧
            s.resendfrom = s.expected)
      -- the token is a frame on the wire: the line the firmware expects
      ∨ (s.clear = false ∧ s.toS = [] ∧ s.mid = false ∧ ¬ InRange s ∧
            ∃ (k : Nat) (c : Text) (g : Bool), s.toFw = [⟨frame (k : Int) c, g⟩] ∧ (cmdsOf job)[k]? = some c ∧
              s.expected = k ∧ s.lineno = k + 1)
      -- the token is an `ok` on the wire
      ∨ (s.clear = false ∧ s.toFw = [] ∧ s.toS = [.ok] ∧ s.mid = false ∧ s.expected = s.lineno ∧ ¬ InRange s)
      -- the token is an error triple on the wire (whole, or its `Error:` line already read)
      ∨ (s.clear = false ∧ s.toFw = [] ∧ s.mid = false ∧
            (s.toS = [.err, .resend s.expected, .ok] ∨ s.toS = [.resend s.expected, .ok]) ∧
            s.expected ≤ s.lineno ∧ (s.lineno : Int) ≤ s.expected + 1)
      -- `Resend:` read, its `ok` not yet: the sender must not move now (¬SplitTriple)
      ∨ (s.clear = true ∧ s.toFw = [] ∧ s.mid = true ∧ s.toS = [.ok] ∧ s.resendfrom = s.expected ∧
            s.expected ≤ s.lineno ∧ (s.lineno : Int) ≤ s.expected + 1) ))
  -- the sender has ended the job: everything was accepted before it did
  ∨ (s.printing = false ∧ s.accepted = cmdsOf job ∧ ∀ w ∈ s.toFw, w.text = resetFrame)

section
variable (job : List Item) (faulty : Nat → Bool)

theorem tok_init (e0 : Int) (h0 : faulty 0 = false ∨ e0 = 0) : Tok job (init faulty e0) := by
  refine Or.inl ⟨!faulty 0, ?_, ?_, ?_⟩
  · simp [init, transmit]
  · rcases h0 with h0 | h0
    · exact Or.inl (by simp [h0])
    · exact Or.inr (by simp [init, transmit, h0])
  · simp [init, transmit]

theorem sendnext_effect {s s' : St} (hs : step job faulty s .sendnext = some s') :
    s'.toS = s.toS ∧ s'.mid = s.mid ∧ s'.split = (s.split || s.mid) ∧ s'.expected = s.expected ∧
    s'.accepted = s.accepted ∧
    (s'.toFw = s.toFw ∨ ∃ t, s'.toFw = s.toFw ++ [⟨t, !faulty s.txCount⟩]) := by
  simp only [step] at hs
  split at hs
  · split at hs
    · split at hs
      · cases hs; exact ⟨rfl, rfl, rfl, rfl, rfl, Or.inr ⟨_, rfl⟩⟩
      · cases hs
    · split at hs
      · cases hs; exact ⟨rfl, rfl, rfl, rfl, rfl, Or.inr ⟨_, rfl⟩⟩
      · cases hs; exact ⟨rfl, rfl, rfl, rfl, rfl, Or.inl rfl⟩
      · cases hs; exact ⟨rfl, rfl, rfl, rfl, rfl, Or.inr ⟨_, rfl⟩⟩
  · cases hs

theorem tok_step (hno : NoM110 job) {s s' : St} (a : Act) (hf : FInv job s) (h : Tok job s)
    (hmid : a = .sendnext → s.mid = false) (hs : step job faulty s a = some s') : Tok job s' := by
  rcases h with ⟨g, hfw, hg, hto, hc, hp, hl, ha, hm⟩ | ⟨hp, he, ha, hcase⟩ | ⟨hp, ha, hw⟩
  · -- only the firmware can move: it consumes the reset
    cases a with
    | sendnext => simp [step, hp, hc] at hs
    | listen => simp [step, hto] at hs
    | fw =>
      rw [fw_reset job faulty hfw] at hs
      cases g with
      | true =>
        simp at hs; subst hs
        refine Or.inr (Or.inl ⟨hp, by simp, by simp [ha], Or.inr (Or.inr (Or.inr (Or.inl
          ⟨hc, rfl, by simp [hto], hm, by simp [hl], ?_⟩)))⟩)
        simp only [InRange, hl]; omega
      | false =>
        have he0 : s.expected = 0 := by simpa using hg
        simp at hs; subst hs
        exact Or.inr (Or.inl ⟨hp, by simp [triple, he0], by simp [triple, he0, ha],
          Or.inr (Or.inr (Or.inr (Or.inr (Or.inl
            ⟨hc, rfl, hm, Or.inl (by simp [triple, hto]), by simp [triple, he0], by simp [triple, he0, hl]⟩))))⟩)
  · obtain ⟨hlen, hline⟩ := hf.prog hp
    rcases hcase with ⟨hc, hfw, hto, hm, hel, hnr⟩ | ⟨hc, hfw, hto, hm, hel, hrf⟩ |
        ⟨hc, hto, hm, hnr, k, c, g, hfw, hk, hek, hlk⟩ | ⟨hc, hfw, hto, hm, hel, hnr⟩ |
        ⟨hc, hfw, hm, hto, hle1, hle2⟩ | ⟨hc, hfw, hm, hto, hrf, hle1, hle2⟩
    · -- token with the sender, next is a new line
      cases a with
      | listen => simp [step, hto] at hs
      | fw => simp [step, hfw] at hs
      | sendnext =>
        have hnr' : ¬(s.resendfrom < (s.lineno : Int) ∧ s.resendfrom > -1) := hnr
        simp only [step, hp, hc, Bool.and_self, if_true, hnr', if_false] at hs
        cases hq : (job[s.qi]? : Option Item) with
        | none =>
          simp only [hq] at hs
          cases hs
          refine Or.inr (Or.inr ⟨rfl, ?_, ?_⟩)
          · simp only [transmit]
            rw [ha]
            have h1 : s.expected.toNat = (cmdsOf job).length := by
              rw [← cmds_progress_none hq, ← hline]; omega
            rw [h1]; exact List.take_length
          · intro w hw; simp [transmit, hfw] at hw; subst hw; rfl
        | some it =>
          cases it with
          | skip =>
            simp only [hq] at hs
            cases hs
            exact Or.inr (Or.inl ⟨rfl, he, ha, Or.inl ⟨rfl, hfw, hto, hm, hel, by simp [InRange]⟩⟩)
          | cmd c =>
            simp only [hq] at hs
            cases hs
            obtain ⟨_, hc2⟩ := cmds_progress_cmd hq
            exact Or.inr (Or.inl ⟨rfl, he, ha, Or.inr (Or.inr (Or.inl
              ⟨rfl, hto, hm, by simp [InRange, transmit], s.lineno, c, !faulty s.txCount,
                by simp [transmit, hfw], by rw [hline]; exact hc2, hel, rfl⟩))⟩)
    · -- token with the sender, next is the resend of line `expected`
      cases a with
      | listen => simp [step, hto] at hs
      | fw => simp [step, hfw] at hs
      | sendnext =>
        have hre : s.resendfrom < (s.lineno : Int) ∧ s.resendfrom > -1 := by omega
        simp only [step, hp, hc, Bool.and_self, if_true, hre, and_self] at hs
        cases hget : s.sent[s.resendfrom.toNat]? with
        | none => simp [hget] at hs
        | some t =>
          simp only [hget] at hs
          cases hs
          obtain ⟨c, hk, ht⟩ := hf.frames _ t hget
          refine Or.inr (Or.inl ⟨rfl, he, ha, Or.inr (Or.inr (Or.inl
            ⟨rfl, hto, hm, ?_, s.resendfrom.toNat, c, !faulty s.txCount,
              by simp [transmit, hfw, ht], hk, ?_, ?_⟩))⟩)
          · simp only [InRange, transmit]; omega
          · simp only [transmit]; omega
          · simp only [transmit]; omega
    · -- a frame is on the wire: it is the line the firmware expects
      cases a with
      | sendnext => simp [step, hp, hc] at hs
      | listen => simp [step, hto] at hs
      | fw =>
        have hcm : m110Arg c = none := hno c (List.mem_of_getElem? hk)
        rw [fw_job job faulty hfw rfl hcm] at hs
        cases g with
        | true =>
          simp only [hek, and_self, if_true, Option.some.injEq] at hs
          subst hs
          refine Or.inr (Or.inl ⟨hp, by simp only; omega, ?_, Or.inr (Or.inr (Or.inr (Or.inl
            ⟨hc, rfl, by simp [hto], hm, by simp only; omega, hnr⟩)))⟩)
          simp only
          rw [ha, show s.expected.toNat = k by omega, show ((k : Int) + 1).toNat = k + 1 by omega]
          exact (take_succ_of_getElem? hk).symm
        | false =>
          simp at hs; subst hs
          exact Or.inr (Or.inl ⟨hp, he, ha, Or.inr (Or.inr (Or.inr (Or.inr (Or.inl
            ⟨hc, rfl, hm, Or.inl (by simp [triple, hto]), by simp only [triple]; omega,
              by simp only [triple]; omega⟩))))⟩)
    · -- an `ok` is on the wire
      cases a with
      | sendnext => simp [step, hp, hc] at hs
      | fw => simp [step, hfw] at hs
      | listen =>
        simp [step, hto] at hs; subst hs
        exact Or.inr (Or.inl ⟨hp, he, ha, Or.inl ⟨rfl, hfw, rfl, rfl, hel, hnr⟩⟩)
    · -- an error triple is on the wire
      cases a with
      | sendnext => simp [step, hp, hc] at hs
      | fw => simp [step, hfw] at hs
      | listen =>
        rcases hto with hto | hto
        · simp [step, hto] at hs; subst hs
          exact Or.inr (Or.inl ⟨hp, he, ha, Or.inr (Or.inr (Or.inr (Or.inr (Or.inl
            ⟨hc, hfw, hm, Or.inr rfl, hle1, hle2⟩))))⟩)
        · simp [step, hto] at hs; subst hs
          exact Or.inr (Or.inl ⟨hp, he, ha, Or.inr (Or.inr (Or.inr (Or.inr (Or.inr
            ⟨rfl, hfw, rfl, rfl, rfl, hle1, hle2⟩))))⟩)
    · -- `Resend:` read, its `ok` still on the wire
      cases a with
      | sendnext => simp [hmid rfl] at hm
      | fw => simp [step, hfw] at hs
      | listen =>
        simp [step, hto] at hs; subst hs
        by_cases heq : s.expected = s.lineno
        · exact Or.inr (Or.inl ⟨hp, he, ha, Or.inl ⟨rfl, hfw, rfl, rfl, heq, by simp only [InRange]; omega⟩⟩)
        · exact Or.inr (Or.inl ⟨hp, he, ha, Or.inr (Or.inl ⟨rfl, hfw, rfl, rfl, by simp only; omega, hrf⟩)⟩)
  · -- the job has ended
    cases a with
    | sendnext => simp [step, hp] at hs
    | listen =>
      obtain ⟨_, _, h3, _, _, _, h7, _, h9, _⟩ := listen_same job faulty hs
      exact Or.inr (Or.inr ⟨by rw [h3]; exact hp, by rw [h9]; exact ha, by rw [h7]; exact hw⟩)
    | fw =>
      cases htf : s.toFw with
      | nil => simp [step, htf] at hs
      | cons w ws =>
        have hwt : w.text = resetFrame := hw w (by simp [htf])
        have hws : ∀ x ∈ ws, x.text = resetFrame := fun x hx => hw x (by simp [htf, hx])
        have hweq : w = ⟨resetFrame, w.good⟩ := by cases w; simp at hwt; simp [hwt]
        rw [hweq] at htf
        rw [fw_reset job faulty htf] at hs
        cases hg : w.good <;> simp [hg] at hs <;> subst hs
        · exact Or.inr (Or.inr ⟨hp, ha, hws⟩)
        · exact Or.inr (Or.inr ⟨hp, ha, hws⟩)

/-- at quiescence under `Tok` the sender has ended the job and everything was accepted -/
theorem tok_quiescent {s : St} (hf : FInv job s) (h : Tok job s) (hq : Quiescent job faulty s) :
    s.accepted = cmdsOf job := by
  rcases h with ⟨g, hfw, _⟩ | ⟨hp, he, ha, hcase⟩ | ⟨_, ha, _⟩
  · have := hq .fw; rw [fw_reset job faulty hfw] at this; simp at this
  · obtain ⟨hlen, hline⟩ := hf.prog hp
    rcases hcase with ⟨hc, hfw, hto, hm, hel, hnr⟩ | ⟨hc, hfw, hto, hm, hel, hrf⟩ |
        ⟨hc, hto, hm, hnr, k, c, g, hfw, hk, hek, hlk⟩ | ⟨hc, hfw, hto, hm, hel, hnr⟩ |
        ⟨hc, hfw, hm, hto, hle1, hle2⟩ | ⟨hc, hfw, hm, hto, hrf, hle1, hle2⟩
    · have := hq .sendnext
      have hnr' : ¬(s.resendfrom < (s.lineno : Int) ∧ s.resendfrom > -1) := hnr
      simp only [step, hp, hc, Bool.and_self, if_true, hnr', if_false] at this
      cases hq2 : (job[s.qi]? : Option Item) with
      | none => simp [hq2] at this
      | some it => cases it <;> simp [hq2] at this
    · have := hq .sendnext
      have hre : s.resendfrom < (s.lineno : Int) ∧ s.resendfrom > -1 := by omega
      simp only [step, hp, hc, Bool.and_self, if_true, hre, and_self] at this
      have hlt : s.resendfrom.toNat < s.sent.length := by omega
      rw [List.getElem?_eq_getElem hlt] at this
      simp at this
    · have := hq .fw; simp only [step, hfw] at this
      split at this
      · simp at this
      · split at this
        · simp at this
        · split at this
          · simp at this
          · split at this <;> simp at this
    · have := hq .listen; simp [step, hto] at this
    · have := hq .listen
      rcases hto with hto | hto <;> simp [step, hto] at this
    · have := hq .listen; simp [step, hto] at this
  · exact ha

theorem split_mono_step {s s' : St} (a : Act) (hs : step job faulty s a = some s') (h : s'.split = false) :
    s.split = false ∧ (a = .sendnext → s.mid = false) := by
  cases a with
  | fw =>
    obtain ⟨_, _, _, _, _, _, _, _, _, h10⟩ := fw_sender_same job faulty hs
    exact ⟨by rw [← h10]; exact h, fun e => by cases e⟩
  | listen =>
    obtain ⟨_, _, _, _, _, _, _, _, _, h10⟩ := listen_same job faulty hs
    exact ⟨by rw [← h10]; exact h, fun e => by cases e⟩
  | sendnext =>
    obtain ⟨_, _, h3, _⟩ := sendnext_effect job faulty hs
    rw [h3] at h
    simp at h
    exact ⟨h.1, fun _ => h.2⟩

theorem split_mono_run : ∀ (acts : List Act) (s s' : St), run job faulty s acts = some s' →
    s'.split = false → s.split = false
  | [], s, s', hr, h => by simp [run] at hr; subst hr; exact h
  | a :: as, s, s', hr, h => by
      simp only [run] at hr
      cases hst : step job faulty s a with
      | none => simp [hst] at hr
      | some s1 =>
        simp [hst] at hr
        exact (split_mono_step job faulty a hst (split_mono_run as s1 s' hr h)).1

theorem tok_run_nosplit (hno : NoM110 job) : ∀ (acts : List Act) (s s' : St), FInv job s → Tok job s →
    run job faulty s acts = some s' → s'.split = false → Tok job s'
  | [], s, s', _, h, hr, _ => by simp [run] at hr; subst hr; exact h
  | a :: as, s, s', hf, h, hr, hsp => by
      simp only [run] at hr
      cases hst : step job faulty s a with
      | none => simp [hst] at hr
      | some s1 =>
        simp [hst] at hr
        have h1 : s1.split = false := split_mono_run job faulty as s1 s' hr hsp
        have hmid := (split_mono_step job faulty a hst h1).2
        exact tok_run_nosplit hno as s1 s' (finv_step job faulty a hf hst)
          (tok_step job faulty hno a hf h hmid hst) hr hsp

/-! ### without faults no error triple ever exists, so none can be split -/

def Clean (s : St) : Prop :=
  s.split = false ∧ s.mid = false ∧ (∀ r ∈ s.toS, r = Reply.ok) ∧ (∀ w ∈ s.toFw, w.good = true)

theorem clean_init (e0 : Int) (hnf : ∀ i, faulty i = false) : Clean (init faulty e0) := by
  refine ⟨rfl, rfl, by simp [init, transmit], ?_⟩
  intro w hw; simp [init, transmit] at hw; subst hw; simp [hnf]

theorem clean_step (hno : NoM110 job) (hnf : ∀ i, faulty i = false) {s s' : St} (a : Act)
    (ht : Tok job s) (hcl : Clean s) (hs : step job faulty s a = some s') : Clean s' := by
  obtain ⟨c1, c2, c3, c4⟩ := hcl
  cases a with
  | sendnext =>
    obtain ⟨h1, h2, h3, _, _, h6⟩ := sendnext_effect job faulty hs
    refine ⟨by rw [h3, c1, c2]; rfl, by rw [h2]; exact c2, by rw [h1]; exact c3, ?_⟩
    rcases h6 with h6 | ⟨t, h6⟩
    · rw [h6]; exact c4
    · rw [h6]; intro w hw
      simp only [List.mem_append, List.mem_singleton] at hw
      rcases hw with hw | rfl
      · exact c4 w hw
      · simp [hnf]
  | listen =>
    obtain ⟨_, _, _, _, _, _, h7, _, _, h10⟩ := listen_same job faulty hs
    simp only [step] at hs
    cases hts : s.toS with
    | nil => simp [hts] at hs
    | cons r rs =>
      have hr : r = .ok := c3 r (by simp [hts])
      subst hr
      rw [hts] at hs
      simp at hs; subst hs
      exact ⟨c1, rfl, fun r hr => c3 r (by simp [hts, hr]), c4⟩
  | fw =>
    obtain ⟨_, _, _, _, _, _, _, _, h9, h10⟩ := fw_sender_same job faulty hs
    refine ⟨by rw [h10]; exact c1, by rw [h9]; exact c2, ?_⟩
    rcases ht with ⟨g, hfw, _⟩ | ⟨hp, he, ha, hcase⟩ | ⟨hp, ha, hw⟩
    · have hg : g = true := by have := c4 ⟨resetFrame, g⟩ (by simp [hfw]); simpa using this
      subst hg
      rw [fw_reset job faulty hfw] at hs
      simp at hs; subst hs
      exact ⟨by intro r hr; simp at hr; rcases hr with hr | hr; exact c3 r hr; exact hr, by simp⟩
    · rcases hcase with ⟨_, hfw, _⟩ | ⟨_, hfw, _⟩ | ⟨_, _, _, _, k, c, g, hfw, hk, hek, _⟩ | ⟨_, hfw, _⟩ |
          ⟨_, hfw, _⟩ | ⟨_, hfw, _⟩
      · simp [step, hfw] at hs
      · simp [step, hfw] at hs
      · have hg : g = true := by have := c4 ⟨frame k c, g⟩ (by simp [hfw]); simpa using this
        subst hg
        have hcm : m110Arg c = none := hno c (List.mem_of_getElem? hk)
        rw [fw_job job faulty hfw rfl hcm] at hs
        simp only [hek, and_self, if_true, Option.some.injEq] at hs
        subst hs
        exact ⟨by intro r hr; simp at hr; rcases hr with hr | hr; exact c3 r hr; exact hr, by simp⟩
      · simp [step, hfw] at hs
      · simp [step, hfw] at hs
      · simp [step, hfw] at hs
    · cases htf : s.toFw with
      | nil => simp [step, htf] at hs
      | cons w ws =>
        have hwt : w.text = resetFrame := hw w (by simp [htf])
        have hwg : w.good = true := c4 w (by simp [htf])
        have hweq : w = ⟨resetFrame, true⟩ := by cases w; simp at hwt hwg; simp [hwt, hwg]
        rw [hweq] at htf
        rw [fw_reset job faulty htf] at hs
        simp at hs; subst hs
        exact ⟨by intro r hr; simp at hr; rcases hr with hr | hr; exact c3 r hr; exact hr,
          fun x hx => c4 x (by simp [htf, hx])⟩

theorem tok_clean_run (hno : NoM110 job) (hnf : ∀ i, faulty i = false) : ∀ (acts : List Act) (s s' : St),
    FInv job s → Tok job s → Clean s → run job faulty s acts = some s' → Tok job s' ∧ FInv job s'
  | [], s, s', hf, h, _, hr => by simp [run] at hr; subst hr; exact ⟨h, hf⟩
  | a :: as, s, s', hf, h, hcl, hr => by
      simp only [run] at hr
      cases hst : step job faulty s a with
      | none => simp [hst] at hr
      | some s1 =>
        simp [hst] at hr
        exact tok_clean_run hno hnf as s1 s' (finv_step job faulty a hf hst)
          (tok_step job faulty hno a hf h (fun _ => hcl.2.1) hst)
          (clean_step job faulty hno hnf a h hcl hst) hr

end

theorem quiescentB_iff (job : List Item) (faulty : Nat → Bool) (s : St) :
    quiescentB job faulty s = true ↔ Quiescent job faulty s := by
  simp only [quiescentB, Quiescent, Bool.and_eq_true, Option.isNone_iff_eq_none]
  constructor
  · intro h a; cases a
    · exact h.1.1
    · exact h.1.2
    · exact h.2
  · intro h; exact ⟨⟨h .sendnext, h .listen⟩, h .fw⟩

end GscribModel.Sender

import GscribModel.Model.Transform
/-! Helper lemmas for C04 / C13 (core Lean only; `grind` does the ring and linear arithmetic over `Rat`).

* affine maps: composition, linear difference, pivot conjugation, determinant, exact inverse
* 4×4 matrices of affine maps: `ofAff` is multiplicative, `applyPt` only reads the first three rows
* `Xf.WF` / `Core.SInv`: representation invariant of the `Transform` objects (last row `(0,0,0,1)`,
  stored inverse = exact inverse, pivot matrices = translations by ∓pivot)
* `Core.abs`: the specification state a code state stands for; `Core.step_refines`, `Core.run_refines`
* invertibility of everything reachable, immutability of named states, `with`-block frames, move path -/
open GscribModel.Transform
namespace GscribModel.Transform

theorem Aff.comp_apply (A B : Aff) (v : V3) : (A.comp B).apply v = A.apply (B.apply v) := by
  simp only [Aff.comp, Aff.apply, V3.mk.injEq]
  refine ⟨?_, ?_, ?_⟩ <;> grind

theorem Aff.diff_linear (A : Aff) (u v : V3) : (A.apply u).sub (A.apply v) = A.lin.apply (u.sub v) := by
  simp only [Aff.apply, Aff.lin, V3.sub, V3.mk.injEq]
  refine ⟨?_, ?_, ?_⟩ <;> grind

theorem Aff.ext' {A B : Aff} (h : A.a11 = B.a11 ∧ A.a12 = B.a12 ∧ A.a13 = B.a13 ∧ A.a21 = B.a21 ∧ A.a22 = B.a22 ∧ A.a23 = B.a23 ∧
  A.a31 = B.a31 ∧ A.a32 = B.a32 ∧ A.a33 = B.a33 ∧ A.tx = B.tx ∧ A.ty = B.ty ∧ A.tz = B.tz) : A = B := by
  cases A; cases B; simp_all

theorem Aff.conj_linear (p : V3) (L : Aff) (hL : L.IsLinear) :
    ((Aff.trans p).comp L).comp (Aff.trans p.neg) = Aff.about p L := by
  obtain ⟨h1, h2, h3⟩ := hL
  apply Aff.ext'
  simp only [Aff.comp, Aff.trans, Aff.about, Aff.lin, V3.neg, h1, h2, h3]
  refine ⟨?_, ?_, ?_, ?_, ?_, ?_, ?_, ?_, ?_, ?_, ?_, ?_⟩ <;> grind

theorem Aff.conj_trans (p v : V3) :
    ((Aff.trans p).comp (Aff.trans v)).comp (Aff.trans p.neg) = Aff.trans v := by
  apply Aff.ext'
  simp only [Aff.comp, Aff.trans, V3.neg]
  refine ⟨?_, ?_, ?_, ?_, ?_, ?_, ?_, ?_, ?_, ?_, ?_, ?_⟩ <;> grind

theorem Aff.about_fixes (p : V3) (L : Aff) : (Aff.about p L).apply p = p := by
  cases p
  simp only [Aff.about, Aff.apply, Aff.lin, V3.mk.injEq]
  refine ⟨?_, ?_, ?_⟩ <;> grind

theorem Aff.det_comp (A B : Aff) : (A.comp B).det = A.det * B.det := by
  simp only [Aff.comp, Aff.det]
  grind

theorem Aff.inv_apply (A : Aff) (v : V3) (hd : A.det ≠ 0) : A.inv.apply (A.apply v) = v := by
  have hi : A.det * (A.det)⁻¹ = 1 := Rat.mul_inv_cancel _ hd
  cases v with | mk x y z =>
  simp only [Aff.inv, Aff.apply, V3.mk.injEq]
  generalize (A.det)⁻¹ = i at *
  simp only [Aff.det] at hi
  refine ⟨?_, ?_, ?_⟩ <;> grind
theorem Aff.apply_inv (A : Aff) (v : V3) (hd : A.det ≠ 0) : A.apply (A.inv.apply v) = v := by
  have hi : A.det * (A.det)⁻¹ = 1 := Rat.mul_inv_cancel _ hd
  cases v with | mk x y z =>
  simp only [Aff.inv, Aff.apply, V3.mk.injEq]
  generalize (A.det)⁻¹ = i at *
  simp only [Aff.det] at hi
  refine ⟨?_, ?_, ?_⟩ <;> grind

theorem sq_pos_of_ne (x : Rat) (h : x ≠ 0) : 0 < x * x := by
  by_cases h1 : x < 0
  · have : 0 < (-x) * (-x) := Rat.mul_pos (by grind) (by grind)
    grind
  · have : 0 < x := by grind
    exact Rat.mul_pos this this
theorem sq_nonneg' (x : Rat) : 0 ≤ x * x := by
  by_cases h : x = 0
  · subst h; simp
  · exact Rat.le_of_lt (sq_pos_of_ne x h)

theorem normsq_ne (n : V3) (h : ¬(n.x = 0 ∧ n.y = 0 ∧ n.z = 0)) : n.x*n.x + n.y*n.y + n.z*n.z ≠ 0 := by
  have hx := sq_nonneg' n.x
  have hy := sq_nonneg' n.y
  have hz := sq_nonneg' n.z
  intro h0
  apply h
  refine ⟨?_, ?_, ?_⟩
  · by_cases hh : n.x = 0
    · exact hh
    · have := sq_pos_of_ne _ hh; grind
  · by_cases hh : n.y = 0
    · exact hh
    · have := sq_pos_of_ne _ hh; grind
  · by_cases hh : n.z = 0
    · exact hh
    · have := sq_pos_of_ne _ hh; grind

theorem Aff.det_householder (n : V3) (h : ¬(n.x = 0 ∧ n.y = 0 ∧ n.z = 0)) : (Aff.householder n).det = -1 := by
  have hn := normsq_ne n h
  have hi : (n.x*n.x + n.y*n.y + n.z*n.z) * (n.x*n.x + n.y*n.y + n.z*n.z)⁻¹ = 1 := Rat.mul_inv_cancel _ hn
  simp only [Aff.householder, Aff.det]
  generalize (n.x*n.x + n.y*n.y + n.z*n.z)⁻¹ = i at *
  grind
theorem M4.ofAff_mul (A B : Aff) : (M4.ofAff A).mul (M4.ofAff B) = M4.ofAff (A.comp B) := by
  simp only [M4.ofAff, M4.mul, Aff.comp, M4.mk.injEq]
  refine ⟨?_, ?_, ?_, ?_, ?_, ?_, ?_, ?_, ?_, ?_, ?_, ?_, ?_, ?_, ?_, ?_⟩ <;> grind

theorem M4.translation_eq (v : V3) : M4.translation v = M4.ofAff (Aff.trans v) := rfl
theorem M4.ofBlock_eq (L : Aff) : M4.ofBlock L = M4.ofAff L.lin := rfl
theorem M4.diag_eq (a b c : Rat) : M4.diag a b c 1 = M4.ofAff (Aff.diag a b c) := rfl
theorem M4.eye_eq : M4.eye = M4.ofAff Aff.id := rfl
theorem M4.toAff_ofAff (A : Aff) : (M4.ofAff A).toAff = A := rfl
theorem M4.isAffine_ofAff (A : Aff) : (M4.ofAff A).IsAffine := ⟨rfl, rfl, rfl, rfl⟩
theorem M4.ofAff_toAff (m : M4) (h : m.IsAffine) : M4.ofAff m.toAff = m := by
  obtain ⟨h1, h2, h3, h4⟩ := h
  cases m; simp_all [M4.ofAff, M4.toAff]
theorem M4.applyPt_eq (m : M4) (p : Pt) : m.applyPt p = m.toAff.apply p.resolve := by
  simp [M4.applyPt, M4.toAff, Aff.apply, Rat.mul_one]


/-! ## well-formed `Transform` objects and their abstraction -/

/-- representation invariant of a `Transform` object -/
def Xf.WF (x : Xf) : Prop :=
  x.matrix.IsAffine ∧ x.inverse = x.matrix.inv ∧
  x.fromPivot = M4.translation x.pivot.neg ∧ x.toPivot = M4.translation x.pivot

/-- the value a `Transform` object stands for: its mapping and its pivot -/
def Xf.abs (x : Xf) : SXf := ⟨x.matrix.toAff, x.pivot⟩

theorem Xf.init_wf : Xf.init.WF := by
  refine ⟨?_, ?_, ?_, ?_⟩ <;> simp [Xf.init, Xf.setPivot, Xf.setMatrix, M4.IsAffine, M4.eye]

theorem Xf.init_abs : Xf.init.abs = ⟨Aff.id, V3.zero⟩ := rfl

theorem Xf.setPivot_wf (x : Xf) (p : V3) (h : x.WF) : (x.setPivot p).WF := by
  obtain ⟨h1, h2, _, _⟩ := h
  exact ⟨h1, h2, rfl, rfl⟩

theorem Xf.setPivot_abs (x : Xf) (p : V3) : (x.setPivot p).abs = ⟨x.abs.A, p⟩ := rfl

theorem Xf.chain_ofAff (x : Xf) (B : Aff) (h : x.WF) :
    (x.chain (M4.ofAff B)).WF ∧
    (x.chain (M4.ofAff B)).abs =
      ⟨(((Aff.trans x.pivot).comp B).comp (Aff.trans x.pivot.neg)).comp x.abs.A, x.pivot⟩ := by
  obtain ⟨h1, h2, h3, h4⟩ := h
  have hm : x.matrix = M4.ofAff x.matrix.toAff := (M4.ofAff_toAff _ h1).symm
  have key : ((x.toPivot.mul (M4.ofAff B)).mul x.fromPivot).mul x.matrix =
      M4.ofAff ((((Aff.trans x.pivot).comp B).comp (Aff.trans x.pivot.neg)).comp x.matrix.toAff) := by
    rw [h3, h4, M4.translation_eq, M4.translation_eq, M4.ofAff_mul, M4.ofAff_mul]
    conv => lhs; rw [hm]
    rw [M4.ofAff_mul]
  refine ⟨⟨?_, ?_, ?_, ?_⟩, ?_⟩
  · simp only [Xf.chain, Xf.setMatrix, key]; exact M4.isAffine_ofAff _
  · simp only [Xf.chain, Xf.setMatrix]
  · simp only [Xf.chain, Xf.setMatrix, h3]
  · simp only [Xf.chain, Xf.setMatrix, h4]
  · simp only [Xf.abs, Xf.chain, Xf.setMatrix, key, M4.toAff_ofAff]

theorem Xf.chain_translation (x : Xf) (v : V3) (h : x.WF) :
    (x.chain (M4.translation v)).WF ∧ (x.chain (M4.translation v)).abs = ⟨(Aff.trans v).comp x.abs.A, x.pivot⟩ := by
  have := Xf.chain_ofAff x (Aff.trans v) h
  rw [Aff.conj_trans] at this
  exact this

theorem Xf.chain_linear (x : Xf) (L : Aff) (hL : L.IsLinear) (h : x.WF) :
    (x.chain (M4.ofAff L)).WF ∧ (x.chain (M4.ofAff L)).abs = ⟨(Aff.about x.pivot L).comp x.abs.A, x.pivot⟩ := by
  have := Xf.chain_ofAff x L h
  rw [Aff.conj_linear _ _ hL] at this
  exact this

theorem Aff.lin_isLinear (A : Aff) : A.lin.IsLinear := ⟨rfl, rfl, rfl⟩
theorem Aff.diag_isLinear (a b c : Rat) : (Aff.diag a b c).IsLinear := ⟨rfl, rfl, rfl⟩
theorem Aff.householder_isLinear (n : V3) : (Aff.householder n).IsLinear := ⟨rfl, rfl, rfl⟩
theorem Aff.lin_of_isLinear (A : Aff) (h : A.IsLinear) : A.lin = A := by
  obtain ⟨h1, h2, h3⟩ := h
  cases A; simp_all [Aff.lin]

/-! ## the `dict` -/

theorem Dict.get_set (d : Dict) (k k' : String) (v : Xf) :
    Dict.get (Dict.set d k v) k' = if k' = k then some v else Dict.get d k' := by
  induction d with
  | nil =>
    by_cases h : k' = k
    · simp [Dict.set, Dict.get, h]
    · have : ¬ k = k' := fun e => h e.symm
      simp [Dict.set, Dict.get, h, this]
  | cons kv d ih =>
    obtain ⟨k0, v0⟩ := kv
    simp only [Dict.set]
    by_cases h0 : k0 = k
    · subst h0
      by_cases h : k' = k0
      · simp [Dict.get, h]
      · have : ¬ k0 = k' := fun e => h e.symm
        simp [Dict.get, h, this]
    · simp only [h0, if_false]
      by_cases h1 : k0 = k'
      · subst h1
        have : ¬ k0 = k := h0
        simp [Dict.get, this]
      · have ih' := ih
        simp only [Dict.get] at ih' ⊢
        simp only [List.find?, h1, decide_false]
        exact ih'

theorem Dict.get_erase (d : Dict) (k k' : String) :
    Dict.get (Dict.erase d k) k' = if k' = k then none else Dict.get d k' := by
  induction d with
  | nil => simp [Dict.erase, Dict.get]
  | cons kv d ih =>
    obtain ⟨k0, v0⟩ := kv
    simp only [Dict.erase, Dict.get] at ih ⊢
    by_cases h0 : k0 = k
    · subst h0
      by_cases h : k' = k0
      · subst h; simp
      · have : ¬ k0 = k' := fun e => h e.symm
        simp [List.filter, List.find?, this, h] at ih ⊢
        simpa [h] using ih
    · by_cases h1 : k0 = k'
      · subst h1
        simp [List.filter, List.find?, h0]
      · simp [List.filter, List.find?, h0, h1] at ih ⊢
        exact ih

theorem Dict.mem_of_get {d : Dict} {k : String} {v : Xf} (h : Dict.get d k = some v) : (k, v) ∈ d := by
  simp only [Dict.get, Option.map_eq_some_iff] at h
  obtain ⟨kv, h1, h2⟩ := h
  have hm := List.mem_of_find?_eq_some h1
  have hk := List.find?_some h1
  simp at hk
  obtain ⟨k0, v0⟩ := kv
  simp at h2 hk
  subst h2; subst hk
  exact hm

theorem Dict.mem_set {d : Dict} {k : String} {v : Xf} {kv : String × Xf} (h : kv ∈ Dict.set d k v) :
    kv = (k, v) ∨ kv ∈ d := by
  induction d with
  | nil => simp [Dict.set] at h; exact Or.inl h
  | cons kv0 d ih =>
    obtain ⟨k0, v0⟩ := kv0
    simp only [Dict.set] at h
    split at h
    · simp at h
      rcases h with h | h
      · exact Or.inl h
      · exact Or.inr (by simp [h])
    · simp at h
      rcases h with h | h
      · exact Or.inr (by simp [h])
      · rcases ih h with h | h
        · exact Or.inl h
        · exact Or.inr (by simp [h])

theorem Dict.mem_erase {d : Dict} {k : String} {kv : String × Xf} (h : kv ∈ Dict.erase d k) : kv ∈ d := by
  simp only [Dict.erase] at h
  exact (List.mem_filter.mp h).1

/-! ## abstraction of the whole state and the representation invariant -/

def Frame.abs (f : Frame) : SFrame := ⟨f.cur.abs, f.stack.map Xf.abs⟩
def Frame.WF (f : Frame) : Prop := f.cur.WF ∧ ∀ x ∈ f.stack, x.WF

/-- the specification state a code state stands for -/
def Core.abs (c : Core) : Spec :=
  ⟨c.tr.cur.abs, c.tr.stack.map Xf.abs, fun k => (c.tr.named.get k).map Xf.abs, c.ctx.map Frame.abs⟩

/-- every `Transform` object held anywhere (current, stack, named states, open `with` blocks) is well formed -/
def Core.SInv (c : Core) : Prop :=
  c.tr.cur.WF ∧ (∀ x ∈ c.tr.stack, x.WF) ∧ (∀ kv ∈ c.tr.named, kv.2.WF) ∧ (∀ f ∈ c.ctx, f.WF)

theorem Core.init_sinv : Core.init.SInv := by
  refine ⟨Xf.init_wf, ?_, ?_, ?_⟩ <;> simp [Core.init, Tr.init]

theorem Core.init_abs : Core.init.abs = Spec.init := by
  simp [Core.abs, Core.init, Tr.init, Spec.init, Xf.init_abs, Dict.get]

theorem Spec.ext' {s t : Spec} (h1 : s.cur = t.cur) (h2 : s.stack = t.stack) (h3 : ∀ k, s.named k = t.named k)
    (h4 : s.ctx = t.ctx) : s = t := by
  cases s; cases t
  simp only [Spec.mk.injEq]
  exact ⟨h1, h2, funext h3, h4⟩

/-- a change of the current transform only -/
theorem Core.abs_setCur (c : Core) (x : Xf) :
    Core.abs { c with tr := { c.tr with cur := x } } = { c.abs with cur := x.abs } := rfl

theorem Core.sinv_setCur (c : Core) (x : Xf) (h : c.SInv) (hx : x.WF) :
    Core.SInv { c with tr := { c.tr with cur := x } } := ⟨hx, h.2.1, h.2.2.1, h.2.2.2⟩

theorem Tr.falsy_nameKey (name : Option String) (h : Tr.falsy name = true) : Tr.nameKey name = none := by
  cases name with
  | none => rfl
  | some n =>
    simp [Tr.falsy] at h
    subst h
    simp [Tr.nameKey, pyStrip]

/-- `restore_state` against the specification -/
theorem Core.restore_refines (c : Core) (name : Option String) (h : c.SInv) :
    (match c.tr.restoreState name with
     | .ok t => Core.abs { c with tr := t } = (c.abs.restore name).1 ∧ (c.abs.restore name).2 = none ∧
                Core.SInv { c with tr := t } ∧ t.named = c.tr.named
     | .error e => (c.abs.restore name).1 = c.abs ∧ (c.abs.restore name).2 = some e) := by
  obtain ⟨hc, hs, hn, hx⟩ := h
  simp only [Tr.restoreState, Spec.restore]
  by_cases hf : Tr.falsy name = true ∧ c.tr.stack = []
  · have hk := Tr.falsy_nameKey name hf.1
    simp [hf, hk, Core.abs]
  · simp only [hf, if_false]
    cases hk : Tr.nameKey name with
    | some k =>
      simp only
      cases hg : c.tr.named.get k with
      | none => simp [Core.abs, hg]
      | some x =>
        have hm := Dict.mem_of_get hg
        refine ⟨?_, ?_, ⟨hn _ hm, hs, hn, hx⟩, rfl⟩
        · simp [Core.abs, hg]
        · simp [Core.abs, hg]
    | none =>
      simp only
      cases hst : c.tr.stack with
      | nil => simp [Core.abs, hst]
      | cons x rest =>
        have hs' := hs
        rw [hst] at hs'
        refine ⟨?_, ?_, ⟨hs' x (by simp), fun y hy => hs' y (by simp [hy]), hn, hx⟩, rfl⟩
        · simp [Core.abs, hst]
        · simp [Core.abs, hst]

theorem Core.chainLinear_refines (c : Core) (L : Aff) (hL : L.IsLinear) (h : c.SInv) :
    Core.abs { c with tr := c.tr.chainTransform (M4.ofAff L) } = c.abs.chainAbout L ∧
    Core.SInv { c with tr := c.tr.chainTransform (M4.ofAff L) } := by
  obtain ⟨w, a⟩ := Xf.chain_linear c.tr.cur L hL h.1
  refine ⟨?_, Core.sinv_setCur c _ h w⟩
  simp only [Tr.chainTransform, Core.abs_setCur, a]
  rfl

/-- **one call refines the specification** and keeps the representation invariant -/
theorem Core.step_refines (c : Core) (op : Op) (h : c.SInv) :
    (c.step op).1.abs = (c.abs.step op).1 ∧ (c.step op).2.2 = (c.abs.step op).2 ∧ (c.step op).1.SInv := by
  cases op with
  | translate v =>
    obtain ⟨w, a⟩ := Xf.chain_translation c.tr.cur v h.1
    refine ⟨?_, rfl, Core.sinv_setCur c _ h w⟩
    simp only [Core.step, Tr.translate, Tr.chainTransform, Core.abs_setCur, a]
    rfl
  | scale fs =>
    simp only [Core.step, Spec.step, Tr.scale]
    match fs with
    | [] => simp [Tr.scaleVector, Spec.scaleLin, Core.lift, h]
    | [s] =>
      simp only [Tr.scaleVector, Spec.scaleLin]
      split
      · simp [Core.lift, h]
      · obtain ⟨a, w⟩ := Core.chainLinear_refines c _ (Aff.diag_isLinear s s s) h
        rw [← M4.diag_eq] at a w
        exact ⟨a, rfl, w⟩
    | [s1, s2] =>
      simp only [Tr.scaleVector, Spec.scaleLin]
      split
      · simp [Core.lift, h]
      · obtain ⟨a, w⟩ := Core.chainLinear_refines c _ (Aff.diag_isLinear s1 s2 1) h
        rw [← M4.diag_eq] at a w
        exact ⟨a, rfl, w⟩
    | [s1, s2, s3] =>
      simp only [Tr.scaleVector, Spec.scaleLin]
      split
      · simp [Core.lift, h]
      · obtain ⟨a, w⟩ := Core.chainLinear_refines c _ (Aff.diag_isLinear s1 s2 s3) h
        rw [← M4.diag_eq] at a w
        exact ⟨a, rfl, w⟩
    | _ :: _ :: _ :: _ :: _ => simp [Tr.scaleVector, Spec.scaleLin, Core.lift, h]
  | rotate ax R =>
    simp only [Core.step, Spec.step, Tr.rotate]
    split
    · obtain ⟨a, w⟩ := Core.chainLinear_refines c _ (Aff.lin_isLinear R) h
      rw [← M4.ofBlock_eq] at a w
      exact ⟨a, rfl, w⟩
    · simp [Core.lift, h]
  | chain R =>
    obtain ⟨a, w⟩ := Core.chainLinear_refines c _ (Aff.lin_isLinear R) h
    rw [← M4.ofBlock_eq] at a w
    exact ⟨a, rfl, w⟩
  | reflect n =>
    simp only [Core.step, Spec.step, Tr.reflect]
    split
    · simp [Core.lift, h]
    · obtain ⟨a, w⟩ := Core.chainLinear_refines c _ (Aff.householder_isLinear n) h
      rw [← Aff.lin_of_isLinear _ (Aff.householder_isLinear n), ← M4.ofBlock_eq] at a w
      rw [Aff.lin_of_isLinear _ (Aff.householder_isLinear n)] at a
      exact ⟨a, rfl, w⟩
  | mirror pl =>
    simp only [Core.step, Spec.step, Tr.mirror]
    cases hp : Tr.planeNormal pl with
    | none => simp [Core.lift, h]
    | some n =>
      have hn : ¬(n.x = 0 ∧ n.y = 0 ∧ n.z = 0) := by
        simp only [Tr.planeNormal] at hp
        split at hp
        · cases hp; simp
        · split at hp
          · cases hp; simp
          · split at hp
            · cases hp; simp
            · cases hp
      simp only [Tr.reflect, hn, if_false]
      obtain ⟨a, w⟩ := Core.chainLinear_refines c _ (Aff.householder_isLinear n) h
      rw [← Aff.lin_of_isLinear _ (Aff.householder_isLinear n), ← M4.ofBlock_eq] at a w
      rw [Aff.lin_of_isLinear _ (Aff.householder_isLinear n)] at a
      exact ⟨a, rfl, w⟩
  | setPivot p =>
    exact ⟨rfl, rfl, Core.sinv_setCur c _ h (Xf.setPivot_wf _ p h.1)⟩
  | save name =>
    simp only [Core.step, Spec.step, Tr.saveState]
    cases hk : Tr.nameKey name with
    | some k =>
      refine ⟨?_, rfl, ⟨h.1, h.2.1, ?_, h.2.2.2⟩⟩
      · apply Spec.ext' <;> try rfl
        intro k'
        simp only [Core.abs, Dict.get_set]
        by_cases e : k' = k <;> simp [e]
      · intro kv hkv
        rcases Dict.mem_set hkv with e | e
        · subst e; exact h.1
        · exact h.2.2.1 _ e
    | none =>
      refine ⟨rfl, rfl, ⟨h.1, ?_, h.2.2.1, h.2.2.2⟩⟩
      intro x hx
      simp at hx
      rcases hx with e | e
      · subst e; exact h.1
      · exact h.2.1 _ e
  | restore name =>
    have := Core.restore_refines c name h
    simp only [Core.step, Spec.step]
    cases hr : c.tr.restoreState name with
    | ok t => simp only [hr] at this; exact ⟨this.1, this.2.1.symm, this.2.2.1⟩
    | error e => simp only [hr] at this; exact ⟨this.1.symm, this.2.symm, h⟩
  | delete name =>
    simp only [Core.step, Spec.step, Tr.deleteState]
    cases hg : c.tr.named.get name with
    | none => simp [Core.lift, Core.abs, hg, h]
    | some x =>
      have : c.abs.named name = some x.abs := by simp [Core.abs, hg]
      simp only [this, Core.lift]
      refine ⟨?_, trivial, ⟨h.1, h.2.1, ?_, h.2.2.2⟩⟩
      · apply Spec.ext' <;> try rfl
        intro k'
        simp only [Core.abs, Dict.get_erase]
        by_cases e : k' = name <;> simp [e]
      · intro kv hkv
        exact h.2.2.1 _ (Dict.mem_erase hkv)
  | enterCurrent =>
    refine ⟨rfl, rfl, ⟨h.1, h.2.1, h.2.2.1, ?_⟩⟩
    intro f hf
    simp [Core.step] at hf
    rcases hf with e | e
    · subst e; exact ⟨h.1, h.2.1⟩
    · exact h.2.2.2 _ e
  | enterNamed n =>
    have := Core.restore_refines c (some n) h
    simp only [Core.step, Spec.step]
    cases hr : c.tr.restoreState (some n) with
    | ok t =>
      simp only [hr] at this
      obtain ⟨a, e, w, _⟩ := this
      have e' : c.abs.restore (some n) = ((c.abs.restore (some n)).1, none) := by rw [← e]
      rw [e']
      simp only
      refine ⟨?_, trivial, ⟨w.1, w.2.1, w.2.2.1, ?_⟩⟩
      · rw [← a]; rfl
      · intro f hf
        simp at hf
        rcases hf with e | e
        · subst e; exact ⟨h.1, h.2.1⟩
        · exact h.2.2.2 _ e
    | error e =>
      simp only [hr] at this
      obtain ⟨_, e2⟩ := this
      have e' : c.abs.restore (some n) = ((c.abs.restore (some n)).1, some e) := by rw [← e2]
      rw [e']
      exact ⟨rfl, rfl, h⟩
  | exit r =>
    simp only [Core.step, Spec.step]
    cases hc : c.ctx with
    | nil => simp [Core.abs, hc, h]
    | cons f rest =>
      have hf := h.2.2.2
      rw [hc] at hf
      have : c.abs.ctx = f.abs :: rest.map Frame.abs := by simp [Core.abs, hc]
      simp only [this]
      refine ⟨rfl, trivial, ⟨(hf f (by simp)).1, (hf f (by simp)).2, h.2.2.1, fun g hg => hf g (by simp [hg])⟩⟩
  | move req => exact ⟨rfl, rfl, h⟩
  | rapid req => exact ⟨rfl, rfl, h⟩
  | dist r => exact ⟨rfl, rfl, h⟩
  | moveAbs r req => exact ⟨rfl, rfl, h⟩
  | setAxis req => exact ⟨rfl, rfl, h⟩

/-! ## call histories -/

theorem Core.run_refines (ops : List Op) : ∀ (c : Core), c.SInv →
    (c.run ops).1.abs = (c.abs.run ops).1 ∧ c.errs ops = (c.abs.run ops).2 ∧ (c.run ops).1.SInv := by
  induction ops with
  | nil => intro c h; exact ⟨rfl, rfl, h⟩
  | cons op ops ih =>
    intro c h
    obtain ⟨a, e, w⟩ := Core.step_refines c op h
    obtain ⟨a', e', w'⟩ := ih _ w
    simp only [Core.run, Spec.run, Core.errs]
    rw [← a, ← e]
    exact ⟨a', by rw [e'], w'⟩

theorem Core.run_append (ops ops' : List Op) : ∀ (c : Core),
    c.run (ops ++ ops') = (((c.run ops).1.run ops').1, (c.run ops).2 ++ ((c.run ops).1.run ops').2) := by
  induction ops with
  | nil => intro c; simp [Core.run]
  | cons op ops ih => intro c; simp [Core.run, ih, List.append_assoc]

/-! ## invertibility of everything reachable -/

theorem Aff.det_trans (v : V3) : (Aff.trans v).det = 1 := by simp [Aff.trans, Aff.det]; grind
theorem Aff.det_about (p : V3) (L : Aff) : (Aff.about p L).det = L.det := by simp [Aff.about, Aff.det, Aff.lin]
theorem Aff.det_lin (L : Aff) : L.lin.det = L.det := by simp [Aff.det, Aff.lin]
theorem Aff.det_diag (a b c : Rat) : (Aff.diag a b c).det = a * b * c := by simp [Aff.diag, Aff.det]; grind
theorem Aff.det_id : Aff.id.det = 1 := by simp [Aff.id, Aff.det]; grind

/-- a call whose data is admissible: the rotation block handed to `rotate` is invertible -/
def Op.Regular : Op → Prop
  | .rotate _ R => R.det ≠ 0
  | .chain R => R.det ≠ 0
  | _ => True

instance (op : Op) : Decidable op.Regular := by
  cases op <;> simp only [Op.Regular] <;> infer_instance

def SFrame.Invertible (f : SFrame) : Prop := f.cur.A.det ≠ 0 ∧ ∀ x ∈ f.stack, x.A.det ≠ 0
def Spec.Invertible (s : Spec) : Prop :=
  s.cur.A.det ≠ 0 ∧ (∀ x ∈ s.stack, x.A.det ≠ 0) ∧ (∀ k x, s.named k = some x → x.A.det ≠ 0) ∧
  (∀ f ∈ s.ctx, f.Invertible)

theorem Spec.init_invertible : Spec.init.Invertible := by
  refine ⟨?_, ?_, ?_, ?_⟩ <;> simp [Spec.init, Aff.det_id]

theorem Spec.chainAbout_invertible (s : Spec) (L : Aff) (h : s.Invertible) (hL : L.det ≠ 0) :
    (s.chainAbout L).Invertible := by
  refine ⟨?_, h.2.1, h.2.2.1, h.2.2.2⟩
  simp only [Spec.chainAbout, Aff.det_comp, Aff.det_about]
  intro h0
  rcases Rat.mul_eq_zero.mp h0 with e | e
  · exact hL e
  · exact h.1 e

theorem Spec.restore_invertible (s : Spec) (name : Option String) (h : s.Invertible) :
    (s.restore name).1.Invertible := by
  simp only [Spec.restore]
  cases Tr.nameKey name with
  | some k =>
    simp only
    cases hg : s.named k with
    | none => exact h
    | some x => exact ⟨h.2.2.1 k x hg, h.2.1, h.2.2.1, h.2.2.2⟩
  | none =>
    simp only
    cases hst : s.stack with
    | nil => exact h
    | cons x rest =>
      have hs := h.2.1
      rw [hst] at hs
      exact ⟨hs x (by simp), fun y hy => hs y (by simp [hy]), h.2.2.1, h.2.2.2⟩

theorem Spec.restore_ctx (s : Spec) (name : Option String) : (s.restore name).1.ctx = s.ctx := by
  simp only [Spec.restore]
  cases Tr.nameKey name with
  | some k => simp only; cases s.named k <;> rfl
  | none => simp only; cases s.stack <;> rfl

theorem householder_det_ne (n : V3) (h : ¬(n.x = 0 ∧ n.y = 0 ∧ n.z = 0)) : (Aff.householder n).det ≠ 0 := by
  rw [Aff.det_householder n h]; decide

theorem planeNormal_ne {pl : String} {n : V3} (hp : Tr.planeNormal pl = some n) : ¬(n.x = 0 ∧ n.y = 0 ∧ n.z = 0) := by
  simp only [Tr.planeNormal] at hp
  split at hp
  · cases hp; simp
  · split at hp
    · cases hp; simp
    · split at hp
      · cases hp; simp
      · cases hp

theorem Spec.step_invertible (s : Spec) (op : Op) (h : s.Invertible) (hr : op.Regular) :
    (s.step op).1.Invertible := by
  cases op with
  | translate v =>
    refine ⟨?_, h.2.1, h.2.2.1, h.2.2.2⟩
    simp only [Spec.step, Aff.det_comp, Aff.det_trans]
    simpa using h.1
  | scale fs =>
    simp only [Spec.step]
    match fs with
    | [] => exact h
    | [k] =>
      simp only [Spec.scaleLin]
      split
      · exact h
      · rename_i hz
        apply Spec.chainAbout_invertible _ _ h
        rw [Aff.det_diag]
        simp at hz
        grind
    | [a, b] =>
      simp only [Spec.scaleLin]
      split
      · exact h
      · rename_i hz
        apply Spec.chainAbout_invertible _ _ h
        rw [Aff.det_diag]
        simp at hz
        grind
    | [a, b, c] =>
      simp only [Spec.scaleLin]
      split
      · exact h
      · rename_i hz
        apply Spec.chainAbout_invertible _ _ h
        rw [Aff.det_diag]
        simp at hz
        grind
    | _ :: _ :: _ :: _ :: _ => exact h
  | rotate ax R =>
    simp only [Spec.step]
    split
    · exact Spec.chainAbout_invertible _ _ h (by rw [Aff.det_lin]; exact hr)
    · exact h
  | chain R => exact Spec.chainAbout_invertible _ _ h (by rw [Aff.det_lin]; exact hr)
  | reflect n =>
    simp only [Spec.step]
    split
    · exact h
    · rename_i hn
      exact Spec.chainAbout_invertible _ _ h (householder_det_ne n hn)
  | mirror pl =>
    simp only [Spec.step]
    cases hp : Tr.planeNormal pl with
    | none => exact h
    | some n => exact Spec.chainAbout_invertible _ _ h (householder_det_ne n (planeNormal_ne hp))
  | setPivot p => exact ⟨h.1, h.2.1, h.2.2.1, h.2.2.2⟩
  | save name =>
    simp only [Spec.step]
    cases Tr.nameKey name with
    | some k =>
      refine ⟨h.1, h.2.1, ?_, h.2.2.2⟩
      intro k' x hx
      simp only at hx
      split at hx
      · cases hx; exact h.1
      · exact h.2.2.1 _ _ hx
    | none =>
      refine ⟨h.1, ?_, h.2.2.1, h.2.2.2⟩
      intro x hx
      simp at hx
      rcases hx with e | e
      · subst e; exact h.1
      · exact h.2.1 _ e
  | restore name => exact Spec.restore_invertible s name h
  | delete name =>
    simp only [Spec.step]
    cases s.named name with
    | none => exact h
    | some _ =>
      refine ⟨h.1, h.2.1, ?_, h.2.2.2⟩
      intro k' x hx
      simp only at hx
      split at hx
      · cases hx
      · exact h.2.2.1 _ _ hx
  | enterCurrent =>
    refine ⟨h.1, h.2.1, h.2.2.1, ?_⟩
    intro f hf
    simp [Spec.step] at hf
    rcases hf with e | e
    · subst e; exact ⟨h.1, h.2.1⟩
    · exact h.2.2.2 _ e
  | enterNamed n =>
    simp only [Spec.step]
    have hi := Spec.restore_invertible s (some n) h
    have hc := Spec.restore_ctx s (some n)
    cases hr : s.restore (some n) with
    | mk s' e =>
      rw [hr] at hi hc
      simp only at hi hc
      cases e with
      | some e => exact h
      | none =>
        refine ⟨hi.1, hi.2.1, hi.2.2.1, ?_⟩
        intro f hf
        simp at hf
        rcases hf with e | e
        · subst e; exact ⟨h.1, h.2.1⟩
        · exact h.2.2.2 _ e
  | exit r =>
    simp only [Spec.step]
    cases hc : s.ctx with
    | nil => exact h
    | cons f rest =>
      have hf := h.2.2.2
      rw [hc] at hf
      exact ⟨(hf f (by simp)).1, (hf f (by simp)).2, h.2.2.1, fun g hg => hf g (by simp [hg])⟩
  | move req => exact h
  | rapid req => exact h
  | dist r => exact h
  | moveAbs r req => exact h
  | setAxis req => exact h

theorem Spec.run_invertible (ops : List Op) : ∀ (s : Spec), s.Invertible → (∀ op ∈ ops, op.Regular) →
    (s.run ops).1.Invertible := by
  induction ops with
  | nil => intro s h _; exact h
  | cons op ops ih =>
    intro s h hr
    simp only [Spec.run]
    exact ih _ (Spec.step_invertible s op h (hr op (by simp))) (fun o ho => hr o (by simp [ho]))

/-- what the two query methods return, in terms of the abstract mapping -/
theorem Core.apply_eq (c : Core) (p : Pt) : c.tr.applyTransform p = c.abs.cur.A.apply p.resolve := by
  simp [Tr.applyTransform, Xf.apply, M4.applyPt_eq, Core.abs, Xf.abs]

theorem Core.reverse_eq (c : Core) (p : Pt) (h : c.SInv) :
    c.tr.reverseTransform p = c.abs.cur.A.inv.apply p.resolve := by
  simp [Tr.reverseTransform, Xf.reverse, M4.applyPt_eq, Core.abs, Xf.abs, h.1.2.1, M4.inv, M4.toAff_ofAff]

/-! ## named states are immutable snapshots -/

/-- does the call (re)define or delete the named state `key`? -/
def Op.touches (key : String) : Op → Bool
  | .save name => Tr.nameKey name = some key
  | .delete name => name = key
  | _ => false

theorem Tr.restoreState_named (t : Tr) (name : Option String) (t' : Tr)
    (h : t.restoreState name = .ok t') : t'.named = t.named := by
  simp only [Tr.restoreState] at h
  repeat' (split at h)
  all_goals (first | (cases h; rfl) | cases h)

theorem Core.lift_named (c : Core) (r : Except Err Tr) (h : ∀ t', r = .ok t' → t'.named = c.tr.named) :
    (c.lift r).1.tr.named = c.tr.named := by
  cases r with
  | ok t => exact h t rfl
  | error e => rfl

theorem Core.step_named (c : Core) (op : Op) (key : String) (h : op.touches key = false) :
    (c.step op).1.tr.named.get key = c.tr.named.get key := by
  cases op with
  | translate v => rfl
  | scale fs =>
    simp only [Core.step]
    rw [Core.lift_named]
    intro t' ht
    simp only [Tr.scale] at ht
    repeat' (split at ht)
    all_goals (first | (cases ht; rfl) | cases ht)
  | rotate ax R =>
    simp only [Core.step]
    rw [Core.lift_named]
    intro t' ht
    simp only [Tr.rotate] at ht
    repeat' (split at ht)
    all_goals (first | (cases ht; rfl) | cases ht)
  | chain R => rfl
  | reflect n =>
    simp only [Core.step]
    rw [Core.lift_named]
    intro t' ht
    simp only [Tr.reflect] at ht
    repeat' (split at ht)
    all_goals (first | (cases ht; rfl) | cases ht)
  | mirror pl =>
    simp only [Core.step]
    rw [Core.lift_named]
    intro t' ht
    simp only [Tr.mirror, Tr.reflect] at ht
    repeat' (split at ht)
    all_goals (first | (cases ht; rfl) | cases ht)
  | setPivot p => rfl
  | save name =>
    simp only [Op.touches, decide_eq_false_iff_not] at h
    simp only [Core.step, Tr.saveState]
    cases hk : Tr.nameKey name with
    | some k =>
      have : ¬ key = k := fun e => h (by rw [hk, e])
      simp [Dict.get_set, this]
    | none => rfl
  | restore name =>
    simp only [Core.step]
    rw [Core.lift_named]
    exact Tr.restoreState_named _ _
  | delete name =>
    simp only [Op.touches, decide_eq_false_iff_not] at h
    simp only [Core.step, Tr.deleteState]
    cases c.tr.named.get name with
    | none => rfl
    | some x =>
      have : ¬ key = name := fun e => h e.symm
      simp [Core.lift, Dict.get_erase, this]
  | enterCurrent => rfl
  | enterNamed n =>
    simp only [Core.step]
    cases hr : c.tr.restoreState (some n) with
    | ok t => simp only; rw [Tr.restoreState_named _ _ _ hr]
    | error e => rfl
  | exit r =>
    simp only [Core.step]
    cases c.ctx <;> rfl
  | move req => rfl
  | rapid req => rfl
  | dist r => rfl
  | moveAbs r req => rfl
  | setAxis req => rfl

theorem Core.run_named (ops : List Op) (key : String) : ∀ (c : Core), (∀ op ∈ ops, op.touches key = false) →
    (c.run ops).1.tr.named.get key = c.tr.named.get key := by
  induction ops with
  | nil => intro c _; rfl
  | cons op ops ih =>
    intro c h
    simp only [Core.run]
    rw [ih _ (fun o ho => h o (by simp [ho])), Core.step_named c op key (h op (by simp))]

theorem Tr.restore_named_ok (t : Tr) (n key : String) (x : Xf) (hk : Tr.nameKey (some n) = some key)
    (hx : t.named.get key = some x) : t.restoreState (some n) = .ok { t with cur := x } := by
  have hf : Tr.falsy (some n) = false := by
    cases hfe : Tr.falsy (some n) with
    | false => rfl
    | true => rw [Tr.falsy_nameKey _ hfe] at hk; cases hk
  simp [Tr.restoreState, hf, hk, hx]

/-! ## `with` blocks -/

/-- the body `ops`, run from `c`, never leaves the block at nesting depth `n` and ends at that depth -/
def Core.stays (n : Nat) (c : Core) : List Op → Prop
  | [] => c.ctx.length = n
  | op :: ops => n ≤ (c.step op).1.ctx.length ∧ Core.stays n (c.step op).1 ops

instance Core.decStays : (n : Nat) → (c : Core) → (ops : List Op) → Decidable (Core.stays n c ops)
  | n, c, [] => inferInstanceAs (Decidable (c.ctx.length = n))
  | n, c, op :: ops =>
    haveI := Core.decStays n (c.step op).1 ops
    inferInstanceAs (Decidable (n ≤ (c.step op).1.ctx.length ∧ Core.stays n (c.step op).1 ops))

theorem Core.ctx_step (c : Core) (op : Op) :
    (c.step op).1.ctx = c.ctx ∨ (∃ f, (c.step op).1.ctx = f :: c.ctx) ∨ (∃ f, c.ctx = f :: (c.step op).1.ctx) := by
  cases op with
  | scale fs => simp only [Core.step, Core.lift]; split <;> simp
  | rotate ax R => simp only [Core.step, Core.lift]; split <;> simp
  | reflect n => simp only [Core.step, Core.lift]; split <;> simp
  | mirror pl => simp only [Core.step, Core.lift]; split <;> simp
  | restore name => simp only [Core.step, Core.lift]; split <;> simp
  | delete name => simp only [Core.step, Core.lift]; split <;> simp
  | enterCurrent => right; left; exact ⟨_, rfl⟩
  | enterNamed n =>
    simp only [Core.step]
    split
    · simp
    · right; left; exact ⟨_, rfl⟩
  | exit r =>
    simp only [Core.step]
    cases hc : c.ctx with
    | nil => simp [hc]
    | cons f rest => right; right; exact ⟨f, rfl⟩
  | _ => left; rfl

theorem Core.stays_base (ops : List Op) (base : List Frame) : ∀ (c : Core) (pre : List Frame),
    c.ctx = pre ++ base → Core.stays base.length c ops → (c.run ops).1.ctx = base := by
  induction ops with
  | nil =>
    intro c pre hc hs
    simp only [Core.stays] at hs
    simp only [Core.run]
    rw [hc] at hs ⊢
    have : pre.length = 0 := by rw [List.length_append] at hs; omega
    have : pre = [] := List.eq_nil_of_length_eq_zero this
    simp [this]
  | cons op ops ih =>
    intro c pre hc hs
    obtain ⟨h1, h2⟩ := hs
    simp only [Core.run]
    rcases Core.ctx_step c op with e | ⟨f, e⟩ | ⟨f, e⟩
    · exact ih _ pre (by rw [e, hc]) h2
    · exact ih _ (f :: pre) (by rw [e, hc]; rfl) h2
    · rw [hc] at e
      cases pre with
      | nil =>
        exfalso
        simp at e
        rw [e] at h1
        simp at h1
        omega
      | cons g pre' =>
        simp at e
        exact ih _ pre' e.2.symm h2

/-! ## the move path (C04) -/

theorem word_abs (c : Prop) [Decidable c] (o t : Rat) :
    (if c ∨ o ≠ t then some t else none).getD o = t := by
  by_cases hc : c
  · simp [hc]
  · by_cases ho : o = t
    · simp [hc, ho]
    · simp [hc, ho]

theorem word_rel (c : Prop) [Decidable c] (o t : Rat) :
    o + (if c ∨ o ≠ t then some (t - o) else none).getD 0 = t := by
  by_cases hc : c
  · simp [hc]; grind
  · by_cases ho : o = t
    · simp [hc, ho, Rat.add_zero]
    · simp [hc, ho]; grind

/-- the affine map in force: first three rows of the current matrix -/
def Core.A (c : Core) : Aff := c.tr.cur.matrix.toAff

theorem Core.applyTransform_ofV3 (c : Core) (v : V3) : c.tr.applyTransform (Pt.ofV3 v) = c.A.apply v := by
  simp [Tr.applyTransform, Xf.apply, M4.applyPt_eq, Core.A, Pt.ofV3, Pt.resolve]

theorem Pt.resolve_ofV3 (v : V3) : (Pt.ofV3 v).resolve = v := by
  simp [Pt.ofV3, Pt.resolve]

theorem Pt.resolve_replace (o q : Pt) : (Pt.replace o q).resolve = o.resolve.replace q := by
  cases o; cases q
  simp only [Pt.replace, Pt.resolve, V3.replace, V3.mk.injEq]
  refine ⟨?_, ?_, ?_⟩ <;> (rename_i a b c d e f; first | (cases d <;> rfl) | (cases e <;> rfl) | (cases f <;> rfl))

/-- calls that cannot change the current mapping -/
def Op.keepsMap : Op → Bool
  | .move _ | .rapid _ | .dist _ | .setPivot _ | .save _ | .delete _ | .enterCurrent
  | .moveAbs _ _ | .setAxis _ => true
  | _ => false

theorem Core.step_keepsMap (c : Core) (op : Op) (h : op.keepsMap = true) : (c.step op).1.A = c.A := by
  cases op with
  | delete name =>
    simp only [Core.step, Tr.deleteState]
    cases c.tr.named.get name <;> rfl
  | save name =>
    simp only [Core.step, Tr.saveState]
    cases Tr.nameKey name <;> rfl
  | translate | scale | rotate | chain | reflect | mirror | restore | enterNamed | exit => simp [Op.keepsMap] at h
  | _ => rfl

/-- **When does a bypass keep (or re-establish) agreement?**  Exactly when replacing the requested
    coordinates commutes with the transform at the tracked position — e.g. a full request that is a
    fixed point of the map (`rapid_absolute(0,0,0)` under a rotation about the origin), or a request on
    axes the map neither moves nor feeds into the others. -/
def Core.resyncs (c : Core) (req : Pt) : Prop :=
  c.A.apply (c.axes.resolve.replace req) = (c.A.apply c.axes.resolve).replace req

instance (c : Core) (req : Pt) : Decidable (c.resyncs req) := by unfold Core.resyncs; infer_instance

/-- a call leaves machine/builder agreement intact: it cannot change the current matrix (`move`,
    `rapid`, distance-mode switch, `set_pivot`, `save_state`, `delete_state`, entering
    `current_transform()`), or it is a bypass move / axis reset that `resyncs` in the state it is made in -/
def Core.keepsAgree (c : Core) : Op → Prop
  | .moveAbs _ req => c.resyncs req
  | .setAxis req => c.resyncs req
  | op => op.keepsMap = true

def Core.keepsAgreeAll : Core → List Op → Prop
  | _, [] => True
  | c, op :: ops => c.keepsAgree op ∧ Core.keepsAgreeAll (c.step op).1 ops

instance Core.decKeepsAgree (c : Core) (op : Op) : Decidable (c.keepsAgree op) := by
  cases op <;> (simp only [Core.keepsAgree]; infer_instance)

instance Core.decKeepsAgreeAll : (c : Core) → (ops : List Op) → Decidable (Core.keepsAgreeAll c ops)
  | _, [] => isTrue trivial
  | c, op :: ops =>
    haveI := Core.decKeepsAgreeAll (c.step op).1 ops
    inferInstanceAs (Decidable (c.keepsAgree op ∧ Core.keepsAgreeAll (c.step op).1 ops))

/-! ## rotations, scalings and reflections act about the pivot -/

/-- calls that chain a linear map about the pivot -/
def Op.aboutPivot : Op → Bool
  | .scale _ | .rotate _ _ | .chain _ | .reflect _ | .mirror _ => true
  | _ => false

theorem Spec.step_aboutPivot (s : Spec) (op : Op) (h : op.aboutPivot = true) :
    (s.step op).1 = s ∨ ∃ L, (s.step op).1 = s.chainAbout L := by
  cases op with
  | scale fs =>
    simp only [Spec.step]
    cases Spec.scaleLin fs with
    | none => exact Or.inl rfl
    | some L => simp only; split
                · exact Or.inl rfl
                · exact Or.inr ⟨L, rfl⟩
  | rotate ax R =>
    simp only [Spec.step]
    split
    · exact Or.inr ⟨_, rfl⟩
    · exact Or.inl rfl
  | chain R => exact Or.inr ⟨_, rfl⟩
  | reflect n =>
    simp only [Spec.step]
    split
    · exact Or.inl rfl
    · exact Or.inr ⟨_, rfl⟩
  | mirror pl =>
    simp only [Spec.step]
    cases Tr.planeNormal pl with
    | none => exact Or.inl rfl
    | some n => exact Or.inr ⟨_, rfl⟩
  | _ => simp [Op.aboutPivot] at h

theorem Core.step_pivot_fixed (c : Core) (op : Op) (q : Pt) (h : c.SInv) (ho : op.aboutPivot = true)
    (hq : c.tr.applyTransform q = c.tr.cur.pivot) :
    (c.step op).1.tr.applyTransform q = c.tr.cur.pivot ∧ (c.step op).1.tr.cur.pivot = c.tr.cur.pivot := by
  obtain ⟨a, _, _⟩ := Core.step_refines c op h
  have hp : ∀ d : Core, d.tr.cur.pivot = d.abs.cur.p := fun _ => rfl
  rw [Core.apply_eq] at hq
  rw [Core.apply_eq, hp, hp, a]
  rcases Spec.step_aboutPivot c.abs op ho with e | ⟨L, e⟩
  · rw [e]; exact ⟨hq, rfl⟩
  · rw [e]
    refine ⟨?_, rfl⟩
    simp only [Spec.chainAbout, Aff.comp_apply, hq]
    exact Aff.about_fixes _ _
end GscribModel.Transform

import GscribModel.Model.Machine
/-! Helper lemmas about the builder model and the interpreters (no property theorems here). -/
namespace GscribModel.Builder

/-! ### `track` / `commitAxes` change only what they say -/
@[simp] theorem track_toolActive (b : B) (ps) : (b.track ps).toolActive = b.toolActive := by
  unfold B.track; split <;> split <;> rfl
@[simp] theorem track_coolActive (b : B) (ps) : (b.track ps).coolActive = b.coolActive := by
  unfold B.track; split <;> split <;> rfl
@[simp] theorem track_rel (b : B) (ps) : (b.track ps).rel = b.rel := by
  unfold B.track; split <;> split <;> rfl
@[simp] theorem track_srel (b : B) (ps) : (b.track ps).srel = b.srel := by
  unfold B.track; split <;> split <;> rfl
@[simp] theorem track_axes (b : B) (ps) : (b.track ps).axes = b.axes := by
  unfold B.track; split <;> split <;> rfl
@[simp] theorem track_saxes (b : B) (ps) : (b.track ps).saxes = b.saxes := by
  unfold B.track; split <;> split <;> rfl
@[simp] theorem track_bounds (b : B) (ps) : (b.track ps).bounds = b.bounds := by
  unfold B.track; split <;> split <;> rfl
@[simp] theorem track_ctx (b : B) (ps) : (b.track ps).ctx = b.ctx := by
  unfold B.track; split <;> split <;> rfl
@[simp] theorem track_hooks (b : B) (ps) : (b.track ps).hooks = b.hooks := by
  unfold B.track; split <;> split <;> rfl
@[simp] theorem commitAxes_toolActive (b : B) (t r ps) : (b.commitAxes t r ps).toolActive = b.toolActive := rfl
@[simp] theorem commitAxes_coolActive (b : B) (t r ps) : (b.commitAxes t r ps).coolActive = b.coolActive := rfl
@[simp] theorem commitAxes_rel (b : B) (t r ps) : (b.commitAxes t r ps).rel = b.rel := rfl
@[simp] theorem commitAxes_srel (b : B) (t r ps) : (b.commitAxes t r ps).srel = b.srel := rfl
@[simp] theorem commitAxes_axes (b : B) (t r ps) : (b.commitAxes t r ps).axes = t := rfl
@[simp] theorem commitAxes_saxes (b : B) (t r ps) : (b.commitAxes t r ps).saxes = t := rfl
@[simp] theorem commitAxes_bounds (b : B) (t r ps) : (b.commitAxes t r ps).bounds = b.bounds := rfl
@[simp] theorem commitAxes_ctx (b : B) (t r ps) : (b.commitAxes t r ps).ctx = b.ctx := rfl

/-! ### neutral statements: no interlock-relevant code -/
def neutral (s : Stmt) : Bool := !(toolStart s || coolStart s || toolStop s || coolStop s || needsIdle s)

theorem neutral_safe_exec (f : Flags) (s : Stmt) (h : neutral s = true) : f.safe s = true ∧ f.exec s = f := by
  simp only [neutral, Bool.not_eq_true', Bool.or_eq_false_iff] at h
  obtain ⟨⟨⟨⟨h1, h2⟩, h3⟩, h4⟩, h5⟩ := h
  simp [Flags.safe, Flags.exec, h1, h2, h3, h4, h5]

theorem neutral_seq (f : Flags) (ss : List Stmt) (h : ∀ s ∈ ss, neutral s = true) :
    f.safeSeq ss = true ∧ ss.foldl Flags.exec f = f := by
  induction ss generalizing f with
  | nil => simp [Flags.safeSeq]
  | cons s r ih =>
    obtain ⟨a, e⟩ := neutral_safe_exec f s (h s (by simp))
    have := ih f (fun t ht => h t (by simp [ht]))
    simp [Flags.safeSeq, a, e, this]

theorem neutral_of_codes (s : Stmt) (c : Code)
    (hc : s.codes = [c])
    (hn : (c.isToolStart || c.isCoolStart || c.isToolStop || c.isCoolStop || c.needsIdle) = false) :
    neutral s = true := by
  simp only [Bool.or_eq_false_iff] at hn
  simp [neutral, toolStart, coolStart, toolStop, coolStop, needsIdle, hc, hn]

theorem neutral_nocode (s : Stmt) (hc : s.codes = []) : neutral s = true := by
  simp [neutral, toolStart, coolStart, toolStop, coolStop, needsIdle, hc]

/-- commands that can move the tool, change the distance mode or open/close a mode context -/
def motionOp : Op → Bool
  | .move .. | .moveAbs .. | .setAxis .. | .home .. | .probe .. | .setDist .. | .enterCtx .. | .exitCtx => true
  | _ => false

end GscribModel.Builder

import Mathlib.Analysis.SpecialFunctions.Trigonometric.Basic
import Mathlib.Analysis.SpecialFunctions.Complex.Arg
import Mathlib.Tactic.Ring
import Mathlib.Tactic.Linarith
import Mathlib.Tactic.FieldSimp
import GscribModel.Model.Tracer
/-! Helper lemmas for C10 / C12: the real instance of `Trig` and the facts about it that the property
    theorems use; list lemmas about the segment filter over `ℚ`. -/
namespace GscribModel.Tracer
open Real

/-! ### the real instance: the generic formulas of `Model/Tracer.lean` read over `ℝ` -/

/-- `np.cos`, `np.sin`, `np.sqrt`, `np.arctan2`, `np.hypot`, `2 * math.pi`, `float(int)`, `int(float)` over the reals -/
noncomputable def realTrig : Trig ℝ :=
  { cos := Real.cos, sin := Real.sin, sqrt := Real.sqrt,
    atan2 := fun y x => Complex.arg ⟨x, y⟩,
    hypot := fun x y => ‖(⟨x, y⟩ : ℂ)‖,
    twoPi := 2 * π, ofNat := fun n => (n : ℝ), truncNat := fun x => ⌊x⌋₊ }

theorem hypot_sq (x y : ℝ) : (realTrig.hypot x y) ^ 2 = x ^ 2 + y ^ 2 := by
  simp only [realTrig, Complex.sq_norm, Complex.normSq_apply]; ring

theorem hypot_nonneg (x y : ℝ) : 0 ≤ realTrig.hypot x y := by
  simp only [realTrig]; exact norm_nonneg _

theorem hypot_eq_sqrt (x y : ℝ) : realTrig.hypot x y = Real.sqrt (x ^ 2 + y ^ 2) := by
  rw [← hypot_sq, Real.sqrt_sq (hypot_nonneg x y)]

/-- polar form: `hypot(x, y) * cos(atan2(y, x)) = x` (also at the origin) -/
theorem polar_x (x y : ℝ) : realTrig.hypot x y * realTrig.cos (realTrig.atan2 y x) = x := by
  simp [realTrig]

theorem polar_y (x y : ℝ) : realTrig.hypot x y * realTrig.sin (realTrig.atan2 y x) = y := by
  simp [realTrig]

theorem atan2_range (x y : ℝ) : -π < realTrig.atan2 y x ∧ realTrig.atan2 y x ≤ π :=
  ⟨Complex.neg_pi_lt_arg _, Complex.arg_le_pi _⟩

theorem twoPi_eq : realTrig.twoPi = 2 * π := rfl

/-- `enforce` only ever adds a whole number of turns -/
theorem enforce_mod (cw : Bool) (a : ℝ) : ∃ k : ℤ, enforce realTrig cw a = a + k * (2 * π) := by
  unfold enforce
  cases cw <;> simp only [Bool.false_eq_true, if_true, if_false, twoPi_eq] <;> split
  · exact ⟨1, by simp⟩
  · exact ⟨0, by simp⟩
  · exact ⟨-1, by simp; ring⟩
  · exact ⟨0, by simp⟩

theorem enforce_cw_range (a : ℝ) (h1 : -(2 * π) < a) (h2 : a < 2 * π) :
    -(2 * π) ≤ enforce realTrig true a ∧ enforce realTrig true a < 0 := by
  unfold enforce
  simp only [if_true, twoPi_eq]
  split <;> constructor <;> linarith [Real.pi_pos]

theorem enforce_ccw_range (a : ℝ) (h1 : -(2 * π) < a) (h2 : a < 2 * π) :
    0 < enforce realTrig false a ∧ enforce realTrig false a ≤ 2 * π := by
  unfold enforce
  simp only [Bool.false_eq_true, if_false, twoPi_eq]
  split <;> constructor <;> linarith [Real.pi_pos]

/-- the difference of two `atan2` values lies strictly within one turn -/
theorem atan2_diff_range (x1 y1 x2 y2 : ℝ) :
    -(2 * π) < realTrig.atan2 y1 x1 - realTrig.atan2 y2 x2 ∧ realTrig.atan2 y1 x1 - realTrig.atan2 y2 x2 < 2 * π := by
  have a := atan2_range x1 y1
  have b := atan2_range x2 y2
  constructor <;> linarith [a.1, a.2, b.1, b.2]

theorem cos_add_turns (x : ℝ) (k : ℤ) : realTrig.cos (x + k * (2 * π)) = realTrig.cos x := by
  simp only [realTrig]; exact Real.cos_add_int_mul_two_pi x k

theorem sin_add_turns (x : ℝ) (k : ℤ) : realTrig.sin (x + k * (2 * π)) = realTrig.sin x := by
  simp only [realTrig]; exact Real.sin_add_int_mul_two_pi x k

theorem cos_sq_add_sin_sq' (x : ℝ) : realTrig.cos x ^ 2 + realTrig.sin x ^ 2 = 1 := by
  simp only [realTrig]; exact Real.cos_sq_add_sin_sq x

theorem absK_real (a : ℝ) : absK a = |a| := by
  unfold absK
  split
  · rw [abs_of_neg ‹_›]
  · rw [abs_of_nonneg (not_lt.mp ‹_›)]

/-- sign of the sine on a clockwise sweep `[-2π, 0)` -/
theorem sin_neg_iff_cw {x : ℝ} (h1 : -(2 * π) ≤ x) (h2 : x < 0) :
    (Real.sin x < 0 → -π < x) ∧ (0 < Real.sin x → x < -π) := by
  constructor
  · intro hs
    by_contra hc
    rw [not_lt] at hc
    have : 0 ≤ Real.sin (x + 2 * π) := Real.sin_nonneg_of_nonneg_of_le_pi (by linarith) (by linarith)
    rw [Real.sin_add_two_pi] at this
    linarith
  · intro hs
    by_contra hc
    rw [not_lt] at hc
    have : Real.sin x ≤ 0 := Real.sin_nonpos_of_nonpos_of_neg_pi_le (by linarith) hc
    linarith

/-- sign of the sine on a counter-clockwise sweep `(0, 2π]` -/
theorem sin_pos_iff_ccw {x : ℝ} (h1 : 0 < x) (h2 : x ≤ 2 * π) :
    (0 < Real.sin x → x < π) ∧ (Real.sin x < 0 → π < x) := by
  constructor
  · intro hs
    by_contra hc
    rw [not_lt] at hc
    have : Real.sin (x - 2 * π) ≤ 0 := Real.sin_nonpos_of_nonpos_of_neg_pi_le (by linarith) (by linarith)
    rw [Real.sin_sub_two_pi] at this
    linarith
  · intro hs
    by_contra hc
    rw [not_lt] at hc
    have : 0 ≤ Real.sin x := Real.sin_nonneg_of_nonneg_of_le_pi (by linarith) hc
    linarith


/-! ### `arc_radius`: the centre construction -/

theorem centre_alg (o t : V3 ℝ) (h d r : ℝ) (s : Bool) (hd : d ≠ 0)
    (hd2 : d ^ 2 = (t.x - o.x) ^ 2 + (t.y - o.y) ^ 2) (hh2 : h ^ 2 = r ^ 2 - (d / 2) ^ 2) :
    let c := radiusCentre o t h d s
    (o.x - c.1) ^ 2 + (o.y - c.2) ^ 2 = r ^ 2
    ∧ (t.x - c.1) ^ 2 + (t.y - c.2) ^ 2 = r ^ 2
    ∧ (o.x - c.1) * (t.y - c.2) - (o.y - c.2) * (t.x - c.1) = (if s = true then -(h * d) else h * d) := by
  obtain ⟨X, hX⟩ : ∃ X, t.x = o.x + X * d := ⟨(t.x - o.x) / d, by field_simp; ring⟩
  obtain ⟨Y, hY⟩ : ∃ Y, t.y = o.y + Y * d := ⟨(t.y - o.y) / d, by field_simp; ring⟩
  have hu : X ^ 2 + Y ^ 2 = 1 := by
    have : d ^ 2 * (X ^ 2 + Y ^ 2) = d ^ 2 * 1 := by rw [hX, hY] at hd2; linear_combination -hd2
    exact mul_left_cancel₀ (pow_ne_zero 2 hd) this
  have e1 : h * (t.y - o.y) / d = h * Y := by rw [hY]; field_simp; ring
  have e2 : h * (t.x - o.x) / d = h * X := by rw [hX]; field_simp; ring
  cases s <;> simp only [radiusCentre, Bool.false_eq_true, if_false, if_true, e1, e2] <;> rw [hX, hY]
  · refine ⟨?_, ?_, ?_⟩
    · linear_combination (d ^ 2 / 4 + h ^ 2) * hu + hh2
    · linear_combination (d ^ 2 / 4 + h ^ 2) * hu + hh2
    · linear_combination (h * d) * hu
  · refine ⟨?_, ?_, ?_⟩
    · linear_combination (d ^ 2 / 4 + h ^ 2) * hu + hh2
    · linear_combination (d ^ 2 / 4 + h ^ 2) * hu + hh2
    · linear_combination (-(h * d)) * hu

/-- the centre `arc_radius` constructs, in absolute coordinates (`c = o + center`) -/
noncomputable def radiusCentreAbs (cw : Bool) (o t : V3 ℝ) (radius : ℝ) : V3 ℝ :=
  V3.add o (radiusCentreRel realTrig cw o t radius).resolve

theorem radiusCentreAbs_eq (cw : Bool) (o t : V3 ℝ) (radius : ℝ) :
    let d := realTrig.hypot (t.x - o.x) (t.y - o.y)
    let h := Real.sqrt (radius ^ 2 - (d / 2) ^ 2)
    let c := radiusCentre o t h d (cw == decide (0 < radius))
    (radiusCentreAbs cw o t radius).x = c.1 ∧ (radiusCentreAbs cw o t radius).y = c.2 := by
  simp only [radiusCentreAbs, radiusCentreRel, V3.add, PL.resolve, Option.getD_some, absK_real, abs_mul_abs_self]
  constructor <;> simp only [realTrig, sq] <;> ring


/-- `(o − c) × (t − c) = |o − c| |t − c| sin(angle from o − c to t − c)` -/
theorem cross_eq_sin (x1 y1 x2 y2 : ℝ) :
    x1 * y2 - y1 * x2 = realTrig.hypot x1 y1 * realTrig.hypot x2 y2 *
      Real.sin (realTrig.atan2 y2 x2 - realTrig.atan2 y1 x1) := by
  have p1x := polar_x x1 y1
  have p1y := polar_y x1 y1
  have p2x := polar_x x2 y2
  have p2y := polar_y x2 y2
  simp only [realTrig] at p1x p1y p2x p2y ⊢
  rw [Real.sin_sub]
  linear_combination (-(‖(⟨x2, y2⟩ : ℂ)‖ * Real.sin (Complex.arg ⟨x2, y2⟩))) * p1x + (-x1) * p2y
    + (‖(⟨x1, y1⟩ : ℂ)‖ * Real.sin (Complex.arg ⟨x1, y1⟩)) * p2x + x2 * p1y

/-! ### helix -/

theorem fullTurn_real (cw : Bool) : fullTurn realTrig cw = if cw then -(2 * π) else 2 * π := by
  simp [fullTurn, twoPi_eq]

theorem helix_tot (cw : Bool) (o t c : V3 ℝ) (turns : ℕ) :
    (helixOf realTrig cw o t c turns).tot
      = (arcOf realTrig cw o t c).tot + fullTurn realTrig cw * ((turns - 1 : ℕ) : ℝ) := by
  simp [helixOf, arcOf, realTrig]


/-! ### the segment filter over ℚ -/

theorem filterGo_length (res tol : Rat) : ∀ (rem : Rat) (ds : List Rat), (filterGo res tol rem ds).length = ds.length
  | _, [] => by simp [filterGo]
  | _, [_] => by simp [filterGo]
  | rem, d :: d' :: ds => by
      simp only [filterGo]
      split <;> simp [filterGo_length res tol _ (d' :: ds)]

theorem filterGo_ne_nil (res tol rem : Rat) (ds : List Rat) (h : ds ≠ []) : filterGo res tol rem ds ≠ [] := by
  intro e
  have := filterGo_length res tol rem ds
  rw [e] at this
  cases ds <;> simp_all

theorem filterGo_last (res tol : Rat) : ∀ (rem : Rat) (ds : List Rat), ds ≠ [] → (filterGo res tol rem ds).getLast? = some true
  | _, [], h => by simp at h
  | _, [_], _ => by simp [filterGo]
  | rem, d :: d' :: ds, _ => by
      simp only [filterGo]
      split
      · have ih := filterGo_last res tol res (d' :: ds) (by simp)
        have hne := filterGo_ne_nil res tol res (d' :: ds) (by simp)
        cases hg : filterGo res tol res (d' :: ds) with
        | nil => exact absurd hg hne
        | cons b bs => rw [hg] at ih; simpa [List.getLast?_cons_cons] using ih
      · have ih := filterGo_last res tol (rem - d) (d' :: ds) (by simp)
        have hne := filterGo_ne_nil res tol (rem - d) (d' :: ds) (by simp)
        cases hg : filterGo res tol (rem - d) (d' :: ds) with
        | nil => exact absurd hg hne
        | cons b bs => rw [hg] at ih; simpa [List.getLast?_cons_cons] using ih

theorem applyMask_sublist {α : Type} : ∀ (ps : List α) (bs : List Bool), (applyMask ps bs).Sublist ps
  | [], _ => by simp [applyMask]
  | _ :: _, [] => by simp [applyMask]
  | p :: ps, b :: bs => by
    cases b <;> simp only [applyMask, Bool.false_eq_true, if_false, if_true]
    · exact (applyMask_sublist ps bs).cons p
    · exact (applyMask_sublist ps bs).cons_cons p

theorem applyMask_getLast {α : Type} : ∀ (ps : List α) (bs : List Bool), bs.length = ps.length →
    bs.getLast? = some true → (applyMask ps bs).getLast? = ps.getLast?
  | [], [], _, h => by simp at h
  | [], _ :: _, hl, _ => by simp at hl
  | _ :: _, [], hl, _ => by simp at hl
  | [p], [b], _, h => by
    have : b = true := by simpa using h
    subst this; simp [applyMask]
  | p :: q :: ps, b :: c :: bs, hl, h => by
    have hl' : (c :: bs).length = (q :: ps).length := by simpa using hl
    have h' : (c :: bs).getLast? = some true := by simpa [List.getLast?_cons_cons] using h
    have ih := applyMask_getLast (q :: ps) (c :: bs) hl' h'
    have hne : applyMask (q :: ps) (c :: bs) ≠ [] := by
      intro e; rw [e] at ih; simp at ih; cases ps <;> simp [List.getLast?] at ih
    cases b <;> simp only [applyMask, Bool.false_eq_true, if_false, if_true]
    · rw [List.getLast?_cons_cons]; exact ih
    · cases hg : applyMask (q :: ps) (c :: bs) with
      | nil => exact absurd hg hne
      | cons x xs =>
        have : applyMask (q :: ps) (c :: bs) = x :: xs := hg
        simp only [applyMask] at this ih
        rw [this] at ih ⊢
        rw [List.getLast?_cons_cons, List.getLast?_cons_cons]; exact ih
  | [_], _ :: _ :: _, hl, _ => by simp at hl
  | _ :: _ :: _, [_], hl, _ => by simp at hl

theorem distances_length (sqrt : Rat → Rat) : ∀ (ps : List (V3 Rat)), (distances sqrt ps).length = ps.length - 1
  | [] => by simp [distances]
  | [_] => by simp [distances]
  | p :: q :: rest => by simp [distances, distances_length sqrt (q :: rest)]


/-- every emitted segment (also the last): without its final sample step it is at most `res − tol` long -/
theorem seg_upper (res tol : Rat) (h0 : 0 ≤ res - tol) : ∀ (ds : List Rat) (acc : Rat), acc ≤ res - tol →
    ∀ s ∈ segs acc ds (filterGo res tol (res - acc) ds), s.1 - s.2 ≤ res - tol := by
  intro ds
  induction ds with
  | nil => intro acc _ s h; simp [segs] at h
  | cons d ds ih =>
    cases ds with
    | nil =>
      intro acc hacc s h
      simp [filterGo, segs] at h
      subst h; simp; linarith
    | cons d' ds =>
      intro acc hacc s h
      simp only [filterGo] at h
      split at h
      · simp only [segs, if_true, List.mem_cons] at h
        rcases h with rfl | h
        · simp; linarith
        · have := ih 0 h0 s
          rw [sub_zero] at this
          exact this h
      · rename_i hge
        simp only [segs, Bool.false_eq_true, if_false] at h
        have e : res - acc - d = res - (acc + d) := by ring
        rw [e] at h
        exact ih (acc + d) (by linarith) s h

/-- every emitted segment except the last is longer than `res − tol` -/
theorem seg_lower (res tol : Rat) (h0 : 0 ≤ res - tol) : ∀ (ds : List Rat) (acc : Rat), acc ≤ res - tol →
    ∀ s ∈ (segs acc ds (filterGo res tol (res - acc) ds)).dropLast, res - tol < s.1 := by
  intro ds
  induction ds with
  | nil => intro acc _ s h; simp [segs] at h
  | cons d ds ih =>
    cases ds with
    | nil => intro acc _ s h; simp [filterGo, segs] at h
    | cons d' ds =>
      intro acc hacc s h
      simp only [filterGo] at h
      split at h
      · rename_i hlt
        simp only [segs, if_true] at h
        cases hr : segs 0 (d' :: ds) (filterGo res tol res (d' :: ds)) with
        | nil => rw [hr] at h; simp at h
        | cons x xs =>
          rw [hr] at h
          simp only [List.dropLast_cons_cons, List.mem_cons] at h
          rcases h with rfl | h
          · simp; linarith
          · have := ih 0 h0 s
            rw [sub_zero, hr] at this
            exact this h
      · rename_i hge
        simp only [segs, Bool.false_eq_true, if_false] at h
        have e : res - acc - d = res - (acc + d) := by ring
        rw [e] at h
        exact ih (acc + d) (by linarith) s h

theorem segs_step_mem : ∀ (ds : List Rat) (bs : List Bool) (acc : Rat), ∀ s ∈ segs acc ds bs, s.2 ∈ ds
  | [], _, _, s, h => by simp [segs] at h
  | _ :: _, [], _, s, h => by simp [segs] at h
  | d :: ds, b :: bs, acc, s, h => by
    cases b <;> simp only [segs, Bool.false_eq_true, if_false, if_true, List.mem_cons] at h
    · exact List.mem_cons_of_mem _ (segs_step_mem ds bs _ s h)
    · rcases h with rfl | h
      · simp
      · exact List.mem_cons_of_mem _ (segs_step_mem ds bs _ s h)

theorem segs_length : ∀ (ds : List Rat) (bs : List Bool) (acc : Rat), bs.length = ds.length →
    (segs acc ds bs).length = countKept bs
  | [], [], _, _ => by simp [segs, countKept]
  | [], _ :: _, _, h => by simp at h
  | _ :: _, [], _, h => by simp at h
  | d :: ds, b :: bs, acc, h => by
    have h' : bs.length = ds.length := by simpa using h
    cases b <;> simp [segs, countKept, List.filter] <;>
      simpa [countKept] using segs_length ds bs _ h'

/-- the emitted segments partition the sampled path: their lengths add up to it -/
theorem segs_sum : ∀ (ds : List Rat) (bs : List Bool) (acc : Rat), bs.length = ds.length →
    bs.getLast? = some true → ((segs acc ds bs).map Prod.fst).sum = acc + ds.sum
  | [], [], _, _, h => by simp at h
  | [], _ :: _, _, h, _ => by simp at h
  | _ :: _, [], _, h, _ => by simp at h
  | [d], [b], acc, _, h => by
    have : b = true := by simpa using h
    subst this; simp [segs]
  | d :: d' :: ds, b :: c :: bs, acc, hl, h => by
    have hl' : (c :: bs).length = (d' :: ds).length := by simpa using hl
    have h' : (c :: bs).getLast? = some true := by simpa [List.getLast?_cons_cons] using h
    cases b
    · have e : segs acc (d :: d' :: ds) (false :: c :: bs) = segs (acc + d) (d' :: ds) (c :: bs) := by
        simp [segs]
      rw [e, segs_sum (d' :: ds) (c :: bs) (acc + d) hl' h']; simp; ring
    · have e : segs acc (d :: d' :: ds) (true :: c :: bs) = (acc + d, d) :: segs 0 (d' :: ds) (c :: bs) := by
        simp [segs]
      rw [e, List.map_cons, List.sum_cons, segs_sum (d' :: ds) (c :: bs) 0 hl' h']; simp; ring
  | [_], _ :: _ :: _, _, hl, _ => by simp at hl
  | _ :: _ :: _, [_], _, hl, _ => by simp at hl

/-- every sample lies within `res − tol` of path length after a kept vertex: either after the first
    sample (always kept) or after the kept sample `j + 1` -/
theorem cover_aux (res tol : Rat) (h0 : 0 ≤ res - tol) : ∀ (ds : List Rat) (acc : Rat), acc ≤ res - tol →
    ∀ i, i < ds.length →
      acc + (ds.take (i + 1)).sum ≤ res - tol
      ∨ ∃ j, j ≤ i ∧ (filterGo res tol (res - acc) ds)[j]? = some true
            ∧ ((ds.take (i + 1)).drop (j + 1)).sum ≤ res - tol := by
  intro ds
  induction ds with
  | nil => intro acc _ i hi; simp at hi
  | cons d ds ih =>
    cases ds with
    | nil =>
      intro acc hacc i hi
      have : i = 0 := by simpa using hi
      subst this
      right; exact ⟨0, le_refl _, by simp [filterGo], by simpa using h0⟩
    | cons d' ds =>
      intro acc hacc i hi
      simp only [filterGo]
      split
      · -- sample kept: restart
        cases i with
        | zero => right; exact ⟨0, le_refl _, by simp, by simpa using h0⟩
        | succ i =>
          have hi' : i < (d' :: ds).length := by simpa using hi
          rcases ih 0 h0 i hi' with hl | ⟨j, hj, hm, hs⟩
          · right
            refine ⟨0, Nat.zero_le _, by simp, ?_⟩
            simpa using hl
          · right
            rw [sub_zero] at hm
            exact ⟨j + 1, Nat.succ_le_succ hj, by simpa using hm, by simpa using hs⟩
      · rename_i hge
        have hacc' : acc + d ≤ res - tol := by linarith
        cases i with
        | zero => left; simpa using hacc'
        | succ i =>
          have hi' : i < (d' :: ds).length := by simpa using hi
          have e : res - acc - d = res - (acc + d) := by ring
          rcases ih (acc + d) hacc' i hi' with hl | ⟨j, hj, hm, hs⟩
          · left
            simp only [List.take_succ_cons, List.sum_cons] at hl ⊢
            linarith
          · right
            rw [← e] at hm
            exact ⟨j + 1, Nat.succ_le_succ hj, by simpa using hm, by simpa using hs⟩


theorem sum_le_length_mul (l : List Rat) (c : Rat) (h : ∀ x ∈ l, x ≤ c) : l.sum ≤ l.length * c := by
  induction l with
  | nil => simp
  | cons x xs ih =>
    have h1 := h x (by simp)
    have h2 := ih (fun y hy => h y (by simp [hy]))
    simp only [List.sum_cons, List.length_cons]
    push_cast
    linarith

theorem length_mul_le_sum (l : List Rat) (c : Rat) (h : ∀ x ∈ l, c ≤ x) : l.length * c ≤ l.sum := by
  induction l with
  | nil => simp
  | cons x xs ih =>
    have h1 := h x (by simp)
    have h2 := ih (fun y hy => h y (by simp [hy]))
    simp only [List.sum_cons, List.length_cons]
    push_cast
    linarith

theorem segs_nonneg : ∀ (ds : List Rat) (bs : List Bool) (acc : Rat), 0 ≤ acc → (∀ d ∈ ds, 0 ≤ d) →
    ∀ s ∈ segs acc ds bs, 0 ≤ s.1
  | [], _, _, _, _, s, h => by simp [segs] at h
  | _ :: _, [], _, _, _, s, h => by simp [segs] at h
  | d :: ds, b :: bs, acc, ha, hd, s, h => by
    have hd0 : 0 ≤ d := hd d (by simp)
    have hds : ∀ x ∈ ds, 0 ≤ x := fun x hx => hd x (by simp [hx])
    cases b <;> simp only [segs, Bool.false_eq_true, if_false, if_true, List.mem_cons] at h
    · exact segs_nonneg ds bs (acc + d) (by linarith) hds s h
    · rcases h with rfl | h
      · simp; linarith
      · exact segs_nonneg ds bs 0 (le_refl _) hds s h

end GscribModel.Tracer

import GscribModel.Lemmas.BuilderMachine
import GscribModel.Lemmas.BuilderModal
/-! Helper lemmas for C20: the target a hook sees, look-ups through `setV`/`fin?`, `ESync`. -/
namespace GscribModel.Builder
set_option linter.unusedSimpArgs false

/-- the move vector handed back to `to_absolute` inside `_prepare_move` is the true target -/
theorem toAbsolute_word (b : B) (req : Pt) :
    let cur := b.axes.resolve
    let tgt := b.toAbsolute req
    let mv := if b.rel then tgt.sub cur else tgt
    b.toAbsolute (req.combine cur tgt mv) = tgt := by
  intro cur tgt mv
  apply Pt.ext_get
  intro a
  cases hrel : b.rel <;> cases hreq : req.get a <;> cases hax : b.axes.get a <;>
    simp [cur, tgt, mv, B.toAbsolute, hrel, hreq, hax] <;> grind
set_option linter.unusedSimpArgs false

theorem fin?_setV_lookup : ∀ (ps : VParams) (k : String) (v : Rat) (ps' : List (String × Rat)),
    (setV ps k (.fin v)).fin? = some ps' → lookupQ ps' k = some v := by
  intro ps k v
  unfold setV
  by_cases hany : ps.any (fun e => e.1 == k) = true
  · simp only [hany, if_true]
    induction ps with
    | nil => simp at hany
    | cons e es ih =>
      intro ps' h
      simp only [List.map_cons, VParams.fin?] at h
      by_cases he : (e.1 == k) = true
      · simp only [he, if_true, Val.fin?] at h
        split at h <;> simp at h
        rename_i q r hq hr
        simp at hq
        subst h; simp [lookupQ, hq]
      · simp only [he, Bool.false_eq_true, if_false] at h
        have hany' : es.any (fun e => e.1 == k) = true := by simpa [List.any_cons, he] using hany
        split at h <;> simp at h
        rename_i q r hq hr
        subst h
        have := ih hany' r hr
        simp [lookupQ, List.find?, he] at this ⊢
        exact this
  · simp only [hany, Bool.false_eq_true, if_false]
    have hnone : ∀ e ∈ ps, ¬ (e.1 == k) = true := fun e he h => hany (List.any_eq_true.mpr ⟨e, he, h⟩)
    induction ps with
    | nil => intro ps' h; simp [VParams.fin?, Val.fin?] at h; subst h; simp [lookupQ]
    | cons e es ih =>
      intro ps' h
      simp only [List.cons_append, VParams.fin?] at h
      split at h <;> simp at h
      rename_i q r hq hr
      subst h
      have he : ¬ (e.1 == k) = true := hnone e (by simp)
      have := ih (fun h' => hany (by simp [List.any_cons, h'])) (fun e' he' => hnone e' (by simp [he'])) r hr
      simp [lookupQ, List.find?, he] at this ⊢
      exact this


theorem fin?_map_all (k : String) (v : Rat) : ∀ (ps : VParams) (ps' : List (String × Rat)),
    VParams.fin? (ps.map (fun e => if (e.1 == k) = true then (k, Val.fin v) else e)) = some ps' →
    ∀ e ∈ ps', e.1 = k → e.2 = v := by
  intro ps
  induction ps with
  | nil => intro ps' h; simp [VParams.fin?] at h; subst h; simp
  | cons e es ih =>
    intro ps' h e' he' hk
    simp only [List.map_cons, VParams.fin?] at h
    split at h <;> simp at h
    rename_i q r hq hr
    subst h
    rcases List.mem_cons.mp he' with rfl | hm
    · by_cases he : (e.1 == k) = true
      · simp [he, Val.fin?] at hq; exact hq.symm
      · have hf : ¬ e.1 = k := by simpa using he
        simp only [hf, if_false] at hk
    · exact ih r hr e' hm hk

theorem fin?_append_all (k : String) (v : Rat) : ∀ (ps : VParams) (ps' : List (String × Rat)),
    (∀ e ∈ ps, ¬ e.1 = k) → VParams.fin? (ps ++ [(k, Val.fin v)]) = some ps' → ∀ e ∈ ps', e.1 = k → e.2 = v := by
  intro ps
  induction ps with
  | nil => intro ps' _ h; simp [VParams.fin?, Val.fin?] at h; subst h; simp
  | cons e es ih =>
    intro ps' hnone h e' he' hk
    simp only [List.cons_append, VParams.fin?] at h
    split at h <;> simp at h
    rename_i q r hq hr
    subst h
    rcases List.mem_cons.mp he' with rfl | hm
    · exact absurd hk (hnone e (by simp))
    · exact ih r (fun e'' he'' => hnone e'' (by simp [he''])) hr e' hm hk

theorem fin?_setV_all (ps : VParams) (k : String) (v : Rat) (ps' : List (String × Rat))
    (h : (setV ps k (.fin v)).fin? = some ps') : ∀ e ∈ ps', e.1 = k → e.2 = v := by
  unfold setV at h
  split at h
  · exact fin?_map_all k v ps ps' h
  · rename_i hany
    exact fin?_append_all k v ps ps'
      (fun e he hk => hany (List.any_eq_true.mpr ⟨e, he, by simp [hk]⟩)) h

/-- updating with a list in which every entry for `k` carries `v` (and there is one) leaves `some v` under `k` -/
theorem Params.get_update_all (u : List (String × Rat)) (k : String) (v : Rat) (hall : ∀ e ∈ u, e.1 = k → e.2 = v) :
    ∀ p : Params, (p.update (wordsAsParams u)).get k = if u.any (fun e => e.1 == k) then some v else p.get k := by
  induction u with
  | nil => intro p; simp [wordsAsParams, Params.update]
  | cons e es ih =>
    intro p
    have ih' := ih (fun e' he' => hall e' (by simp [he']))
    simp only [wordsAsParams, List.map_cons] at ih' ⊢
    rw [Params.update_cons, ih', List.any_cons]
    by_cases hek : e.1 = k
    · have hv := hall e (by simp) hek
      simp [hek, Params.get_set, hv]
    · have : ¬ k = e.1 := fun h => hek h.symm
      have hb : (e.1 == k) = false := by simp [hek]
      simp only [hb, Bool.false_or, Params.get_set, this, if_false]
/-- the E parameter the builder remembers is the extruder position (in absolute extrusion mode) -/
def ESync (b : B) (em : EMachine) : Prop :=
  b.erel = em.erel ∧ (b.erel = false → (b.params.get "E").getD 0 = em.epos)


end GscribModel.Builder

import GscribModel.Model.Socket
/-! Helper lemmas for C17. -/
namespace GscribModel.Socket

/-! ### facts about findNL -/
theorem findNL_some_lt {bs : Bytes} {i : Nat} (h : findNL bs = some i) : i < bs.length := by
  induction bs generalizing i with
  | nil => simp [findNL] at h
  | cons b bs ih =>
    simp only [findNL] at h
    split at h
    · simp at h; simp; omega
    · cases hf : findNL bs with
      | none => simp [hf] at h
      | some j => simp [hf] at h; have := ih hf; simp; omega

theorem findNL_none {bs : Bytes} (h : findNL bs = none) : NL ∉ bs := by
  induction bs with
  | nil => simp
  | cons b bs ih =>
    simp only [findNL] at h
    split at h
    · simp at h
    · cases hf : findNL bs with
      | none => simp_all; omega
      | some j => simp [hf] at h

/-- the prefix up to and including the first newline: ends with NL, no NL before -/
theorem take_first_nl {bs : Bytes} {i : Nat} (h : findNL bs = some i) :
    (bs.take (i + 1)).getLast? = some NL ∧ NL ∉ (bs.take (i + 1)).dropLast := by
  induction bs generalizing i with
  | nil => simp [findNL] at h
  | cons b bs ih =>
    simp only [findNL] at h
    split at h
    · rename_i hb
      simp at h; subst h; simp [hb]
    · rename_i hb
      cases hf : findNL bs with
      | none => simp [hf] at h
      | some j =>
        simp [hf] at h; subst h
        obtain ⟨h1, h2⟩ := ih hf
        have hlen := findNL_some_lt hf
        have hne : bs.take (j + 1) ≠ [] := by
          intro e
          rcases List.take_eq_nil_iff.mp e with h0 | h0
          · omega
          · subst h0; simp at hlen
        constructor
        · rw [List.take_succ_cons, List.getLast?_cons_of_ne_nil hne] <;> exact h1
        · rw [List.take_succ_cons, List.dropLast_cons_of_ne_nil hne]
          simp only [List.mem_cons, not_or]
          exact ⟨fun e => hb e.symm, h2⟩

/-! ### buffer invariant -/
def BufOk (buf : List Bytes) : Prop := ∀ c ∈ buf.dropLast, NL ∉ c
def NoNL (buf : List Bytes) : Prop := ∀ c ∈ buf, NL ∉ c

theorem readlineBuf_conserve (buf : List Bytes) :
    (readlineBuf buf).1 ++ (readlineBuf buf).2.flatten = buf.flatten := by
  unfold readlineBuf
  cases hl : buf.getLast? with
  | none => simp
  | some chunk =>
    obtain ⟨ys, rfl⟩ := List.getLast?_eq_some_iff.mp hl
    cases hf : findNL chunk with
    | none => simp [hf]
    | some eol =>
      by_cases he : chunk.length ≤ eol + 1
      · have h1 : chunk.take (eol+1) = chunk := List.take_of_length_le he
        simp [hf, he, h1]
      · simp [hf, he]

theorem readlineBuf_empty_noNL {buf : List Bytes} (hok : BufOk buf) (he : (readlineBuf buf).1 = []) :
    NoNL buf ∧ (readlineBuf buf).2 = buf := by
  unfold readlineBuf at *
  cases hl : buf.getLast? with
  | none =>
    have : buf = [] := List.getLast?_eq_none_iff.mp hl
    subst this; simp [NoNL]
  | some chunk =>
    obtain ⟨ys, rfl⟩ := List.getLast?_eq_some_iff.mp hl
    cases hf : findNL chunk with
    | none =>
      refine ⟨?_, by simp [hf]⟩
      intro c hc
      simp only [List.mem_append, List.mem_singleton] at hc
      rcases hc with hc | rfl
      · exact hok c (by simpa using hc)
      · exact findNL_none hf
    | some eol =>
      simp [hf] at he
      have := findNL_some_lt hf
      obtain ⟨_, h2⟩ := he
      have : chunk = [] := by
        cases chunk with
        | nil => rfl
        | cons a as => simp at h2
      subst this; simp [findNL] at hf

/-- when `_readline_buf` returns a line it is exactly one line, and what stays buffered is a single chunk -/
theorem readlineBuf_line {buf : List Bytes} (hok : BufOk buf) (hne : (readlineBuf buf).1 ≠ []) :
    (readlineBuf buf).1.getLast? = some NL ∧ NL ∉ (readlineBuf buf).1.dropLast ∧ BufOk (readlineBuf buf).2 := by
  unfold readlineBuf at *
  cases hl : buf.getLast? with
  | none => simp [hl] at hne
  | some chunk =>
    obtain ⟨ys, rfl⟩ := List.getLast?_eq_some_iff.mp hl
    cases hf : findNL chunk with
    | none => simp [hf] at hne
    | some eol =>
      obtain ⟨t1, t2⟩ := take_first_nl hf
      have hlt := findNL_some_lt hf
      have htne : chunk.take (eol + 1) ≠ [] := by
        intro e
        rcases List.take_eq_nil_iff.mp e with h0 | h0
        · omega
        · subst h0; simp at hlt
      have hys : ∀ c ∈ ys, NL ∉ c := fun c hc => hok c (by simpa using hc)
      simp only [hf, List.dropLast_concat]
      refine ⟨?_, ?_, ?_⟩
      · rw [List.getLast?_append, t1]; simp
      · rw [List.dropLast_append_of_ne_nil htne]
        simp only [List.mem_append, List.mem_flatten, not_or, not_exists, not_and]
        exact ⟨fun c hc => hys c hc, t2⟩
      · split <;> simp [BufOk]

theorem bufOk_append_of_noNL {buf : List Bytes} (h : NoNL buf) (bs : Bytes) : BufOk (buf ++ [bs]) := by
  intro c hc; simp at hc; exact h c hc

/-! ### the loop -/
theorem go_spec : ∀ (evs : List Ev) (buf : List Bytes), NoNL buf →
    (go buf evs).1.bytes ++ (go buf evs).2.1.flatten ++ evBytes (go buf evs).2.2 = buf.flatten ++ evBytes evs
    ∧ BufOk (go buf evs).2.1
    ∧ (∀ l, (go buf evs).1 = .line l → (go buf evs).2.2.head? ≠ some .eof →
          l.getLast? = some NL ∧ NL ∉ l.dropLast)
  | [], buf, h => by
      refine ⟨by simp [go, Res.bytes, evBytes], fun c hc => h c (List.dropLast_subset _ hc), by simp [go]⟩
  | .again :: evs, buf, h => by
      refine ⟨by simp [go, Res.bytes, evBytes], fun c hc => h c (List.dropLast_subset _ hc), by simp [go]⟩
  | .eof :: evs, buf, h => by
      simp only [go]
      split
      · rename_i he
        have : buf.flatten = [] := by simpa using he
        refine ⟨by simp [Res.bytes, evBytes, this], by simp [BufOk], by simp⟩
      · refine ⟨by simp [Res.bytes, evBytes], by simp [BufOk], by simp⟩
  | .chunk b bs :: evs, buf, h => by
      simp only [go]
      have hok := bufOk_append_of_noNL h (b :: bs)
      have hcons := readlineBuf_conserve (buf ++ [b :: bs])
      split
      · rename_i he
        have he' : (readlineBuf (buf ++ [b :: bs])).1 = [] := by simpa using he
        obtain ⟨hno, heq⟩ := readlineBuf_empty_noNL hok he'
        rw [heq]
        have ih := go_spec evs (buf ++ [b :: bs]) hno
        refine ⟨?_, ih.2.1, ih.2.2⟩
        rw [ih.1]; simp [evBytes]
      · rename_i hne
        have hne' : (readlineBuf (buf ++ [b :: bs])).1 ≠ [] := by simpa using hne
        obtain ⟨l1, l2, l3⟩ := readlineBuf_line hok hne'
        refine ⟨?_, l3, ?_⟩
        · simp only [Res.bytes]
          rw [hcons]; simp [evBytes]
        · intro l hl _
          simp at hl; subst hl; exact ⟨l1, l2⟩

/-- no newline buffered ⇒ `_readline_buf` returns nothing -/
theorem readlineBuf_noNL_empty {buf : List Bytes} (h : NoNL buf) : (readlineBuf buf).1 = [] := by
  unfold readlineBuf
  cases hl : buf.getLast? with
  | none => simp
  | some chunk =>
    obtain ⟨ys, rfl⟩ := List.getLast?_eq_some_iff.mp hl
    cases hf : findNL chunk with
    | none => simp [hf]
    | some eol =>
      exfalso
      have hlt := findNL_some_lt hf
      obtain ⟨t1, _⟩ := take_first_nl hf
      have hm : NL ∈ chunk.take (eol + 1) := List.mem_of_getLast? t1
      exact h chunk (by simp) (List.mem_of_mem_take hm)

/-- the unread events after a call are a suffix of the script -/
theorem go_suffix : ∀ (evs : List Ev) (buf : List Bytes), (go buf evs).2.2 <:+ evs
  | [], buf => by simp [go]
  | .again :: evs, buf => by simp [go]
  | .eof :: evs, buf => by simp only [go]; split <;> simp
  | .chunk b bs :: evs, buf => by
      simp only [go]
      split
      · exact (go_suffix evs _).trans (List.suffix_cons _ _)
      · simp

theorem readlineSocket_suffix (buf : List Bytes) (evs : List Ev) : (readlineSocket buf evs).2.2 <:+ evs := by
  simp only [readlineSocket]; split
  · exact go_suffix evs buf
  · simp


/-! ### the specification (cut after each newline) and the shape of what a sequence of calls returns -/
set_option linter.unusedSimpArgs false

/-- the specification: cut a byte stream after each newline (an unterminated tail, if any, comes last) -/
def splitGo : Bytes → Bytes → List Bytes
  | cur, [] => if cur.isEmpty then [] else [cur]
  | cur, b :: bs => if b = NL then (cur ++ [b]) :: splitGo [] bs else splitGo (cur ++ [b]) bs
def splitNL (bs : Bytes) : List Bytes := splitGo [] bs

/-- exactly one newline-terminated line -/
def OneLine (l : Bytes) : Prop := l.getLast? = some NL ∧ NL ∉ l.dropLast

theorem splitGo_noNL : ∀ (t cur : Bytes), NL ∉ t → splitGo cur t = if (cur ++ t).isEmpty then [] else [cur ++ t]
  | [], cur, _ => by simp [splitGo]
  | b :: bs, cur, h => by
      have hb : ¬ b = NL := fun e => h (by simp [e])
      have hbs : NL ∉ bs := fun e => h (by simp [e])
      simp only [splitGo, hb, if_false]
      rw [splitGo_noNL bs (cur ++ [b]) hbs]
      simp

theorem splitGo_oneLine : ∀ (l cur T : Bytes), OneLine l → splitGo cur (l ++ T) = (cur ++ l) :: splitGo [] T
  | [], cur, T, h => by simp [OneLine] at h
  | [b], cur, T, h => by
      have : b = NL := by simpa [OneLine] using h.1
      simp [splitGo, this]
  | b :: c :: r, cur, T, h => by
      obtain ⟨h1, h2⟩ := h
      have hb : ¬ b = NL := by
        intro e; apply h2; rw [List.dropLast_cons_of_ne_nil (by simp)]; simp [e]
      have hrest : OneLine (c :: r) := by
        refine ⟨by simpa [List.getLast?_cons_cons] using h1, ?_⟩
        intro hm; apply h2
        rw [List.dropLast_cons_of_ne_nil (by simp)]; exact List.mem_cons_of_mem _ hm
      have := splitGo_oneLine (c :: r) (cur ++ [b]) T hrest
      rw [show (b :: c :: r) ++ T = b :: ((c :: r) ++ T) from rfl, splitGo]
      simp only [hb, if_false]
      rw [this]; simp

/-- **Uniqueness of the cut**: any list of one-line pieces, optionally followed by a non-empty piece without
    newline, whose concatenation is `S`, *is* `S` cut after each newline. -/
theorem split_unique : ∀ (ls : List Bytes) (tail : Bytes), (∀ l ∈ ls, OneLine l) → NL ∉ tail →
    splitNL (ls.flatten ++ tail) = ls ++ (if tail.isEmpty then [] else [tail])
  | [], tail, _, ht => by simp [splitNL, splitGo_noNL tail [] ht]
  | l :: ls, tail, h, ht => by
      have hl := h l (by simp)
      have ih := split_unique ls tail (fun x hx => h x (by simp [hx])) ht
      simp only [splitNL, List.flatten_cons, List.append_assoc] at ih ⊢
      rw [splitGo_oneLine l [] _ hl, ih]; simp


theorem noNL_flatten {buf : List Bytes} (h : NoNL buf) : NL ∉ buf.flatten := by
  intro hm; obtain ⟨c, hc, hx⟩ := List.mem_flatten.mp hm; exact h c hc hx

/-- what one pass of the read loop can return, precisely -/
theorem go_kinds : ∀ (evs : List Ev) (buf : List Bytes), NoNL buf →
    match (go buf evs).1 with
    | .line l => OneLine l ∨ (NL ∉ l ∧ l ≠ [] ∧ (go buf evs).2.1 = [] ∧ (go buf evs).2.2.head? = some .eof)
    | .eofR => (go buf evs).2.1 = [] ∧ (go buf evs).2.2.head? = some .eof ∧
               buf.flatten ++ evBytes evs = evBytes (go buf evs).2.2
    | .empty => NoNL (go buf evs).2.1
  | [], buf, h => by simpa [go] using h
  | .again :: evs, buf, h => by simpa [go] using h
  | .eof :: evs, buf, h => by
      by_cases he : buf.flatten.isEmpty = true
      · have : buf.flatten = [] := by simpa using he
        simp only [go, he, if_true]
        simp [evBytes, this]
      · simp only [go, he, Bool.false_eq_true, if_false]
        right
        exact ⟨noNL_flatten h, by simpa using he, by simp⟩
  | .chunk b bs :: evs, buf, h => by
      have hok := bufOk_append_of_noNL h (b :: bs)
      by_cases he : (readlineBuf (buf ++ [b :: bs])).1.isEmpty = true
      · simp only [go, he, if_true]
        have he' : (readlineBuf (buf ++ [b :: bs])).1 = [] := by simpa using he
        obtain ⟨hno, heq⟩ := readlineBuf_empty_noNL hok he'
        rw [heq]
        have ih := go_kinds evs (buf ++ [b :: bs]) hno
        cases hr : (go (buf ++ [b :: bs]) evs).1 <;> simp only [hr] at ih ⊢
        · exact ih
        · exact ih
        · refine ⟨ih.1, ih.2.1, ?_⟩
          rw [← ih.2.2]; simp [evBytes]
      · simp only [go, he, Bool.false_eq_true, if_false]
        have hne' : (readlineBuf (buf ++ [b :: bs])).1 ≠ [] := by simpa using he
        obtain ⟨l1, l2, _⟩ := readlineBuf_line hok hne'
        exact Or.inl ⟨l1, l2⟩


def lineBytes : List Res → List Bytes
  | [] => []
  | .line l :: rs => l :: lineBytes rs
  | _ :: rs => lineBytes rs

theorem readlineSocket_kinds (buf : List Bytes) (evs : List Ev) (hok : BufOk buf) :
    match (readlineSocket buf evs).1 with
    | .line l => OneLine l ∨ (NL ∉ l ∧ l ≠ [] ∧ (readlineSocket buf evs).2.1 = [] ∧ (readlineSocket buf evs).2.2.head? = some .eof)
    | .eofR => (readlineSocket buf evs).2.1 = [] ∧ (readlineSocket buf evs).2.2.head? = some .eof
    | .empty => True := by
  by_cases he : (readlineBuf buf).1.isEmpty = true
  · have he' : (readlineBuf buf).1 = [] := by simpa using he
    obtain ⟨hno, _⟩ := readlineBuf_empty_noNL hok he'
    have := go_kinds evs buf hno
    simp only [readlineSocket, he, if_true]
    cases hr : (go buf evs).1 <;> simp only [hr] at this ⊢
    case line l => exact this
    case eofR => exact ⟨this.1, this.2.1⟩
  · have hne : (readlineBuf buf).1 ≠ [] := by simpa using he
    obtain ⟨l1, l2, _⟩ := readlineBuf_line hok hne
    simp only [readlineSocket, he, Bool.false_eq_true, if_false]
    exact Or.inl ⟨l1, l2⟩

theorem readlineSocket_bufOk (buf : List Bytes) (evs : List Ev) (hok : BufOk buf) :
    BufOk (readlineSocket buf evs).2.1 := by
  simp only [readlineSocket]
  split
  · rename_i he
    have he' : (readlineBuf buf).1 = [] := by simpa using he
    obtain ⟨hno, _⟩ := readlineBuf_empty_noNL hok he'
    exact (go_spec evs buf hno).2.1
  · rename_i hne
    have hne' : (readlineBuf buf).1 ≠ [] := by simpa using hne
    exact (readlineBuf_line hok hne').2.2

/-- once the stream has ended and the buffer is empty, every further call reports end-of-stream -/
theorem calls_after_eof (n : Nat) (es : List Ev) : lineBytes (calls n [] (.eof :: es)).1 = [] ∧
    (calls n [] (.eof :: es)).2.1 = [] ∧ (calls n [] (.eof :: es)).2.2 = .eof :: es := by
  induction n with
  | zero => simp [calls, lineBytes]
  | succ n ih =>
    have h1 : readlineSocket [] (.eof :: es) = (.eofR, [], .eof :: es) := by
      simp [readlineSocket, readlineBuf, go]
    simp only [calls, h1, lineBytes]
    exact ih

/-- shape of what any number of calls returns: one-line pieces, then at most one unterminated tail (delivered when
    the peer closes), after which nothing is buffered -/
theorem calls_shape (n : Nat) : ∀ (buf : List Bytes) (evs : List Ev), BufOk buf →
    ∃ (ls : List Bytes) (tail : Bytes), lineBytes (calls n buf evs).1 = ls ++ (if tail.isEmpty then [] else [tail]) ∧
      (∀ l ∈ ls, OneLine l) ∧ NL ∉ tail ∧ (tail ≠ [] → (calls n buf evs).2.1 = []) := by
  induction n with
  | zero => intro buf evs _; exact ⟨[], [], by simp [calls, lineBytes], by simp, by simp, by simp⟩
  | succ n ih =>
    intro buf evs hok
    have hok' := readlineSocket_bufOk buf evs hok
    have hk := readlineSocket_kinds buf evs hok
    simp only [calls]
    cases hr : (readlineSocket buf evs).1 with
    | empty =>
      obtain ⟨ls, tail, h1, h2, h3, h4⟩ := ih _ _ hok'
      exact ⟨ls, tail, by simpa [lineBytes] using h1, h2, h3, h4⟩
    | eofR =>
      obtain ⟨ls, tail, h1, h2, h3, h4⟩ := ih _ _ hok'
      exact ⟨ls, tail, by simpa [lineBytes] using h1, h2, h3, h4⟩
    | line l =>
      simp only [hr] at hk
      rcases hk with h1l | ⟨hn, hne, hb, hh⟩
      · obtain ⟨ls, tail, h1, h2, h3, h4⟩ := ih _ _ hok'
        refine ⟨l :: ls, tail, by simp [lineBytes, h1], ?_, h3, h4⟩
        intro x hx; rcases List.mem_cons.mp hx with rfl | hx
        · exact h1l
        · exact h2 x hx
      · -- the unterminated tail: afterwards only end-of-stream
        cases hev : (readlineSocket buf evs).2.2 with
        | nil => simp [hev] at hh
        | cons e es =>
          simp [hev] at hh; subst hh
          have := calls_after_eof n es
          refine ⟨[], l, ?_, by simp, hn, ?_⟩
          · simp [lineBytes, hb, hev, this.1, hne]
          · intro _
            have h2 := this.2.1
            rw [hb]; exact h2


theorem lineBytes_flatten : ∀ rs : List Res, (lineBytes rs).flatten = (rs.map Res.bytes).flatten
  | [] => rfl
  | .line l :: rs => by simp [lineBytes, Res.bytes, lineBytes_flatten rs]
  | .empty :: rs => by simp [lineBytes, Res.bytes, lineBytes_flatten rs]
  | .eofR :: rs => by simp [lineBytes, Res.bytes, lineBytes_flatten rs]

theorem calls_suffix (n : Nat) : ∀ (buf : List Bytes) (evs : List Ev), (calls n buf evs).2.2 <:+ evs := by
  induction n with
  | zero => intro buf evs; simp [calls]
  | succ n ih =>
    intro buf evs
    simp only [calls]
    exact (ih _ _).trans (readlineSocket_suffix buf evs)

/-- once end-of-stream has been reported nothing is buffered and the stream stays at its end -/
theorem calls_eofR_final (n : Nat) : ∀ (buf : List Bytes) (evs : List Ev), BufOk buf →
    Res.eofR ∈ (calls n buf evs).1 → (calls n buf evs).2.1 = [] ∧ (calls n buf evs).2.2.head? = some .eof := by
  induction n with
  | zero => intro buf evs _ h; simp [calls] at h
  | succ n ih =>
    intro buf evs hok h
    have hok' := readlineSocket_bufOk buf evs hok
    have hk := readlineSocket_kinds buf evs hok
    simp only [calls, List.mem_cons] at h ⊢
    cases hr : (readlineSocket buf evs).1 with
    | eofR =>
      simp only [hr] at hk
      cases hev : (readlineSocket buf evs).2.2 with
      | nil => simp [hev] at hk
      | cons e es =>
        have he : e = .eof := by simpa [hev] using hk.2
        subst he
        have := calls_after_eof n es
        rw [hk.1]
        exact ⟨this.2.1, by rw [this.2.2]; rfl⟩
    | line l =>
      rcases h with h | h
      · rw [hr] at h; cases h
      · exact ih _ _ hok' h
    | empty =>
      rcases h with h | h
      · rw [hr] at h; cases h
      · exact ih _ _ hok' h


theorem evBytes_append_eof : ∀ evs : List Ev, evBytes (evs ++ [.eof]) = evBytes evs
  | [] => by simp [evBytes]
  | .chunk b bs :: es => by simp [evBytes, evBytes_append_eof es]
  | .again :: es => by simp [evBytes, evBytes_append_eof es]
  | .eof :: es => by simp [evBytes, evBytes_append_eof es]

/-- a suffix of `evs ++ [eof]` that starts with `eof`, when `evs` holds no `eof`, is just `[eof]` -/
theorem suffix_eof_last : ∀ (evs pre es : List Ev), Ev.eof ∉ evs → pre ++ .eof :: es = evs ++ [.eof] → es = []
  | [], pre, es, _, h => by
      have := congrArg List.length h
      simp at this
      cases es with
      | nil => rfl
      | cons x xs => simp at this; omega
  | x :: xs, [], es, hne, h => by
      simp at h
      exact absurd (by simp [← h.1]) hne
  | x :: xs, p :: ps, es, hne, h => by
      simp at h
      exact suffix_eof_last xs ps es (fun hm => hne (by simp [hm])) h.2

end GscribModel.Socket

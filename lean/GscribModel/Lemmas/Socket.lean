import GscribModel.Model.Socket
/-! Helper lemmas for C17. -/
namespace GscribModel.Socket

/-! ### facts about findNL -/
theorem findNL_some_lt {bs : Bytes} {i : Nat} (h : findNL bs = some i) : i < bs.length := by
  induction bs generalizing i with
  | nil => simp [findNL] at h
  | cons b bs ih =>
    simp only [findNL] at h
    split at h
    · simp at h; simp; omega
    · cases hf : findNL bs with
      | none => simp [hf] at h
      | some j => simp [hf] at h; have := ih hf; simp; omega

theorem findNL_none {bs : Bytes} (h : findNL bs = none) : NL ∉ bs := by
  induction bs with
  | nil => simp
  | cons b bs ih =>
    simp only [findNL] at h
    split at h
    · simp at h
    · cases hf : findNL bs with
      | none => simp_all; omega
      | some j => simp [hf] at h

/-- the prefix up to and including the first newline: ends with NL, no NL before -/
theorem take_first_nl {bs : Bytes} {i : Nat} (h : findNL bs = some i) :
    (bs.take (i + 1)).getLast? = some NL ∧ NL ∉ (bs.take (i + 1)).dropLast := by
  induction bs generalizing i with
  | nil => simp [findNL] at h
  | cons b bs ih =>
    simp only [findNL] at h
    split at h
    · rename_i hb
      simp at h; subst h; simp [hb]
    · rename_i hb
      cases hf : findNL bs with
      | none => simp [hf] at h
      | some j =>
        simp [hf] at h; subst h
        obtain ⟨h1, h2⟩ := ih hf
        have hlen := findNL_some_lt hf
        have hne : bs.take (j + 1) ≠ [] := by
          intro e
          rcases List.take_eq_nil_iff.mp e with h0 | h0
          · omega
          · subst h0; simp at hlen
        constructor
        · rw [List.take_succ_cons, List.getLast?_cons_of_ne_nil hne] <;> exact h1
        · rw [List.take_succ_cons, List.dropLast_cons_of_ne_nil hne]
          simp only [List.mem_cons, not_or]
          exact ⟨fun e => hb e.symm, h2⟩

/-! ### buffer invariant -/
def BufOk (buf : List Bytes) : Prop := ∀ c ∈ buf.dropLast, NL ∉ c
def NoNL (buf : List Bytes) : Prop := ∀ c ∈ buf, NL ∉ c

theorem readlineBuf_conserve (buf : List Bytes) :
    (readlineBuf buf).1 ++ (readlineBuf buf).2.flatten = buf.flatten := by
  unfold readlineBuf
  cases hl : buf.getLast? with
  | none => simp
  | some chunk =>
    obtain ⟨ys, rfl⟩ := List.getLast?_eq_some_iff.mp hl
    cases hf : findNL chunk with
    | none => simp [hf]
    | some eol =>
      by_cases he : chunk.length ≤ eol + 1
      · have h1 : chunk.take (eol+1) = chunk := List.take_of_length_le he
        simp [hf, he, h1]
      · simp [hf, he]

theorem readlineBuf_empty_noNL {buf : List Bytes} (hok : BufOk buf) (he : (readlineBuf buf).1 = []) :
    NoNL buf ∧ (readlineBuf buf).2 = buf := by
  unfold readlineBuf at *
  cases hl : buf.getLast? with
  | none =>
    have : buf = [] := List.getLast?_eq_none_iff.mp hl
    subst this; simp [NoNL]
  | some chunk =>
    obtain ⟨ys, rfl⟩ := List.getLast?_eq_some_iff.mp hl
    cases hf : findNL chunk with
    | none =>
      refine ⟨?_, by simp [hf]⟩
      intro c hc
      simp only [List.mem_append, List.mem_singleton] at hc
      rcases hc with hc | rfl
      · exact hok c (by simpa using hc)
      · exact findNL_none hf
    | some eol =>
      simp [hf] at he
      have := findNL_some_lt hf
      obtain ⟨_, h2⟩ := he
      have : chunk = [] := by
        cases chunk with
        | nil => rfl
        | cons a as => simp at h2
      subst this; simp [findNL] at hf

/-- when `_readline_buf` returns a line it is exactly one line, and what stays buffered is a single chunk -/
theorem readlineBuf_line {buf : List Bytes} (hok : BufOk buf) (hne : (readlineBuf buf).1 ≠ []) :
    (readlineBuf buf).1.getLast? = some NL ∧ NL ∉ (readlineBuf buf).1.dropLast ∧ BufOk (readlineBuf buf).2 := by
  unfold readlineBuf at *
  cases hl : buf.getLast? with
  | none => simp [hl] at hne
  | some chunk =>
    obtain ⟨ys, rfl⟩ := List.getLast?_eq_some_iff.mp hl
    cases hf : findNL chunk with
    | none => simp [hf] at hne
    | some eol =>
      obtain ⟨t1, t2⟩ := take_first_nl hf
      have hlt := findNL_some_lt hf
      have htne : chunk.take (eol + 1) ≠ [] := by
        intro e
        rcases List.take_eq_nil_iff.mp e with h0 | h0
        · omega
        · subst h0; simp at hlt
      have hys : ∀ c ∈ ys, NL ∉ c := fun c hc => hok c (by simpa using hc)
      simp only [hf, List.dropLast_concat]
      refine ⟨?_, ?_, ?_⟩
      · rw [List.getLast?_append, t1]; simp
      · rw [List.dropLast_append_of_ne_nil htne]
        simp only [List.mem_append, List.mem_flatten, not_or, not_exists, not_and]
        exact ⟨fun c hc => hys c hc, t2⟩
      · split <;> simp [BufOk]

theorem bufOk_append_of_noNL {buf : List Bytes} (h : NoNL buf) (bs : Bytes) : BufOk (buf ++ [bs]) := by
  intro c hc; simp at hc; exact h c hc

/-! ### the loop -/
theorem go_spec : ∀ (evs : List Ev) (buf : List Bytes), NoNL buf →
    (go buf evs).1.bytes ++ (go buf evs).2.1.flatten ++ evBytes (go buf evs).2.2 = buf.flatten ++ evBytes evs
    ∧ BufOk (go buf evs).2.1
    ∧ (∀ l, (go buf evs).1 = .line l → (go buf evs).2.2.head? ≠ some .eof →
          l.getLast? = some NL ∧ NL ∉ l.dropLast)
  | [], buf, h => by
      refine ⟨by simp [go, Res.bytes, evBytes], fun c hc => h c (List.dropLast_subset _ hc), by simp [go]⟩
  | .again :: evs, buf, h => by
      refine ⟨by simp [go, Res.bytes, evBytes], fun c hc => h c (List.dropLast_subset _ hc), by simp [go]⟩
  | .eof :: evs, buf, h => by
      simp only [go]
      split
      · rename_i he
        have : buf.flatten = [] := by simpa using he
        refine ⟨by simp [Res.bytes, evBytes, this], by simp [BufOk], by simp⟩
      · refine ⟨by simp [Res.bytes, evBytes], by simp [BufOk], by simp⟩
  | .chunk b bs :: evs, buf, h => by
      simp only [go]
      have hok := bufOk_append_of_noNL h (b :: bs)
      have hcons := readlineBuf_conserve (buf ++ [b :: bs])
      split
      · rename_i he
        have he' : (readlineBuf (buf ++ [b :: bs])).1 = [] := by simpa using he
        obtain ⟨hno, heq⟩ := readlineBuf_empty_noNL hok he'
        rw [heq]
        have ih := go_spec evs (buf ++ [b :: bs]) hno
        refine ⟨?_, ih.2.1, ih.2.2⟩
        rw [ih.1]; simp [evBytes]
      · rename_i hne
        have hne' : (readlineBuf (buf ++ [b :: bs])).1 ≠ [] := by simpa using hne
        obtain ⟨l1, l2, l3⟩ := readlineBuf_line hok hne'
        refine ⟨?_, l3, ?_⟩
        · simp only [Res.bytes]
          rw [hcons]; simp [evBytes]
        · intro l hl _
          simp at hl; subst hl; exact ⟨l1, l2⟩

/-- no newline buffered ⇒ `_readline_buf` returns nothing -/
theorem readlineBuf_noNL_empty {buf : List Bytes} (h : NoNL buf) : (readlineBuf buf).1 = [] := by
  unfold readlineBuf
  cases hl : buf.getLast? with
  | none => simp
  | some chunk =>
    obtain ⟨ys, rfl⟩ := List.getLast?_eq_some_iff.mp hl
    cases hf : findNL chunk with
    | none => simp [hf]
    | some eol =>
      exfalso
      have hlt := findNL_some_lt hf
      obtain ⟨t1, _⟩ := take_first_nl hf
      have hm : NL ∈ chunk.take (eol + 1) := List.mem_of_getLast? t1
      exact h chunk (by simp) (List.mem_of_mem_take hm)

/-- the unread events after a call are a suffix of the script -/
theorem go_suffix : ∀ (evs : List Ev) (buf : List Bytes), (go buf evs).2.2 <:+ evs
  | [], buf => by simp [go]
  | .again :: evs, buf => by simp [go]
  | .eof :: evs, buf => by simp only [go]; split <;> simp
  | .chunk b bs :: evs, buf => by
      simp only [go]
      split
      · exact (go_suffix evs _).trans (List.suffix_cons _ _)
      · simp

theorem readlineSocket_suffix (buf : List Bytes) (evs : List Ev) : (readlineSocket buf evs).2.2 <:+ evs := by
  simp only [readlineSocket]; split
  · exact go_suffix evs buf
  · simp

end GscribModel.Socket

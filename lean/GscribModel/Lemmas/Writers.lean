import GscribModel.Model.Writers
/-! Helper lemmas for C14: UTF-8 round trip, one writer's view of a history (`wRun`), the
    per-writer invariant `SInv`. -/
namespace GscribModel.Writers

/-! ### UTF-8 round trip -/
theorem utf8Char_ne_nil (c : Nat) : 1 ≤ (utf8Char c).length := by
  unfold utf8Char; repeat' split
  all_goals simp

theorem decode_cons (c : Nat) (hc : validCp c = true) (rest : Bytes) (fuel : Nat) :
    utf8DecodeAux (fuel + 1) (utf8Char c ++ rest) = (utf8DecodeAux fuel rest).map (c :: ·) := by
  have hv : c < 0x110000 := by
    simp only [validCp, Bool.or_eq_true, Bool.and_eq_true, decide_eq_true_eq] at hc; omega
  by_cases h1 : c < 0x80
  · have e : utf8Char c = [c] := by simp [utf8Char, h1]
    have hl : seqLen c = 1 := by simp [seqLen, h1]
    rw [e]; simp only [List.cons_append, List.nil_append]
    have hcp : seqCp [c] = c := rfl
    rw [utf8DecodeAux]; simp only [hl]
    simp only [List.take_succ_cons, List.take_zero, List.drop_succ_cons, List.drop_zero, hcp, e, hc]
    simp
  · by_cases h2 : c < 0x800
    · have e : utf8Char c = [0xC0 + c / 64, 0x80 + c % 64] := by simp [utf8Char, h1, h2]
      have hl : seqLen (0xC0 + c / 64) = 2 := by
        have a1 : ¬ (0xC0 + c / 64 < 0x80) := by omega
        have a2 : ¬ (0xC0 + c / 64 < 0xC0) := by omega
        have a3 : 0xC0 + c / 64 < 0xE0 := by omega
        simp [seqLen, a1, a2, a3]
      have hcp : seqCp [0xC0 + c / 64, 0x80 + c % 64] = c := by
        show (0xC0 + c / 64 - 0xC0) * 64 + (0x80 + c % 64 - 0x80) = c; omega
      rw [e]; simp only [List.cons_append, List.nil_append]
      rw [utf8DecodeAux]; simp only [hl]
      simp only [List.take_succ_cons, List.take_zero, List.drop_succ_cons, List.drop_zero, hcp, e, hc]
      simp
    · by_cases h3 : c < 0x10000
      · have e : utf8Char c = [0xE0 + c / 4096, 0x80 + c / 64 % 64, 0x80 + c % 64] := by
          simp [utf8Char, h1, h2, h3]
        have hl : seqLen (0xE0 + c / 4096) = 3 := by
          have a1 : ¬ (0xE0 + c / 4096 < 0x80) := by omega
          have a2 : ¬ (0xE0 + c / 4096 < 0xC0) := by omega
          have a3 : ¬ (0xE0 + c / 4096 < 0xE0) := by omega
          have a4 : 0xE0 + c / 4096 < 0xF0 := by omega
          simp [seqLen, a1, a2, a3, a4]
        have hcp : seqCp [0xE0 + c / 4096, 0x80 + c / 64 % 64, 0x80 + c % 64] = c := by
          show (0xE0 + c / 4096 - 0xE0) * 4096 + (0x80 + c / 64 % 64 - 0x80) * 64 + (0x80 + c % 64 - 0x80) = c
          omega
        rw [e]; simp only [List.cons_append, List.nil_append]
        rw [utf8DecodeAux]; simp only [hl]
        simp only [List.take_succ_cons, List.take_zero, List.drop_succ_cons, List.drop_zero, hcp, e, hc]
        simp
      · have e : utf8Char c = [0xF0 + c / 262144, 0x80 + c / 4096 % 64, 0x80 + c / 64 % 64, 0x80 + c % 64] := by
          simp [utf8Char, h1, h2, h3]
        have hl : seqLen (0xF0 + c / 262144) = 4 := by
          have a1 : ¬ (0xF0 + c / 262144 < 0x80) := by omega
          have a2 : ¬ (0xF0 + c / 262144 < 0xC0) := by omega
          have a3 : ¬ (0xF0 + c / 262144 < 0xE0) := by omega
          have a4 : ¬ (0xF0 + c / 262144 < 0xF0) := by omega
          have a5 : 0xF0 + c / 262144 < 0xF8 := by omega
          simp [seqLen, a1, a2, a3, a4, a5]
        have hcp : seqCp [0xF0 + c / 262144, 0x80 + c / 4096 % 64, 0x80 + c / 64 % 64, 0x80 + c % 64] = c := by
          show (0xF0 + c / 262144 - 0xF0) * 262144 + (0x80 + c / 4096 % 64 - 0x80) * 4096
            + (0x80 + c / 64 % 64 - 0x80) * 64 + (0x80 + c % 64 - 0x80) = c
          omega
        rw [e]; simp only [List.cons_append, List.nil_append]
        rw [utf8DecodeAux]; simp only [hl]
        simp only [List.take_succ_cons, List.take_zero, List.drop_succ_cons, List.drop_zero, hcp, e, hc]
        simp

theorem length_le_utf8 (l : Line) : l.length ≤ (utf8 l).length := by
  induction l with
  | nil => simp [utf8]
  | cons c l ih =>
    have := utf8Char_ne_nil c
    simp only [utf8, List.flatMap_cons, List.length_append, List.length_cons] at *
    omega

theorem decodeAux_utf8 (l : Line) (hl : validLine l = true) : ∀ fuel, l.length ≤ fuel →
    utf8DecodeAux fuel (utf8 l) = some l := by
  induction l with
  | nil => intro fuel _; simp [utf8, utf8DecodeAux]
  | cons c l ih =>
    intro fuel hf
    simp only [validLine, List.all_cons, Bool.and_eq_true] at hl
    obtain ⟨fuel', rfl⟩ : ∃ f, fuel = f + 1 := ⟨fuel - 1, by simp at hf; omega⟩
    have : utf8 (c :: l) = utf8Char c ++ utf8 l := by simp [utf8]
    rw [this, decode_cons c hl.1, ih (by simpa [validLine] using hl.2) fuel' (by simp at hf; omega)]
    rfl

/-- `bytes(line, "utf-8").decode("utf-8") == line` -/
theorem utf8Decode_utf8 (l : Line) (hl : validLine l = true) : utf8Decode (utf8 l) = some l :=
  decodeAux_utf8 l hl _ (length_le_utf8 l)

theorem decoded_utf8 (l : Line) (hl : validLine l = true) : decoded (utf8 l) = l := by
  simp [decoded, utf8Decode_utf8 l hl]

/-! ### one writer's view -/

/-- what operation `op` does to the writer object `me`, registered (`r`) or not -/
def wStep (me : Nat) (r : Bool) : Op → W → W
  | .write l, x => if r && validLine l then x.write (utf8 l) else x
  | .flush, x => if r then x.flush else x
  | .teardown, x => if r then x.disconnect else x
  | .disc i, x => if me = i then x.disconnect else x
  | _, x => x

def wRun (me : Nat) : Bool → List Op → W → W
  | _, [], x => x
  | r, op :: ops, x => wRun me (regStep me r op) ops (wStep me r op x)

theorem step_ws (s : St) (op : Op) (w : Nat) :
    (step s op).ws w = wStep w (decide (w ∈ s.reg)) op (s.ws w) := by
  cases op with
  | add i => simp only [step, wStep]; split <;> rfl
  | remove i => simp only [step, wStep]; split <;> rfl
  | write l =>
    simp only [step, wStep]
    by_cases hv : validLine l = true <;> by_cases hw : w ∈ s.reg <;> simp [hv, hw]
  | flush => simp only [step, wStep]; by_cases hw : w ∈ s.reg <;> simp [hw]
  | teardown => simp only [step, wStep]; by_cases hw : w ∈ s.reg <;> simp [hw]
  | disc i => simp only [step, wStep]

theorem step_nodup (s : St) (op : Op) (h : s.reg.Nodup) : (step s op).reg.Nodup := by
  cases op with
  | add i =>
    simp only [step]; split
    · exact h
    · rename_i hi
      exact List.nodup_append.mpr ⟨h, by simp, by intro a ha b hb; simp at hb; subst hb; exact fun e => hi (e ▸ ha)⟩
  | remove i =>
    simp only [step]; split
    · exact h.erase _
    · exact h
  | write l => simp only [step]; split <;> exact h
  | flush => exact h
  | teardown => simp [step]
  | disc i => exact h

theorem step_reg (s : St) (op : Op) (w : Nat) (h : s.reg.Nodup) :
    decide (w ∈ (step s op).reg) = regStep w (decide (w ∈ s.reg)) op := by
  cases op with
  | add i =>
    simp only [step, regStep]
    by_cases hi : i ∈ s.reg
    · simp only [hi, if_true]
      by_cases e : i = w
      · subst e; simp [hi]
      · simp [e]
    · simp only [hi, if_false, List.mem_append, List.mem_singleton]
      by_cases e : i = w
      · subst e; simp
      · have : w ≠ i := fun x => e x.symm
        simp [e, this]
  | remove i =>
    simp only [step, regStep]
    by_cases hi : i ∈ s.reg
    · simp only [hi, if_true]
      by_cases e : i = w
      · subst e; simp [h.mem_erase_iff]
      · have : w ≠ i := fun x => e x.symm
        simp [h.mem_erase_iff, this, e]
    · simp only [hi, if_false]
      by_cases e : i = w
      · subst e; simp [hi]
      · simp [e]
  | write l => simp only [step, regStep]; split <;> rfl
  | flush => rfl
  | teardown => simp [step, regStep]
  | disc i => rfl

theorem run_nodup (ops : List Op) : ∀ s : St, s.reg.Nodup → (run s ops).reg.Nodup := by
  induction ops with
  | nil => intro s h; exact h
  | cons op ops ih => intro s h; exact ih _ (step_nodup s op h)

theorem run_ws (ops : List Op) : ∀ (s : St) (w : Nat), s.reg.Nodup →
    (run s ops).ws w = wRun w (decide (w ∈ s.reg)) ops (s.ws w)
    ∧ decide (w ∈ (run s ops).reg) = regAfter w (decide (w ∈ s.reg)) ops := by
  induction ops with
  | nil => intro s w _; exact ⟨rfl, rfl⟩
  | cons op ops ih =>
    intro s w h
    have := ih (step s op) w (step_nodup s op h)
    simp only [run, List.foldl_cons, wRun, regAfter] at *
    rw [step_ws, step_reg s op w h] at this
    exact this

/-! ### what a writer receives -/

theorem write_recv (x : W) (b : Bytes) : (x.write b).recv = x.recv ++ [b] := by
  obtain ⟨kind, tty, isOpen, data, text, dirty, closed, discs, recv, sess⟩ := x
  cases kind <;> cases isOpen <;> simp [W.write, W.connect]

theorem flush_recv (x : W) : x.flush.recv = x.recv := by
  obtain ⟨kind, tty, isOpen, data, text, dirty, closed, discs, recv, sess⟩ := x
  cases kind <;> cases isOpen <;> simp [W.flush]

theorem disconnect_recv (x : W) : x.disconnect.recv = x.recv := by
  obtain ⟨kind, tty, isOpen, data, text, dirty, closed, discs, recv, sess⟩ := x
  cases kind <;> cases isOpen <;> simp [W.disconnect]

theorem wStep_recv (me : Nat) (r : Bool) (op : Op) (x : W) :
    (wStep me r op x).recv = x.recv ++ (emitted r op).map utf8 := by
  cases op with
  | write l =>
    simp only [wStep, emitted]
    split <;> simp [write_recv]
  | flush => simp only [wStep, emitted]; split <;> simp [flush_recv]
  | teardown => simp only [wStep, emitted]; split <;> simp [disconnect_recv]
  | disc i => simp only [wStep, emitted]; split <;> simp [disconnect_recv]
  | add i => simp [wStep, emitted]
  | remove i => simp [wStep, emitted]

theorem wRun_recv (me : Nat) (ops : List Op) : ∀ (r : Bool) (x : W),
    (wRun me r ops x).recv = x.recv ++ (written me r ops).map utf8 := by
  induction ops with
  | nil => intro r x; simp [wRun, written]
  | cons op ops ih =>
    intro r x
    simp only [wRun, written, ih, wStep_recv, List.map_append, List.append_assoc]

theorem written_valid (me : Nat) (ops : List Op) : ∀ (r : Bool), ∀ l ∈ written me r ops, validLine l = true := by
  induction ops with
  | nil => intro r l h; simp [written] at h
  | cons op ops ih =>
    intro r l h
    simp only [written, List.mem_append] at h
    rcases h with h | h
    · cases op <;> simp [emitted] at h
      obtain ⟨⟨_, hv⟩, rfl⟩ := h; exact hv
    · exact ih _ l h

/-! ### the per-writer invariant -/

structure SInv (x : W) : Prop where
  data_eq : x.kind ≠ .text → x.data = x.sess.flatten
  text_eq : x.kind = .text → x.text = x.sess.flatMap decoded
  suffix : ∃ pre, x.recv = pre ++ x.sess
  stream : x.kind ≠ .path → x.sess = x.recv
  closedClean : x.isOpen = false → x.dirty = false
  notClosed : x.kind ≠ .path → x.closed = false
  custom : x.kind = .custom → x.dirty = false ∧ x.isOpen = false
  ttyClean : x.tty = true → x.kind ≠ .path → x.dirty = false

theorem SInv_fresh (k : Kind) (t : Bool) : SInv { kind := k, tty := t } := by
  constructor <;> simp

theorem write_SInv (x : W) (b : Bytes) (h : SInv x) : SInv (x.write b) := by
  obtain ⟨kind, tty, isOpen, data, text, dirty, closed, discs, recv, sess⟩ := x
  obtain ⟨h1, h2, ⟨pre, h3⟩, h4, h5, h6, h7, h8⟩ := h
  cases kind <;> cases isOpen <;> simp_all [W.write, W.connect] <;> constructor <;> simp_all
  exact ⟨pre ++ sess, by simp⟩

theorem flush_SInv (x : W) (h : SInv x) : SInv x.flush := by
  obtain ⟨kind, tty, isOpen, data, text, dirty, closed, discs, recv, sess⟩ := x
  obtain ⟨h1, h2, ⟨pre, h3⟩, h4, h5, h6, h7, h8⟩ := h
  cases kind <;> cases isOpen <;> constructor <;> simp_all [W.flush]

theorem disconnect_SInv (x : W) (h : SInv x) : SInv x.disconnect := by
  obtain ⟨kind, tty, isOpen, data, text, dirty, closed, discs, recv, sess⟩ := x
  obtain ⟨h1, h2, ⟨pre, h3⟩, h4, h5, h6, h7, h8⟩ := h
  cases kind <;> cases isOpen <;> constructor <;> simp_all [W.disconnect]

theorem wStep_SInv (me : Nat) (r : Bool) (op : Op) (x : W) (h : SInv x) : SInv (wStep me r op x) := by
  cases op with
  | write l =>
    simp only [wStep]; split
    · exact write_SInv _ _ h
    · exact h
  | flush =>
    simp only [wStep]; split
    · exact flush_SInv _ h
    · exact h
  | teardown =>
    simp only [wStep]; split
    · exact disconnect_SInv _ h
    · exact h
  | disc i =>
    simp only [wStep]; split
    · exact disconnect_SInv _ h
    · exact h
  | add i => exact h
  | remove i => exact h

theorem wRun_SInv (me : Nat) (ops : List Op) : ∀ (r : Bool) (x : W), SInv x → SInv (wRun me r ops x) := by
  induction ops with
  | nil => intro r x h; exact h
  | cons op ops ih => intro r x h; exact ih _ _ (wStep_SInv me r op x h)

theorem write_kind (x : W) (b : Bytes) : (x.write b).kind = x.kind ∧ (x.write b).tty = x.tty := by
  obtain ⟨kind, tty, isOpen, data, text, dirty, closed, discs, recv, sess⟩ := x
  cases kind <;> cases isOpen <;> simp [W.write, W.connect]

theorem flush_kind (x : W) : x.flush.kind = x.kind ∧ x.flush.tty = x.tty := by
  obtain ⟨kind, tty, isOpen, data, text, dirty, closed, discs, recv, sess⟩ := x
  cases kind <;> cases isOpen <;> simp [W.flush]

theorem disconnect_kind (x : W) : x.disconnect.kind = x.kind ∧ x.disconnect.tty = x.tty := by
  obtain ⟨kind, tty, isOpen, data, text, dirty, closed, discs, recv, sess⟩ := x
  cases kind <;> cases isOpen <;> simp [W.disconnect]

theorem wStep_kind (me : Nat) (r : Bool) (op : Op) (x : W) :
    (wStep me r op x).kind = x.kind ∧ (wStep me r op x).tty = x.tty := by
  cases op with
  | write l => simp only [wStep]; split <;> simp [write_kind]
  | flush => simp only [wStep]; split <;> simp [flush_kind]
  | teardown => simp only [wStep]; split <;> simp [disconnect_kind]
  | disc i => simp only [wStep]; split <;> simp [disconnect_kind]
  | add i => simp [wStep]
  | remove i => simp [wStep]

theorem wRun_kind (me : Nat) (ops : List Op) : ∀ (r : Bool) (x : W),
    (wRun me r ops x).kind = x.kind ∧ (wRun me r ops x).tty = x.tty := by
  induction ops with
  | nil => intro r x; simp [wRun]
  | cons op ops ih =>
    intro r x
    simp only [wRun]
    rw [(ih _ _).1, (ih _ _).2]; exact wStep_kind me r op x

theorem run_append (s : St) (ops : List Op) (op : Op) : run s (ops ++ [op]) = step (run s ops) op := by
  simp [run, List.foldl_append]

/-- the whole state reached from unused writers satisfies the invariant and the list is duplicate-free -/
theorem run_init (cfg : Nat → Kind × Bool) (ops : List Op) (w : Nat) :
    SInv ((run (St.init cfg) ops).ws w) ∧ (run (St.init cfg) ops).reg.Nodup
    ∧ ((run (St.init cfg) ops).ws w).kind = (cfg w).1 := by
  have hn : (St.init cfg).reg.Nodup := by simp [St.init]
  refine ⟨?_, run_nodup ops _ hn, ?_⟩
  · rw [(run_ws ops (St.init cfg) w hn).1]
    exact wRun_SInv _ _ _ _ (SInv_fresh _ _)
  · rw [(run_ws ops (St.init cfg) w hn).1, (wRun_kind _ _ _ _).1]; rfl

/-- decoding what was encoded, line by line -/
theorem flatMap_decoded_utf8 (ls : List Line) (h : ∀ l ∈ ls, validLine l = true) :
    (ls.map utf8).flatMap decoded = ls.flatten := by
  induction ls with
  | nil => rfl
  | cons l ls ih =>
    simp only [List.map_cons, List.flatMap_cons, List.flatten_cons]
    rw [decoded_utf8 l (h l (by simp)), ih (fun l hl => h l (by simp [hl]))]

end GscribModel.Writers

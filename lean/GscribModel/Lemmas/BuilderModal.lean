import GscribModel.Lemmas.Builder
/-! Helper lemmas for C07: association-list facts about `Params`, the relation `Mirror` between a builder and
    the modal interpreter, and how `track` / `trackFS` move together. -/
namespace GscribModel.Builder

theorem Params.get_set (ps : Params) (k k' : String) (v : OQ) :
    (ps.set k v).get k' = if k' = k then v else ps.get k' := by
  unfold Params.set Params.get
  by_cases hany : ps.any (fun e => e.1 == k) = true
  · simp only [hany, if_true]
    rw [List.find?_map]
    have hcomp : ((fun x : String × OQ => x.1 == k') ∘ fun e : String × OQ => if (e.1 == k) = true then (k, v) else e)
        = fun x => x.1 == k' := by
      funext e; simp only [Function.comp]; split
      · rename_i h; simp only [beq_iff_eq] at h; simp [h]
      · rfl
    rw [hcomp]
    by_cases hk : k' = k
    · subst hk
      simp only [if_true]
      obtain ⟨e, he, hek⟩ := List.any_eq_true.mp hany
      cases hf : ps.find? (fun x => x.1 == k') with
      | none => have := List.find?_eq_none.mp hf e he; simp_all
      | some e' =>
        have := List.find?_some hf
        simp_all
    · simp only [hk, if_false]
      cases hf : ps.find? (fun x => x.1 == k') with
      | none => simp
      | some e' =>
        have h1 := List.find?_some hf
        simp only [beq_iff_eq] at h1
        have : ¬ e'.1 = k := by rw [h1]; exact hk
        simp [this]
  · simp only [hany, Bool.false_eq_true, if_false]
    rw [List.find?_append]
    have hnone : ∀ e ∈ ps, ¬ (e.1 == k) = true := by
      intro e he h; exact hany (List.any_eq_true.mpr ⟨e, he, h⟩)
    by_cases hk : k' = k
    · subst hk
      have : ps.find? (fun x => x.1 == k') = none := List.find?_eq_none.mpr hnone
      simp [this]
    · cases hf : ps.find? (fun x => x.1 == k') with
      | none => have : ¬ k = k' := fun h => hk h.symm
                simp [hk, this]
      | some e' => simp [hk]

theorem Params.update_cons (p : Params) (e : String × OQ) (u : Params) :
    p.update (e :: u) = (p.set e.1 e.2).update u := rfl

theorem Params.update_append (p u w : Params) : p.update (u ++ w) = (p.update u).update w := by
  simp [Params.update, List.foldl_append]

/-- the value found after an update depends only on the value found before -/
theorem Params.get_update_congr (u : Params) : ∀ (p q : Params) (k : String), p.get k = q.get k →
    (p.update u).get k = (q.update u).get k := by
  induction u with
  | nil => intro p q k h; simpa [Params.update] using h
  | cons e es ih =>
    intro p q k h
    rw [Params.update_cons, Params.update_cons]
    apply ih
    rw [Params.get_set, Params.get_set, h]

theorem Params.get_update_other (w : Params) : ∀ (p : Params) (k : String), (∀ e ∈ w, e.1 ≠ k) →
    (p.update w).get k = p.get k := by
  induction w with
  | nil => intro p k _; simp [Params.update]
  | cons e es ih =>
    intro p k h
    rw [Params.update_cons, ih _ _ (fun e' he' => h e' (by simp [he'])), Params.get_set]
    have : ¬ k = e.1 := fun hh => h e (by simp) hh.symm
    simp [this]

def nonAxis (k : String) : Prop := k ≠ "X" ∧ k ≠ "Y" ∧ k ≠ "Z"

theorem params_commit_mirror (bp mp : Params) (req : Pt) (ps : List (String × Rat))
    (h : ∀ k, nonAxis k → bp.get k = mp.get k) :
    ∀ k, nonAxis k → (bp.update (toParams req ps)).get k = (mp.update (wordsAsParams ps)).get k := by
  intro k hk
  obtain ⟨hx, hy, hz⟩ := hk
  unfold toParams
  rw [Params.update_append, Params.get_update_other]
  · exact Params.get_update_congr _ _ _ _ (h k ⟨hx, hy, hz⟩)
  · intro e he
    simp at he
    rcases he with rfl | rfl | rfl <;> simp <;> intro h' <;> simp_all

/-- what the state object reports equals what a modal interpreter derives from the emitted lines -/
structure Mirror (b : B) (ms : ModalSt) : Prop where
  tool : b.toolActive = ms.tool
  /-- the running tool was started with the code of the spin mode (`tool_on`) or of the power mode (`power_on`) -/
  start : b.toolActive = true →
    (ms.startCode = some b.spin.code ∧ (b.spin = .cw ∨ b.spin = .ccw)) ∨
    (ms.startCode = some b.pmode.code ∧ (b.pmode = .constant ∨ b.pmode = .dynamic))
  power : b.toolActive = true → b.power = ms.power
  coolOn : b.coolActive = ms.coolCode.isSome
  coolCode : b.coolActive = true → ms.coolCode = some b.cool.code
  tnum : (b.toolNumber : Rat) = ms.toolNumber
  feed : b.feed = ms.feed
  rel : b.rel = ms.rel
  srel : b.srel = ms.rel
  erel : b.erel = ms.erel
  fmode : b.fmode = ms.fmode
  inches : b.inches = ms.inches
  plane : b.plane = ms.plane
  bed : b.bed = ms.bed
  hotend : b.hotend = ms.hotend
  chamber : b.chamber = ms.chamber
  params : ∀ k, nonAxis k → b.params.get k = ms.params.get k

@[simp] theorem track_feed (b : B) (ps) :
    (b.track ps).feed = (match lookupQ ps "F" with | some f => f | none => b.feed) := by
  unfold B.track; split <;> split <;> simp_all
@[simp] theorem track_power (b : B) (ps) :
    (b.track ps).power = (match lookupQ ps "S" with | some f => f | none => b.power) := by
  unfold B.track; split <;> split <;> simp_all
@[simp] theorem trackFS_feed (ms : ModalSt) (ps) :
    (ms.trackFS ps).feed = (match lookupQ ps "F" with | some f => f | none => ms.feed) := by
  unfold ModalSt.trackFS; split <;> split <;> simp_all
@[simp] theorem trackFS_power (ms : ModalSt) (ps) :
    (ms.trackFS ps).power = (match lookupQ ps "S" with | some f => f | none => ms.power) := by
  unfold ModalSt.trackFS; split <;> split <;> simp_all

set_option linter.unusedSimpArgs false

theorem track_other (b : B) (ps) : (b.track ps).spin = b.spin ∧ (b.track ps).pmode = b.pmode ∧ (b.track ps).cool = b.cool ∧
    (b.track ps).toolNumber = b.toolNumber ∧ (b.track ps).erel = b.erel ∧ (b.track ps).fmode = b.fmode ∧
    (b.track ps).inches = b.inches ∧ (b.track ps).plane = b.plane ∧ (b.track ps).bed = b.bed ∧
    (b.track ps).hotend = b.hotend ∧ (b.track ps).chamber = b.chamber ∧ (b.track ps).params = b.params := by
  unfold B.track; split <;> split <;> simp
theorem trackFS_other (m : ModalSt) (ps) : (m.trackFS ps).tool = m.tool ∧ (m.trackFS ps).startCode = m.startCode ∧
    (m.trackFS ps).coolCode = m.coolCode ∧ (m.trackFS ps).toolNumber = m.toolNumber ∧ (m.trackFS ps).rel = m.rel ∧
    (m.trackFS ps).erel = m.erel ∧ (m.trackFS ps).fmode = m.fmode ∧ (m.trackFS ps).inches = m.inches ∧
    (m.trackFS ps).plane = m.plane ∧ (m.trackFS ps).bed = m.bed ∧ (m.trackFS ps).hotend = m.hotend ∧
    (m.trackFS ps).chamber = m.chamber ∧ (m.trackFS ps).params = m.params := by
  unfold ModalSt.trackFS; split <;> split <;> simp

/-- a motion-family statement with tracked F/S: the generic step -/
theorem mirror_tracked (b : B) (ms : ModalSt) (h : Mirror b ms) (c : Code)
    (hc : c = .G0 ∨ c = .G1 ∨ c = .G38_2 ∨ c = .G38_3 ∨ c = .G38_4 ∨ c = .G38_5)
    (tgt req ax : Pt) (ps : List (String × Rat)) :
    Mirror ((b.track ps).commitAxes tgt req ps) (ms.exec { codes := [c], ax := ax, words := ps }) := by
  have to := track_other b ps
  have fo := trackFS_other ms ps
  obtain ⟨t1, t2, t3, t4, t5, t6, t7, t8, t9, t10, t11, t12⟩ := to
  obtain ⟨f1, f2, f3, f4, f5, f6, f7, f8, f9, f10, f11, f12, f13⟩ := fo
  have hexec : ms.exec { codes := [c], ax := ax, words := ps } =
      { ms.trackFS ps with params := ms.params.update (wordsAsParams ps) } := by
    rcases hc with rfl | rfl | rfl | rfl | rfl | rfl <;> rfl
  rw [hexec]
  constructor
  all_goals simp only [B.commitAxes, track_toolActive, track_coolActive, track_rel, track_srel, track_feed, track_power,
    trackFS_feed, trackFS_power, t1, t2, t3, t4, t5, t6, t7, t8, t9, t10, t11, t12, f1, f2, f3, f4, f5, f6, f7, f8, f9, f10, f11, f12]
  · exact h.tool
  · exact h.start
  · intro ha; rw [h.power ha]
  · exact h.coolOn
  · exact h.coolCode
  · exact h.tnum
  · rw [h.feed]
  · exact h.rel
  · exact h.srel
  · exact h.erel
  · exact h.fmode
  · exact h.inches
  · exact h.plane
  · exact h.bed
  · exact h.hotend
  · exact h.chamber
  · exact params_commit_mirror _ _ _ _ h.params

theorem mirror_paramsOnly (b : B) (ms : ModalSt) (h : Mirror b ms) (c : Code) (hc : c = .G92 ∨ c = .G28)
    (tgt req ax : Pt) (ps : List (String × Rat)) :
    Mirror (b.commitAxes tgt req ps) (ms.exec { codes := [c], ax := ax, words := ps }) := by
  have hexec : ms.exec { codes := [c], ax := ax, words := ps } =
      { ms with params := ms.params.update (wordsAsParams ps) } := by
    rcases hc with rfl | rfl <;> rfl
  rw [hexec]
  constructor
  all_goals simp only [B.commitAxes]
  · exact h.tool
  · exact h.start
  · exact h.power
  · exact h.coolOn
  · exact h.coolCode
  · exact h.tnum
  · exact h.feed
  · exact h.rel
  · exact h.srel
  · exact h.erel
  · exact h.fmode
  · exact h.inches
  · exact h.plane
  · exact h.bed
  · exact h.hotend
  · exact h.chamber
  · exact params_commit_mirror _ _ _ _ h.params

theorem mirror_mode (b : B) (ms : ModalSt) (h : Mirror b ms) (r : Bool) :
    Mirror { b with rel := r, srel := r } (ms.exec (modeStmt r)) := by
  have hexec : ms.exec (modeStmt r) = { ms with rel := r } := by cases r <;> rfl
  rw [hexec]
  exact ⟨h.tool, h.start, h.power, h.coolOn, h.coolCode, h.tnum, h.feed, rfl, rfl, h.erel, h.fmode, h.inches, h.plane,
    h.bed, h.hotend, h.chamber, h.params⟩

theorem mirror_ctx (b : B) (ms : ModalSt) (h : Mirror b ms) (c : List Bool) : Mirror { b with ctx := c } ms :=
  ⟨h.tool, h.start, h.power, h.coolOn, h.coolCode, h.tnum, h.feed, h.rel, h.srel, h.erel, h.fmode, h.inches, h.plane,
    h.bed, h.hotend, h.chamber, h.params⟩

theorem mirror_move (b : B) (ms : ModalSt) (h : Mirror b ms) (rapid : Bool) (vp : VPt) (vps : VParams) (hh : Rat) :
    Mirror (stepMove b rapid vp vps hh).b (ms.run (stepMove b rapid vp vps hh).stmts) := by
  simp only [stepMove, reject, accept]
  (repeat' split) <;> (try exact h) <;>
    (simp only [ModalSt.run, List.foldl]; apply mirror_tracked _ _ h; simp)

theorem mirror_probe (b : B) (ms : ModalSt) (h : Mirror b ms) (m : ProbeArg) (vp : VPt) (vps : VParams) :
    Mirror (stepProbe b m vp vps).b (ms.run (stepProbe b m vp vps).stmts) := by
  simp only [stepProbe, reject, accept]
  (repeat' split) <;> (try exact h) <;>
    (simp only [ModalSt.run, List.foldl]; apply mirror_tracked _ _ h; cases m <;> simp_all [ProbeArg.code])

theorem mirror_setAxis (b : B) (ms : ModalSt) (h : Mirror b ms) (vp : VPt) (vps : VParams) :
    Mirror (stepSetAxis b vp vps).b (ms.run (stepSetAxis b vp vps).stmts) := by
  simp only [stepSetAxis, reject, accept]
  (repeat' split) <;> (try exact h) <;>
    (simp only [ModalSt.run, List.foldl]; apply mirror_paramsOnly _ _ h; simp)

theorem mirror_home (b : B) (ms : ModalSt) (h : Mirror b ms) (vp : VPt) (vps : VParams) :
    Mirror (stepHome b vp vps).b (ms.run (stepHome b vp vps).stmts) := by
  simp only [stepHome, reject, accept]
  (repeat' split) <;> (try exact h) <;>
    (simp only [ModalSt.run, List.foldl]; apply mirror_paramsOnly _ _ h; simp)

theorem mirror_moveAbs (b : B) (ms : ModalSt) (h : Mirror b ms) (rapid : Bool) (vp : VPt) (vps : VParams) (hh : Rat) :
    Mirror (stepMoveAbs b rapid vp vps hh).b (ms.run (stepMoveAbs b rapid vp vps hh).stmts) := by
  have hA := mirror_mode b ms h false
  simp only [stepMoveAbs, reject, accept]
  split
  · split
    · exact h
    · split
      · exact h
      · split
        · split
          · rename_i hrel
            simp only [ModalSt.run, List.foldl]
            have := mirror_mode _ _ hA true
            have hs : b.srel = true := by rw [h.srel, ← h.rel]; exact hrel
            have hb : ({ b with rel := true, srel := true } : B) = b := by cases b; simp_all
            simp only at this; rw [hb] at this; exact this
          · exact h
        · split
          · split
            · rename_i hrel
              simp only [ModalSt.run, List.foldl]
              have := mirror_mode _ _ hA true
              have hs : b.srel = true := by rw [h.srel, ← h.rel]; exact hrel
              have hb : ({ b with rel := true, srel := true } : B) = b := by cases b; simp_all
              simp only at this; rw [hb] at this; exact this
            · exact h
          · split
            · simp only [ModalSt.run, List.foldl]
              have h2 := mirror_tracked _ _ hA (if rapid then Code.G0 else Code.G1) (by cases rapid <;> simp)
              exact mirror_mode _ _ (h2 _ _ _ _) true
            · rename_i hrel
              simp only [ModalSt.run, List.foldl]
              have hb : b.rel = false := by simpa using hrel
              have hs : b.srel = false := by rw [h.srel, ← h.rel]; exact hb
              have h2 := mirror_tracked b ms h (if rapid then Code.G0 else Code.G1) (by cases rapid <;> simp)
              have : ({ b with rel := false, srel := false } : B) = b := by cases b; simp_all
              rw [this]
              exact h2 _ _ _ _
  · exact h

theorem mirror_bed (b : B) (ms : ModalSt) (h : Mirror b ms) (t : OQ) : Mirror { b with bed := t } { ms with bed := t } :=
  ⟨h.tool, h.start, h.power, h.coolOn, h.coolCode, h.tnum, h.feed, h.rel, h.srel, h.erel, h.fmode, h.inches, h.plane,
    rfl, h.hotend, h.chamber, h.params⟩
theorem mirror_hotend (b : B) (ms : ModalSt) (h : Mirror b ms) (t : OQ) : Mirror { b with hotend := t } { ms with hotend := t } :=
  ⟨h.tool, h.start, h.power, h.coolOn, h.coolCode, h.tnum, h.feed, h.rel, h.srel, h.erel, h.fmode, h.inches, h.plane,
    h.bed, rfl, h.chamber, h.params⟩
theorem mirror_chamber (b : B) (ms : ModalSt) (h : Mirror b ms) (t : OQ) : Mirror { b with chamber := t } { ms with chamber := t } :=
  ⟨h.tool, h.start, h.power, h.coolOn, h.coolCode, h.tnum, h.feed, h.rel, h.srel, h.erel, h.fmode, h.inches, h.plane,
    h.bed, h.hotend, rfl, h.params⟩

theorem haltTemp_eq (ps) : haltTemp ps = firstTemp ps := rfl

theorem mirror_halt (b : B) (ms : ModalSt) (h : Mirror b ms) (m : HaltArg) (vps : VParams) :
    Mirror (stepHalt b m vps).b (ms.run (stepHalt b m vps).stmts) := by
  simp only [stepHalt, reject, accept]
  split
  · exact h
  · split
    · exact h
    · split
      · exact h
      · split
        · exact h
        · rename_i ps _
          cases m <;> simp only [HaltArg.kind, HaltArg.code, ModalSt.run] <;>
            (try (simp only [List.foldl]; exact h)) <;>
            (split
             · exact h
             · cases ht : haltTemp ps <;>
                 simp only [List.foldl, ModalSt.exec, ModalSt.execCode, ← haltTemp_eq, ht] <;>
                 first | exact h | exact mirror_bed _ _ h _ | exact mirror_hotend _ _ h _ | exact mirror_chamber _ _ h _)

theorem mirror_other (b : B) (ms : ModalSt) (h : Mirror b ms) (op : Op) (hm : motionOp op = false) :
    Mirror (step b op).b (ms.run (step b op).stmts) := by
  cases op <;> simp only [motionOp] at hm <;> (try contradiction)
  case toolOn m v =>
    cases m <;> simp only [step, reject, accept] <;> (repeat' split) <;> (try exact h) <;>
    (obtain ⟨h1, h2, h3, h4, h5, h6, h7, h8, h9, h10, h11, h12, h13, h14, h15, h16, h17⟩ := h
     constructor <;> simp_all [ModalSt.run, ModalSt.exec, ModalSt.execCode, ModalSt.trackFS, lookupQ, SpinArg.code])
  case powerOn m v =>
    cases m <;> simp only [step, reject, accept] <;> (repeat' split) <;> (try exact h) <;>
    (obtain ⟨h1, h2, h3, h4, h5, h6, h7, h8, h9, h10, h11, h12, h13, h14, h15, h16, h17⟩ := h
     constructor <;> simp_all [ModalSt.run, ModalSt.exec, ModalSt.execCode, ModalSt.trackFS, lookupQ, PowerArg.code])
  case coolOn m =>
    cases m <;> simp only [step, reject, accept] <;> (repeat' split) <;> (try exact h) <;>
    (obtain ⟨h1, h2, h3, h4, h5, h6, h7, h8, h9, h10, h11, h12, h13, h14, h15, h16, h17⟩ := h
     constructor <;> simp_all [ModalSt.run, ModalSt.exec, ModalSt.execCode, CoolArg.code])
  case halt m ps => exact mirror_halt b ms h m ps
  all_goals
    simp only [step, stepToolOff, stepPowerOff, stepCoolOff, reject, accept] <;> (repeat' split) <;> (try exact h) <;>
    (obtain ⟨h1, h2, h3, h4, h5, h6, h7, h8, h9, h10, h11, h12, h13, h14, h15, h16, h17⟩ := h
     constructor <;> simp_all [ModalSt.run, ModalSt.exec, ModalSt.execCode, ModalSt.trackFS, lookupQ, firstTemp] <;> omega)
end GscribModel.Builder

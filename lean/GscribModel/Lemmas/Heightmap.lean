import GscribModel.Model.Heightmap
import Mathlib.Tactic.Linarith
import Mathlib.Tactic.Ring
import Mathlib.Algebra.Order.Field.Rat
/-! Helper lemmas for C19 (heightmaps): the path filter, the range test, barycentric interpolation,
    the `linspace` line of the sparse map and Bresenham's line of the raster map. -/
namespace GscribModel.Heightmap

/-! ### `_filter_points` -/

theorem absR_eq_abs (q : Rat) : absR q = |q| := by
  unfold absR
  split
  · rename_i h; rw [abs_of_neg h]
  · rename_i h; rw [abs_of_nonneg (not_lt.mp h)]

inductive Aligned (tol : Rat) : Rat → List Sample → List Sample → Prop
  | nil (z : Rat) : Aligned tol z [] []
  | keep (z : Rat) (p : Sample) (ps ks : List Sample) :
      Aligned tol p.z ps ks → Aligned tol z (p :: ps) (p :: ks)
  | drop (z : Rat) (p : Sample) (ps ks : List Sample) :
      |p.z - z| < tol → Aligned tol z ps ks → Aligned tol z (p :: ps) ks

theorem keepLoop_aligned (tol : Rat) : ∀ (z : Rat) (ps : List Sample), Aligned tol z ps (keepLoop tol z ps)
  | z, [] => by simpa [keepLoop] using Aligned.nil z
  | z, p :: ps => by
      simp only [keepLoop]; split
      · exact .keep _ _ _ _ (keepLoop_aligned tol p.z ps)
      · rename_i h
        exact .drop _ _ _ _ (by rw [← absR_eq_abs]; exact not_le.mp h) (keepLoop_aligned tol z ps)

theorem Aligned.sublist {tol z ps ks} (h : Aligned tol z ps ks) : ks.Sublist ps := by
  induction h with
  | nil => exact .slnil
  | keep _ p _ _ _ ih => exact ih.cons_cons p
  | drop _ p _ _ _ _ ih => exact ih.cons p

theorem Aligned.snoc {tol z ps ks} (h : Aligned tol z ps ks) (l : Sample) :
    Aligned tol z (ps ++ [l]) (ks ++ [l]) := by
  induction h with
  | nil z => exact .keep _ _ _ _ (.nil _)
  | keep _ p _ _ _ ih => exact .keep _ _ _ _ ih
  | drop _ p _ _ hd _ ih => exact .drop _ _ _ _ hd ih

theorem keepLoop_snoc (tol : Rat) (l : Sample) : ∀ (z : Rat) (ps : List Sample),
    keepLoop tol z (ps ++ [l]) = keepLoop tol z ps ++ [l] ∨ keepLoop tol z (ps ++ [l]) = keepLoop tol z ps
  | z, [] => by simp only [List.nil_append, keepLoop]; split <;> simp
  | z, p :: ps => by
      simp only [List.cons_append, keepLoop]; split
      · rcases keepLoop_snoc tol l p.z ps with h | h <;> simp [h]
      · exact keepLoop_snoc tol l z ps

theorem keepLoop_first {tol : Rat} (ht : 0 < tol) (first : Sample) (rest : List Sample) :
    keepLoop tol first.z (first :: rest) = keepLoop tol first.z rest := by
  have : absR (first.z - first.z) < tol := by
    rw [absR_eq_abs, sub_self, abs_zero]; exact ht
  rw [keepLoop, if_neg (not_le.mpr this)]

theorem getLastD_snoc {α} (a : α) (xs : List α) (l : α) : (a :: (xs ++ [l])).getLastD a = l := by
  rw [← List.cons_append, List.getLastD_eq_getLast?, List.getLast?_append]; simp
theorem getLast?_snoc {α} (a : α) (xs : List α) (l : α) : (a :: (xs ++ [l])).getLast? = some l := by
  rw [← List.cons_append, List.getLast?_append]; simp

theorem getLast?_cons_getLastD {α} (a : α) (xs : List α) : (a :: xs).getLast? = some ((a :: xs).getLastD a) := by
  rw [List.getLastD_eq_getLast?]
  cases h : (a :: xs).getLast? with
  | none => simp at h
  | some v => simp

theorem filterPoints_spec {tol : Rat} (ht : 0 < tol) (first : Sample) (rest : List Sample) :
    ∃ tail, filterPoints tol (first :: rest) = first :: tail ∧ Aligned tol first.z rest tail
      ∧ (first :: tail).getLast? = (first :: rest).getLast? := by
  simp only [filterPoints, keepLoop_first ht]
  rcases List.eq_nil_or_concat rest with rfl | ⟨rest', l, rfl⟩
  · exact ⟨[], by simp [keepLoop], .nil _, rfl⟩
  · rw [List.concat_eq_append, getLastD_snoc, getLast?_snoc]
    rcases keepLoop_snoc tol l first.z rest' with h | h
    · refine ⟨keepLoop tol first.z rest' ++ [l], ?_, (keepLoop_aligned tol _ _).snoc l, getLast?_snoc _ _ _⟩
      rw [h, getLastD_snoc]; simp
    · rw [h]
      by_cases hl : (first :: keepLoop tol first.z rest').getLastD first = l
      · refine ⟨keepLoop tol first.z rest', by rw [if_pos hl], ?_, ?_⟩
        · have := keepLoop_aligned tol first.z (rest' ++ [l]); rwa [h] at this
        · rw [getLast?_cons_getLastD, hl]
      · exact ⟨keepLoop tol first.z rest' ++ [l], by rw [if_neg hl]; rfl, (keepLoop_aligned tol _ _).snoc l, getLast?_snoc _ _ _⟩

/-- `sample_path` = filter ∘ samples, for samples given as the image of an index list: the output is
    the image of a sub-list of the indices (so order is kept), with the same first and last sample -/
theorem filterPoints_map {ι : Type} {tol : Rat} (ht : 0 < tol) (f : ι → Sample) (l : List ι) (hl : l ≠ []) :
    (filterPoints tol (l.map f)).head? = (l.map f).head? ∧
    (filterPoints tol (l.map f)).getLast? = (l.map f).getLast? ∧
    ∃ l' : List ι, l'.Sublist l ∧ filterPoints tol (l.map f) = l'.map f := by
  cases l with
  | nil => exact absurd rfl hl
  | cons a as =>
    obtain ⟨tail, h1, h2, h3⟩ := filterPoints_spec ht (f a) (as.map f)
    rw [List.map_cons, h1]
    refine ⟨rfl, h3, ?_⟩
    have hs : (f a :: tail).Sublist ((a :: as).map f) := by
      rw [List.map_cons]; exact h2.sublist.cons_cons _
    obtain ⟨l', hl', e⟩ := List.sublist_map_iff.mp hs
    exact ⟨l', hl', e⟩

/-! ### range test, barycentric interpolation, the sparse line -/

/-- defining property of the spline parameter: it reproduces the grid at the pixel centres -/
def Interpolates (interp : Rat → Rat → Rat) (g : Grid) : Prop :=
  ∀ r c : Nat, r < g.height → c < g.width → interp r c = g.cell r c

theorem getDepthRaster_range (sc : Rat) (interp : Rat → Rat → Rat) (g : Grid) (x y : Rat) :
    getDepthRaster sc interp g x y =
      if 0 ≤ x ∧ x < g.width ∧ 0 ≤ y ∧ y < g.height then sc * interp y x else 0 := by
  unfold getDepthRaster
  by_cases h1 : x < 0 <;> by_cases h2 : x ≥ (g.width : Rat) <;> by_cases h3 : y < 0 <;>
    by_cases h4 : y ≥ (g.height : Rat) <;> simp [h1, h2, h3, h4]

theorem Tri.interp_at_a (t : Tri) : t.interp t.a.x t.a.y = t.a.h := by
  simp [Tri.interp, Tri.bary]

theorem Tri.interp_at_b (t : Tri) (hd : t.det ≠ 0) : t.interp t.b.x t.b.y = t.b.h := by
  have h1 : ((t.b.x - t.a.x) * (t.c.y - t.a.y) - (t.c.x - t.a.x) * (t.b.y - t.a.y)) / t.det = 1 := by
    rw [← Tri.det]; exact div_self hd
  have h2 : ((t.b.x - t.a.x) * (t.b.y - t.a.y) - (t.b.x - t.a.x) * (t.b.y - t.a.y)) / t.det = 0 := by
    rw [sub_self, zero_div]
  simp only [Tri.interp, Tri.bary, h1, h2]; ring

theorem Tri.interp_at_c (t : Tri) (hd : t.det ≠ 0) : t.interp t.c.x t.c.y = t.c.h := by
  have h1 : ((t.c.x - t.a.x) * (t.c.y - t.a.y) - (t.c.x - t.a.x) * (t.c.y - t.a.y)) / t.det = 0 := by
    rw [sub_self, zero_div]
  have h2 : ((t.b.x - t.a.x) * (t.c.y - t.a.y) - (t.c.x - t.a.x) * (t.b.y - t.a.y)) / t.det = 1 := by
    rw [← Tri.det]; exact div_self hd
  simp only [Tri.interp, Tri.bary, h1, h2]; ring

/-- spike `c19_convex`: a convex combination of three heights lies between any bounds of theirs -/
theorem convex3_bounds (w1 w2 w3 h1 h2 h3 lo hi : ℚ)
    (p1 : 0 ≤ w1) (p2 : 0 ≤ w2) (p3 : 0 ≤ w3) (hs : w1 + w2 + w3 = 1)
    (l1 : lo ≤ h1) (l2 : lo ≤ h2) (l3 : lo ≤ h3) (u1 : h1 ≤ hi) (u2 : h2 ≤ hi) (u3 : h3 ≤ hi) :
    lo ≤ w1 * h1 + w2 * h2 + w3 * h3 ∧ w1 * h1 + w2 * h2 + w3 * h3 ≤ hi := by
  constructor
  · have a := mul_le_mul_of_nonneg_left l1 p1
    have b := mul_le_mul_of_nonneg_left l2 p2
    have c := mul_le_mul_of_nonneg_left l3 p3
    have : lo = w1 * lo + w2 * lo + w3 * lo := by
      have : (w1 + w2 + w3) * lo = lo := by rw [hs, one_mul]
      linarith [this]
    linarith
  · have a := mul_le_mul_of_nonneg_left u1 p1
    have b := mul_le_mul_of_nonneg_left u2 p2
    have c := mul_le_mul_of_nonneg_left u3 p3
    have : hi = w1 * hi + w2 * hi + w3 * hi := by
      have : (w1 + w2 + w3) * hi = hi := by rw [hs, one_mul]
      linarith [this]
    linarith

theorem Tri.bary_sum (t : Tri) (px py : Rat) :
    (t.bary px py).1 + (t.bary px py).2.1 + (t.bary px py).2.2 = 1 := by
  simp only [Tri.bary]; ring

/-- the `i`-th point of the line, parameter `t = i / n` -/
def linePoint (depth : Rat → Rat → Rat) (n : Nat) (x1 y1 x2 y2 : Rat) (i : Nat) : Sample :=
  ⟨x1 + (i : Rat) / (n : Rat) * (x2 - x1), y1 + (i : Rat) / (n : Rat) * (y2 - y1),
   depth (x1 + (i : Rat) / (n : Rat) * (x2 - x1)) (y1 + (i : Rat) / (n : Rat) * (y2 - y1))⟩

theorem interpolateLineSparse_eq (depth : Rat → Rat → Rat) (n : Nat) (x1 y1 x2 y2 : Rat) :
    interpolateLineSparse depth n x1 y1 x2 y2 = (List.range (n + 1)).map (linePoint depth n x1 y1 x2 y2) := by
  simp only [interpolateLineSparse, linspace, List.zip_map', List.map_map]
  apply List.map_congr_left
  intro i _
  have hx : (i : Rat) * ((x2 - x1) / (n : Rat)) + x1 = x1 + (i : Rat) / (n : Rat) * (x2 - x1) := by ring
  have hy : (i : Rat) * ((y2 - y1) / (n : Rat)) + y1 = y1 + (i : Rat) / (n : Rat) * (y2 - y1) := by ring
  simp only [Function.comp, linePoint, hx, hy]

theorem linePoint_zero (depth : Rat → Rat → Rat) (n : Nat) (x1 y1 x2 y2 : Rat) :
    linePoint depth n x1 y1 x2 y2 0 = ⟨x1, y1, depth x1 y1⟩ := by
  simp [linePoint]

theorem linePoint_last (depth : Rat → Rat → Rat) (n : Nat) (hn : 1 ≤ n) (x1 y1 x2 y2 : Rat) :
    linePoint depth n x1 y1 x2 y2 n = ⟨x2, y2, depth x2 y2⟩ := by
  have h : (n : Rat) / (n : Rat) = 1 := div_self (by exact_mod_cast (by omega : n ≠ 0))
  simp [linePoint, h]

theorem numSegments_pos (dist tol : Rat) : 1 ≤ numSegments dist tol := by
  unfold numSegments; exact le_max_right _ _

/-! ### Bresenham (`skimage.draw.line`) -/

/-- the point written by `lineLoop` for major-axis coordinate `c` and minor-axis coordinate `r` -/
def orient (steep : Bool) (r c : Int) : Int × Int := if steep then (c, r) else (r, c)

/-- Bresenham's invariant: with `0 ≤ dr ≤ dc`, `0 < dc` and the error term in its window, the
    `i`-th point written has major coordinate `c + i·sc` and minor coordinate `r + k·sr` with the
    error term `d + 2·dr·i − 2·dc·k` still in the window `[2dr − 2dc, 2dr)`. -/
theorem lineLoop_spec (steep : Bool) (sr sc dr dc : Int) (_hdc : 0 < dc) (hdr : 0 ≤ dr) (hle : dr ≤ dc) :
    ∀ (n : Nat) (r c d : Int), 2 * dr - 2 * dc ≤ d → d < 2 * dr →
      (lineLoop steep sr sc dr dc n r c d).length = n ∧
      ∀ i : Nat, i < n → ∃ k : Int, 0 ≤ k ∧
        (lineLoop steep sr sc dr dc n r c d)[i]? = some (orient steep (r + k * sr) (c + i * sc)) ∧
        2 * dr - 2 * dc ≤ d + 2 * dr * i - 2 * dc * k ∧ d + 2 * dr * i - 2 * dc * k < 2 * dr := by
  intro n
  induction n with
  | zero => intro r c d _ _; exact ⟨rfl, fun i hi => absurd hi (Nat.not_lt_zero i)⟩
  | succ n ih =>
    intro r c d h1 h2
    -- the `while` runs once when d ≥ 0, never otherwise
    have hk : (if 0 ≤ d then d / (2 * dc) + 1 else 0 : Int) = if 0 ≤ d then 1 else 0 := by
      split
      · rename_i h0
        have : d / (2 * dc) = 0 := Int.ediv_eq_zero_of_lt h0 (by omega)
        omega
      · rfl
    simp only [lineLoop, hk]
    by_cases h0 : 0 ≤ d
    · simp only [if_pos h0, one_mul]
      obtain ⟨il, ip⟩ := ih (r + sr) (c + sc) (d - 2 * dc + 2 * dr) (by omega) (by omega)
      refine ⟨by simp [il], ?_⟩
      intro i hi
      cases i with
      | zero => exact ⟨0, le_refl _, by simp [orient], by simp; omega, by simp; omega⟩
      | succ i =>
        obtain ⟨k, hk0, hp, hb1, hb2⟩ := ip i (by omega)
        refine ⟨k + 1, by omega, ?_, ?_, ?_⟩
        · have e1 : r + sr + k * sr = r + (k + 1) * sr := by ring
          have e2 : c + sc + (i : Int) * sc = c + ((i + 1 : Nat) : Int) * sc := by push_cast; ring
          rw [List.getElem?_cons_succ, hp, e1, e2]
        · push_cast; linarith
        · push_cast; linarith
    · simp only [if_neg h0, zero_mul, add_zero, sub_zero]
      obtain ⟨il, ip⟩ := ih r (c + sc) (d + 2 * dr) (by omega) (by omega)
      refine ⟨by simp [il], ?_⟩
      intro i hi
      cases i with
      | zero => exact ⟨0, le_refl _, by simp [orient], by simp; omega, by simp; omega⟩
      | succ i =>
        obtain ⟨k, hk0, hp, hb1, hb2⟩ := ip i (by omega)
        refine ⟨k, hk0, ?_, ?_, ?_⟩
        · have e2 : c + sc + (i : Int) * sc = c + ((i + 1 : Nat) : Int) * sc := by push_cast; ring
          rw [List.getElem?_cons_succ, hp, e2]
        · push_cast; linarith
        · push_cast; linarith


/-- one octant pair of `bresenham`: the loop followed by the end point -/
theorem lineLoop_line (steep : Bool) (sr sc : Int) (hsr : sr = 1 ∨ sr = -1) (hsc : sc = 1 ∨ sc = -1)
    (n m : Nat) (hmn : m ≤ n) (r c r1 c1 : Int)
    (hr : r1 - r = sr * m) (hc : c1 - c = sc * n) :
    let L := lineLoop steep sr sc m n n r c (2 * m - n) ++ [orient steep r1 c1]
    L.length = n + 1 ∧ L[0]? = some (orient steep r c) ∧ L[n]? = some (orient steep r1 c1) ∧
    ∀ i : Nat, i ≤ n → ∃ pr pc : Int, L[i]? = some (orient steep pr pc) ∧
      (pc - c) * n = i * (c1 - c) ∧
      -(n : Int) ≤ 2 * ((pr - r) * (c1 - c) - (pc - c) * (r1 - r)) ∧
      2 * ((pr - r) * (c1 - c) - (pc - c) * (r1 - r)) ≤ n := by
  intro L
  rcases Nat.eq_zero_or_pos n with hn | hn
  · subst hn
    have hm : m = 0 := by omega
    subst hm
    have e1 : r1 = r := by simpa using sub_eq_zero.mp (by simpa using hr)
    have e2 : c1 = c := by simpa using sub_eq_zero.mp (by simpa using hc)
    subst e1 e2
    refine ⟨by simp [L, lineLoop], by simp [L, lineLoop], by simp [L, lineLoop], ?_⟩
    intro i hi
    have : i = 0 := by omega
    subst this
    exact ⟨r1, c1, by simp [L, lineLoop], by simp, by simp, by simp⟩
  · obtain ⟨hl, hp⟩ := lineLoop_spec steep sr sc m n (by exact_mod_cast hn) (by omega) (by exact_mod_cast hmn)
      n r c (2 * m - n) (by omega) (by omega)
    have hlast : L[n]? = some (orient steep r1 c1) := by
      simp only [L]; rw [List.getElem?_append_right (by omega)]; simp [hl]
    refine ⟨by simp [L, hl], ?_, hlast, ?_⟩
    · obtain ⟨k, hk0, hk, hb1, hb2⟩ := hp 0 hn
      simp only [L]; rw [List.getElem?_append_left (by omega)]
      have : k = 0 := by
        simp only [Nat.cast_zero, mul_zero, add_zero] at hb1 hb2
        by_contra hne
        have : 1 ≤ k := by omega
        nlinarith
      subst this
      simpa using hk
    · intro i hi
      rcases Nat.lt_or_eq_of_le hi with hlt | heq
      · obtain ⟨k, _, hk, hb1, hb2⟩ := hp i hlt
        refine ⟨r + k * sr, c + i * sc, ?_, ?_, ?_, ?_⟩
        · simp only [L]; rw [List.getElem?_append_left (by omega)]; exact hk
        · rw [hc]; ring
        · rw [hc, hr]
          rcases hsr with rfl | rfl <;> rcases hsc with rfl | rfl <;> nlinarith
        · rw [hc, hr]
          rcases hsr with rfl | rfl <;> rcases hsc with rfl | rfl <;> nlinarith
      · subst heq
        exact ⟨r1, c1, hlast, by ring, by ring_nf; omega, by ring_nf; omega⟩

theorem bresenham_spec (r0 c0 r1 c1 : Int) :
    let L := bresenham r0 c0 r1 c1
    let N := max (r1 - r0).natAbs (c1 - c0).natAbs
    L.length = N + 1 ∧ L[0]? = some (r0, c0) ∧ L[N]? = some (r1, c1) ∧
    ∀ i : Nat, i ≤ N → ∃ p : Int × Int, L[i]? = some p ∧
      (if (r1 - r0).natAbs > (c1 - c0).natAbs then (p.1 - r0) * N = i * (r1 - r0)
        else (p.2 - c0) * N = i * (c1 - c0)) ∧
      -(N : Int) ≤ 2 * ((p.1 - r0) * (c1 - c0) - (p.2 - c0) * (r1 - r0)) ∧
      2 * ((p.1 - r0) * (c1 - c0) - (p.2 - c0) * (r1 - r0)) ≤ N := by
  intro L N
  have hsr : (if r1 - r0 > 0 then (1 : Int) else -1) = 1 ∨ (if r1 - r0 > 0 then (1 : Int) else -1) = -1 := by
    split <;> simp
  have hsc : (if c1 - c0 > 0 then (1 : Int) else -1) = 1 ∨ (if c1 - c0 > 0 then (1 : Int) else -1) = -1 := by
    split <;> simp
  have hr : r1 - r0 = (if r1 - r0 > 0 then (1 : Int) else -1) * ((r1 - r0).natAbs : Int) := by
    split <;> omega
  have hc : c1 - c0 = (if c1 - c0 > 0 then (1 : Int) else -1) * ((c1 - c0).natAbs : Int) := by
    split <;> omega
  by_cases hs : (r1 - r0).natAbs > (c1 - c0).natAbs
  · have hN : N = (r1 - r0).natAbs := by simp only [N]; omega
    have hL : L = lineLoop true (if c1 - c0 > 0 then 1 else -1) (if r1 - r0 > 0 then 1 else -1)
        ((c1 - c0).natAbs : Int) ((r1 - r0).natAbs : Int) (r1 - r0).natAbs c0 r0
        (2 * ((c1 - c0).natAbs : Int) - ((r1 - r0).natAbs : Int)) ++ [orient true c1 r1] := by
      have : ((r1 - r0).natAbs : Int) > ((c1 - c0).natAbs : Int) := by exact_mod_cast hs
      simp only [L, bresenham, if_pos this, Int.toNat_natCast, orient]; rfl
    obtain ⟨h1, h2, h3, h4⟩ := lineLoop_line true _ _ hsc hsr (r1 - r0).natAbs (c1 - c0).natAbs (by omega)
      c0 r0 c1 r1 hc hr
    rw [← hL] at h1 h2 h3 h4
    rw [hN]
    refine ⟨h1, by simpa [orient] using h2, by simpa [orient] using h3, ?_⟩
    intro i hi
    obtain ⟨pr, pc, e1, e2, e3, e4⟩ := h4 i hi
    refine ⟨(pc, pr), by simpa [orient] using e1, by simpa [hs] using e2, ?_, ?_⟩ <;> simp only <;> linarith
  · have hN : N = (c1 - c0).natAbs := by simp only [N]; omega
    have hL : L = lineLoop false (if r1 - r0 > 0 then 1 else -1) (if c1 - c0 > 0 then 1 else -1)
        ((r1 - r0).natAbs : Int) ((c1 - c0).natAbs : Int) (c1 - c0).natAbs r0 c0
        (2 * ((r1 - r0).natAbs : Int) - ((c1 - c0).natAbs : Int)) ++ [orient false r1 c1] := by
      have : ¬ ((r1 - r0).natAbs : Int) > ((c1 - c0).natAbs : Int) := by exact_mod_cast hs
      simp only [L, bresenham, if_neg this, Int.toNat_natCast, orient]; rfl
    obtain ⟨h1, h2, h3, h4⟩ := lineLoop_line false _ _ hsr hsc (c1 - c0).natAbs (r1 - r0).natAbs (by omega)
      r0 c0 r1 c1 hr hc
    rw [← hL] at h1 h2 h3 h4
    rw [hN]
    refine ⟨h1, by simpa [orient] using h2, by simpa [orient] using h3, ?_⟩
    intro i hi
    obtain ⟨pr, pc, e1, e2, e3, e4⟩ := h4 i hi
    exact ⟨(pr, pc), by simpa [orient] using e1, by simpa [hs] using e2, e3, e4⟩

end GscribModel.Heightmap

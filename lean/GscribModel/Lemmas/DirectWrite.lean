import GscribModel.Model.DirectWrite
/-! Invariants of the direct-write transition system (`Model/DirectWrite.lean`) and their preservation
    by every transition.  Core tactics only. -/
namespace GscribModel.DirectWrite
set_option linter.unusedSimpArgs false
set_option linter.unusedVariables false

/-! ### lists -/

theorem stmtIds_append (a b : List Cmd) : stmtIds (a ++ b) = stmtIds a ++ stmtIds b := by
  induction a with
  | nil => rfl
  | cons c cs ih => cases c <;> simp [stmtIds, ih]

theorem mem_stmtIds {k : Nat} {l : List Cmd} : k ∈ stmtIds l ↔ Cmd.stmt k ∈ l := by
  induction l with
  | nil => simp [stmtIds]
  | cons c cs ih => cases c <;> simp [stmtIds, ih]

theorem termOf_append (a b : List Reply) : termOf (a ++ b) = termOf a ++ termOf b := by
  simp [termOf]

theorem termOf_pre (pre : List Bool) : termOf (pre.map preLine) = [] := by
  induction pre with
  | nil => rfl
  | cons t ts ih =>
    have : (preLine t).terminal = false := by cases t <;> rfl
    simp only [termOf, List.map_cons, List.filter_cons, this] at *
    simpa using ih

theorem termOf_emit (l : List Reply) (pre : List Bool) (r : Reply) (hr : r.terminal = true) :
    termOf (l ++ pre.map preLine ++ [r]) = termOf l ++ [r] := by
  rw [termOf_append, termOf_append, termOf_pre]
  simp [termOf, hr]

/-! ### projections of `tx` and `hear` -/

section proj
variable (s : St) (c : Cmd) (r : Reply)
@[simp] theorem tx_toDev : (tx s c).toDev = s.toDev ++ [c] := by unfold tx; split <;> rfl
@[simp] theorem tx_err : (tx s c).err = (s.err || s.lost) := by unfold tx; split <;> simp_all
@[simp] theorem tx_ack : (tx s c).ack = (s.ack || s.lost) := by unfold tx; split <;> simp_all
@[simp] theorem tx_cphase : (tx s c).cphase = s.cphase := by unfold tx; split <;> rfl
@[simp] theorem tx_online : (tx s c).online = s.online := by unfold tx; split <;> rfl
@[simp] theorem tx_printing : (tx s c).printing = s.printing := by unfold tx; split <;> rfl
@[simp] theorem tx_clear : (tx s c).clear = s.clear := by unfold tx; split <;> rfl
@[simp] theorem tx_lost : (tx s c).lost = s.lost := by unfold tx; split <;> rfl
@[simp] theorem tx_next : (tx s c).next = s.next := by unfold tx; split <;> rfl
@[simp] theorem tx_wstate : (tx s c).wstate = s.wstate := by unfold tx; split <;> rfl
@[simp] theorem tx_priq : (tx s c).priq = s.priq := by unfold tx; split <;> rfl
@[simp] theorem tx_toHost : (tx s c).toHost = s.toHost := by unfold tx; split <;> rfl
@[simp] theorem tx_devLog : (tx s c).devLog = s.devLog := by unfold tx; split <;> rfl
@[simp] theorem tx_heard : (tx s c).heard = s.heard := by unfold tx; split <;> rfl
@[simp] theorem tx_devBad : (tx s c).devBad = s.devBad := by unfold tx; split <;> rfl
@[simp] theorem tx_outcomes : (tx s c).outcomes = s.outcomes := by unfold tx; split <;> rfl
@[simp] theorem tx_backlog : (tx s c).backlog = s.backlog := by unfold tx; split <;> rfl
@[simp] theorem tx_probes : (tx s c).probes = s.probes := by unfold tx; split <;> rfl
@[simp] theorem tx_discRaised : (tx s c).discRaised = s.discRaised := by unfold tx; split <;> rfl
@[simp] theorem tx_surplusHit : (tx s c).surplusHit = s.surplusHit := by unfold tx; split <;> rfl
@[simp] theorem tx_anyXbad : (tx s c).anyXbad = s.anyXbad := by unfold tx; split <;> rfl
@[simp] theorem tx_dueErr : (tx s c).dueErr = s.dueErr := by unfold tx; split <;> rfl

@[simp] theorem tx_lineNumbers : (tx s c).lineNumbers = s.lineNumbers := by unfold tx; split <;> rfl
@[simp] theorem txReset_err : (txReset s).err = (s.err || (s.lineNumbers && s.lost)) := by
  unfold txReset; split <;> simp_all
@[simp] theorem txReset_ack : (txReset s).ack = (s.ack || (s.lineNumbers && s.lost)) := by
  unfold txReset; split <;> simp_all
theorem txReset_toDev : (txReset s).toDev = if s.lineNumbers then s.toDev ++ [.reset] else s.toDev := by
  unfold txReset; split <;> simp_all
@[simp] theorem txReset_cphase : (txReset s).cphase = s.cphase := by unfold txReset; split <;> simp
@[simp] theorem txReset_online : (txReset s).online = s.online := by unfold txReset; split <;> simp
@[simp] theorem txReset_printing : (txReset s).printing = s.printing := by unfold txReset; split <;> simp
@[simp] theorem txReset_clear : (txReset s).clear = s.clear := by unfold txReset; split <;> simp
@[simp] theorem txReset_lost : (txReset s).lost = s.lost := by unfold txReset; split <;> simp
@[simp] theorem txReset_next : (txReset s).next = s.next := by unfold txReset; split <;> simp
@[simp] theorem txReset_wstate : (txReset s).wstate = s.wstate := by unfold txReset; split <;> simp
@[simp] theorem txReset_priq : (txReset s).priq = s.priq := by unfold txReset; split <;> simp
@[simp] theorem txReset_toHost : (txReset s).toHost = s.toHost := by unfold txReset; split <;> simp
@[simp] theorem txReset_devLog : (txReset s).devLog = s.devLog := by unfold txReset; split <;> simp
@[simp] theorem txReset_heard : (txReset s).heard = s.heard := by unfold txReset; split <;> simp
@[simp] theorem txReset_devBad : (txReset s).devBad = s.devBad := by unfold txReset; split <;> simp
@[simp] theorem txReset_outcomes : (txReset s).outcomes = s.outcomes := by unfold txReset; split <;> simp
@[simp] theorem txReset_backlog : (txReset s).backlog = s.backlog := by unfold txReset; split <;> simp
@[simp] theorem txReset_probes : (txReset s).probes = s.probes := by unfold txReset; split <;> simp
@[simp] theorem txReset_discRaised : (txReset s).discRaised = s.discRaised := by unfold txReset; split <;> simp
@[simp] theorem txReset_surplusHit : (txReset s).surplusHit = s.surplusHit := by unfold txReset; split <;> simp
@[simp] theorem txReset_anyXbad : (txReset s).anyXbad = s.anyXbad := by unfold txReset; split <;> simp
@[simp] theorem txReset_dueErr : (txReset s).dueErr = s.dueErr := by unfold txReset; split <;> simp
@[simp] theorem txReset_lineNumbers : (txReset s).lineNumbers = s.lineNumbers := by unfold txReset; split <;> simp_all

@[simp] theorem hear_toDev : (hear s r).toDev = s.toDev := by cases r <;> simp [hear] <;> split <;> rfl
@[simp] theorem hear_cphase : (hear s r).cphase = s.cphase := by cases r <;> simp [hear] <;> split <;> rfl
@[simp] theorem hear_printing : (hear s r).printing = s.printing := by cases r <;> simp [hear] <;> split <;> rfl
@[simp] theorem hear_lost : (hear s r).lost = s.lost := by cases r <;> simp [hear] <;> split <;> rfl
@[simp] theorem hear_next : (hear s r).next = s.next := by cases r <;> simp [hear] <;> split <;> rfl
@[simp] theorem hear_wstate : (hear s r).wstate = s.wstate := by cases r <;> simp [hear] <;> split <;> rfl
@[simp] theorem hear_priq : (hear s r).priq = s.priq := by cases r <;> simp [hear] <;> split <;> rfl
@[simp] theorem hear_toHost : (hear s r).toHost = s.toHost := by cases r <;> simp [hear] <;> split <;> rfl
@[simp] theorem hear_devLog : (hear s r).devLog = s.devLog := by cases r <;> simp [hear] <;> split <;> rfl
@[simp] theorem hear_devBad : (hear s r).devBad = s.devBad := by cases r <;> simp [hear] <;> split <;> rfl
@[simp] theorem hear_outcomes : (hear s r).outcomes = s.outcomes := by cases r <;> simp [hear] <;> split <;> rfl
@[simp] theorem hear_backlog : (hear s r).backlog = s.backlog := by cases r <;> simp [hear] <;> split <;> rfl
@[simp] theorem hear_probes : (hear s r).probes = s.probes := by cases r <;> simp [hear] <;> split <;> rfl
@[simp] theorem hear_discRaised : (hear s r).discRaised = s.discRaised := by cases r <;> simp [hear] <;> split <;> rfl
end proj

@[simp] theorem stmtIds_txReset_toDev (s : St) : stmtIds (txReset s).toDev = stmtIds s.toDev := by
  rw [txReset_toDev]; split <;> simp [stmtIds_append, stmtIds]

theorem probeFlight_iff (s : St) :
    probeFlight s = true ↔
      ((s.toDev = [.probe] ∧ termOf s.toHost = [])
        ∨ (s.toDev = [] ∧ (termOf s.toHost = [.ok .probe] ∨ termOf s.toHost = [.bad .probe]))) := by
  simp [probeFlight]

/-! ### order invariant (unconditional) -/

/-- Every statement queued so far is, in call order and exactly once, in the device's receive log,
    on the wire, or in the priority queue; error verdicts only concern received commands; the
    statement the caller is busy with is the one just (about to be) queued. -/
structure OrderInv (s : St) : Prop where
  ids : stmtIds (s.devLog ++ s.toDev ++ s.priq) = List.range s.next
  bad : ∀ c ∈ s.devBad, c ∈ s.devLog
  cur : (∀ k, s.wstate = .cleared k → k = s.next) ∧ (∀ k, s.wstate = .waiting k → k + 1 = s.next)
        ∧ (∀ k, s.wstate = .woke k → k + 1 = s.next)

theorem orderInv_init : OrderInv {} := ⟨by simp [stmtIds], by simp, by simp⟩

theorem orderInv_stepLive {s s' : St} (a : Act) (h : OrderInv s) (hs : stepLive s a = some s') : OrderInv s' := by
  obtain ⟨hi, hb, hc1, hc2, hc3⟩ := h
  cases a with
  | lProbe =>
    simp only [stepLive] at hs
    split at hs
    · simp at hs; subst hs
      refine ⟨?_, hb, hc1, hc2, hc3⟩
      simpa [stmtIds_append, stmtIds] using hi
    · simp at hs
  | lListen =>
    simp only [stepLive] at hs
    split at hs
    · simp at hs
    · split at hs
      · simp at hs
      · simp at hs; subst hs
        exact ⟨by simpa using hi, by simpa using hb, by simpa using hc1, by simpa using hc2, by simpa using hc3⟩
  | xLoss =>
    simp only [stepLive] at hs
    split at hs
    · simp at hs
    · simp at hs; subst hs; exact ⟨hi, hb, hc1, hc2, hc3⟩
  | cOnline =>
    simp only [stepLive] at hs
    split at hs
    · split at hs
      · simp at hs; subst hs; exact ⟨hi, hb, hc1, hc2, hc3⟩
      · simp at hs; subst hs
        refine ⟨?_, by simpa using hb, by simpa using hc1, by simpa using hc2, by simpa using hc3⟩
        simpa [stmtIds_append, stmtIds] using hi
    · simp at hs
  | pSendnext =>
    simp only [stepLive] at hs
    split at hs
    · split at hs
      · rename_i c cs hq
        simp at hs; subst hs
        refine ⟨?_, by simpa using hb, by simpa using hc1, by simpa using hc2, by simpa using hc3⟩
        rw [hq] at hi
        simpa [stmtIds_append, stmtIds] using hi
      · rename_i hq
        simp at hs; subst hs
        refine ⟨?_, by simpa using hb, by simpa using hc1, by simpa using hc2, by simpa using hc3⟩
        simpa [stmtIds_append, stmtIds, hq] using hi
    · simp at hs
  | cPoll =>
    simp only [stepLive] at hs
    split at hs
    · split at hs
      · simp at hs; subst hs; exact ⟨hi, hb, hc1, hc2, hc3⟩
      · split at hs
        · simp at hs
        · simp at hs; subst hs; exact ⟨hi, hb, hc1, hc2, hc3⟩
    · simp at hs
  | cDisc =>
    simp only [stepLive] at hs
    split at hs
    · split at hs
      · simp at hs; subst hs; exact ⟨hi, hb, hc1, hc2, hc3⟩
      · split at hs
        · simp at hs
        · simp at hs; subst hs; exact ⟨hi, hb, hc1, hc2, hc3⟩
    · simp at hs
  | wClear =>
    simp only [stepLive] at hs
    split at hs
    · simp at hs; subst hs
      exact ⟨hi, hb, by simp, by simp, by simp⟩
    · simp at hs
  | wEnq =>
    simp only [stepLive] at hs
    split at hs
    · rename_i k hw
      simp at hs; subst hs
      have hk := hc1 k hw
      refine ⟨?_, hb, by simp, by simp [hk], by simp⟩
      simp only [← List.append_assoc]
      rw [stmtIds_append, hi]
      simp [stmtIds, hk, List.range_succ]
    · simp at hs
  | wWake =>
    simp only [stepLive] at hs
    split at hs
    · rename_i k hw
      split at hs
      · simp at hs; subst hs
        exact ⟨hi, hb, by simp, by simp, by simpa using hc2 k hw⟩
      · simp at hs
    · simp at hs
  | wFinish =>
    simp only [stepLive] at hs
    split at hs
    · simp at hs; subst hs; exact ⟨hi, hb, by simp, by simp, by simp⟩
    · simp at hs
  | sSend =>
    simp only [stepLive] at hs
    split at hs
    · simp at hs
    · split at hs
      · simp at hs
      · rename_i c cs hq
        simp at hs; subst hs
        refine ⟨?_, by simpa using hb, by simpa using hc1, by simpa using hc2, by simpa using hc3⟩
        rw [hq] at hi
        simpa [stmtIds_append, stmtIds] using hi
  | dPush isErr =>
    simp only [stepLive] at hs
    split at hs
    · simp at hs
    · simp at hs; subst hs; exact ⟨hi, hb, hc1, hc2, hc3⟩
  | dGreet =>
    simp only [stepLive] at hs
    split at hs
    · simp at hs
    · simp at hs; subst hs; exact ⟨hi, hb, hc1, hc2, hc3⟩
  | dProcess pre isErr =>
    simp only [stepLive] at hs
    split at hs
    · simp at hs
    · split at hs
      · simp at hs
      · rename_i c cs hq
        simp at hs; subst hs
        refine ⟨?_, ?_, hc1, hc2, hc3⟩
        · rw [hq] at hi; simpa [stmtIds_append, stmtIds] using hi
        · intro x hx
          simp only at hx ⊢
          split at hx
          · simp at hx; rcases hx with hx | hx
            · exact List.mem_append_left _ (hb x hx)
            · simp [hx]
          · exact List.mem_append_left _ (hb x hx)


/-! ### what the reader hears was emitted by the device for a command it had received -/

def WireInv (s : St) : Prop :=
  (∀ c, (Reply.ok c ∈ s.toHost ∨ Reply.bad c ∈ s.toHost) → c ∈ s.devLog) ∧ (∀ c ∈ s.heard, c ∈ s.devLog)

theorem wireInv_init : WireInv {} := by simp [WireInv]

theorem wireInv_stepLive {s s' : St} (a : Act) (h : WireInv s) (hs : stepLive s a = some s') : WireInv s' := by
  rcases s with ⟨cphase, online, printing, clear, lost, next, wstate, ack, err, priq, toDev, toHost, devLog, heard, devBad, outcomes, backlog, probes, discRaised, surplusHit, anyXbad, dueErr, lineNumbers⟩
  cases a with
  | lListen =>
    simp only [stepLive] at hs
    split at hs
    · simp at hs
    · split at hs
      · simp at hs
      · rename_i x r rs
        simp at hs; subst hs
        simp only [WireInv] at h ⊢
        cases r <;> simp only [hear] <;> (try split) <;> simp_all <;> grind
  | dProcess pre isErr =>
    simp only [stepLive] at hs
    split at hs
    · simp at hs
    · split at hs
      · simp at hs
      · rename_i x c cs
        simp at hs; subst hs
        simp only [WireInv] at h ⊢
        have hp : ∀ c', Reply.ok c' ∉ pre.map preLine ∧ Reply.bad c' ∉ pre.map preLine := by
          intro c'; constructor <;> (intro hm; rw [List.mem_map] at hm; obtain ⟨t, _, ht⟩ := hm; cases t <;> simp [preLine] at ht)
        cases isErr <;> simp_all <;> grind
  | _ =>
    simp only [stepLive] at hs
    (repeat' split at hs) <;> simp at hs <;> subst hs <;> simp_all [WireInv, tx] <;> (try split) <;> simp_all

/-! ### synchronisation invariant -/

/-- nothing sent is still unanswered -/
def NoFlight (s : St) : Prop := s.toDev = [] ∧ termOf s.toHost = []

/-- exactly one command `c` is unanswered: on its way to the device, or its terminal reply on its way back -/
def InFlight (s : St) (c : Cmd) : Prop :=
  (s.toDev = [c] ∧ termOf s.toHost = [])
  ∨ (s.toDev = [] ∧ (termOf s.toHost = [.ok c] ∨ termOf s.toHost = [.bad c]))

/-- every completed `write k` saw the terminal reply to statement k and raised iff that reply was an
    error - or the connection was lost and it raised -/
def OutOK (s : St) : Prop :=
  ∀ p ∈ s.outcomes,
    (Cmd.stmt p.1 ∈ s.heard ∧ (Cmd.stmt p.1 ∈ s.devBad → p.2 = true)
      ∧ (p.2 = true → Cmd.stmt p.1 ∈ s.devBad ∨ s.anyXbad = true))
    ∨ (s.lost = true ∧ p.2 = true)

/-- after a connection loss an acknowledgement can only come together with a stored error -/
def LostPart (s : St) : Prop :=
  s.lost = true → halted s = false →
    (∀ k, s.wstate = .woke k → s.err = true) ∧ (∀ k, s.wstate = .cleared k → s.ack = true → s.err = true)
    ∧ (∀ k, s.wstate = .waiting k → s.ack = true → s.err = true)

/-- `connect()` between `startprint` and its return: a line-number reset is in flight, or answered; without
    line numbers the awaited command is the connect probe (if it was answered before `startprint` ran, nothing is
    in flight and `clear` stays down: `connect()` never returns) -/
def ConnPhase (s : St) : Prop :=
  s.outcomes = [] ∧ s.wstate = .idle ∧ s.priq = [] ∧ s.online = true ∧
    ((s.clear = false ∧ s.err = false ∧ s.lineNumbers = true ∧ InFlight s .reset)
      ∨ (s.clear = false ∧ s.err = false ∧ s.lineNumbers = false ∧ (InFlight s .probe ∨ NoFlight s))
      ∨ (s.clear = true ∧ s.err = false ∧ NoFlight s)
      ∨ (s.clear = false ∧ s.err = true ∧ NoFlight s))

/-- statement k has been answered and the reader has processed the answer -/
def Answered (s : St) (k : Nat) : Prop :=
  s.priq = [] ∧ NoFlight s ∧ Cmd.stmt k ∈ s.heard ∧ (Cmd.stmt k ∈ s.devBad → s.err = true)
  ∧ (s.err = true → Cmd.stmt k ∈ s.devBad ∨ s.anyXbad = true)

/-- statement k is queued / on the wire / answered but the answer not yet read -/
def Unanswered (s : St) (k : Nat) : Prop :=
  s.ack = false ∧ (s.err = true → s.anyXbad = true) ∧ Cmd.stmt k ∉ s.heard ∧
  ( (s.priq = [.stmt k] ∧ NoFlight s ∧ Cmd.stmt k ∉ s.devBad)
  ∨ (s.priq = [] ∧ s.toDev = [.stmt k] ∧ termOf s.toHost = [] ∧ Cmd.stmt k ∉ s.devBad)
  ∨ (s.priq = [] ∧ s.toDev = [] ∧ termOf s.toHost = [.ok (.stmt k)] ∧ Cmd.stmt k ∉ s.devBad)
  ∨ (s.priq = [] ∧ s.toDev = [] ∧ termOf s.toHost = [.bad (.stmt k)] ∧ Cmd.stmt k ∈ s.devBad))

def WritePhase (s : St) : Prop :=
  s.printing = false ∧ s.clear = true ∧ s.online = true ∧
  (s.wstate = .idle → s.priq = [] ∧ NoFlight s ∧ (s.err = true → s.anyXbad = true) ∧ ∀ p ∈ s.outcomes, p.1 < s.next) ∧
  (∀ k, s.wstate = .cleared k →
      s.priq = [] ∧ NoFlight s ∧ (s.err = true → s.anyXbad = true) ∧ s.ack = false ∧ Cmd.stmt k ∉ s.devBad
      ∧ Cmd.stmt k ∉ s.heard ∧ ∀ p ∈ s.outcomes, p.1 < k) ∧
  (∀ k, s.wstate = .waiting k → (Unanswered s k ∨ (Answered s k ∧ s.ack = true)) ∧ ∀ p ∈ s.outcomes, p.1 < k) ∧
  (∀ k, s.wstate = .woke k → Answered s k ∧ ∀ p ∈ s.outcomes, p.1 < k)

def Phase (s : St) : Prop :=
  (s.cphase = .waitOnline → s.outcomes = [] ∧ s.wstate = .idle ∧ s.priq = [] ∧ s.printing = false)
  ∧ (s.cphase = .waitPending → ConnPhase s)
  ∧ ((s.cphase = .connected ∨ (s.cphase = .disconnected ∧ s.discRaised = false)) → WritePhase s)

def Core (s : St) : Prop := OutOK s ∧ LostPart s ∧ (s.lost = false → Phase s)

/-- The invariant: as long as no command was unanswered when `startprint` ran (`backlog = false`) and no
    surplus flag-setting line was read at a harmful moment (`surplusHit = false`), the acknowledgement
    bookkeeping is exact. -/
def SInv (s : St) : Prop :=
  (s.cphase = .waitOnline → s.backlog = false) ∧ (s.backlog = false → s.surplusHit = false → Core s)

theorem sinv_init : SInv {} := by
  refine ⟨fun _ => rfl, fun _ _ => ⟨?_, ?_, ?_⟩⟩
  · intro p hp; simp at hp
  · intro h; simp at h
  · intro _; refine ⟨fun _ => by simp, fun h => by simp at h, fun h => by simp at h⟩

theorem termOf_cons_nt {r : Reply} {rs : List Reply} (h : r.terminal = false) : termOf (r :: rs) = termOf rs := by
  simp [termOf, h]
theorem termOf_cons_t {r : Reply} {rs : List Reply} (h : r.terminal = true) : termOf (r :: rs) = r :: termOf rs := by
  simp [termOf, h]

set_option maxHeartbeats 1000000 in
theorem core_lListen {s s' : St} (h : Core s) (hs : stepLive s .lListen = some s') (hsp : s'.surplusHit = false) :
    Core s' := by
  rcases s with ⟨cphase, online, printing, clear, lost, next, wstate, ack, err, priq, toDev, toHost, devLog, heard, devBad, outcomes, backlog, probes, discRaised, surplusHit, anyXbad, dueErr, lineNumbers⟩
  simp only [stepLive] at hs
  split at hs
  · simp at hs
  · rename_i hlost
    simp only [Bool.not_eq_true] at hlost
    subst hlost
    split at hs
    · simp at hs
    · rename_i x r rs
      simp at hs; subst hs
      cases r with
      | status =>
        simp only [hear]
        simp only [Core, OutOK, LostPart, Phase, ConnPhase, WritePhase, NoFlight, InFlight, Unanswered, Answered, halted, termOf_cons_nt (r := .status) rfl] at h ⊢
        exact h
      | temp =>
        simp only [hear]
        split
        · simp only [Core, OutOK, LostPart, Phase, ConnPhase, WritePhase, NoFlight, InFlight, Unanswered, Answered, halted, termOf_cons_nt (r := .temp) rfl] at h ⊢
          exact h
        · simp only [Core, OutOK, LostPart, Phase, ConnPhase, WritePhase, NoFlight, InFlight, Unanswered, Answered, halted, termOf_cons_nt (r := .temp) rfl] at h ⊢
          grind
      | ok c =>
        simp only [hear]
        split
        · simp only [Core, OutOK, LostPart, Phase, ConnPhase, WritePhase, NoFlight, InFlight, Unanswered, Answered, halted, termOf_cons_t (r := .ok c) rfl] at h ⊢
          cases cphase <;> cases wstate <;> simp_all <;> grind
        · simp only [Core, OutOK, LostPart, Phase, ConnPhase, WritePhase, NoFlight, InFlight, Unanswered, Answered, halted, termOf_cons_t (r := .ok c) rfl] at h ⊢
          cases cphase <;> cases wstate <;> simp_all <;> grind
      | bad c =>
        simp only [hear]
        simp only [Core, OutOK, LostPart, Phase, ConnPhase, WritePhase, NoFlight, InFlight, Unanswered, Answered, halted, termOf_cons_t (r := .bad c) rfl] at h ⊢
        cases cphase <;> cases wstate <;> simp_all <;> grind
      | xok =>
        simp only [hear] at hsp ⊢
        split
        · rename_i hon
          simp only [hon, if_true, Bool.or_eq_false_iff, surplusNow] at hsp
          simp only [Core, OutOK, LostPart, Phase, ConnPhase, WritePhase, NoFlight, InFlight, Unanswered, Answered, halted, termOf_cons_nt (r := .xok) rfl] at h ⊢
          cases cphase <;> cases wstate <;> simp_all
        · rename_i hon
          simp only [hon, if_false, Bool.or_eq_false_iff, surplusNow] at hsp
          simp only [Core, OutOK, LostPart, Phase, ConnPhase, WritePhase, NoFlight, InFlight, Unanswered, Answered, halted, termOf_cons_nt (r := .xok) rfl] at h ⊢
          cases cphase <;> cases wstate <;> simp_all
      | xbad =>
        simp only [hear, Bool.or_eq_false_iff, surplusNow] at hsp ⊢
        simp only [Core, OutOK, LostPart, Phase, ConnPhase, WritePhase, NoFlight, InFlight, Unanswered, Answered, halted, termOf_cons_nt (r := .xbad) rfl] at h ⊢
        cases cphase <;> cases wstate <;> simp_all
      | greet =>
        simp only [hear] at hsp ⊢
        split
        · rename_i hon
          simp only [hon, if_true, Bool.or_eq_false_iff] at hsp
          simp only [Core, OutOK, LostPart, Phase, ConnPhase, WritePhase, NoFlight, InFlight, Unanswered, Answered, halted, termOf_cons_nt (r := .greet) rfl] at h ⊢
          cases cphase <;> cases wstate <;> simp_all
        · rename_i hon
          simp only [hon, if_false] at hsp
          simp only [Core, OutOK, LostPart, Phase, ConnPhase, WritePhase, NoFlight, InFlight, Unanswered, Answered, halted, termOf_cons_nt (r := .greet) rfl] at h ⊢
          cases cphase <;> cases wstate <;> simp_all

theorem core_xLoss {s s' : St} (h : Core s) (hs : stepLive s .xLoss = some s') : Core s' := by
  rcases s with ⟨cphase, online, printing, clear, lost, next, wstate, ack, err, priq, toDev, toHost, devLog, heard, devBad, outcomes, backlog, probes, discRaised, surplusHit, anyXbad, dueErr, lineNumbers⟩
  simp only [stepLive] at hs
  split at hs
  · simp at hs
  · rename_i hg
    simp only [Bool.not_eq_true] at hg
    subst hg
    simp at hs; subst hs
    simp only [Core, OutOK, LostPart, Phase, ConnPhase, WritePhase, NoFlight, InFlight, Unanswered, Answered, halted, tx, pending] at h ⊢
    cases cphase <;> cases wstate <;> simp_all

macro "inv_simp" : tactic => `(tactic| simp only [Core, OutOK, LostPart, Phase, ConnPhase, WritePhase, NoFlight, InFlight, Unanswered, Answered, halted, tx, txReset, pending] at *)

theorem core_lProbe {s s' : St} (h : Core s) (hs : stepLive s .lProbe = some s') : Core s' := by
  rcases s with ⟨cphase, online, printing, clear, lost, next, wstate, ack, err, priq, toDev, toHost, devLog, heard, devBad, outcomes, backlog, probes, discRaised, surplusHit, anyXbad, dueErr, lineNumbers⟩
  simp only [stepLive] at hs
  split at hs
  · simp at hs; subst hs
    inv_simp
    cases cphase <;> cases wstate <;> cases lost <;> simp_all
  · simp at hs

theorem core_cPoll {s s' : St} (h : Core s) (hs : stepLive s .cPoll = some s') : Core s' := by
  rcases s with ⟨cphase, online, printing, clear, lost, next, wstate, ack, err, priq, toDev, toHost, devLog, heard, devBad, outcomes, backlog, probes, discRaised, surplusHit, anyXbad, dueErr, lineNumbers⟩
  simp only [stepLive] at hs
  split at hs
  · split at hs
    · simp at hs; subst hs
      inv_simp
      cases cphase <;> cases wstate <;> cases lost <;> simp_all
    · split at hs
      · simp at hs
      · simp at hs; subst hs
        inv_simp
        cases cphase <;> cases wstate <;> cases lost <;> simp_all
  · simp at hs

theorem core_cDisc {s s' : St} (h : Core s) (hs : stepLive s .cDisc = some s') : Core s' := by
  rcases s with ⟨cphase, online, printing, clear, lost, next, wstate, ack, err, priq, toDev, toHost, devLog, heard, devBad, outcomes, backlog, probes, discRaised, surplusHit, anyXbad, dueErr, lineNumbers⟩
  simp only [stepLive] at hs
  split at hs
  · split at hs
    · simp at hs; subst hs
      inv_simp
      cases cphase <;> cases wstate <;> cases lost <;> simp_all
    · split at hs
      · simp at hs
      · simp at hs; subst hs
        inv_simp
        cases cphase <;> cases wstate <;> cases lost <;> simp_all
  · simp at hs

theorem core_wWake {s s' : St} (h : Core s) (hs : stepLive s .wWake = some s') : Core s' := by
  rcases s with ⟨cphase, online, printing, clear, lost, next, wstate, ack, err, priq, toDev, toHost, devLog, heard, devBad, outcomes, backlog, probes, discRaised, surplusHit, anyXbad, dueErr, lineNumbers⟩
  simp only [stepLive] at hs
  split at hs
  · split at hs
    · simp at hs; subst hs
      inv_simp
      cases cphase <;> cases lost <;> simp_all
    · simp at hs
  · simp at hs

theorem core_sSend {s s' : St} (h : Core s) (hs : stepLive s .sSend = some s') : Core s' := by
  rcases s with ⟨cphase, online, printing, clear, lost, next, wstate, ack, err, priq, toDev, toHost, devLog, heard, devBad, outcomes, backlog, probes, discRaised, surplusHit, anyXbad, dueErr, lineNumbers⟩
  simp only [stepLive] at hs
  split at hs
  · simp at hs
  · split at hs
    · simp at hs
    · simp at hs; subst hs
      inv_simp
      cases cphase <;> cases wstate <;> cases lost <;> simp_all


set_option maxHeartbeats 1000000 in
theorem core_pSendnext {s s' : St} (h : Core s) (hs : stepLive s .pSendnext = some s') : Core s' := by
  rcases s with ⟨cphase, online, printing, clear, lost, next, wstate, ack, err, priq, toDev, toHost, devLog, heard, devBad, outcomes, backlog, probes, discRaised, surplusHit, anyXbad, dueErr, lineNumbers⟩
  simp only [stepLive] at hs
  split at hs
  · rename_i hg
    obtain ⟨hg1, hg2⟩ := hg
    subst hg1 hg2
    split at hs
    · simp at hs; subst hs
      cases lost
      · inv_simp
        cases cphase <;> simp_all
      · inv_simp
        cases cphase <;> cases wstate <;> simp_all
    · simp at hs; subst hs
      cases lost
      · inv_simp
        cases lineNumbers <;> cases cphase <;> cases wstate <;> simp_all
      · inv_simp
        cases lineNumbers <;> cases cphase <;> cases wstate <;> simp_all
  · simp at hs

/-- a command was unanswered when `startprint` ran -/
theorem core_cOnline {s s' : St} (h : Core s) (hs : stepLive s .cOnline = some s') (hb : s'.backlog = false) : Core s' := by
  rcases s with ⟨cphase, online, printing, clear, lost, next, wstate, ack, err, priq, toDev, toHost, devLog, heard, devBad, outcomes, backlog, probes, discRaised, surplusHit, anyXbad, dueErr, lineNumbers⟩
  simp only [stepLive] at hs
  split at hs
  · rename_i hg
    obtain ⟨hg1, hg2⟩ := hg
    subst hg1 hg2
    split at hs
    · simp at hs; subst hs
      inv_simp
      cases wstate <;> cases lost <;> simp_all
    · simp at hs; subst hs
      cases lineNumbers
      · simp [backlogAt, probeFlight_iff] at hb
        inv_simp
        cases wstate <;> cases lost <;> simp_all <;> grind
      · simp [backlogAt] at hb
        inv_simp
        cases wstate <;> cases lost <;> simp_all
  · simp at hs

theorem core_wClear {s s' : St} (ho : OrderInv s) (hw : WireInv s) (h : Core s) (hs : stepLive s .wClear = some s') :
    Core s' := by
  have hlog : Cmd.stmt s.next ∉ s.devLog := by
    intro h1
    have h2 : s.next ∈ stmtIds (s.devLog ++ s.toDev ++ s.priq) := by
      rw [mem_stmtIds]; simp [h1]
    rw [ho.ids] at h2
    simp at h2
  have hfresh2 : Cmd.stmt s.next ∉ s.heard := fun hm => hlog (hw.2 _ hm)
  have hfresh : Cmd.stmt s.next ∉ s.devBad := by
    intro hm
    have h1 := ho.bad _ hm
    have h2 : s.next ∈ stmtIds (s.devLog ++ s.toDev ++ s.priq) := by
      rw [mem_stmtIds]; simp [h1]
    rw [ho.ids] at h2
    simp at h2
  rcases s with ⟨cphase, online, printing, clear, lost, next, wstate, ack, err, priq, toDev, toHost, devLog, heard, devBad, outcomes, backlog, probes, discRaised, surplusHit, anyXbad, dueErr, lineNumbers⟩
  simp only [stepLive] at hs
  split at hs
  · rename_i hg
    obtain ⟨hg1, hg2⟩ := hg
    subst hg1 hg2
    simp at hs; subst hs
    inv_simp
    cases lost <;> simp_all
  · simp at hs

theorem core_wEnq {s s' : St} (ho : OrderInv s) (h : Core s) (hs : stepLive s .wEnq = some s') : Core s' := by
  have hcur := ho.cur.1
  rcases s with ⟨cphase, online, printing, clear, lost, next, wstate, ack, err, priq, toDev, toHost, devLog, heard, devBad, outcomes, backlog, probes, discRaised, surplusHit, anyXbad, dueErr, lineNumbers⟩
  simp only [stepLive] at hs
  split at hs
  · rename_i xw k
    simp at hs; subst hs
    have := hcur k rfl
    subst this
    inv_simp
    cases cphase <;> cases lost <;> simp_all
  · simp at hs

theorem core_wFinish {s s' : St} (ho : OrderInv s) (h : Core s) (hh : halted s = false) (hs : stepLive s .wFinish = some s') : Core s' := by
  have hcur := ho.cur.2.2
  rcases s with ⟨cphase, online, printing, clear, lost, next, wstate, ack, err, priq, toDev, toHost, devLog, heard, devBad, outcomes, backlog, probes, discRaised, surplusHit, anyXbad, dueErr, lineNumbers⟩
  simp only [stepLive] at hs
  split at hs
  · rename_i xw k
    simp at hs; subst hs
    have := hcur k rfl
    simp only at this
    subst this
    inv_simp
    cases cphase <;> cases lost <;> cases err <;> simp_all <;> grind
  · simp at hs

set_option maxHeartbeats 1000000 in
theorem core_dProcess {s s' : St} (pre : List Bool) (isErr : Bool) (h : Core s) (hh : halted s = false)
    (hs : stepLive s (.dProcess pre isErr) = some s') : Core s' := by
  rcases s with ⟨cphase, online, printing, clear, lost, next, wstate, ack, err, priq, toDev, toHost, devLog, heard, devBad, outcomes, backlog, probes, discRaised, surplusHit, anyXbad, dueErr, lineNumbers⟩
  simp only [stepLive] at hs
  split at hs
  · simp at hs
  · rename_i hl
    simp only [Bool.not_eq_true] at hl
    subst hl
    split at hs
    · simp at hs
    · rename_i x c cs
      simp at hs; subst hs
      cases isErr
      · have e1 : termOf (toHost ++ (pre.map preLine ++ [Reply.ok c])) = termOf toHost ++ [Reply.ok c] := by
          rw [← List.append_assoc]; exact termOf_emit toHost pre (.ok c) rfl
        simp only [Bool.false_eq_true, if_false]
        inv_simp
        rw [e1]
        cases cphase <;> cases wstate <;> simp_all <;> grind
      · have e1 : termOf (toHost ++ (pre.map preLine ++ [Reply.bad c])) = termOf toHost ++ [Reply.bad c] := by
          rw [← List.append_assoc]; exact termOf_emit toHost pre (.bad c) rfl
        simp only [if_true]
        inv_simp
        rw [e1]
        cases cphase <;> cases wstate <;> simp_all <;> grind


theorem termOf_snoc_nt (l : List Reply) {r : Reply} (h : r.terminal = false) : termOf (l ++ [r]) = termOf l := by
  simp [termOf, h]

theorem core_dPush {s s' : St} (isErr : Bool) (h : Core s) (hs : stepLive s (.dPush isErr) = some s') : Core s' := by
  rcases s with ⟨cphase, online, printing, clear, lost, next, wstate, ack, err, priq, toDev, toHost, devLog, heard, devBad, outcomes, backlog, probes, discRaised, surplusHit, anyXbad, dueErr, lineNumbers⟩
  simp only [stepLive] at hs
  split at hs
  · simp at hs
  · simp at hs; subst hs
    cases isErr
    · simp only [Bool.false_eq_true, if_false]
      simp only [Core, OutOK, LostPart, Phase, ConnPhase, WritePhase, NoFlight, InFlight, Unanswered, Answered, halted,
        termOf_snoc_nt toHost (r := .xok) rfl] at h ⊢
      exact h
    · simp only [if_true]
      simp only [Core, OutOK, LostPart, Phase, ConnPhase, WritePhase, NoFlight, InFlight, Unanswered, Answered, halted,
        termOf_snoc_nt toHost (r := .xbad) rfl] at h ⊢
      exact h

theorem core_dGreet {s s' : St} (h : Core s) (hs : stepLive s .dGreet = some s') : Core s' := by
  rcases s with ⟨cphase, online, printing, clear, lost, next, wstate, ack, err, priq, toDev, toHost, devLog, heard, devBad, outcomes, backlog, probes, discRaised, surplusHit, anyXbad, dueErr, lineNumbers⟩
  simp only [stepLive] at hs
  split at hs
  · simp at hs
  · simp at hs; subst hs
    simp only [Core, OutOK, LostPart, Phase, ConnPhase, WritePhase, NoFlight, InFlight, Unanswered, Answered, halted,
      termOf_snoc_nt toHost (r := .greet) rfl] at h ⊢
    exact h

/-! ### the ghost flags `backlog` (written once, by `cOnline`) and `surplusHit` (raised by `lListen` only) -/

theorem stepLive_frame {s s' : St} {a : Act} (hs : stepLive s a = some s') :
    (a ≠ .cOnline → s'.backlog = s.backlog) ∧ (s'.cphase = .waitOnline → s.cphase = .waitOnline ∧ a ≠ .cOnline)
    ∧ (a = .cOnline → s.cphase = .waitOnline) ∧ (s'.surplusHit = false → s.surplusHit = false) := by
  cases a with
  | lListen =>
    simp only [stepLive] at hs
    split at hs
    · simp at hs
    · split at hs
      · simp at hs
      · rename_i r rs hq
        simp at hs; subst hs
        cases r <;> simp only [hear] <;> (try split) <;> simp_all
  | _ => simp only [stepLive] at hs <;> (repeat' split at hs) <;> simp at hs <;> subst hs <;> simp_all

theorem sinv_step {s s' : St} (a : Act) (ho : OrderInv s) (hw : WireInv s) (h : SInv s) (hs : step s a = some s') :
    SInv s' := by
  unfold step at hs
  split at hs
  · simp at hs
  · rename_i hh
    have hh : halted s = false := by simpa using hh
    obtain ⟨f1, f2, f3, f4⟩ := stepLive_frame hs
    refine ⟨?_, ?_⟩
    · intro hw
      obtain ⟨h1, h2⟩ := f2 hw
      rw [f1 h2]; exact h.1 h1
    · intro hb hsp
      have hsp0 := f4 hsp
      cases a with
      | cOnline => exact core_cOnline (h.2 (h.1 (f3 rfl)) hsp0) hs hb
      | lProbe => exact core_lProbe (h.2 (by rw [← f1 (by simp)]; exact hb) hsp0) hs
      | lListen => exact core_lListen (h.2 (by rw [← f1 (by simp)]; exact hb) hsp0) hs hsp
      | xLoss => exact core_xLoss (h.2 (by rw [← f1 (by simp)]; exact hb) hsp0) hs
      | pSendnext => exact core_pSendnext (h.2 (by rw [← f1 (by simp)]; exact hb) hsp0) hs
      | cPoll => exact core_cPoll (h.2 (by rw [← f1 (by simp)]; exact hb) hsp0) hs
      | cDisc => exact core_cDisc (h.2 (by rw [← f1 (by simp)]; exact hb) hsp0) hs
      | wClear => exact core_wClear ho hw (h.2 (by rw [← f1 (by simp)]; exact hb) hsp0) hs
      | wEnq => exact core_wEnq ho (h.2 (by rw [← f1 (by simp)]; exact hb) hsp0) hs
      | wWake => exact core_wWake (h.2 (by rw [← f1 (by simp)]; exact hb) hsp0) hs
      | wFinish => exact core_wFinish ho (h.2 (by rw [← f1 (by simp)]; exact hb) hsp0) hh hs
      | sSend => exact core_sSend (h.2 (by rw [← f1 (by simp)]; exact hb) hsp0) hs
      | dProcess pre isErr => exact core_dProcess pre isErr (h.2 (by rw [← f1 (by simp)]; exact hb) hsp0) hh hs
      | dPush isErr => exact core_dPush isErr (h.2 (by rw [← f1 (by simp)]; exact hb) hsp0) hs
      | dGreet => exact core_dGreet (h.2 (by rw [← f1 (by simp)]; exact hb) hsp0) hs

theorem orderInv_step {s s' : St} (a : Act) (h : OrderInv s) (hs : step s a = some s') : OrderInv s' := by
  unfold step at hs
  split at hs
  · simp at hs
  · exact orderInv_stepLive a h hs

theorem wireInv_step {s s' : St} (a : Act) (h : WireInv s) (hs : step s a = some s') : WireInv s' := by
  unfold step at hs
  split at hs
  · simp at hs
  · exact wireInv_stepLive a h hs

theorem inv_run : ∀ (acts : List Act) (s s' : St), OrderInv s → WireInv s → SInv s → run s acts = some s' →
    OrderInv s' ∧ WireInv s' ∧ SInv s'
  | [], s, s', ho, hw, h, hr => by simp [run] at hr; subst hr; exact ⟨ho, hw, h⟩
  | a :: as, s, s', ho, hw, h, hr => by
      simp only [run] at hr
      cases hst : step s a with
      | none => simp [hst] at hr
      | some s1 =>
        simp [hst] at hr
        exact inv_run as s1 s' (orderInv_step a ho hst) (wireInv_step a hw hst) (sinv_step a ho hw h hst) hr

/-! ### a single probe answered with `ok` leaves no backlog -/

/-- the device never emits a line containing "T:" (no temperature auto-report), never pushes a
    surplus `ok` / an unsolicited error line and never greets (line-number mode) -/
def Act.noTemp : Act → Bool
  | .dProcess pre _ => !pre.contains true
  | .dPush _ => false
  | .dGreet => false
  | _ => true

def JInv (s : St) : Prop :=
  (s.cphase = .waitOnline →
      s.printing = false ∧ s.priq = [] ∧ s.wstate = .idle ∧ s.backlog = false ∧ Reply.temp ∉ s.toHost ∧ Reply.xok ∉ s.toHost ∧ Reply.xbad ∉ s.toHost
      ∧ Reply.greet ∉ s.toHost ∧ s.lineNumbers = true
      ∧ s.toDev.length + (termOf s.toHost).length + s.heard.length = s.probes
      ∧ (s.online = true → 1 ≤ s.heard.length))
  ∧ (s.cphase ≠ .waitOnline → s.online = true ∧ (s.probes ≤ 1 → s.backlog = false))

theorem jInv_init : JInv {} := by simp [JInv, termOf]

theorem not_temp_pre {pre : List Bool} (h : pre.contains true = false) : Reply.temp ∉ pre.map preLine := by
  intro hm
  rw [List.mem_map] at hm
  obtain ⟨t, ht, he⟩ := hm
  cases t
  · simp [preLine] at he
  · simp at h; exact h ht

set_option maxHeartbeats 1000000 in
theorem jInv_stepLive {s s' : St} (a : Act) (hn : a.noTemp = true) (h : JInv s) (hs : stepLive s a = some s') : JInv s' := by
  rcases s with ⟨cphase, online, printing, clear, lost, next, wstate, ack, err, priq, toDev, toHost, devLog, heard, devBad, outcomes, backlog, probes, discRaised, surplusHit, anyXbad, dueErr, lineNumbers⟩
  cases a with
  | lListen =>
    simp only [stepLive] at hs
    split at hs
    · simp at hs
    · split at hs
      · simp at hs
      · rename_i x r rs
        simp at hs; subst hs
        simp only [JInv] at h ⊢
        cases r with
        | status => simp only [hear, termOf_cons_nt (r := .status) rfl] at h ⊢; cases cphase <;> simp_all
        | temp => cases cphase <;> simp_all [hear]
        | ok c => simp only [hear, termOf_cons_t (r := .ok c) rfl] at h ⊢; split <;> cases cphase <;> simp_all <;> omega
        | bad c => simp only [hear, termOf_cons_t (r := .bad c) rfl] at h ⊢; cases cphase <;> simp_all <;> omega
        | xok => simp only [hear] at h ⊢; split <;> cases cphase <;> simp_all
        | xbad => simp only [hear] at h ⊢; cases cphase <;> simp_all
        | greet => simp only [hear] at h ⊢; split <;> cases cphase <;> simp_all
  | dProcess pre isErr =>
    simp only [Act.noTemp, Bool.not_eq_true'] at hn
    have hnt := not_temp_pre hn
    have hx1 : Reply.xok ∉ pre.map preLine := by
      intro hm; rw [List.mem_map] at hm; obtain ⟨t, _, ht⟩ := hm; cases t <;> simp [preLine] at ht
    have hx2 : Reply.xbad ∉ pre.map preLine := by
      intro hm; rw [List.mem_map] at hm; obtain ⟨t, _, ht⟩ := hm; cases t <;> simp [preLine] at ht
    have hx3 : Reply.greet ∉ pre.map preLine := by
      intro hm; rw [List.mem_map] at hm; obtain ⟨t, _, ht⟩ := hm; cases t <;> simp [preLine] at ht
    simp only [stepLive] at hs
    split at hs
    · simp at hs
    · split at hs
      · simp at hs
      · rename_i x c cs
        simp at hs; subst hs
        simp only [JInv] at h ⊢
        cases isErr
        · have e1 : termOf (toHost ++ (pre.map preLine ++ [Reply.ok c])) = termOf toHost ++ [Reply.ok c] := by
            rw [← List.append_assoc]; exact termOf_emit toHost pre (.ok c) rfl
          simp only [Bool.false_eq_true, if_false]
          rw [e1]
          cases cphase <;> simp_all <;> omega
        · have e1 : termOf (toHost ++ (pre.map preLine ++ [Reply.bad c])) = termOf toHost ++ [Reply.bad c] := by
            rw [← List.append_assoc]; exact termOf_emit toHost pre (.bad c) rfl
          simp only [if_true]
          rw [e1]
          cases cphase <;> simp_all <;> omega
  | lProbe =>
    simp only [stepLive] at hs
    split at hs
    · simp at hs; subst hs
      simp only [JInv] at h ⊢
      cases cphase <;> simp_all <;> omega
    · simp at hs
  | cOnline =>
    simp only [stepLive] at hs
    split at hs
    · rename_i hg
      obtain ⟨hg1, hg2⟩ := hg
      subst hg1 hg2
      split at hs
      · simp at hs; subst hs; simp_all [JInv]
      · simp at hs; subst hs; simp_all [JInv, backlogAt]
        intro hp
        have : toDev.length = 0 ∧ (termOf toHost).length = 0 := by omega
        simp_all
    · simp at hs
  | dPush e => simp [Act.noTemp] at hn
  | dGreet => simp [Act.noTemp] at hn
  | pSendnext =>
    simp only [stepLive] at hs
    split at hs
    · rename_i hg
      split at hs <;> (simp at hs; subst hs; simp only [JInv] at h ⊢; cases cphase <;> simp_all)
    · simp at hs
  | _ =>
    simp only [stepLive] at hs
    (repeat' split at hs) <;> simp at hs <;> subst hs <;> simp_all [JInv, tx] <;> (try split) <;> (try simp_all) <;> (try omega)

/-! ### `disconnect(wait=True)` finishes only when nothing is pending -/

def DInv (s : St) : Prop := s.cphase = .disconnected → s.discRaised = false → pending s = false

theorem dInv_init : DInv {} := by simp [DInv]

theorem dInv_step {s s' : St} (a : Act) (hs : step s a = some s') : DInv s' := by
  unfold step at hs
  split at hs
  · simp at hs
  · rename_i hh
    simp only [halted, Bool.or_eq_true, beq_iff_eq, not_or] at hh
    rcases s with ⟨cphase, online, printing, clear, lost, next, wstate, ack, err, priq, toDev, toHost, devLog, heard, devBad, outcomes, backlog, probes, discRaised, surplusHit, anyXbad, dueErr, lineNumbers⟩
    cases a with
    | lListen =>
      simp only [stepLive] at hs
      (repeat' split at hs) <;> simp at hs <;> subst hs <;> simp_all [DInv]
    | _ =>
      simp only [stepLive] at hs
      (repeat' split at hs) <;> simp at hs <;> subst hs <;> simp_all [DInv, pending]

/-! ### an error line that has been read stays stored until it is raised -/

/-- `dueErr`: an error line was read and no `write()`, `connect()` or `disconnect(wait=True)` has raised
    since.  Then the error is still stored and the writer is alive. -/
def EInv (s : St) : Prop := s.dueErr = true → s.err = true ∧ halted s = false

theorem eInv_init : EInv {} := by simp [EInv]

theorem eInv_step {s s' : St} (a : Act) (h : EInv s) (hs : step s a = some s') : EInv s' := by
  unfold step at hs
  split at hs
  · simp at hs
  · rename_i hh
    rcases s with ⟨cphase, online, printing, clear, lost, next, wstate, ack, err, priq, toDev, toHost, devLog, heard, devBad, outcomes, backlog, probes, discRaised, surplusHit, anyXbad, dueErr, lineNumbers⟩
    simp only [halted, Bool.or_eq_true, beq_iff_eq, not_or] at hh
    cases a with
    | lListen =>
      simp only [stepLive] at hs
      split at hs
      · simp at hs
      · split at hs
        · simp at hs
        · rename_i x r rs
          simp at hs; subst hs
          cases r <;> simp only [hear] <;> (try split) <;> simp_all [EInv, halted]
    | _ =>
      simp only [stepLive] at hs
      (repeat' split at hs) <;> simp at hs <;> subst hs <;> simp_all [EInv, halted]

theorem eInv_run : ∀ (acts : List Act) (s s' : St), EInv s → run s acts = some s' → EInv s'
  | [], s, s', h, hr => by simp [run] at hr; subst hr; exact h
  | a :: as, s, s', h, hr => by
      simp only [run] at hr
      cases hst : step s a with
      | none => simp [hst] at hr
      | some s1 =>
        simp [hst] at hr
        exact eInv_run as s1 s' (eInv_step a h hst) hr

/-! ### without `dPush` no surplus line exists -/

def PInv (s : St) : Prop := Reply.xok ∉ s.toHost ∧ Reply.xbad ∉ s.toHost ∧ s.surplusHit = false ∧ Reply.greet ∉ s.toHost

theorem pInv_init : PInv {} := by simp [PInv]

theorem pInv_step {s s' : St} (a : Act) (hn : a.noTemp = true) (h : PInv s) (hs : step s a = some s') : PInv s' := by
  unfold step at hs
  split at hs
  · simp at hs
  · rename_i hh
    rcases s with ⟨cphase, online, printing, clear, lost, next, wstate, ack, err, priq, toDev, toHost, devLog, heard, devBad, outcomes, backlog, probes, discRaised, surplusHit, anyXbad, dueErr, lineNumbers⟩
    cases a with
    | lListen =>
      simp only [stepLive] at hs
      split at hs
      · simp at hs
      · split at hs
        · simp at hs
        · rename_i x r rs
          simp at hs; subst hs
          cases r <;> simp only [hear] <;> (try split) <;> simp_all [PInv]
    | dProcess pre isErr =>
      have hx1 : Reply.xok ∉ pre.map preLine := by
        intro hm; rw [List.mem_map] at hm; obtain ⟨t, _, ht⟩ := hm; cases t <;> simp [preLine] at ht
      have hx2 : Reply.xbad ∉ pre.map preLine := by
        intro hm; rw [List.mem_map] at hm; obtain ⟨t, _, ht⟩ := hm; cases t <;> simp [preLine] at ht
      have hx3 : Reply.greet ∉ pre.map preLine := by
        intro hm; rw [List.mem_map] at hm; obtain ⟨t, _, ht⟩ := hm; cases t <;> simp [preLine] at ht
      simp only [stepLive] at hs
      (repeat' split at hs) <;> simp at hs <;> subst hs <;> cases isErr <;> simp_all [PInv]
    | dPush e => simp [Act.noTemp] at hn
    | dGreet => simp [Act.noTemp] at hn
    | _ =>
      simp only [stepLive] at hs
      (repeat' split at hs) <;> simp at hs <;> subst hs <;> simp_all [PInv]

theorem pInv_run : ∀ (acts : List Act) (s s' : St), (∀ a ∈ acts, a.noTemp = true) → PInv s →
    run s acts = some s' → PInv s'
  | [], s, s', _, h, hr => by simp [run] at hr; subst hr; exact h
  | a :: as, s, s', hn, h, hr => by
      simp only [run] at hr
      cases hst : step s a with
      | none => simp [hst] at hr
      | some s1 =>
        simp [hst] at hr
        exact pInv_run as s1 s' (fun b hb => hn b (List.mem_cons_of_mem _ hb))
          (pInv_step a (hn a List.mem_cons_self) h hst) hr

/-! ### lifting to runs -/

theorem jInv_run : ∀ (acts : List Act) (s s' : St), (∀ a ∈ acts, a.noTemp = true) → JInv s →
    run s acts = some s' → JInv s'
  | [], s, s', _, h, hr => by simp [run] at hr; subst hr; exact h
  | a :: as, s, s', hn, h, hr => by
      simp only [run] at hr
      cases hst : step s a with
      | none => simp [hst] at hr
      | some s1 =>
        simp [hst] at hr
        refine jInv_run as s1 s' (fun b hb => hn b (List.mem_cons_of_mem _ hb)) ?_ hr
        unfold step at hst
        split at hst
        · simp at hst
        · exact jInv_stepLive a (hn a (List.mem_cons_self)) h hst

theorem dInv_run : ∀ (acts : List Act) (s s' : St), DInv s → run s acts = some s' → DInv s'
  | [], s, s', h, hr => by simp [run] at hr; subst hr; exact h
  | a :: as, s, s', h, hr => by
      simp only [run] at hr
      cases hst : step s a with
      | none => simp [hst] at hr
      | some s1 =>
        simp [hst] at hr
        exact dInv_run as s1 s' (dInv_step a hst) hr

/-! ### a greeting read first, a single probe: no backlog either -/

/-- the port has just been opened on a controller that greets: `Grbl …` is the first line on the wire -/
def grblInit : St := { toHost := [.greet] }

/-- the greeting is the next line to be read, and the only greeting on the wire -/
def greetHead : List Reply → Prop
  | .greet :: rs => Reply.greet ∉ rs
  | _ => False

theorem greetHead_append {l m : List Reply} (h : greetHead l) (hm : Reply.greet ∉ m) : greetHead (l ++ m) := by
  cases l with
  | nil => simp [greetHead] at h
  | cons r rs => cases r <;> simp_all [greetHead]

theorem greetHead_mem {l : List Reply} (h : greetHead l) : Reply.greet ∈ l := by
  cases l with
  | nil => simp [greetHead] at h
  | cons r rs => cases r <;> simp_all [greetHead]

/-- the greeting is unread and nothing else has been read, or it was read by `_listen_until_online` -/
def GA (s : St) : Prop :=
  (greetHead s.toHost ∧ s.online = false ∧ s.heard = [] ∧ s.cphase = .waitOnline ∧ s.lineNumbers = true)
  ∨ (Reply.greet ∉ s.toHost ∧ s.online = true ∧ s.lineNumbers = false)

def GB (s : St) : Prop :=
  Reply.xok ∉ s.toHost ∧ Reply.xbad ∉ s.toHost ∧ s.surplusHit = false
  ∧ (s.cphase = .waitOnline →
      s.printing = false ∧ s.priq = [] ∧ s.wstate = .idle ∧ s.backlog = false
      ∧ s.toDev.length + (termOf s.toHost).length + s.heard.length = s.probes
      ∧ (∀ c ∈ s.toDev, c = .probe) ∧ (∀ c, (Reply.ok c ∈ s.toHost ∨ Reply.bad c ∈ s.toHost) → c = .probe))
  ∧ (s.cphase ≠ .waitOnline → s.probes ≤ 1 → s.backlog = false)

def GInv (s : St) : Prop := GA s ∧ GB s

theorem gInv_init : GInv grblInit := by simp [GInv, GA, GB, grblInit, termOf, Reply.terminal, greetHead]

theorem mem_termOf {r : Reply} {l : List Reply} : r ∈ termOf l ↔ r ∈ l ∧ r.terminal = true := by
  simp [termOf]

/-- at most one command unanswered, and only probes were sent: nothing or exactly one probe is in flight -/
theorem flight_le_one {toDev : List Cmd} {toHost : List Reply}
    (hl : toDev.length + (termOf toHost).length ≤ 1) (hd : ∀ c ∈ toDev, c = .probe)
    (hh : ∀ c, (Reply.ok c ∈ toHost ∨ Reply.bad c ∈ toHost) → c = .probe) :
    (toDev = [] ∧ termOf toHost = [])
    ∨ (toDev = [.probe] ∧ termOf toHost = [])
    ∨ (toDev = [] ∧ (termOf toHost = [.ok .probe] ∨ termOf toHost = [.bad .probe])) := by
  match toDev, hd, hl with
  | [], _, hl =>
    match ht : termOf toHost, hl with
    | [], _ => simp
    | [r], _ =>
      have hm : r ∈ termOf toHost := by rw [ht]; simp
      obtain ⟨hm1, hm2⟩ := mem_termOf.1 hm
      cases r with
      | ok c => have := hh c (Or.inl hm1); subst this; simp
      | bad c => have := hh c (Or.inr hm1); subst this; simp
      | _ => simp [Reply.terminal] at hm2
    | _ :: _ :: _, hl => simp at hl
  | [c], hd, hl =>
    have := hd c (by simp); subst this
    have : termOf toHost = [] := by
      cases ht : termOf toHost with
      | nil => rfl
      | cons _ _ => rw [ht] at hl; simp at hl; omega
    simp [this]
  | _ :: _ :: _, _, hl => simp at hl; omega



theorem pre_no_special (pre : List Bool) :
    Reply.xok ∉ pre.map preLine ∧ Reply.xbad ∉ pre.map preLine ∧ Reply.greet ∉ pre.map preLine
    ∧ ∀ c, Reply.ok c ∉ pre.map preLine ∧ Reply.bad c ∉ pre.map preLine := by
  refine ⟨?_, ?_, ?_, fun c => ⟨?_, ?_⟩⟩ <;>
    (intro hm; rw [List.mem_map] at hm; obtain ⟨t, _, ht⟩ := hm; cases t <;> simp [preLine] at ht)

theorem gA_stepLive {s s' : St} (a : Act) (hn : a.noTemp = true) (h : GA s) (hs : stepLive s a = some s') : GA s' := by
  rcases s with ⟨cphase, online, printing, clear, lost, next, wstate, ack, err, priq, toDev, toHost, devLog, heard, devBad, outcomes, backlog, probes, discRaised, surplusHit, anyXbad, dueErr, lineNumbers⟩
  cases a with
  | lListen =>
    simp only [stepLive] at hs
    split at hs
    · simp at hs
    · split at hs
      · simp at hs
      · rename_i x r rs
        simp at hs; subst hs
        simp only [GA] at h ⊢
        cases r <;> simp only [hear] <;> (try split) <;> simp_all [greetHead]
  | dProcess pre isErr =>
    obtain ⟨_, _, hg, _⟩ := pre_no_special pre
    simp only [stepLive] at hs
    split at hs
    · simp at hs
    · split at hs
      · simp at hs
      · rename_i x c cs
        simp at hs; subst hs
        simp only [GA] at h ⊢
        have hm : Reply.greet ∉ pre.map preLine ++ [if isErr = true then Reply.bad c else Reply.ok c] := by
          cases isErr <;> simp [hg]
        rcases h with ⟨h1, h2⟩ | ⟨h1, h2⟩
        · exact Or.inl ⟨greetHead_append h1 hm, h2⟩
        · refine Or.inr ⟨?_, h2⟩
          simp only [List.mem_append, not_or] at hm ⊢
          exact ⟨h1, hm⟩
  | dPush e => simp [Act.noTemp] at hn
  | dGreet => simp [Act.noTemp] at hn
  | _ =>
    simp only [stepLive] at hs
    (repeat' split at hs) <;> simp at hs <;> subst hs <;> simp_all [GA]

set_option maxHeartbeats 1000000 in
theorem gB_stepLive {s s' : St} (a : Act) (hn : a.noTemp = true) (hA : GA s) (h : GB s) (hs : stepLive s a = some s') :
    GB s' := by
  rcases s with ⟨cphase, online, printing, clear, lost, next, wstate, ack, err, priq, toDev, toHost, devLog, heard, devBad, outcomes, backlog, probes, discRaised, surplusHit, anyXbad, dueErr, lineNumbers⟩
  cases a with
  | lListen =>
    simp only [stepLive] at hs
    split at hs
    · simp at hs
    · split at hs
      · simp at hs
      · rename_i x r rs
        simp at hs; subst hs
        simp only [GB, GA] at h hA ⊢
        cases r with
        | status => simp only [hear, termOf_cons_nt (r := .status) rfl] at h ⊢; cases cphase <;> simp_all <;> grind
        | temp => simp only [hear, termOf_cons_nt (r := .temp) rfl] at h ⊢; split <;> cases cphase <;> simp_all <;> grind
        | ok c =>
          simp only [hear, termOf_cons_t (r := .ok c) rfl] at h ⊢
          split <;> cases cphase <;> simp_all [greetHead] <;> grind
        | bad c =>
          simp only [hear, termOf_cons_t (r := .bad c) rfl] at h ⊢
          cases cphase <;> simp_all [greetHead] <;> grind
        | xok => simp_all
        | xbad => simp_all
        | greet =>
          simp only [hear, termOf_cons_nt (r := .greet) rfl] at h ⊢
          split <;> cases cphase <;> simp_all [greetHead] <;> grind
  | dProcess pre isErr =>
    obtain ⟨hx1, hx2, hx3, hx4⟩ := pre_no_special pre
    simp only [stepLive] at hs
    split at hs
    · simp at hs
    · split at hs
      · simp at hs
      · rename_i x c cs
        simp at hs; subst hs
        simp only [GB] at h ⊢
        cases isErr
        · have e1 : termOf (toHost ++ (pre.map preLine ++ [Reply.ok c])) = termOf toHost ++ [Reply.ok c] := by
            rw [← List.append_assoc]; exact termOf_emit toHost pre (.ok c) rfl
          simp only [Bool.false_eq_true, if_false]
          rw [e1]
          refine ⟨by simp_all, by simp_all, h.2.2.1, ?_, h.2.2.2.2⟩
          intro hw
          obtain ⟨a1, a2, a3, a4, a5, a6, a7⟩ := h.2.2.2.1 hw
          refine ⟨a1, a2, a3, a4, by simp at a5 ⊢; omega, fun c' hc' => a6 c' (by simp [hc']), ?_⟩
          intro c' hc'
          have hc0 := a6 c (by simp)
          simp only [List.mem_append, List.mem_singleton, Reply.ok.injEq, reduceCtorEq, or_false] at hc'
          rcases hc' with (hc' | hc' | hc') | (hc' | hc')
          · exact a7 c' (Or.inl hc')
          · exact absurd hc' (hx4 c').1
          · rw [hc', hc0]
          · exact a7 c' (Or.inr hc')
          · exact absurd hc' (hx4 c').2
        · have e1 : termOf (toHost ++ (pre.map preLine ++ [Reply.bad c])) = termOf toHost ++ [Reply.bad c] := by
            rw [← List.append_assoc]; exact termOf_emit toHost pre (.bad c) rfl
          simp only [if_true]
          rw [e1]
          refine ⟨by simp_all, by simp_all, h.2.2.1, ?_, h.2.2.2.2⟩
          intro hw
          obtain ⟨a1, a2, a3, a4, a5, a6, a7⟩ := h.2.2.2.1 hw
          refine ⟨a1, a2, a3, a4, by simp at a5 ⊢; omega, fun c' hc' => a6 c' (by simp [hc']), ?_⟩
          intro c' hc'
          have hc0 := a6 c (by simp)
          simp only [List.mem_append, List.mem_singleton, Reply.bad.injEq, reduceCtorEq, or_false] at hc'
          rcases hc' with (hc' | hc') | (hc' | hc' | hc')
          · exact a7 c' (Or.inl hc')
          · exact absurd hc' (hx4 c').1
          · exact a7 c' (Or.inr hc')
          · exact absurd hc' (hx4 c').2
          · rw [hc', hc0]
  | lProbe =>
    simp only [stepLive] at hs
    split at hs
    · simp at hs; subst hs
      simp only [GB, GA] at h hA ⊢
      cases cphase <;> simp_all <;> grind
    · simp at hs
  | cOnline =>
    simp only [stepLive] at hs
    split at hs
    · rename_i hg
      obtain ⟨hg1, hg2⟩ := hg
      subst hg1 hg2
      split at hs
      · simp at hs; subst hs; simp_all [GB]
      · simp at hs; subst hs
        simp only [GB, GA] at h hA ⊢
        simp at h hA
        obtain ⟨hxo, hxb, hsh, _, _, _, hbk, hcnt, hdev, hwire⟩ := h
        obtain ⟨_, hln⟩ := hA
        subst hln
        refine ⟨by simpa using hxo, by simpa using hxb, by simpa using hsh, by simp, ?_⟩
        intro _ hp
        simp only [txReset_backlog, txReset_probes] at hp ⊢
        have hl : toDev.length + (termOf toHost).length ≤ 1 := by omega
        have := flight_le_one hl hdev hwire
        simp only [backlogAt, Bool.false_eq_true, if_false, Bool.not_eq_false', Bool.or_eq_true, Bool.and_eq_true,
          List.isEmpty_iff, probeFlight_iff]
        exact this
    · simp at hs
  | dPush e => simp [Act.noTemp] at hn
  | dGreet => simp [Act.noTemp] at hn
  | pSendnext =>
    simp only [stepLive] at hs
    split at hs
    · rename_i hg
      split at hs <;> (simp at hs; subst hs; simp only [GB] at h ⊢; cases cphase <;> simp_all)
    · simp at hs
  | _ =>
    simp only [stepLive] at hs
    (repeat' split at hs) <;> simp at hs <;> subst hs <;> simp_all [GB, tx] <;> (try split) <;> (try simp_all) <;> (try omega) <;> (try grind)

theorem gInv_run : ∀ (acts : List Act) (s s' : St), (∀ a ∈ acts, a.noTemp = true) → GInv s →
    run s acts = some s' → GInv s'
  | [], s, s', _, h, hr => by simp [run] at hr; subst hr; exact h
  | a :: as, s, s', hn, h, hr => by
      simp only [run] at hr
      cases hst : step s a with
      | none => simp [hst] at hr
      | some s1 =>
        simp [hst] at hr
        refine gInv_run as s1 s' (fun b hb => hn b (List.mem_cons_of_mem _ hb)) ?_ hr
        unfold step at hst
        split at hst
        · simp at hst
        · exact ⟨gA_stepLive a (hn a (List.mem_cons_self)) h.1 hst, gB_stepLive a (hn a (List.mem_cons_self)) h.1 h.2 hst⟩

/-- a schedule that begins with the greeting starts from `grblInit` -/
theorem run_dGreet (acts : List Act) : run {} (.dGreet :: acts) = run grblInit acts := by
  simp [run, step, stepLive, halted, grblInit]

theorem range_prefix {a b : List Nat} {n : Nat} (h : a ++ b = List.range n) :
    a = List.range a.length ∧ a.length ≤ n := by
  have hl : a.length + b.length = n := by
    have := congrArg List.length h
    simpa using this
  have hle : a.length ≤ n := by omega
  refine ⟨?_, hle⟩
  have h2 : (a ++ b).take a.length = (List.range n).take a.length := by rw [h]
  rw [List.take_left, List.take_range, Nat.min_eq_left hle] at h2
  exact h2

/-! ### start states for the statement that does not depend on the handshake model -/

/-- an acknowledgement is outstanding: a command written earlier is still unanswered or its answer unread -/
def StaleAck (s : St) : Prop := s.toDev ≠ [] ∨ termOf s.toHost ≠ []

/-- `connect()` has returned and the caller is about to write its first statement -/
def ConnectedIdle (s : St) : Prop :=
  s.cphase = .connected ∧ s.wstate = .idle ∧ s.lost = false ∧ s.backlog = false ∧ s.printing = false
  ∧ s.clear = true ∧ s.online = true ∧ s.priq = [] ∧ s.err = false ∧ s.outcomes = [] ∧ OrderInv s

theorem sinv_of_connectedIdle {s : St} (h : ConnectedIdle s) (hn : ¬StaleAck s) : SInv s := by
  obtain ⟨h1, h2, h3, h4, h5, h6, h7, h8, h9, h10, _⟩ := h
  have hd : s.toDev = [] := by
    apply Classical.byContradiction; intro hc; exact hn (Or.inl hc)
  have ht : termOf s.toHost = [] := by
    apply Classical.byContradiction; intro hc; exact hn (Or.inr hc)
  refine ⟨fun hw => (by simp [h1] at hw), fun _ _ => ⟨?_, ?_, ?_⟩⟩
  · intro p hp; simp [h10] at hp
  · intro hl; simp [h3] at hl
  · intro _
    refine ⟨fun hw => (by simp [h1] at hw), fun hw => (by simp [h1] at hw), fun _ => ?_⟩
    refine ⟨h5, h6, h7, fun _ => ⟨h8, ⟨hd, ht⟩, fun he => (by simp [h9] at he), ?_⟩, fun k hk => (by simp [h2] at hk),
      fun k hk => (by simp [h2] at hk), fun k hk => (by simp [h2] at hk)⟩
    intro p hp; simp [h10] at hp

end GscribModel.DirectWrite

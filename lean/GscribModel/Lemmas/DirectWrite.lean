import GscribModel.Model.DirectWrite
/-! Invariants of the direct-write transition system (`Model/DirectWrite.lean`) and their preservation
    by every transition.  Core tactics only. -/
namespace GscribModel.DirectWrite
set_option linter.unusedSimpArgs false
set_option linter.unusedVariables false

/-! ### lists -/

theorem stmtIds_append (a b : List Cmd) : stmtIds (a ++ b) = stmtIds a ++ stmtIds b := by
  induction a with
  | nil => rfl
  | cons c cs ih => cases c <;> simp [stmtIds, ih]

theorem mem_stmtIds {k : Nat} {l : List Cmd} : k ∈ stmtIds l ↔ Cmd.stmt k ∈ l := by
  induction l with
  | nil => simp [stmtIds]
  | cons c cs ih => cases c <;> simp [stmtIds, ih]

theorem termOf_append (a b : List Reply) : termOf (a ++ b) = termOf a ++ termOf b := by
  simp [termOf]

theorem termOf_pre (pre : List Bool) : termOf (pre.map preLine) = [] := by
  induction pre with
  | nil => rfl
  | cons t ts ih =>
    have : (preLine t).terminal = false := by cases t <;> rfl
    simp only [termOf, List.map_cons, List.filter_cons, this] at *
    simpa using ih

theorem termOf_emit (l : List Reply) (pre : List Bool) (r : Reply) (hr : r.terminal = true) :
    termOf (l ++ pre.map preLine ++ [r]) = termOf l ++ [r] := by
  rw [termOf_append, termOf_append, termOf_pre]
  simp [termOf, hr]

/-! ### projections of `tx` and `hear` -/

section proj
variable (s : St) (c : Cmd) (r : Reply)
@[simp] theorem tx_toDev : (tx s c).toDev = s.toDev ++ [c] := by unfold tx; split <;> rfl
@[simp] theorem tx_err : (tx s c).err = (s.err || s.lost) := by unfold tx; split <;> simp_all
@[simp] theorem tx_ack : (tx s c).ack = (s.ack || s.lost) := by unfold tx; split <;> simp_all
@[simp] theorem tx_cphase : (tx s c).cphase = s.cphase := by unfold tx; split <;> rfl
@[simp] theorem tx_online : (tx s c).online = s.online := by unfold tx; split <;> rfl
@[simp] theorem tx_printing : (tx s c).printing = s.printing := by unfold tx; split <;> rfl
@[simp] theorem tx_clear : (tx s c).clear = s.clear := by unfold tx; split <;> rfl
@[simp] theorem tx_lost : (tx s c).lost = s.lost := by unfold tx; split <;> rfl
@[simp] theorem tx_next : (tx s c).next = s.next := by unfold tx; split <;> rfl
@[simp] theorem tx_wstate : (tx s c).wstate = s.wstate := by unfold tx; split <;> rfl
@[simp] theorem tx_priq : (tx s c).priq = s.priq := by unfold tx; split <;> rfl
@[simp] theorem tx_toHost : (tx s c).toHost = s.toHost := by unfold tx; split <;> rfl
@[simp] theorem tx_devLog : (tx s c).devLog = s.devLog := by unfold tx; split <;> rfl
@[simp] theorem tx_heard : (tx s c).heard = s.heard := by unfold tx; split <;> rfl
@[simp] theorem tx_devBad : (tx s c).devBad = s.devBad := by unfold tx; split <;> rfl
@[simp] theorem tx_outcomes : (tx s c).outcomes = s.outcomes := by unfold tx; split <;> rfl
@[simp] theorem tx_backlog : (tx s c).backlog = s.backlog := by unfold tx; split <;> rfl
@[simp] theorem tx_probes : (tx s c).probes = s.probes := by unfold tx; split <;> rfl
@[simp] theorem tx_discRaised : (tx s c).discRaised = s.discRaised := by unfold tx; split <;> rfl
@[simp] theorem tx_surplusHit : (tx s c).surplusHit = s.surplusHit := by unfold tx; split <;> rfl
@[simp] theorem tx_anyXbad : (tx s c).anyXbad = s.anyXbad := by unfold tx; split <;> rfl
@[simp] theorem tx_dueErr : (tx s c).dueErr = s.dueErr := by unfold tx; split <;> rfl

@[simp] theorem hear_toDev : (hear s r).toDev = s.toDev := by cases r <;> simp [hear] <;> split <;> rfl
@[simp] theorem hear_cphase : (hear s r).cphase = s.cphase := by cases r <;> simp [hear] <;> split <;> rfl
@[simp] theorem hear_printing : (hear s r).printing = s.printing := by cases r <;> simp [hear] <;> split <;> rfl
@[simp] theorem hear_lost : (hear s r).lost = s.lost := by cases r <;> simp [hear] <;> split <;> rfl
@[simp] theorem hear_next : (hear s r).next = s.next := by cases r <;> simp [hear] <;> split <;> rfl
@[simp] theorem hear_wstate : (hear s r).wstate = s.wstate := by cases r <;> simp [hear] <;> split <;> rfl
@[simp] theorem hear_priq : (hear s r).priq = s.priq := by cases r <;> simp [hear] <;> split <;> rfl
@[simp] theorem hear_toHost : (hear s r).toHost = s.toHost := by cases r <;> simp [hear] <;> split <;> rfl
@[simp] theorem hear_devLog : (hear s r).devLog = s.devLog := by cases r <;> simp [hear] <;> split <;> rfl
@[simp] theorem hear_devBad : (hear s r).devBad = s.devBad := by cases r <;> simp [hear] <;> split <;> rfl
@[simp] theorem hear_outcomes : (hear s r).outcomes = s.outcomes := by cases r <;> simp [hear] <;> split <;> rfl
@[simp] theorem hear_backlog : (hear s r).backlog = s.backlog := by cases r <;> simp [hear] <;> split <;> rfl
@[simp] theorem hear_probes : (hear s r).probes = s.probes := by cases r <;> simp [hear] <;> split <;> rfl
@[simp] theorem hear_discRaised : (hear s r).discRaised = s.discRaised := by cases r <;> simp [hear] <;> split <;> rfl
end proj

/-! ### order invariant (unconditional) -/

/-- Every statement queued so far is, in call order and exactly once, in the device's receive log,
    on the wire, or in the priority queue; error verdicts only concern received commands; the
    statement the caller is busy with is the one just (about to be) queued. -/
structure OrderInv (s : St) : Prop where
  ids : stmtIds (s.devLog ++ s.toDev ++ s.priq) = List.range s.next
  bad : ∀ c ∈ s.devBad, c ∈ s.devLog
  cur : (∀ k, s.wstate = .cleared k → k = s.next) ∧ (∀ k, s.wstate = .waiting k → k + 1 = s.next)
        ∧ (∀ k, s.wstate = .woke k → k + 1 = s.next)

theorem orderInv_init : OrderInv {} := ⟨by simp [stmtIds], by simp, by simp⟩

theorem orderInv_stepLive {s s' : St} (a : Act) (h : OrderInv s) (hs : stepLive s a = some s') : OrderInv s' := by
  obtain ⟨hi, hb, hc1, hc2, hc3⟩ := h
  cases a with
  | lProbe =>
    simp only [stepLive] at hs
    split at hs
    · simp at hs; subst hs
      refine ⟨?_, hb, hc1, hc2, hc3⟩
      simpa [stmtIds_append, stmtIds] using hi
    · simp at hs
  | lListen =>
    simp only [stepLive] at hs
    split at hs
    · simp at hs
    · split at hs
      · simp at hs
      · simp at hs; subst hs
        exact ⟨by simpa using hi, by simpa using hb, by simpa using hc1, by simpa using hc2, by simpa using hc3⟩
  | xLoss =>
    simp only [stepLive] at hs
    split at hs
    · simp at hs
    · simp at hs; subst hs; exact ⟨hi, hb, hc1, hc2, hc3⟩
  | cOnline =>
    simp only [stepLive] at hs
    split at hs
    · split at hs
      · simp at hs; subst hs; exact ⟨hi, hb, hc1, hc2, hc3⟩
      · simp at hs; subst hs
        refine ⟨?_, by simpa using hb, by simpa using hc1, by simpa using hc2, by simpa using hc3⟩
        simpa [stmtIds_append, stmtIds] using hi
    · simp at hs
  | pSendnext =>
    simp only [stepLive] at hs
    split at hs
    · split at hs
      · rename_i c cs hq
        simp at hs; subst hs
        refine ⟨?_, by simpa using hb, by simpa using hc1, by simpa using hc2, by simpa using hc3⟩
        rw [hq] at hi
        simpa [stmtIds_append, stmtIds] using hi
      · rename_i hq
        simp at hs; subst hs
        refine ⟨?_, by simpa using hb, by simpa using hc1, by simpa using hc2, by simpa using hc3⟩
        simpa [stmtIds_append, stmtIds, hq] using hi
    · simp at hs
  | cPoll =>
    simp only [stepLive] at hs
    split at hs
    · split at hs
      · simp at hs; subst hs; exact ⟨hi, hb, hc1, hc2, hc3⟩
      · split at hs
        · simp at hs
        · simp at hs; subst hs; exact ⟨hi, hb, hc1, hc2, hc3⟩
    · simp at hs
  | cDisc =>
    simp only [stepLive] at hs
    split at hs
    · split at hs
      · simp at hs; subst hs; exact ⟨hi, hb, hc1, hc2, hc3⟩
      · split at hs
        · simp at hs
        · simp at hs; subst hs; exact ⟨hi, hb, hc1, hc2, hc3⟩
    · simp at hs
  | wClear =>
    simp only [stepLive] at hs
    split at hs
    · simp at hs; subst hs
      exact ⟨hi, hb, by simp, by simp, by simp⟩
    · simp at hs
  | wEnq =>
    simp only [stepLive] at hs
    split at hs
    · rename_i k hw
      simp at hs; subst hs
      have hk := hc1 k hw
      refine ⟨?_, hb, by simp, by simp [hk], by simp⟩
      simp only [← List.append_assoc]
      rw [stmtIds_append, hi]
      simp [stmtIds, hk, List.range_succ]
    · simp at hs
  | wWake =>
    simp only [stepLive] at hs
    split at hs
    · rename_i k hw
      split at hs
      · simp at hs; subst hs
        exact ⟨hi, hb, by simp, by simp, by simpa using hc2 k hw⟩
      · simp at hs
    · simp at hs
  | wFinish =>
    simp only [stepLive] at hs
    split at hs
    · simp at hs; subst hs; exact ⟨hi, hb, by simp, by simp, by simp⟩
    · simp at hs
  | sSend =>
    simp only [stepLive] at hs
    split at hs
    · simp at hs
    · split at hs
      · simp at hs
      · rename_i c cs hq
        simp at hs; subst hs
        refine ⟨?_, by simpa using hb, by simpa using hc1, by simpa using hc2, by simpa using hc3⟩
        rw [hq] at hi
        simpa [stmtIds_append, stmtIds] using hi
  | dPush isErr =>
    simp only [stepLive] at hs
    split at hs
    · simp at hs
    · simp at hs; subst hs; exact ⟨hi, hb, hc1, hc2, hc3⟩
  | dProcess pre isErr =>
    simp only [stepLive] at hs
    split at hs
    · simp at hs
    · split at hs
      · simp at hs
      · rename_i c cs hq
        simp at hs; subst hs
        refine ⟨?_, ?_, hc1, hc2, hc3⟩
        · rw [hq] at hi; simpa [stmtIds_append, stmtIds] using hi
        · intro x hx
          simp only at hx ⊢
          split at hx
          · simp at hx; rcases hx with hx | hx
            · exact List.mem_append_left _ (hb x hx)
            · simp [hx]
          · exact List.mem_append_left _ (hb x hx)


/-! ### what the reader hears was emitted by the device for a command it had received -/

def WireInv (s : St) : Prop :=
  (∀ c, (Reply.ok c ∈ s.toHost ∨ Reply.bad c ∈ s.toHost) → c ∈ s.devLog) ∧ (∀ c ∈ s.heard, c ∈ s.devLog)

theorem wireInv_init : WireInv {} := by simp [WireInv]

theorem wireInv_stepLive {s s' : St} (a : Act) (h : WireInv s) (hs : stepLive s a = some s') : WireInv s' := by
  rcases s with ⟨cphase, online, printing, clear, lost, next, wstate, ack, err, priq, toDev, toHost, devLog, heard, devBad, outcomes, backlog, probes, discRaised, surplusHit, anyXbad, dueErr⟩
  cases a with
  | lListen =>
    simp only [stepLive] at hs
    split at hs
    · simp at hs
    · split at hs
      · simp at hs
      · rename_i x r rs
        simp at hs; subst hs
        simp only [WireInv] at h ⊢
        cases r <;> simp only [hear] <;> (try split) <;> simp_all <;> grind
  | dProcess pre isErr =>
    simp only [stepLive] at hs
    split at hs
    · simp at hs
    · split at hs
      · simp at hs
      · rename_i x c cs
        simp at hs; subst hs
        simp only [WireInv] at h ⊢
        have hp : ∀ c', Reply.ok c' ∉ pre.map preLine ∧ Reply.bad c' ∉ pre.map preLine := by
          intro c'; constructor <;> (intro hm; rw [List.mem_map] at hm; obtain ⟨t, _, ht⟩ := hm; cases t <;> simp [preLine] at ht)
        cases isErr <;> simp_all <;> grind
  | _ =>
    simp only [stepLive] at hs
    (repeat' split at hs) <;> simp at hs <;> subst hs <;> simp_all [WireInv, tx] <;> (try split) <;> simp_all

/-! ### synchronisation invariant -/

/-- nothing sent is still unanswered -/
def NoFlight (s : St) : Prop := s.toDev = [] ∧ termOf s.toHost = []

/-- exactly one command `c` is unanswered: on its way to the device, or its terminal reply on its way back -/
def InFlight (s : St) (c : Cmd) : Prop :=
  (s.toDev = [c] ∧ termOf s.toHost = [])
  ∨ (s.toDev = [] ∧ (termOf s.toHost = [.ok c] ∨ termOf s.toHost = [.bad c]))

/-- every completed `write k` saw the terminal reply to statement k and raised iff that reply was an
    error - or the connection was lost and it raised -/
def OutOK (s : St) : Prop :=
  ∀ p ∈ s.outcomes,
    (Cmd.stmt p.1 ∈ s.heard ∧ (Cmd.stmt p.1 ∈ s.devBad → p.2 = true)
      ∧ (p.2 = true → Cmd.stmt p.1 ∈ s.devBad ∨ s.anyXbad = true))
    ∨ (s.lost = true ∧ p.2 = true)

/-- after a connection loss an acknowledgement can only come together with a stored error -/
def LostPart (s : St) : Prop :=
  s.lost = true → halted s = false →
    (∀ k, s.wstate = .woke k → s.err = true) ∧ (∀ k, s.wstate = .cleared k → s.ack = true → s.err = true)
    ∧ (∀ k, s.wstate = .waiting k → s.ack = true → s.err = true)

/-- `connect()` between `startprint` and its return: a line-number reset is in flight, or answered -/
def ConnPhase (s : St) : Prop :=
  s.outcomes = [] ∧ s.wstate = .idle ∧ s.priq = [] ∧ s.online = true ∧
    ((s.clear = false ∧ s.err = false ∧ InFlight s .reset) ∨ (s.clear = true ∧ s.err = false ∧ NoFlight s)
      ∨ (s.clear = false ∧ s.err = true ∧ NoFlight s))

/-- statement k has been answered and the reader has processed the answer -/
def Answered (s : St) (k : Nat) : Prop :=
  s.priq = [] ∧ NoFlight s ∧ Cmd.stmt k ∈ s.heard ∧ (Cmd.stmt k ∈ s.devBad → s.err = true)
  ∧ (s.err = true → Cmd.stmt k ∈ s.devBad ∨ s.anyXbad = true)

/-- statement k is queued / on the wire / answered but the answer not yet read -/
def Unanswered (s : St) (k : Nat) : Prop :=
  s.ack = false ∧ (s.err = true → s.anyXbad = true) ∧ Cmd.stmt k ∉ s.heard ∧
  ( (s.priq = [.stmt k] ∧ NoFlight s ∧ Cmd.stmt k ∉ s.devBad)
  ∨ (s.priq = [] ∧ s.toDev = [.stmt k] ∧ termOf s.toHost = [] ∧ Cmd.stmt k ∉ s.devBad)
  ∨ (s.priq = [] ∧ s.toDev = [] ∧ termOf s.toHost = [.ok (.stmt k)] ∧ Cmd.stmt k ∉ s.devBad)
  ∨ (s.priq = [] ∧ s.toDev = [] ∧ termOf s.toHost = [.bad (.stmt k)] ∧ Cmd.stmt k ∈ s.devBad))

def WritePhase (s : St) : Prop :=
  s.printing = false ∧ s.clear = true ∧ s.online = true ∧
  (s.wstate = .idle → s.priq = [] ∧ NoFlight s ∧ (s.err = true → s.anyXbad = true) ∧ ∀ p ∈ s.outcomes, p.1 < s.next) ∧
  (∀ k, s.wstate = .cleared k →
      s.priq = [] ∧ NoFlight s ∧ (s.err = true → s.anyXbad = true) ∧ s.ack = false ∧ Cmd.stmt k ∉ s.devBad
      ∧ Cmd.stmt k ∉ s.heard ∧ ∀ p ∈ s.outcomes, p.1 < k) ∧
  (∀ k, s.wstate = .waiting k → (Unanswered s k ∨ (Answered s k ∧ s.ack = true)) ∧ ∀ p ∈ s.outcomes, p.1 < k) ∧
  (∀ k, s.wstate = .woke k → Answered s k ∧ ∀ p ∈ s.outcomes, p.1 < k)

def Phase (s : St) : Prop :=
  (s.cphase = .waitOnline → s.outcomes = [] ∧ s.wstate = .idle ∧ s.priq = [] ∧ s.printing = false)
  ∧ (s.cphase = .waitPending → ConnPhase s)
  ∧ ((s.cphase = .connected ∨ (s.cphase = .disconnected ∧ s.discRaised = false)) → WritePhase s)

def Core (s : St) : Prop := OutOK s ∧ LostPart s ∧ (s.lost = false → Phase s)

/-- The invariant: as long as no command was unanswered when `startprint` ran (`backlog = false`) and no
    surplus flag-setting line was read at a harmful moment (`surplusHit = false`), the acknowledgement
    bookkeeping is exact. -/
def SInv (s : St) : Prop :=
  (s.cphase = .waitOnline → s.backlog = false) ∧ (s.backlog = false → s.surplusHit = false → Core s)

theorem sinv_init : SInv {} := by
  refine ⟨fun _ => rfl, fun _ _ => ⟨?_, ?_, ?_⟩⟩
  · intro p hp; simp at hp
  · intro h; simp at h
  · intro _; refine ⟨fun _ => by simp, fun h => by simp at h, fun h => by simp at h⟩

theorem termOf_cons_nt {r : Reply} {rs : List Reply} (h : r.terminal = false) : termOf (r :: rs) = termOf rs := by
  simp [termOf, h]
theorem termOf_cons_t {r : Reply} {rs : List Reply} (h : r.terminal = true) : termOf (r :: rs) = r :: termOf rs := by
  simp [termOf, h]

set_option maxHeartbeats 1000000 in
theorem core_lListen {s s' : St} (h : Core s) (hs : stepLive s .lListen = some s') (hsp : s'.surplusHit = false) :
    Core s' := by
  rcases s with ⟨cphase, online, printing, clear, lost, next, wstate, ack, err, priq, toDev, toHost, devLog, heard, devBad, outcomes, backlog, probes, discRaised, surplusHit, anyXbad, dueErr⟩
  simp only [stepLive] at hs
  split at hs
  · simp at hs
  · rename_i hlost
    simp only [Bool.not_eq_true] at hlost
    subst hlost
    split at hs
    · simp at hs
    · rename_i x r rs
      simp at hs; subst hs
      cases r with
      | status =>
        simp only [hear]
        simp only [Core, OutOK, LostPart, Phase, ConnPhase, WritePhase, NoFlight, InFlight, Unanswered, Answered, halted, termOf_cons_nt (r := .status) rfl] at h ⊢
        exact h
      | temp =>
        simp only [hear]
        split
        · simp only [Core, OutOK, LostPart, Phase, ConnPhase, WritePhase, NoFlight, InFlight, Unanswered, Answered, halted, termOf_cons_nt (r := .temp) rfl] at h ⊢
          exact h
        · simp only [Core, OutOK, LostPart, Phase, ConnPhase, WritePhase, NoFlight, InFlight, Unanswered, Answered, halted, termOf_cons_nt (r := .temp) rfl] at h ⊢
          grind
      | ok c =>
        simp only [hear]
        split
        · simp only [Core, OutOK, LostPart, Phase, ConnPhase, WritePhase, NoFlight, InFlight, Unanswered, Answered, halted, termOf_cons_t (r := .ok c) rfl] at h ⊢
          cases cphase <;> cases wstate <;> simp_all
        · simp only [Core, OutOK, LostPart, Phase, ConnPhase, WritePhase, NoFlight, InFlight, Unanswered, Answered, halted, termOf_cons_t (r := .ok c) rfl] at h ⊢
          cases cphase <;> cases wstate <;> simp_all
      | bad c =>
        simp only [hear]
        simp only [Core, OutOK, LostPart, Phase, ConnPhase, WritePhase, NoFlight, InFlight, Unanswered, Answered, halted, termOf_cons_t (r := .bad c) rfl] at h ⊢
        cases cphase <;> cases wstate <;> simp_all
      | xok =>
        simp only [hear] at hsp ⊢
        split
        · rename_i hon
          simp only [hon, if_true, Bool.or_eq_false_iff, surplusNow] at hsp
          simp only [Core, OutOK, LostPart, Phase, ConnPhase, WritePhase, NoFlight, InFlight, Unanswered, Answered, halted, termOf_cons_nt (r := .xok) rfl] at h ⊢
          cases cphase <;> cases wstate <;> simp_all
        · rename_i hon
          simp only [hon, if_false, Bool.or_eq_false_iff, surplusNow] at hsp
          simp only [Core, OutOK, LostPart, Phase, ConnPhase, WritePhase, NoFlight, InFlight, Unanswered, Answered, halted, termOf_cons_nt (r := .xok) rfl] at h ⊢
          cases cphase <;> cases wstate <;> simp_all
      | xbad =>
        simp only [hear, Bool.or_eq_false_iff, surplusNow] at hsp ⊢
        simp only [Core, OutOK, LostPart, Phase, ConnPhase, WritePhase, NoFlight, InFlight, Unanswered, Answered, halted, termOf_cons_nt (r := .xbad) rfl] at h ⊢
        cases cphase <;> cases wstate <;> simp_all

theorem core_xLoss {s s' : St} (h : Core s) (hs : stepLive s .xLoss = some s') : Core s' := by
  rcases s with ⟨cphase, online, printing, clear, lost, next, wstate, ack, err, priq, toDev, toHost, devLog, heard, devBad, outcomes, backlog, probes, discRaised, surplusHit, anyXbad, dueErr⟩
  simp only [stepLive] at hs
  split at hs
  · simp at hs
  · rename_i hg
    simp only [Bool.not_eq_true] at hg
    subst hg
    simp at hs; subst hs
    simp only [Core, OutOK, LostPart, Phase, ConnPhase, WritePhase, NoFlight, InFlight, Unanswered, Answered, halted, tx, pending] at h ⊢
    cases cphase <;> cases wstate <;> simp_all

macro "inv_simp" : tactic => `(tactic| simp only [Core, OutOK, LostPart, Phase, ConnPhase, WritePhase, NoFlight, InFlight, Unanswered, Answered, halted, tx, pending] at *)

theorem core_lProbe {s s' : St} (h : Core s) (hs : stepLive s .lProbe = some s') : Core s' := by
  rcases s with ⟨cphase, online, printing, clear, lost, next, wstate, ack, err, priq, toDev, toHost, devLog, heard, devBad, outcomes, backlog, probes, discRaised, surplusHit, anyXbad, dueErr⟩
  simp only [stepLive] at hs
  split at hs
  · simp at hs; subst hs
    inv_simp
    cases cphase <;> cases wstate <;> cases lost <;> simp_all
  · simp at hs

theorem core_cPoll {s s' : St} (h : Core s) (hs : stepLive s .cPoll = some s') : Core s' := by
  rcases s with ⟨cphase, online, printing, clear, lost, next, wstate, ack, err, priq, toDev, toHost, devLog, heard, devBad, outcomes, backlog, probes, discRaised, surplusHit, anyXbad, dueErr⟩
  simp only [stepLive] at hs
  split at hs
  · split at hs
    · simp at hs; subst hs
      inv_simp
      cases cphase <;> cases wstate <;> cases lost <;> simp_all
    · split at hs
      · simp at hs
      · simp at hs; subst hs
        inv_simp
        cases cphase <;> cases wstate <;> cases lost <;> simp_all
  · simp at hs

theorem core_cDisc {s s' : St} (h : Core s) (hs : stepLive s .cDisc = some s') : Core s' := by
  rcases s with ⟨cphase, online, printing, clear, lost, next, wstate, ack, err, priq, toDev, toHost, devLog, heard, devBad, outcomes, backlog, probes, discRaised, surplusHit, anyXbad, dueErr⟩
  simp only [stepLive] at hs
  split at hs
  · split at hs
    · simp at hs; subst hs
      inv_simp
      cases cphase <;> cases wstate <;> cases lost <;> simp_all
    · split at hs
      · simp at hs
      · simp at hs; subst hs
        inv_simp
        cases cphase <;> cases wstate <;> cases lost <;> simp_all
  · simp at hs

theorem core_wWake {s s' : St} (h : Core s) (hs : stepLive s .wWake = some s') : Core s' := by
  rcases s with ⟨cphase, online, printing, clear, lost, next, wstate, ack, err, priq, toDev, toHost, devLog, heard, devBad, outcomes, backlog, probes, discRaised, surplusHit, anyXbad, dueErr⟩
  simp only [stepLive] at hs
  split at hs
  · split at hs
    · simp at hs; subst hs
      inv_simp
      cases cphase <;> cases lost <;> simp_all
    · simp at hs
  · simp at hs

theorem core_sSend {s s' : St} (h : Core s) (hs : stepLive s .sSend = some s') : Core s' := by
  rcases s with ⟨cphase, online, printing, clear, lost, next, wstate, ack, err, priq, toDev, toHost, devLog, heard, devBad, outcomes, backlog, probes, discRaised, surplusHit, anyXbad, dueErr⟩
  simp only [stepLive] at hs
  split at hs
  · simp at hs
  · split at hs
    · simp at hs
    · simp at hs; subst hs
      inv_simp
      cases cphase <;> cases wstate <;> cases lost <;> simp_all


set_option maxHeartbeats 1000000 in
theorem core_pSendnext {s s' : St} (h : Core s) (hs : stepLive s .pSendnext = some s') : Core s' := by
  rcases s with ⟨cphase, online, printing, clear, lost, next, wstate, ack, err, priq, toDev, toHost, devLog, heard, devBad, outcomes, backlog, probes, discRaised, surplusHit, anyXbad, dueErr⟩
  simp only [stepLive] at hs
  split at hs
  · rename_i hg
    obtain ⟨hg1, hg2⟩ := hg
    subst hg1 hg2
    split at hs
    · simp at hs; subst hs
      cases lost
      · inv_simp
        cases cphase <;> simp_all
      · inv_simp
        cases cphase <;> cases wstate <;> simp_all
    · simp at hs; subst hs
      cases lost
      · inv_simp
        cases cphase <;> cases wstate <;> simp_all
      · inv_simp
        cases cphase <;> cases wstate <;> simp_all
  · simp at hs

/-- a command was unanswered when `startprint` ran -/
theorem core_cOnline {s s' : St} (h : Core s) (hs : stepLive s .cOnline = some s') (hb : s'.backlog = false) : Core s' := by
  rcases s with ⟨cphase, online, printing, clear, lost, next, wstate, ack, err, priq, toDev, toHost, devLog, heard, devBad, outcomes, backlog, probes, discRaised, surplusHit, anyXbad, dueErr⟩
  simp only [stepLive] at hs
  split at hs
  · rename_i hg
    obtain ⟨hg1, hg2⟩ := hg
    subst hg1 hg2
    split at hs
    · simp at hs; subst hs
      inv_simp
      cases wstate <;> cases lost <;> simp_all
    · simp at hs; subst hs
      simp at hb
      inv_simp
      cases wstate <;> cases lost <;> simp_all
  · simp at hs

theorem core_wClear {s s' : St} (ho : OrderInv s) (hw : WireInv s) (h : Core s) (hs : stepLive s .wClear = some s') :
    Core s' := by
  have hlog : Cmd.stmt s.next ∉ s.devLog := by
    intro h1
    have h2 : s.next ∈ stmtIds (s.devLog ++ s.toDev ++ s.priq) := by
      rw [mem_stmtIds]; simp [h1]
    rw [ho.ids] at h2
    simp at h2
  have hfresh2 : Cmd.stmt s.next ∉ s.heard := fun hm => hlog (hw.2 _ hm)
  have hfresh : Cmd.stmt s.next ∉ s.devBad := by
    intro hm
    have h1 := ho.bad _ hm
    have h2 : s.next ∈ stmtIds (s.devLog ++ s.toDev ++ s.priq) := by
      rw [mem_stmtIds]; simp [h1]
    rw [ho.ids] at h2
    simp at h2
  rcases s with ⟨cphase, online, printing, clear, lost, next, wstate, ack, err, priq, toDev, toHost, devLog, heard, devBad, outcomes, backlog, probes, discRaised, surplusHit, anyXbad, dueErr⟩
  simp only [stepLive] at hs
  split at hs
  · rename_i hg
    obtain ⟨hg1, hg2⟩ := hg
    subst hg1 hg2
    simp at hs; subst hs
    inv_simp
    cases lost <;> simp_all
  · simp at hs

theorem core_wEnq {s s' : St} (ho : OrderInv s) (h : Core s) (hs : stepLive s .wEnq = some s') : Core s' := by
  have hcur := ho.cur.1
  rcases s with ⟨cphase, online, printing, clear, lost, next, wstate, ack, err, priq, toDev, toHost, devLog, heard, devBad, outcomes, backlog, probes, discRaised, surplusHit, anyXbad, dueErr⟩
  simp only [stepLive] at hs
  split at hs
  · rename_i xw k
    simp at hs; subst hs
    have := hcur k rfl
    subst this
    inv_simp
    cases cphase <;> cases lost <;> simp_all
  · simp at hs

theorem core_wFinish {s s' : St} (ho : OrderInv s) (h : Core s) (hh : halted s = false) (hs : stepLive s .wFinish = some s') : Core s' := by
  have hcur := ho.cur.2.2
  rcases s with ⟨cphase, online, printing, clear, lost, next, wstate, ack, err, priq, toDev, toHost, devLog, heard, devBad, outcomes, backlog, probes, discRaised, surplusHit, anyXbad, dueErr⟩
  simp only [stepLive] at hs
  split at hs
  · rename_i xw k
    simp at hs; subst hs
    have := hcur k rfl
    simp only at this
    subst this
    inv_simp
    cases cphase <;> cases lost <;> cases err <;> simp_all <;> grind
  · simp at hs

set_option maxHeartbeats 1000000 in
theorem core_dProcess {s s' : St} (pre : List Bool) (isErr : Bool) (h : Core s) (hh : halted s = false)
    (hs : stepLive s (.dProcess pre isErr) = some s') : Core s' := by
  rcases s with ⟨cphase, online, printing, clear, lost, next, wstate, ack, err, priq, toDev, toHost, devLog, heard, devBad, outcomes, backlog, probes, discRaised, surplusHit, anyXbad, dueErr⟩
  simp only [stepLive] at hs
  split at hs
  · simp at hs
  · rename_i hl
    simp only [Bool.not_eq_true] at hl
    subst hl
    split at hs
    · simp at hs
    · rename_i x c cs
      simp at hs; subst hs
      cases isErr
      · have e1 : termOf (toHost ++ (pre.map preLine ++ [Reply.ok c])) = termOf toHost ++ [Reply.ok c] := by
          rw [← List.append_assoc]; exact termOf_emit toHost pre (.ok c) rfl
        simp only [Bool.false_eq_true, if_false]
        inv_simp
        rw [e1]
        cases cphase <;> cases wstate <;> simp_all <;> grind
      · have e1 : termOf (toHost ++ (pre.map preLine ++ [Reply.bad c])) = termOf toHost ++ [Reply.bad c] := by
          rw [← List.append_assoc]; exact termOf_emit toHost pre (.bad c) rfl
        simp only [if_true]
        inv_simp
        rw [e1]
        cases cphase <;> cases wstate <;> simp_all <;> grind


theorem termOf_snoc_nt (l : List Reply) {r : Reply} (h : r.terminal = false) : termOf (l ++ [r]) = termOf l := by
  simp [termOf, h]

theorem core_dPush {s s' : St} (isErr : Bool) (h : Core s) (hs : stepLive s (.dPush isErr) = some s') : Core s' := by
  rcases s with ⟨cphase, online, printing, clear, lost, next, wstate, ack, err, priq, toDev, toHost, devLog, heard, devBad, outcomes, backlog, probes, discRaised, surplusHit, anyXbad, dueErr⟩
  simp only [stepLive] at hs
  split at hs
  · simp at hs
  · simp at hs; subst hs
    cases isErr
    · simp only [Bool.false_eq_true, if_false]
      simp only [Core, OutOK, LostPart, Phase, ConnPhase, WritePhase, NoFlight, InFlight, Unanswered, Answered, halted,
        termOf_snoc_nt toHost (r := .xok) rfl] at h ⊢
      exact h
    · simp only [if_true]
      simp only [Core, OutOK, LostPart, Phase, ConnPhase, WritePhase, NoFlight, InFlight, Unanswered, Answered, halted,
        termOf_snoc_nt toHost (r := .xbad) rfl] at h ⊢
      exact h

/-! ### the ghost flags `backlog` (written once, by `cOnline`) and `surplusHit` (raised by `lListen` only) -/

theorem stepLive_frame {s s' : St} {a : Act} (hs : stepLive s a = some s') :
    (a ≠ .cOnline → s'.backlog = s.backlog) ∧ (s'.cphase = .waitOnline → s.cphase = .waitOnline ∧ a ≠ .cOnline)
    ∧ (a = .cOnline → s.cphase = .waitOnline) ∧ (s'.surplusHit = false → s.surplusHit = false) := by
  cases a with
  | lListen =>
    simp only [stepLive] at hs
    split at hs
    · simp at hs
    · split at hs
      · simp at hs
      · rename_i r rs hq
        simp at hs; subst hs
        cases r <;> simp only [hear] <;> (try split) <;> simp_all
  | _ => simp only [stepLive] at hs <;> (repeat' split at hs) <;> simp at hs <;> subst hs <;> simp_all

theorem sinv_step {s s' : St} (a : Act) (ho : OrderInv s) (hw : WireInv s) (h : SInv s) (hs : step s a = some s') :
    SInv s' := by
  unfold step at hs
  split at hs
  · simp at hs
  · rename_i hh
    have hh : halted s = false := by simpa using hh
    obtain ⟨f1, f2, f3, f4⟩ := stepLive_frame hs
    refine ⟨?_, ?_⟩
    · intro hw
      obtain ⟨h1, h2⟩ := f2 hw
      rw [f1 h2]; exact h.1 h1
    · intro hb hsp
      have hsp0 := f4 hsp
      cases a with
      | cOnline => exact core_cOnline (h.2 (h.1 (f3 rfl)) hsp0) hs hb
      | lProbe => exact core_lProbe (h.2 (by rw [← f1 (by simp)]; exact hb) hsp0) hs
      | lListen => exact core_lListen (h.2 (by rw [← f1 (by simp)]; exact hb) hsp0) hs hsp
      | xLoss => exact core_xLoss (h.2 (by rw [← f1 (by simp)]; exact hb) hsp0) hs
      | pSendnext => exact core_pSendnext (h.2 (by rw [← f1 (by simp)]; exact hb) hsp0) hs
      | cPoll => exact core_cPoll (h.2 (by rw [← f1 (by simp)]; exact hb) hsp0) hs
      | cDisc => exact core_cDisc (h.2 (by rw [← f1 (by simp)]; exact hb) hsp0) hs
      | wClear => exact core_wClear ho hw (h.2 (by rw [← f1 (by simp)]; exact hb) hsp0) hs
      | wEnq => exact core_wEnq ho (h.2 (by rw [← f1 (by simp)]; exact hb) hsp0) hs
      | wWake => exact core_wWake (h.2 (by rw [← f1 (by simp)]; exact hb) hsp0) hs
      | wFinish => exact core_wFinish ho (h.2 (by rw [← f1 (by simp)]; exact hb) hsp0) hh hs
      | sSend => exact core_sSend (h.2 (by rw [← f1 (by simp)]; exact hb) hsp0) hs
      | dProcess pre isErr => exact core_dProcess pre isErr (h.2 (by rw [← f1 (by simp)]; exact hb) hsp0) hh hs
      | dPush isErr => exact core_dPush isErr (h.2 (by rw [← f1 (by simp)]; exact hb) hsp0) hs

theorem orderInv_step {s s' : St} (a : Act) (h : OrderInv s) (hs : step s a = some s') : OrderInv s' := by
  unfold step at hs
  split at hs
  · simp at hs
  · exact orderInv_stepLive a h hs

theorem wireInv_step {s s' : St} (a : Act) (h : WireInv s) (hs : step s a = some s') : WireInv s' := by
  unfold step at hs
  split at hs
  · simp at hs
  · exact wireInv_stepLive a h hs

theorem inv_run : ∀ (acts : List Act) (s s' : St), OrderInv s → WireInv s → SInv s → run s acts = some s' →
    OrderInv s' ∧ WireInv s' ∧ SInv s'
  | [], s, s', ho, hw, h, hr => by simp [run] at hr; subst hr; exact ⟨ho, hw, h⟩
  | a :: as, s, s', ho, hw, h, hr => by
      simp only [run] at hr
      cases hst : step s a with
      | none => simp [hst] at hr
      | some s1 =>
        simp [hst] at hr
        exact inv_run as s1 s' (orderInv_step a ho hst) (wireInv_step a hw hst) (sinv_step a ho hw h hst) hr

/-! ### a single probe answered with `ok` leaves no backlog -/

/-- the device never emits a line containing "T:" (no temperature auto-report) and never pushes a
    surplus `ok` / an unsolicited error line -/
def Act.noTemp : Act → Bool
  | .dProcess pre _ => !pre.contains true
  | .dPush _ => false
  | _ => true

def JInv (s : St) : Prop :=
  (s.cphase = .waitOnline →
      s.printing = false ∧ s.priq = [] ∧ s.wstate = .idle ∧ s.backlog = false ∧ Reply.temp ∉ s.toHost ∧ Reply.xok ∉ s.toHost ∧ Reply.xbad ∉ s.toHost
      ∧ s.toDev.length + (termOf s.toHost).length + s.heard.length = s.probes
      ∧ (s.online = true → 1 ≤ s.heard.length))
  ∧ (s.cphase ≠ .waitOnline → s.online = true ∧ (s.probes ≤ 1 → s.backlog = false))

theorem jInv_init : JInv {} := by simp [JInv, termOf]

theorem not_temp_pre {pre : List Bool} (h : pre.contains true = false) : Reply.temp ∉ pre.map preLine := by
  intro hm
  rw [List.mem_map] at hm
  obtain ⟨t, ht, he⟩ := hm
  cases t
  · simp [preLine] at he
  · simp at h; exact h ht

set_option maxHeartbeats 1000000 in
theorem jInv_stepLive {s s' : St} (a : Act) (hn : a.noTemp = true) (h : JInv s) (hs : stepLive s a = some s') : JInv s' := by
  rcases s with ⟨cphase, online, printing, clear, lost, next, wstate, ack, err, priq, toDev, toHost, devLog, heard, devBad, outcomes, backlog, probes, discRaised, surplusHit, anyXbad, dueErr⟩
  cases a with
  | lListen =>
    simp only [stepLive] at hs
    split at hs
    · simp at hs
    · split at hs
      · simp at hs
      · rename_i x r rs
        simp at hs; subst hs
        simp only [JInv] at h ⊢
        cases r with
        | status => simp only [hear, termOf_cons_nt (r := .status) rfl] at h ⊢; cases cphase <;> simp_all
        | temp => cases cphase <;> simp_all [hear]
        | ok c => simp only [hear, termOf_cons_t (r := .ok c) rfl] at h ⊢; split <;> cases cphase <;> simp_all <;> omega
        | bad c => simp only [hear, termOf_cons_t (r := .bad c) rfl] at h ⊢; cases cphase <;> simp_all <;> omega
        | xok => simp only [hear] at h ⊢; split <;> cases cphase <;> simp_all
        | xbad => simp only [hear] at h ⊢; cases cphase <;> simp_all
  | dProcess pre isErr =>
    simp only [Act.noTemp, Bool.not_eq_true'] at hn
    have hnt := not_temp_pre hn
    have hx1 : Reply.xok ∉ pre.map preLine := by
      intro hm; rw [List.mem_map] at hm; obtain ⟨t, _, ht⟩ := hm; cases t <;> simp [preLine] at ht
    have hx2 : Reply.xbad ∉ pre.map preLine := by
      intro hm; rw [List.mem_map] at hm; obtain ⟨t, _, ht⟩ := hm; cases t <;> simp [preLine] at ht
    simp only [stepLive] at hs
    split at hs
    · simp at hs
    · split at hs
      · simp at hs
      · rename_i x c cs
        simp at hs; subst hs
        simp only [JInv] at h ⊢
        cases isErr
        · have e1 : termOf (toHost ++ (pre.map preLine ++ [Reply.ok c])) = termOf toHost ++ [Reply.ok c] := by
            rw [← List.append_assoc]; exact termOf_emit toHost pre (.ok c) rfl
          simp only [Bool.false_eq_true, if_false]
          rw [e1]
          cases cphase <;> simp_all <;> omega
        · have e1 : termOf (toHost ++ (pre.map preLine ++ [Reply.bad c])) = termOf toHost ++ [Reply.bad c] := by
            rw [← List.append_assoc]; exact termOf_emit toHost pre (.bad c) rfl
          simp only [if_true]
          rw [e1]
          cases cphase <;> simp_all <;> omega
  | lProbe =>
    simp only [stepLive] at hs
    split at hs
    · simp at hs; subst hs
      simp only [JInv] at h ⊢
      cases cphase <;> simp_all <;> omega
    · simp at hs
  | cOnline =>
    simp only [stepLive] at hs
    split at hs
    · rename_i hg
      obtain ⟨hg1, hg2⟩ := hg
      subst hg1 hg2
      split at hs
      · simp at hs; subst hs; simp_all [JInv]
      · simp at hs; subst hs; simp_all [JInv]
        intro hp
        have : toDev.length = 0 ∧ (termOf toHost).length = 0 := by omega
        simp_all
    · simp at hs
  | dPush e => simp [Act.noTemp] at hn
  | _ =>
    simp only [stepLive] at hs
    (repeat' split at hs) <;> simp at hs <;> subst hs <;> simp_all [JInv, tx] <;> (try split) <;> (try simp_all) <;> (try omega)

/-! ### `disconnect(wait=True)` finishes only when nothing is pending -/

def DInv (s : St) : Prop := s.cphase = .disconnected → s.discRaised = false → pending s = false

theorem dInv_init : DInv {} := by simp [DInv]

theorem dInv_step {s s' : St} (a : Act) (hs : step s a = some s') : DInv s' := by
  unfold step at hs
  split at hs
  · simp at hs
  · rename_i hh
    simp only [halted, Bool.or_eq_true, beq_iff_eq, not_or] at hh
    rcases s with ⟨cphase, online, printing, clear, lost, next, wstate, ack, err, priq, toDev, toHost, devLog, heard, devBad, outcomes, backlog, probes, discRaised, surplusHit, anyXbad, dueErr⟩
    cases a with
    | lListen =>
      simp only [stepLive] at hs
      (repeat' split at hs) <;> simp at hs <;> subst hs <;> simp_all [DInv]
    | _ =>
      simp only [stepLive] at hs
      (repeat' split at hs) <;> simp at hs <;> subst hs <;> simp_all [DInv, pending]

/-! ### an error line that has been read stays stored until it is raised -/

/-- `dueErr`: an error line was read and no `write()`, `connect()` or `disconnect(wait=True)` has raised
    since.  Then the error is still stored and the writer is alive. -/
def EInv (s : St) : Prop := s.dueErr = true → s.err = true ∧ halted s = false

theorem eInv_init : EInv {} := by simp [EInv]

theorem eInv_step {s s' : St} (a : Act) (h : EInv s) (hs : step s a = some s') : EInv s' := by
  unfold step at hs
  split at hs
  · simp at hs
  · rename_i hh
    rcases s with ⟨cphase, online, printing, clear, lost, next, wstate, ack, err, priq, toDev, toHost, devLog, heard, devBad, outcomes, backlog, probes, discRaised, surplusHit, anyXbad, dueErr⟩
    simp only [halted, Bool.or_eq_true, beq_iff_eq, not_or] at hh
    cases a with
    | lListen =>
      simp only [stepLive] at hs
      split at hs
      · simp at hs
      · split at hs
        · simp at hs
        · rename_i x r rs
          simp at hs; subst hs
          cases r <;> simp only [hear] <;> (try split) <;> simp_all [EInv, halted]
    | _ =>
      simp only [stepLive] at hs
      (repeat' split at hs) <;> simp at hs <;> subst hs <;> simp_all [EInv, halted]

theorem eInv_run : ∀ (acts : List Act) (s s' : St), EInv s → run s acts = some s' → EInv s'
  | [], s, s', h, hr => by simp [run] at hr; subst hr; exact h
  | a :: as, s, s', h, hr => by
      simp only [run] at hr
      cases hst : step s a with
      | none => simp [hst] at hr
      | some s1 =>
        simp [hst] at hr
        exact eInv_run as s1 s' (eInv_step a h hst) hr

/-! ### without `dPush` no surplus line exists -/

def PInv (s : St) : Prop := Reply.xok ∉ s.toHost ∧ Reply.xbad ∉ s.toHost ∧ s.surplusHit = false

theorem pInv_init : PInv {} := by simp [PInv]

theorem pInv_step {s s' : St} (a : Act) (hn : a.noTemp = true) (h : PInv s) (hs : step s a = some s') : PInv s' := by
  unfold step at hs
  split at hs
  · simp at hs
  · rename_i hh
    rcases s with ⟨cphase, online, printing, clear, lost, next, wstate, ack, err, priq, toDev, toHost, devLog, heard, devBad, outcomes, backlog, probes, discRaised, surplusHit, anyXbad, dueErr⟩
    cases a with
    | lListen =>
      simp only [stepLive] at hs
      split at hs
      · simp at hs
      · split at hs
        · simp at hs
        · rename_i x r rs
          simp at hs; subst hs
          cases r <;> simp only [hear] <;> (try split) <;> simp_all [PInv]
    | dProcess pre isErr =>
      have hx1 : Reply.xok ∉ pre.map preLine := by
        intro hm; rw [List.mem_map] at hm; obtain ⟨t, _, ht⟩ := hm; cases t <;> simp [preLine] at ht
      have hx2 : Reply.xbad ∉ pre.map preLine := by
        intro hm; rw [List.mem_map] at hm; obtain ⟨t, _, ht⟩ := hm; cases t <;> simp [preLine] at ht
      simp only [stepLive] at hs
      (repeat' split at hs) <;> simp at hs <;> subst hs <;> cases isErr <;> simp_all [PInv]
    | dPush e => simp [Act.noTemp] at hn
    | _ =>
      simp only [stepLive] at hs
      (repeat' split at hs) <;> simp at hs <;> subst hs <;> simp_all [PInv]

theorem pInv_run : ∀ (acts : List Act) (s s' : St), (∀ a ∈ acts, a.noTemp = true) → PInv s →
    run s acts = some s' → PInv s'
  | [], s, s', _, h, hr => by simp [run] at hr; subst hr; exact h
  | a :: as, s, s', hn, h, hr => by
      simp only [run] at hr
      cases hst : step s a with
      | none => simp [hst] at hr
      | some s1 =>
        simp [hst] at hr
        exact pInv_run as s1 s' (fun b hb => hn b (List.mem_cons_of_mem _ hb))
          (pInv_step a (hn a List.mem_cons_self) h hst) hr

/-! ### lifting to runs -/

theorem jInv_run : ∀ (acts : List Act) (s s' : St), (∀ a ∈ acts, a.noTemp = true) → JInv s →
    run s acts = some s' → JInv s'
  | [], s, s', _, h, hr => by simp [run] at hr; subst hr; exact h
  | a :: as, s, s', hn, h, hr => by
      simp only [run] at hr
      cases hst : step s a with
      | none => simp [hst] at hr
      | some s1 =>
        simp [hst] at hr
        refine jInv_run as s1 s' (fun b hb => hn b (List.mem_cons_of_mem _ hb)) ?_ hr
        unfold step at hst
        split at hst
        · simp at hst
        · exact jInv_stepLive a (hn a (List.mem_cons_self)) h hst

theorem dInv_run : ∀ (acts : List Act) (s s' : St), DInv s → run s acts = some s' → DInv s'
  | [], s, s', h, hr => by simp [run] at hr; subst hr; exact h
  | a :: as, s, s', h, hr => by
      simp only [run] at hr
      cases hst : step s a with
      | none => simp [hst] at hr
      | some s1 =>
        simp [hst] at hr
        exact dInv_run as s1 s' (dInv_step a hst) hr

theorem range_prefix {a b : List Nat} {n : Nat} (h : a ++ b = List.range n) :
    a = List.range a.length ∧ a.length ≤ n := by
  have hl : a.length + b.length = n := by
    have := congrArg List.length h
    simpa using this
  have hle : a.length ≤ n := by omega
  refine ⟨?_, hle⟩
  have h2 : (a ++ b).take a.length = (List.range n).take a.length := by rw [h]
  rw [List.take_left, List.take_range, Nat.min_eq_left hle] at h2
  exact h2

/-! ### start states for the statement that does not depend on the handshake model -/

/-- an acknowledgement is outstanding: a command written earlier is still unanswered or its answer unread -/
def StaleAck (s : St) : Prop := s.toDev ≠ [] ∨ termOf s.toHost ≠ []

/-- `connect()` has returned and the caller is about to write its first statement -/
def ConnectedIdle (s : St) : Prop :=
  s.cphase = .connected ∧ s.wstate = .idle ∧ s.lost = false ∧ s.backlog = false ∧ s.printing = false
  ∧ s.clear = true ∧ s.online = true ∧ s.priq = [] ∧ s.err = false ∧ s.outcomes = [] ∧ OrderInv s

theorem sinv_of_connectedIdle {s : St} (h : ConnectedIdle s) (hn : ¬StaleAck s) : SInv s := by
  obtain ⟨h1, h2, h3, h4, h5, h6, h7, h8, h9, h10, _⟩ := h
  have hd : s.toDev = [] := by
    apply Classical.byContradiction; intro hc; exact hn (Or.inl hc)
  have ht : termOf s.toHost = [] := by
    apply Classical.byContradiction; intro hc; exact hn (Or.inr hc)
  refine ⟨fun hw => (by simp [h1] at hw), fun _ _ => ⟨?_, ?_, ?_⟩⟩
  · intro p hp; simp [h10] at hp
  · intro hl; simp [h3] at hl
  · intro _
    refine ⟨fun hw => (by simp [h1] at hw), fun hw => (by simp [h1] at hw), fun _ => ?_⟩
    refine ⟨h5, h6, h7, fun _ => ⟨h8, ⟨hd, ht⟩, fun he => (by simp [h9] at he), ?_⟩, fun k hk => (by simp [h2] at hk),
      fun k hk => (by simp [h2] at hk), fun k hk => (by simp [h2] at hk)⟩
    intro p hp; simp [h10] at hp

end GscribModel.DirectWrite

import GscribModel.Lemmas.Builder
/-! Helper lemmas for C01: coordinate-wise facts about `Pt`, the relation `Agree` between a builder and the
    independent position machine, and its preservation by each motion command of the model. -/
namespace GscribModel.Builder

@[simp] theorem Pt.get_mk' (f : Axis → OQ) (a : Axis) : (Pt.mk' f).get a = f a := by cases a <;> rfl
@[simp] theorem Pt.get_resolve (p : Pt) (a : Axis) : p.resolve.get a = some ((p.get a).getD 0) := by simp [Pt.resolve]
@[simp] theorem Pt.get_replace (p q : Pt) (a : Axis) :
    (p.replace q).get a = (match q.get a with | some v => some v | none => p.get a) := by simp [Pt.replace]; rfl
@[simp] theorem Pt.get_mask (p q : Pt) (a : Axis) :
    (p.mask q).get a = (match q.get a with | some _ => none | none => p.get a) := by simp [Pt.mask]; rfl
@[simp] theorem Pt.get_add (p q : Pt) (a : Axis) : (p.add q).get a = some ((p.get a).getD 0 + (q.get a).getD 0) := by simp [Pt.add]
@[simp] theorem Pt.get_sub (p q : Pt) (a : Axis) : (p.sub q).get a = some ((p.get a).getD 0 - (q.get a).getD 0) := by simp [Pt.sub]
@[simp] theorem Pt.get_combine (r o t m : Pt) (a : Axis) :
    (r.combine o t m).get a = (if (r.get a).isSome ∨ o.get a ≠ t.get a then m.get a else none) := by simp [Pt.combine]
@[simp] theorem Pt.get_unknown (a : Axis) : Pt.unknown.get a = none := by cases a <;> rfl
@[simp] theorem Pt.get_zero (a : Axis) : Pt.zero.get a = some 0 := by cases a <;> rfl

theorem Pt.ext_get {p q : Pt} (h : ∀ a, p.get a = q.get a) : p = q := by
  cases p; cases q
  have hx := h .x; have hy := h .y; have hz := h .z
  simp [Pt.get] at hx hy hz; simp [hx, hy, hz]

/-- builder and machine agree on the distance mode, and on every axis whose machine coordinate is known
    both of the builder's reports (`g.position`, `g.state.position`) show exactly that coordinate -/
def Agree (b : B) (m : Machine) : Prop :=
  b.rel = m.rel ∧ b.srel = m.rel ∧ ∀ a q, m.pos.get a = some q → b.axes.get a = some q ∧ b.saxes.get a = some q

theorem exec_motion (m : Machine) (c : Code) (hc : c = .G0 ∨ c = .G1) (ax : Pt) (ws) :
    Machine.exec m { codes := [c], ax := ax, words := ws } =
      { m with pos := Pt.mk' fun a => match ax.get a with
        | none => m.pos.get a
        | some w => if m.rel then (m.pos.get a).map (· + w) else some w } := by
  rcases hc with rfl | rfl <;> simp [Machine.exec, isMotion] <;> rfl

theorem agree_move (b : B) (m : Machine) (h : Agree b m) (rapid : Bool) (vp : VPt) (vps : VParams) (hh : Rat) :
    Agree (stepMove b rapid vp vps hh).b (Machine.run m (stepMove b rapid vp vps hh).stmts) := by
  obtain ⟨hr, hs, hp⟩ := h
  simp only [stepMove, reject, accept]
  split
  · exact ⟨hr, hs, hp⟩
  · split
    · exact ⟨hr, hs, hp⟩
    · split
      · exact ⟨hr, hs, hp⟩
      · split
        · exact ⟨hr, hs, hp⟩
        · simp only [Machine.run, List.foldl]
          rw [exec_motion _ _ (by cases rapid <;> simp)]
          refine ⟨by simpa using hr, by simpa using hs, ?_⟩
          intro a q hq
          simp only [commitAxes_axes, commitAxes_saxes, and_self]
          simp only [Pt.get_mk', Pt.get_combine, B.toAbsolute] at hq ⊢
          have hpa := hp a
          cases hrel : b.rel <;> cases hreq : (_ : Pt).get a <;> cases hm : m.pos.get a <;>
            simp_all <;> grind

theorem exec_mode (m : Machine) (r : Bool) : Machine.exec m (modeStmt r) = { m with rel := r } := by
  cases r <;> simp [Machine.exec, modeStmt]

theorem exec_g92 (m : Machine) (ax : Pt) (ws) :
    Machine.exec m { codes := [.G92], ax := ax, words := ws } =
      { m with pos := Pt.mk' fun a => match ax.get a with | none => m.pos.get a | some w => some w } := by
  simp [Machine.exec, isMotion] <;> rfl

theorem exec_g28 (m : Machine) (ax : Pt) (ws) :
    Machine.exec m { codes := [.G28], ax := ax, words := ws } =
      { m with pos := if ax.isUnknown then Pt.unknown else m.pos.mask ax } := by
  simp [Machine.exec, isMotion]

theorem exec_probe (m : Machine) (p : ProbeArg) (hp : p ≠ .bogus) (ax : Pt) (ws) :
    Machine.exec m { codes := [p.code], ax := ax, words := ws } = { m with pos := m.pos.mask ax } := by
  cases p <;> simp_all [Machine.exec, isMotion, isProbe, ProbeArg.code]

theorem agree_moveAbs (b : B) (m : Machine) (h : Agree b m) (rapid : Bool) (vp : VPt) (vps : VParams) (hh : Rat) :
    Agree (stepMoveAbs b rapid vp vps hh).b (Machine.run m (stepMoveAbs b rapid vp vps hh).stmts) := by
  obtain ⟨hr, hs, hp⟩ := h
  simp only [stepMoveAbs, reject, accept]
  split
  · split
    · exact ⟨hr, hs, hp⟩
    · split
      · exact ⟨hr, hs, hp⟩
      · split
        · -- rejected inside the context: G90 then G91 written, state unchanged
          split
          · simp only [Machine.run, List.foldl, exec_mode]
            rename_i hrel
            exact ⟨by simpa using hrel, by simp; rw [hs, ← hr]; exact hrel, fun a q hq => hp a q (by simpa using hq)⟩
          · exact ⟨hr, hs, hp⟩
        · split
          · split
            · simp only [Machine.run, List.foldl, exec_mode]
              rename_i hrel
              exact ⟨by simpa using hrel, by simp; rw [hs, ← hr]; exact hrel, fun a q hq => hp a q (by simpa using hq)⟩
            · exact ⟨hr, hs, hp⟩
          · split
            · -- relative mode: G90, G, G91
              simp only [Machine.run, List.foldl, exec_mode]
              rw [exec_motion _ _ (by cases rapid <;> simp)]
              refine ⟨by simp, by simp, ?_⟩
              intro a q hq
              simp only [Pt.get_mk'] at hq
              simp only [commitAxes_axes, commitAxes_saxes, and_self, Pt.get_replace]
              have hpa := hp a
              cases hreq : (_ : Pt).get a <;> cases hm : m.pos.get a <;> simp_all
            · rename_i hrel
              simp only [Machine.run, List.foldl]
              rw [exec_motion _ _ (by cases rapid <;> simp)]
              have hmr : m.rel = false := by rw [← hr]; simpa using hrel
              refine ⟨by simp [hmr], by simp [hmr], ?_⟩
              intro a q hq
              simp only [Pt.get_mk', hmr] at hq
              simp only [commitAxes_axes, commitAxes_saxes, and_self, Pt.get_replace]
              have hpa := hp a
              cases hreq : (_ : Pt).get a <;> cases hm : m.pos.get a <;> simp_all
  · exact ⟨hr, hs, hp⟩

theorem agree_setAxis (b : B) (m : Machine) (h : Agree b m) (vp : VPt) (vps : VParams) :
    Agree (stepSetAxis b vp vps).b (Machine.run m (stepSetAxis b vp vps).stmts) := by
  obtain ⟨hr, hs, hp⟩ := h
  simp only [stepSetAxis, reject, accept]
  split
  · split
    · exact ⟨hr, hs, hp⟩
    · simp only [Machine.run, List.foldl, exec_g92]
      refine ⟨by simpa using hr, by simpa using hs, ?_⟩
      intro a q hq
      simp only [Pt.get_mk'] at hq
      simp only [commitAxes_axes, commitAxes_saxes, and_self, Pt.get_replace]
      have hpa := hp a
      cases hreq : (_ : Pt).get a <;> cases hm : m.pos.get a <;> simp_all
  · exact ⟨hr, hs, hp⟩

theorem Pt.isUnknown_iff (p : Pt) : p.isUnknown = true ↔ ∀ a, p.get a = none := by
  constructor
  · intro h a; cases p; simp [Pt.isUnknown] at h; cases a <;> simp [Pt.get, h]
  · intro h; have hx := h .x; have hy := h .y; have hz := h .z
    cases p; simp [Pt.get] at hx hy hz; simp [Pt.isUnknown, hx, hy, hz]

theorem agree_home (b : B) (m : Machine) (h : Agree b m) (vp : VPt) (vps : VParams) :
    Agree (stepHome b vp vps).b (Machine.run m (stepHome b vp vps).stmts) := by
  obtain ⟨hr, hs, hp⟩ := h
  simp only [stepHome, reject, accept]
  split
  next req ps _ _ =>
    by_cases hu : req.isUnknown = true
    · simp only [hu, if_true]
      split
      · exact ⟨hr, hs, hp⟩
      · simp only [Machine.run, List.foldl, exec_g28, hu, if_true]
        exact ⟨by simpa using hr, by simpa using hs, fun a q hq => by simp at hq⟩
    · simp only [hu, Bool.false_eq_true, if_false]
      split
      · exact ⟨hr, hs, hp⟩
      · simp only [Machine.run, List.foldl, exec_g28, hu, Bool.false_eq_true, if_false]
        refine ⟨by simpa using hr, by simpa using hs, ?_⟩
        intro a q hq
        simp only [commitAxes_axes, commitAxes_saxes, and_self, Pt.get_mask] at hq ⊢
        have hpa := hp a
        cases hreq : req.get a <;> cases hm : m.pos.get a <;> simp_all
  · exact ⟨hr, hs, hp⟩

theorem agree_probe (b : B) (m : Machine) (h : Agree b m) (pm : ProbeArg) (vp : VPt) (vps : VParams) :
    Agree (stepProbe b pm vp vps).b (Machine.run m (stepProbe b pm vp vps).stmts) := by
  obtain ⟨hr, hs, hp⟩ := h
  simp only [stepProbe, reject, accept]
  split
  · exact ⟨hr, hs, hp⟩
  · rename_i hpm
    split
    · split
      · exact ⟨hr, hs, hp⟩
      · split
        · exact ⟨hr, hs, hp⟩
        · simp only [Machine.run, List.foldl]
          rw [exec_probe _ _ hpm]
          refine ⟨by simpa using hr, by simpa using hs, ?_⟩
          intro a q hq
          simp only [commitAxes_axes, commitAxes_saxes, and_self]
          simp only [Pt.get_mask, Pt.get_combine, B.toAbsolute] at hq ⊢
          have hpa := hp a
          cases hrel : b.rel <;> cases hreq : (_ : Pt).get a <;> cases hm : m.pos.get a <;>
            simp_all <;> grind
    · exact ⟨hr, hs, hp⟩

theorem agree_setDist (b : B) (m : Machine) (h : Agree b m) (r : Bool) :
    Agree (stepSetDist b r).1 (Machine.run m (stepSetDist b r).2) := by
  obtain ⟨hr, hs, hp⟩ := h
  simp only [stepSetDist, Machine.run, List.foldl, exec_mode]
  exact ⟨rfl, rfl, hp⟩

/-- statements the position machine ignores -/
def mNeutral (s : Stmt) : Bool :=
  !(s.codes.contains .G90 || s.codes.contains .G91 || isMotion s || s.codes.contains .G92 || s.codes.contains .G28 || isProbe s)

theorem exec_mNeutral (m : Machine) (s : Stmt) (h : mNeutral s = true) : Machine.exec m s = m := by
  simp only [mNeutral, Bool.not_eq_true', Bool.or_eq_false_iff] at h
  obtain ⟨⟨⟨⟨⟨h1, h2⟩, h3⟩, h4⟩, h5⟩, h6⟩ := h
  simp_all [Machine.exec]

theorem run_mNeutral (m : Machine) (ss : List Stmt) (h : ∀ s ∈ ss, mNeutral s = true) : Machine.run m ss = m := by
  induction ss generalizing m with
  | nil => rfl
  | cons s r ih =>
    simp only [Machine.run, List.foldl]
    rw [exec_mNeutral m s (h s (by simp))]
    exact ih m (fun t ht => h t (by simp [ht]))

set_option linter.unusedSimpArgs false in
theorem nonmotion_step (b : B) (op : Op) (h : motionOp op = false) :
    (∀ s ∈ (step b op).stmts, mNeutral s = true) ∧ (step b op).b.axes = b.axes ∧ (step b op).b.saxes = b.saxes ∧
    (step b op).b.rel = b.rel ∧ (step b op).b.srel = b.srel := by
  cases op <;> simp only [motionOp] at h <;> (try contradiction)
  case toolOn m v =>
    cases m <;> simp only [step, reject, accept] <;> (repeat' split) <;> simp_all [mNeutral, isMotion, isProbe, SpinArg.code]
  case powerOn m v =>
    cases m <;> simp only [step, reject, accept] <;> (repeat' split) <;> simp_all [mNeutral, isMotion, isProbe, PowerArg.code]
  case coolOn m =>
    cases m <;> simp only [step, reject, accept] <;> (repeat' split) <;> simp_all [mNeutral, isMotion, isProbe, CoolArg.code]
  case halt m ps =>
    cases m <;> simp only [step, stepHalt, reject, accept] <;> (repeat' split) <;>
      simp_all [mNeutral, isMotion, isProbe, HaltArg.code]
  all_goals
    simp only [step, stepToolOff, stepPowerOff, stepCoolOff, reject, accept] <;>
    (repeat' split) <;>
    simp [mNeutral, isMotion, isProbe] <;>
    (repeat' split) <;> (try simp_all)

theorem agree_ctx_irrelevant (b : B) (m : Machine) (h : Agree b m) (c : List Bool) : Agree { b with ctx := c } m := h


theorem toAbs_traced (b : B) (v : P3) :
    let cur := b.axes.resolve
    let req : Pt := if b.rel
      then ⟨some (v.x - (cur.x.getD 0)), some (v.y - (cur.y.getD 0)), some (v.z - (cur.z.getD 0))⟩
      else ⟨some v.x, some v.y, some v.z⟩
    b.toAbsolute req = ⟨some v.x, some v.y, some v.z⟩ := by
  intro cur req
  apply Pt.ext_get
  intro a
  cases hrel : b.rel <;> cases a <;>
    simp [req, cur, hrel, B.toAbsolute, Pt.get, Pt.resolve, Pt.mk', Pt.add, Pt.replace] <;> grind

def vptOf (p : Pt) : VPt := ⟨p.x.map .fin, p.y.map .fin, p.z.map .fin⟩
theorem vptOf_fin (p : Pt) : (vptOf p).fin? = some p := by
  cases p with | mk x y z => cases x <;> cases y <;> cases z <;> simp [vptOf, VPt.fin?, optFin, Val.fin?]

/-- `to_distance_mode(vertex)` followed by `move` (what `polyline`/`parametric` do for every vertex) -/
def tracedReq (b : B) (v : P3) : Pt :=
  let cur := b.axes.resolve
  if b.rel then ⟨some (v.x - (cur.x.getD 0)), some (v.y - (cur.y.getD 0)), some (v.z - (cur.z.getD 0))⟩
  else ⟨some v.x, some v.y, some v.z⟩


set_option linter.unusedSimpArgs false

/-- the same machine state up to a per-axis error budget (known-ness must agree exactly) -/
def Near (δ : Axis → Rat) (m m' : Machine) : Prop :=
  m.rel = m'.rel ∧ ∀ a, match m.pos.get a, m'.pos.get a with
    | some p, some p' => -(δ a) ≤ p' - p ∧ p' - p ≤ δ a
    | none, none => True
    | _, _ => False

/-- every axis word replaced by its rounded value (what the formatter writes) -/
def roundStmt (r : Rat → Rat) (s : Stmt) : Stmt := { s with ax := Pt.mk' fun a => (s.ax.get a).map r }

/-- error budget after executing `s`: an absolute word resets the axis to ε, a relative word adds ε -/
def budget (m : Machine) (s : Stmt) (ε : Rat) (δ : Axis → Rat) (a : Axis) : Rat :=
  if s.codes.contains .G90 || s.codes.contains .G91 then δ a
  else if isMotion s then (match s.ax.get a with | none => δ a | some _ => if m.rel then δ a + ε else ε)
  else if s.codes.contains .G92 then (match s.ax.get a with | none => δ a | some _ => ε)
  else δ a

theorem roundStmt_isUnknown (r : Rat → Rat) (s : Stmt) : (roundStmt r s).ax.isUnknown = s.ax.isUnknown := by
  cases hs : s.ax with | mk x y z => cases x <;> cases y <;> cases z <;> simp [roundStmt, Pt.isUnknown, Pt.mk', Pt.get, hs]

theorem rounding_step (r : Rat → Rat) (ε : Rat) (hr : ∀ x, -ε ≤ r x - x ∧ r x - x ≤ ε)
    (δ : Axis → Rat) (m m' : Machine) (h : Near δ m m') (s : Stmt) :
    Near (budget m s ε δ) (m.exec s) (m'.exec (roundStmt r s)) := by
  obtain ⟨hrel, hp⟩ := h
  have hcodes : (roundStmt r s).codes = s.codes := rfl
  have hmot : isMotion (roundStmt r s) = isMotion s := rfl
  have hprobe : isProbe (roundStmt r s) = isProbe s := rfl
  unfold Machine.exec budget
  rw [hcodes, hmot, hprobe]
  by_cases h90 : s.codes.contains .G90 = true
  · simp only [h90, if_true, Bool.true_or]; exact ⟨rfl, hp⟩
  · by_cases h91 : s.codes.contains .G91 = true
    · simp only [h90, h91, if_true, Bool.false_eq_true, if_false, Bool.or_true]; exact ⟨rfl, hp⟩
    · simp only [h90, h91, Bool.false_eq_true, if_false, Bool.or_self]
      by_cases hm : isMotion s = true
      · simp only [hm, if_true]
        refine ⟨hrel, ?_⟩
        intro a
        have hpa := hp a
        simp only [Pt.get_mk', roundStmt]
        cases hw : s.ax.get a <;> cases hx : m.pos.get a <;> cases hy : m'.pos.get a <;>
          cases hmr : m.rel <;> simp_all <;> (try (have := hr ‹Rat›; grind))
      · simp only [hm, Bool.false_eq_true, if_false]
        by_cases h92 : s.codes.contains .G92 = true
        · simp only [h92, if_true]
          refine ⟨hrel, ?_⟩
          intro a
          have hpa := hp a
          simp only [Pt.get_mk', roundStmt]
          cases hw : s.ax.get a <;> cases hx : m.pos.get a <;> cases hy : m'.pos.get a <;>
            simp_all <;> (try (have := hr ‹Rat›; grind))
        · simp only [h92, Bool.false_eq_true, if_false]
          by_cases h28 : s.codes.contains .G28 = true
          · simp only [h28, if_true, roundStmt_isUnknown]
            refine ⟨hrel, ?_⟩
            intro a
            have hpa := hp a
            by_cases hu : s.ax.isUnknown = true
            · simp [hu]
            · simp only [hu, Bool.false_eq_true, if_false, Pt.get_mask, roundStmt, Pt.get_mk']
              cases hw : s.ax.get a <;> simp_all
          · simp only [h28, Bool.false_eq_true, if_false]
            by_cases hpb : isProbe s = true
            · simp only [hpb, if_true]
              refine ⟨hrel, ?_⟩
              intro a
              have hpa := hp a
              simp only [Pt.get_mask, roundStmt, Pt.get_mk']
              cases hw : s.ax.get a <;> simp_all
            · simp only [hpb, Bool.false_eq_true, if_false]; exact ⟨hrel, hp⟩

/-- error budget along a whole program -/
def budgetRun (ε : Rat) : Machine → (Axis → Rat) → List Stmt → (Axis → Rat)
  | _, δ, [] => δ
  | m, δ, s :: ss => budgetRun ε (m.exec s) (budget m s ε δ) ss

theorem rounding_run (r : Rat → Rat) (ε : Rat) (hr : ∀ x, -ε ≤ r x - x ∧ r x - x ≤ ε) (ss : List Stmt) :
    ∀ (δ : Axis → Rat) (m m' : Machine), Near δ m m' →
      Near (budgetRun ε m δ ss) (Machine.run m ss) (Machine.run m' (ss.map (roundStmt r))) := by
  induction ss with
  | nil => intro δ m m' h; exact h
  | cons s ss ih =>
    intro δ m m' h
    simp only [budgetRun, Machine.run, List.map_cons, List.foldl]
    exact ih _ _ _ (rounding_step r ε hr δ m m' h s)

end GscribModel.Builder

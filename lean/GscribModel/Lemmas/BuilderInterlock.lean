import GscribModel.Lemmas.Builder
/-! Helper lemmas for C02: per-call safety, split into calls that cannot touch the interlock flags and the rest. -/
namespace GscribModel.Builder

set_option linter.unusedSimpArgs false

def interlockOp : Op → Bool
  | .toolOn .. | .toolOff | .powerOn .. | .powerOff | .coolOn .. | .coolOff | .toolChange .. | .halt .. | .ehalt .. => true
  | _ => false

theorem neutral_step (b : B) (op : Op) (h : interlockOp op = false) :
    (∀ s ∈ (step b op).stmts, neutral s = true) ∧ (step b op).b.flags = b.flags := by
  cases op <;> simp only [interlockOp] at h <;> (try contradiction) <;>
    simp only [step, stepMove, stepMoveAbs, stepSetAxis, stepHome, stepProbe, stepSetDist, reject, accept] <;>
    (repeat' split) <;>
    simp [B.flags, modeStmt, neutral, toolStart, coolStart, toolStop, coolStop, needsIdle, ProbeArg.code] <;>
    (repeat' split) <;> simp_all [Code.isToolStart, Code.isCoolStart, Code.isToolStop, Code.isCoolStop, Code.needsIdle]

theorem interlock_step (b : B) (op : Op) (h : interlockOp op = true) :
    b.flags.safeSeq (step b op).stmts = true ∧
    (step b op).stmts.foldl Flags.exec b.flags = (step b op).b.flags := by
  cases op <;> simp only [interlockOp] at h <;> (try contradiction) <;>
    simp only [step, stepHalt, stepToolOff, stepPowerOff, stepCoolOff, reject, accept]
  case toolOn m v =>
    (repeat' split) <;> cases m <;>
    simp_all [Flags.safeSeq, Flags.safe, Flags.exec, B.flags, toolStart, coolStart, toolStop, coolStop, needsIdle,
      SpinArg.code, Code.isToolStart, Code.isCoolStart, Code.isToolStop, Code.isCoolStop, Code.needsIdle]
  case powerOn m v =>
    (repeat' split) <;> cases m <;>
    simp_all [Flags.safeSeq, Flags.safe, Flags.exec, B.flags, toolStart, coolStart, toolStop, coolStop, needsIdle,
      PowerArg.code, Code.isToolStart, Code.isCoolStart, Code.isToolStop, Code.isCoolStop, Code.needsIdle]
  case coolOn m =>
    (repeat' split) <;> cases m <;>
    simp_all [Flags.safeSeq, Flags.safe, Flags.exec, B.flags, toolStart, coolStart, toolStop, coolStop, needsIdle,
      CoolArg.code, Code.isToolStart, Code.isCoolStart, Code.isToolStop, Code.isCoolStop, Code.needsIdle]
  case toolChange m n =>
    (repeat' split) <;>
    simp_all [Flags.safeSeq, Flags.safe, Flags.exec, B.flags, toolStart, coolStart, toolStop, coolStop, needsIdle,
      Code.isToolStart, Code.isCoolStart, Code.isToolStop, Code.isCoolStop, Code.needsIdle]
  case halt m ps =>
    cases m <;> (repeat' split) <;>
    simp_all [Flags.safeSeq, Flags.safe, Flags.exec, B.flags, toolStart, coolStart, toolStop, coolStop, needsIdle,
      HaltArg.code, Code.isToolStart, Code.isCoolStart, Code.isToolStop, Code.isCoolStop, Code.needsIdle]
  case ehalt r =>
    cases r <;> cases ht : b.toolActive <;> cases hc : b.coolActive <;>
    simp [Flags.safeSeq, Flags.safe, Flags.exec, B.flags, toolStart, coolStart, toolStop, coolStop, needsIdle, ht, hc,
      Code.isToolStart, Code.isCoolStart, Code.isToolStop, Code.isCoolStop, Code.needsIdle]
  all_goals
    cases ht : b.toolActive <;> cases hc : b.coolActive <;>
    simp [Flags.safeSeq, Flags.safe, Flags.exec, B.flags, toolStart, coolStart, toolStop, coolStop, needsIdle, ht, hc,
      Code.isToolStart, Code.isCoolStart, Code.isToolStop, Code.isCoolStop, Code.needsIdle]

theorem Flags.safeSeq_append (f : Flags) (xs ys : List Stmt) :
    f.safeSeq (xs ++ ys) = (f.safeSeq xs && (xs.foldl Flags.exec f).safeSeq ys) := by
  induction xs generalizing f with
  | nil => simp [Flags.safeSeq]
  | cons x xs ih => simp [Flags.safeSeq, ih, Bool.and_assoc]


end GscribModel.Builder

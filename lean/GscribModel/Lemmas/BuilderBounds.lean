import GscribModel.Lemmas.Builder
/-! Helper lemmas for C03: the predicate `WordsOk` (what "carries values inside the limits" means for one
    statement) and one lemma per statement shape the builder can write. -/
namespace GscribModel.Builder
set_option linter.unusedSimpArgs false


theorem okTrack_F {b : B} {ps : List (String × Rat)} {f : Rat} (h : b.okTrack ps = true)
    (hf : lookupQ ps "F" = some f) : b.okFeed f = true := by
  simp only [B.okTrack, hf, Bool.and_eq_true] at h; exact h.1
theorem okTrack_S {b : B} {ps : List (String × Rat)} {v : Rat} (h : b.okTrack ps = true)
    (hf : lookupQ ps "S" = some v) : b.okPower v = true := by
  simp only [B.okTrack, hf, Bool.and_eq_true] at h; exact h.2

structure WordsOk (b : B) (s : Stmt) : Prop where
  feed : ∀ f, lookupQ s.words "F" = some f → (isMotion s || isProbe s || s.codes.isEmpty) = true → b.okFeed f = true
  power : ∀ v, lookupQ s.words "S" = some v → (isMotion s || isProbe s || toolStart s || s.codes.isEmpty) = true →
        b.okPower v = true
  tool : ∀ t, lookupQ s.words "T" = some t → s.codes = [.M06] → b.bounds.okNum .toolNumber t = true ∧ 1 ≤ t
  temp : ∀ k c, (k, c) ∈ [(BKind.bed, Code.M140), (.bed, .M190), (.hotend, .M104), (.hotend, .M109),
                       (.chamber, .M141), (.chamber, .M191)] → s.codes = [c] →
        ∀ t, (lookupQ s.words "S" = some t ∨ lookupQ s.words "R" = some t) → b.bounds.okNum k t = true

/-- a statement whose single code is not one of the bounded kinds and carries arbitrary words -/
theorem wordsOk_plain (b : B) (c : Code) (ax : Pt) (ws : List (String × Rat))
    (hc : c ∉ [Code.G0, .G1, .G38_2, .G38_3, .G38_4, .G38_5, .M03, .M04, .M06, .M140, .M190, .M104, .M109, .M141, .M191]) :
    WordsOk b { codes := [c], ax := ax, words := ws } := by
  simp only [List.mem_cons, not_or, List.not_mem_nil, not_false_eq_true, and_true] at hc
  refine ⟨?_, ?_, ?_, ?_⟩
  · intro f _ h; cases c <;> simp_all [isMotion, isProbe]
  · intro f _ h; cases c <;> simp_all [isMotion, isProbe, toolStart, Code.isToolStart]
  · intro t _ h; simp_all
  · intro k c' hm h; simp at h; subst h; simp_all

theorem wordsOk_nocode_nowords (b : B) (ax : Pt) : WordsOk b { codes := [], ax := ax, words := [] } := by
  refine ⟨?_, ?_, ?_, ?_⟩ <;> simp [lookupQ]

theorem wordsOk_tracked (b : B) (c : Code) (ax : Pt) (ws : List (String × Rat))
    (hc : c ∈ [Code.G0, .G1, .G38_2, .G38_3, .G38_4, .G38_5]) (h : b.okTrack ws = true) :
    WordsOk b { codes := [c], ax := ax, words := ws } := by
  refine ⟨fun f hf _ => okTrack_F h hf, fun v hv _ => okTrack_S h hv, ?_, ?_⟩
  · intro t _ hh; simp at hh; subst hh; simp at hc
  · intro k c' hm hh; simp at hh; subst hh; simp at hc; rcases hc with rfl | rfl | rfl | rfl | rfl | rfl <;> simp at hm

theorem okTrack_bounds_eq {b b' : B} (h : b'.bounds = b.bounds) (ps) : b'.okTrack ps = b.okTrack ps := by
  simp [B.okTrack, B.okFeed, B.okPower, h]

theorem wordsOk_bareF (b : B) (q : Rat) (h : b.okFeed q = true) : WordsOk b { words := [("F", q)] } := by
  refine ⟨?_, ?_, ?_, ?_⟩ <;> simp [lookupQ, h]
theorem wordsOk_bareS (b : B) (q : Rat) (h : b.okPower q = true) : WordsOk b { words := [("S", q)] } := by
  refine ⟨?_, ?_, ?_, ?_⟩ <;> simp [lookupQ, h]
theorem wordsOk_toolStart (b : B) (c : Code) (q : Rat) (hc : c = .M03 ∨ c = .M04 ∨ c = .M05) (h : b.okPower q = true) :
    WordsOk b { codes := [c], words := [("S", q)] } := by
  refine ⟨?_, ?_, ?_, ?_⟩ <;> rcases hc with rfl | rfl | rfl <;> simp [lookupQ, h] <;>
    (intro k c hkc hc; subst hc; simp at hkc)
theorem wordsOk_toolChange (b : B) (n : Int) (h1 : b.bounds.okNum .toolNumber (n : Rat) = true) (h2 : 1 ≤ n) :
    WordsOk b { codes := [.M06], words := [("T", (n : Rat))] } := by
  refine ⟨?_, ?_, ?_, ?_⟩ <;> simp [lookupQ, isMotion, isProbe, toolStart, Code.isToolStart, h1]
  exact_mod_cast h2
theorem wordsOk_setTemp (b : B) (k : BKind) (c : Code) (q : Rat)
    (hkc : (k, c) = (.bed, .M140) ∨ (k, c) = (.hotend, .M104) ∨ (k, c) = (.chamber, .M141))
    (h : b.bounds.okNum k q = true) : WordsOk b { codes := [c], words := [("S", q)] } := by
  refine ⟨?_, ?_, ?_, ?_⟩ <;> rcases hkc with hh | hh | hh <;> simp at hh <;> obtain ⟨rfl, rfl⟩ := hh <;>
    simp [lookupQ, isMotion, isProbe, toolStart, Code.isToolStart, h] <;>
    (intro k c hkc hc; subst hc; simp at hkc; subst hkc; exact h)

theorem all_haltTemps {ps : List (String × Rat)} {p : Rat → Bool} (h : (haltTemps ps).all p = true) (t : Rat)
    (ht : lookupQ ps "S" = some t ∨ lookupQ ps "R" = some t) : p t = true := by
  simp only [haltTemps, List.all_eq_true, List.mem_filterMap] at h
  rcases ht with ht | ht
  · exact h t ⟨lookupQ ps "S", List.mem_cons_self, ht⟩
  · exact h t ⟨lookupQ ps "R", List.mem_cons_of_mem _ List.mem_cons_self, ht⟩

theorem wordsOk_halt (b : B) (m : HaltArg) (ps : List (String × Rat)) (hm : m ≠ .off ∧ m ≠ .bogus)
    (h : ∀ k, m.kind = some k → (haltTemps ps).all (b.bounds.okNum k) = true) :
    WordsOk b { codes := [m.code], words := ps } := by
  refine ⟨?_, ?_, ?_, ?_⟩
  · intro f _ hh; cases m <;> simp_all [isMotion, isProbe, HaltArg.code]
  · intro f _ hh; cases m <;> simp_all [isMotion, isProbe, toolStart, Code.isToolStart, HaltArg.code]
  · intro t _ hh; cases m <;> simp_all [HaltArg.code]
  · intro k c hkc hc t ht
    simp at hc
    cases m <;> simp [HaltArg.code] at hc <;> subst hc <;> simp at hkc <;> subst hkc <;>
      exact all_haltTemps (h _ rfl) t ht

end GscribModel.Builder

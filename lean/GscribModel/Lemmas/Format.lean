import GscribModel.Model.Format
import Mathlib.Tactic.Linarith
import Mathlib.Tactic.Ring
import Mathlib.Tactic.FieldSimp
import Mathlib.Algebra.Order.Field.Rat
import Mathlib.Data.Rat.Floor
/-! Helper lemmas for C08 / C09 (model: `Model/Format.lean`). -/
namespace GscribModel.Format

/-! ### rounding -/
theorem qabs_eq_abs (q : ℚ) : qabs q = |q| := by
  unfold qabs
  split
  · rename_i h; rw [abs_of_neg h]
  · rename_i h; rw [abs_of_nonneg (not_lt.mp h)]

theorem roundHE_err (s : ℚ) : |((roundHE s : ℤ) : ℚ) - s| ≤ 1/2 := by
  have h1 := Rat.floor_le s
  have h2 := Rat.lt_floor_add_one s
  have h3 : ((s.floor + 1 : ℤ) : ℚ) = (s.floor : ℚ) + 1 := by push_cast; ring
  rw [h3] at h2
  unfold roundHE
  simp only
  split
  · rename_i h
    rw [h3, abs_le]
    rcases h with h | ⟨h, _⟩ <;> constructor <;> linarith
  · rename_i h
    have h' : s - (s.floor : ℚ) ≤ 1/2 := by
      by_contra hc; exact h (Or.inl (not_le.mp hc))
    rw [abs_le]; constructor <;> linarith

theorem roundHE_nonneg (s : ℚ) (hs : 0 ≤ s) : 0 ≤ roundHE s := by
  have : 0 ≤ s.floor := Rat.le_floor_iff.mpr (by simpa using hs)
  unfold roundHE; simp only; split <;> omega

/-! ### digits -/
theorem charDigit_digitChar (d : Nat) (h : d < 10) : charDigit (digitChar d) = some d := by
  have : d = 0 ∨ d = 1 ∨ d = 2 ∨ d = 3 ∨ d = 4 ∨ d = 5 ∨ d = 6 ∨ d = 7 ∨ d = 8 ∨ d = 9 := by omega
  rcases this with rfl | rfl | rfl | rfl | rfl | rfl | rfl | rfl | rfl | rfl <;> decide

def ofDigitsLE : List Nat → Nat
  | [] => 0
  | d :: ds => d + 10 * ofDigitsLE ds

theorem ofDigitsLE_digitsLE (f : Nat) : ∀ n, n ≤ f → ofDigitsLE (digitsLE f n) = n := by
  induction f with
  | zero => intro n h; have : n = 0 := by omega
            subst this; simp [digitsLE, ofDigitsLE]
  | succ f ih =>
    intro n h
    rw [digitsLE]
    split
    · simp [ofDigitsLE]
    · simp only [ofDigitsLE]
      rw [ih (n / 10) (by omega)]
      omega

theorem digitsLE_lt10 (f : Nat) : ∀ n, ∀ d ∈ digitsLE f n, d < 10 := by
  induction f with
  | zero => intro n d hd; simp [digitsLE] at hd; omega
  | succ f ih =>
    intro n d hd
    rw [digitsLE] at hd
    split at hd
    · simp at hd; omega
    · simp only [List.mem_cons] at hd
      rcases hd with rfl | hd
      · omega
      · exact ih _ d hd

theorem digitsLE_ne_nil (f n : Nat) : digitsLE f n ≠ [] := by
  cases f with
  | zero => simp [digitsLE]
  | succ f => rw [digitsLE]; split <;> simp

theorem natDigits_ne_nil (n : Nat) : natDigits n ≠ [] := by
  simp [natDigits, digitsLE_ne_nil]

theorem natDigits_lt10 (n : Nat) : ∀ d ∈ natDigits n, d < 10 := by
  intro d hd
  exact digitsLE_lt10 n n d (by simpa [natDigits] using hd)

/-- value of big-endian digits -/
def ofBE (ds : List Nat) : Nat := ds.foldl (fun a d => 10 * a + d) 0

theorem foldl_reverse_eq (ds : List Nat) :
    (ds.reverse).foldl (fun a d => 10 * a + d) 0 = ofDigitsLE ds := by
  induction ds with
  | nil => simp [ofDigitsLE]
  | cons d ds ih => simp [List.foldl_append, ih, ofDigitsLE]; omega

theorem ofBE_natDigits (n : Nat) : ofBE (natDigits n) = n := by
  unfold ofBE natDigits
  rw [foldl_reverse_eq, ofDigitsLE_digitsLE n n (Nat.le_refl n)]

theorem parseNatAux_map (ds : List Nat) (h : ∀ d ∈ ds, d < 10) (acc : Nat) :
    parseNatAux acc (ds.map digitChar) = some (ds.foldl (fun a d => 10 * a + d) acc) := by
  induction ds generalizing acc with
  | nil => simp [parseNatAux]
  | cons d ds ih =>
    simp only [List.map_cons, parseNatAux, charDigit_digitChar d (h d (by simp)), List.foldl_cons]
    exact ih (fun x hx => h x (by simp [hx])) _

theorem parseNat_digits (ds : List Nat) (hne : ds ≠ []) (h : ∀ d ∈ ds, d < 10) :
    parseNat (ds.map digitChar) = some (ofBE ds) := by
  unfold parseNat
  have : (ds.map digitChar).isEmpty = false := by cases ds <;> simp_all
  rw [this]
  simp only [Bool.false_eq_true, if_false]
  exact parseNatAux_map ds h 0

/-- value of big-endian fraction digits `0.d₁d₂…` -/
def fracVal : List Nat → ℚ
  | [] => 0
  | d :: ds => ((d : ℚ) + fracVal ds) / 10

theorem parseFrac_digits (ds : List Nat) (h : ∀ d ∈ ds, d < 10) :
    parseFrac (ds.map digitChar) = some (fracVal ds) := by
  induction ds with
  | nil => simp [parseFrac, fracVal]
  | cons d ds ih =>
    simp only [List.map_cons, parseFrac, charDigit_digitChar d (h d (by simp)),
      ih (fun x hx => h x (by simp [hx])), fracVal]

theorem fracVal_append_single (ds : List Nat) (d : Nat) :
    fracVal (ds ++ [d]) = fracVal ds + (d : ℚ) / 10 ^ (ds.length + 1) := by
  induction ds with
  | nil => simp [fracVal]
  | cons x xs ih =>
    simp only [List.cons_append, fracVal, ih, List.length_cons]
    rw [pow_succ]; field_simp; ring

theorem digitsFixed_length (w n : Nat) : (digitsFixed w n).length = w := by
  induction w generalizing n with
  | zero => simp [digitsFixed]
  | succ w ih => simp [digitsFixed, ih]

theorem digitsFixed_lt10 (w : Nat) : ∀ n, ∀ d ∈ digitsFixed w n, d < 10 := by
  induction w with
  | zero => intro n d hd; simp [digitsFixed] at hd
  | succ w ih =>
    intro n d hd
    simp only [digitsFixed, List.mem_append, List.mem_singleton] at hd
    rcases hd with hd | rfl
    · exact ih _ d hd
    · omega

theorem fracVal_digitsFixed (w : Nat) : ∀ n, fracVal (digitsFixed w n) = ((n % 10 ^ w : Nat) : ℚ) / 10 ^ w := by
  induction w with
  | zero => intro n; simp [digitsFixed, fracVal, Nat.mod_one]
  | succ w ih =>
    intro n
    simp only [digitsFixed]
    rw [fracVal_append_single, ih, digitsFixed_length]
    have hm : n % 10 ^ (w + 1) = n % 10 + 10 * (n / 10 % 10 ^ w) := by
      rw [pow_succ, Nat.mul_comm, Nat.mod_mul]
    rw [hm]
    push_cast
    rw [pow_succ]; field_simp; ring

theorem trimZ_nil_fracVal (ds : List Nat) (h : trimZ ds = []) : fracVal ds = 0 := by
  induction ds with
  | nil => rfl
  | cons d ds ih =>
    simp only [trimZ] at h
    split at h
    · rename_i hr
      split at h
      · rename_i hd; subst hd; simp [fracVal, ih hr]
      · simp at h
    · simp at h

theorem fracVal_trimZ (ds : List Nat) : fracVal (trimZ ds) = fracVal ds := by
  induction ds with
  | nil => rfl
  | cons d ds ih =>
    simp only [trimZ]
    split
    · rename_i hr
      have h0 := trimZ_nil_fracVal ds hr
      split
      · rename_i hd; subst hd; simp [fracVal, h0]
      · simp [fracVal, h0]
    · rename_i r hr
      simp only [fracVal]; rw [← ih]

theorem trimZ_lt10 (ds : List Nat) (h : ∀ d ∈ ds, d < 10) : ∀ d ∈ trimZ ds, d < 10 := by
  induction ds with
  | nil => simp [trimZ]
  | cons x xs ih =>
    have ih' := ih (fun d hd => h d (by simp [hd]))
    intro d hd
    simp only [trimZ] at hd
    split at hd
    · split at hd
      · simp at hd
      · simp at hd; subst hd; exact h _ (by simp)
    · rename_i r hr
      simp only [List.mem_cons] at hd
      rcases hd with rfl | hd
      · exact h _ (by simp)
      · exact ih' d hd

/-- digits `ip`, optional fraction digits `fr`, as text -/
def decStr (ip fr : List Nat) : Str :=
  ip.map digitChar ++ (if fr.isEmpty then [] else '.' :: fr.map digitChar)

theorem isDigit_digitChar (d : Nat) (h : d < 10) : isDigit (digitChar d) = true := by
  simp [isDigit, charDigit_digitChar d h]

theorem isDigit_ne_dot {c : Char} (h : isDigit c = true) : c ≠ '.' := by
  intro hc; subst hc; revert h; decide
theorem isDigit_ne_minus {c : Char} (h : isDigit c = true) : c ≠ '-' := by
  intro hc; subst hc; revert h; decide

theorem splitDot_nodot (a : Str) (h : ∀ c ∈ a, c ≠ '.') : splitDot a = (a, none) := by
  induction a with
  | nil => rfl
  | cons c cs ih =>
    have hc : c ≠ '.' := h c (by simp)
    simp [splitDot, hc, ih (fun x hx => h x (by simp [hx]))]

theorem splitDot_dot (a b : Str) (h : ∀ c ∈ a, c ≠ '.') : splitDot (a ++ '.' :: b) = (a, some b) := by
  induction a with
  | nil => simp [splitDot]
  | cons c cs ih =>
    have hc : c ≠ '.' := h c (by simp)
    simp [splitDot, hc, ih (fun x hx => h x (by simp [hx]))]

theorem map_digitChar_all (ds : List Nat) (h : ∀ d ∈ ds, d < 10) :
    (ds.map digitChar).all isDigit = true := by
  simp only [List.all_map, List.all_eq_true]
  intro d hd; exact isDigit_digitChar d (h d hd)

theorem map_digitChar_nodot (ds : List Nat) (h : ∀ d ∈ ds, d < 10) :
    ∀ c ∈ ds.map digitChar, c ≠ '.' := by
  intro c hc
  simp only [List.mem_map] at hc
  obtain ⟨d, hd, rfl⟩ := hc
  exact isDigit_ne_dot (isDigit_digitChar d (h d hd))

theorem splitDot_decStr (ip fr : List Nat) (hi : ∀ d ∈ ip, d < 10) :
    splitDot (decStr ip fr) =
      (ip.map digitChar, if fr.isEmpty then none else some (fr.map digitChar)) := by
  unfold decStr
  split
  · simp [splitDot_nodot _ (map_digitChar_nodot ip hi)]
  · exact splitDot_dot _ _ (map_digitChar_nodot ip hi)

theorem parseUnsigned_decStr (ip fr : List Nat) (hne : ip ≠ []) (hi : ∀ d ∈ ip, d < 10)
    (hf : ∀ d ∈ fr, d < 10) :
    parseUnsigned (decStr ip fr) = some ((ofBE ip : ℚ) + fracVal fr) := by
  unfold parseUnsigned
  rw [splitDot_decStr ip fr hi]
  cases fr with
  | nil => simp [parseNat_digits ip hne hi, fracVal]
  | cons f fs =>
    simp only [List.isEmpty_cons, Bool.false_eq_true, if_false]
    rw [parseNat_digits ip hne hi, parseFrac_digits _ hf]
    simp

theorem isPlain_unsigned (ip fr : List Nat) (hne : ip ≠ []) (hi : ∀ d ∈ ip, d < 10)
    (hf : ∀ d ∈ fr, d < 10) : isPlainUnsigned (decStr ip fr) = true := by
  unfold isPlainUnsigned
  rw [splitDot_decStr ip fr hi]
  have h1 : (ip.map digitChar).isEmpty = false := by cases ip <;> simp_all
  cases fr with
  | nil => simp [h1, map_digitChar_all ip hi]
  | cons f fs =>
    simp only [List.isEmpty_cons, Bool.false_eq_true, if_false, h1, map_digitChar_all ip hi,
      map_digitChar_all _ hf]
    simp

theorem decStr_head_ne_minus (ip fr : List Nat) (hne : ip ≠ []) (hi : ∀ d ∈ ip, d < 10) :
    ∃ c r, decStr ip fr = c :: r ∧ c ≠ '-' := by
  cases ip with
  | nil => exact absurd rfl hne
  | cons d ds =>
    refine ⟨digitChar d, _, rfl, isDigit_ne_minus (isDigit_digitChar d (hi d (by simp)))⟩

theorem isPlainDecimal_decStr (neg : Bool) (ip fr : List Nat) (hne : ip ≠ []) (hi : ∀ d ∈ ip, d < 10)
    (hf : ∀ d ∈ fr, d < 10) :
    isPlainDecimal ((if neg then ['-'] else []) ++ decStr ip fr) = true := by
  cases neg with
  | true =>
    simp only [if_true, List.cons_append, List.nil_append, isPlainDecimal]
    exact isPlain_unsigned ip fr hne hi hf
  | false =>
    obtain ⟨c, r, hcr, hc⟩ := decStr_head_ne_minus ip fr hne hi
    have := isPlain_unsigned ip fr hne hi hf
    simp only [Bool.false_eq_true, if_false, List.nil_append]
    rw [hcr] at this ⊢
    unfold isPlainDecimal
    split
    · rename_i heq; simp at heq; exact absurd heq.1 hc
    · exact this

theorem parseDecimal_decStr (neg : Bool) (ip fr : List Nat) (hne : ip ≠ []) (hi : ∀ d ∈ ip, d < 10)
    (hf : ∀ d ∈ fr, d < 10) :
    parseDecimal ((if neg then ['-'] else []) ++ decStr ip fr)
      = some ((if neg then -1 else 1) * ((ofBE ip : ℚ) + fracVal fr)) := by
  cases neg with
  | true =>
    simp only [if_true, List.cons_append, List.nil_append, parseDecimal]
    rw [parseUnsigned_decStr ip fr hne hi hf]; simp
  | false =>
    obtain ⟨c, r, hcr, hc⟩ := decStr_head_ne_minus ip fr hne hi
    have := parseUnsigned_decStr ip fr hne hi hf
    simp only [Bool.false_eq_true, if_false, List.nil_append, one_mul]
    rw [hcr] at this ⊢
    unfold parseDecimal
    split
    · rename_i heq; simp at heq; exact absurd heq.1 hc
    · exact this

/-! ### `fmtNumber` has that shape -/
theorem fracDigits_lt10 (dp n : Nat) : ∀ d ∈ fracDigits dp n, d < 10 :=
  trimZ_lt10 _ (digitsFixed_lt10 dp _)

theorem fmtMag_eq (dp n : Nat) : fmtMag dp n = decStr (natDigits (n / 10 ^ dp)) (fracDigits dp n) := rfl

theorem mag_value (dp n : Nat) :
    ((ofBE (natDigits (n / 10 ^ dp)) : ℕ) : ℚ) + fracVal (fracDigits dp n) = (n : ℚ) / 10 ^ dp := by
  rw [ofBE_natDigits]
  unfold fracDigits
  rw [fracVal_trimZ, fracVal_digitsFixed, Nat.mod_mod]
  have hp : (0 : ℚ) < 10 ^ dp := by positivity
  have h := Nat.div_add_mod n (10 ^ dp)
  have h' : ((10 ^ dp * (n / 10 ^ dp) + n % 10 ^ dp : ℕ) : ℚ) = (n : ℚ) := by rw [h]
  push_cast at h'
  field_simp
  linarith

/-- the signed value printed by `fmtNumber` -/
def printedValue (dp : Nat) (q : ℚ) : ℚ :=
  if q = 0 then 0 else (if q < 0 then -1 else 1) * ((roundedMag dp q : ℚ) / 10 ^ dp)

theorem fmtNumber_shape (dp : Nat) (q : ℚ) :
    ∃ (neg : Bool) (ip fr : List Nat), ip ≠ [] ∧ (∀ d ∈ ip, d < 10) ∧ (∀ d ∈ fr, d < 10) ∧
      fmtNumber dp q = (if neg then ['-'] else []) ++ decStr ip fr ∧
      (if neg then -1 else 1) * ((ofBE ip : ℚ) + fracVal fr) = printedValue dp q := by
  unfold fmtNumber printedValue
  by_cases h0 : q = 0
  · refine ⟨false, [0], [], by simp, by simp, by simp, ?_, ?_⟩
    · simp only [h0, if_true]; decide
    · simp [h0, ofBE, fracVal]
  · simp only [h0, if_false]
    refine ⟨decide (q < 0), natDigits (roundedMag dp q / 10 ^ dp), fracDigits dp (roundedMag dp q),
      natDigits_ne_nil _, natDigits_lt10 _, fracDigits_lt10 _ _, ?_, ?_⟩
    · rw [fmtMag_eq]; by_cases hq : q < 0 <;> simp [hq]
    · rw [mag_value]; by_cases hq : q < 0 <;> simp [hq]

theorem roundedMag_cast (dp : Nat) (q : ℚ) :
    (roundedMag dp q : ℚ) = ((roundHE (|q| * 10 ^ dp) : ℤ) : ℚ) := by
  unfold roundedMag
  rw [qabs_eq_abs]
  have hcast : (((10 ^ dp : ℕ)) : ℚ) = 10 ^ dp := by push_cast; rfl
  rw [hcast]
  have hnn : 0 ≤ roundHE (|q| * 10 ^ dp) := roundHE_nonneg _ (by positivity)
  have := Int.toNat_of_nonneg hnn
  exact_mod_cast congrArg (fun z : ℤ => (z : ℚ)) this

theorem printedValue_err (dp : Nat) (q : ℚ) : |printedValue dp q - q| ≤ (1/2) / 10 ^ dp := by
  have hp : (0:ℚ) < 10 ^ dp := by positivity
  unfold printedValue
  by_cases h0 : q = 0
  · simp [h0]; positivity
  · simp only [h0, if_false]
    rw [roundedMag_cast]
    have herr := roundHE_err (|q| * 10 ^ dp)
    have key : (if q < 0 then (-1:ℚ) else 1) * (((roundHE (|q| * 10 ^ dp) : ℤ) : ℚ) / 10 ^ dp) - q
        = (if q < 0 then -1 else 1) * (((roundHE (|q| * 10 ^ dp) : ℤ) : ℚ) - |q| * 10 ^ dp) / 10 ^ dp := by
      split
      · rename_i hq; rw [abs_of_neg hq]; field_simp; ring
      · rename_i hq; rw [abs_of_nonneg (not_lt.mp hq)]; field_simp
    rw [key, abs_div, abs_mul, abs_of_pos hp]
    have : |(if q < 0 then (-1:ℚ) else 1)| = 1 := by split <;> simp
    rw [this, one_mul]
    exact div_le_div_of_nonneg_right herr hp.le

/-! ### white space, rstrip / lstrip / strip -/
theorem isBreak_isSpace {c : Char} (h : isBreak c = true) : pyIsSpace c = true := by
  simp only [isBreak, Bool.or_eq_true, beq_iff_eq] at h
  rcases h with rfl | rfl <;> decide

theorem blank_isSpace : pyIsSpace ' ' = true := by decide
theorem blank_not_break : isBreak ' ' = false := by decide

theorem not_space_not_break {c : Char} (h : pyIsSpace c = false) : isBreak c = false := by
  cases hb : isBreak c with
  | false => rfl
  | true => rw [isBreak_isSpace hb] at h; exact absurd h (by simp)

theorem rstrip_eq_nil {s : Str} : rstrip s = [] ↔ ∀ c ∈ s, pyIsSpace c = true := by
  induction s with
  | nil => simp [rstrip]
  | cons c cs ih =>
    simp only [rstrip]
    split
    · rename_i hr
      split
      · rename_i hc; simp only [hc, List.mem_cons, forall_eq_or_imp, true_and, true_iff]; exact ih.mp hr
      · rename_i hc; simp [hc]
    · rename_i r hr
      constructor
      · intro h; simp at h
      · intro h; exact absurd (ih.mpr (fun x hx => h x (by simp [hx]))) (by simpa using hr)

theorem rstrip_cons (c : Char) (cs : Str) :
    rstrip (c :: cs) = if rstrip cs = [] then (if pyIsSpace c then [] else [c]) else c :: rstrip cs := by
  simp only [rstrip]
  split
  · rename_i hr; simp [hr]
  · rename_i r hr
    have : rstrip cs ≠ [] := by simpa using hr
    simp [this]

theorem rstrip_append (a b : Str) :
    rstrip (a ++ b) = if rstrip b = [] then rstrip a else a ++ rstrip b := by
  induction a with
  | nil => by_cases h : rstrip b = [] <;> simp [h, rstrip]
  | cons c cs ih =>
    rw [List.cons_append, rstrip_cons, ih]
    by_cases hb : rstrip b = []
    · simp only [hb, if_true]; rw [rstrip_cons]
    · simp only [hb, if_false]
      have : cs ++ rstrip b ≠ [] := by simp [hb]
      simp [this]

theorem rstrip_nospace (s : Str) (h : ∀ c ∈ s, pyIsSpace c = false) : rstrip s = s := by
  induction s with
  | nil => rfl
  | cons c cs ih =>
    rw [rstrip_cons, ih (fun x hx => h x (by simp [hx]))]
    have hc := h c (by simp)
    cases cs with
    | nil => simp [hc]
    | cons d ds => simp

theorem rstrip_nospace_append (o t : Str) (h : ∀ c ∈ o, pyIsSpace c = false) :
    rstrip (o ++ t) = o ++ rstrip t := by
  rw [rstrip_append]
  split
  · rename_i ht; rw [ht, rstrip_nospace o h]; simp
  · rfl

theorem rstrip_idem (s : Str) : rstrip (rstrip s) = rstrip s := by
  induction s with
  | nil => rfl
  | cons c cs ih =>
    rw [rstrip_cons]
    by_cases hr : rstrip cs = []
    · simp only [hr, if_true]
      by_cases hc : pyIsSpace c = true
      · simp [hc, rstrip]
      · simp [hc, rstrip]
    · simp only [hr, if_false]
      rw [rstrip_cons, ih]; simp [hr]

/-- `rstrip` only removes a tail of white space -/
theorem rstrip_decomp (s : Str) : ∃ t, s = rstrip s ++ t ∧ ∀ c ∈ t, pyIsSpace c = true := by
  induction s with
  | nil => exact ⟨[], rfl, by simp⟩
  | cons c cs ih =>
    obtain ⟨t, ht, hs⟩ := ih
    rw [rstrip_cons]
    by_cases hr : rstrip cs = []
    · simp only [hr, if_true]
      have hall := rstrip_eq_nil.mp hr
      by_cases hc : pyIsSpace c = true
      · refine ⟨c :: cs, by simp [hc], ?_⟩
        intro x hx; simp at hx; rcases hx with rfl | hx
        · exact hc
        · exact hall x hx
      · refine ⟨cs, by simp [hc], hall⟩
    · simp only [hr, if_false]
      refine ⟨t, ?_, hs⟩
      rw [List.cons_append, ← ht]

theorem mem_rstrip {s : Str} {c : Char} (h : c ∈ rstrip s) : c ∈ s := by
  obtain ⟨t, ht, _⟩ := rstrip_decomp s
  rw [ht]; simp [h]

theorem lstrip_blank (s : Str) : lstrip (' ' :: s) = lstrip s := by
  simp [lstrip, blank_isSpace]

theorem strip_blank_cons (s : Str) : strip (' ' :: s) = strip s := by
  unfold strip
  rw [rstrip_cons]
  by_cases hr : rstrip s = []
  · simp [hr, blank_isSpace, lstrip]
  · simp only [hr, if_false]; exact lstrip_blank _

theorem strip_rstrip (s : Str) : strip (rstrip s) = strip s := by
  unfold strip; rw [rstrip_idem]

theorem strip_append_blank (s : Str) : strip (s ++ [' ']) = strip s := by
  unfold strip
  rw [rstrip_append]
  have : rstrip [' '] = [] := by simp [rstrip, blank_isSpace]
  simp [this]

/-! ### the sanitiser -/
theorem collapseBreaks_noBreak : ∀ (l : Str), ∀ c ∈ collapseBreaks l, isBreak c = false
  | [] => by simp [collapseBreaks]
  | c :: cs => by
      intro x hx
      simp only [collapseBreaks] at hx
      split at hx
      · cases cs with
        | nil => simp at hx; subst hx; decide
        | cons d ds =>
          simp only at hx
          split at hx
          · exact collapseBreaks_noBreak (d :: ds) x hx
          · simp only [List.mem_cons] at hx
            rcases hx with rfl | hx
            · decide
            · exact collapseBreaks_noBreak (d :: ds) x hx
      · rename_i hc
        simp only [List.mem_cons] at hx
        rcases hx with rfl | hx
        · simpa using hc
        · exact collapseBreaks_noBreak cs x hx

/-- `pat` occurs somewhere in `l` (as a contiguous block) -/
def occurs (pat : Str) : Str → Bool
  | [] => pat.isPrefixOf []
  | c :: cs => pat.isPrefixOf (c :: cs) || occurs pat cs

theorem replaceGo_noBreak (pat : Str) : ∀ (l : Str) (k : Nat), (∀ c ∈ l, isBreak c = false) →
    ∀ c ∈ replaceGo pat k l, isBreak c = false := by
  intro l
  induction l with
  | nil => intro k _ c hc; simp [replaceGo] at hc
  | cons x xs ih =>
    intro k hl c hc
    have hxs : ∀ c ∈ xs, isBreak c = false := fun d hd => hl d (by simp [hd])
    cases k with
    | succ k => simp only [replaceGo] at hc; exact ih k hxs c hc
    | zero =>
      simp only [replaceGo] at hc
      split at hc
      · simp only [List.mem_cons] at hc
        rcases hc with rfl | hc
        · decide
        · exact ih _ hxs c hc
      · simp only [List.mem_cons] at hc
        rcases hc with rfl | hc
        · exact hl _ (by simp)
        · exact ih _ hxs c hc

/-- a pattern without blanks that is a prefix of the output is a prefix of the input -/
theorem prefix_replaceGo (pat : Str) : ∀ (q l : Str), ' ' ∉ q → q.isPrefixOf (replaceGo pat 0 l) = true →
    q.isPrefixOf l = true := by
  intro q
  induction q with
  | nil => intro l _ _; simp
  | cons x xs ih =>
    intro l hq h
    cases l with
    | nil => simp [replaceGo] at h
    | cons c cs =>
      simp only [replaceGo] at h
      have hx : x ≠ ' ' := fun e => hq (by simp [e])
      have hxs : ' ' ∉ xs := fun e => hq (by simp [e])
      split at h
      · simp [List.isPrefixOf, hx] at h
      · simp only [List.isPrefixOf, Bool.and_eq_true, beq_iff_eq] at h ⊢
        exact ⟨h.1, ih cs hxs h.2⟩

theorem replaceGo_free (pat : Str) (hne : pat ≠ []) (hsp : ' ' ∉ pat) :
    ∀ (l : Str) (k : Nat), occurs pat (replaceGo pat k l) = false := by
  intro l
  induction l with
  | nil =>
    intro k
    cases pat with
    | nil => exact absurd rfl hne
    | cons p ps => cases k <;> simp [replaceGo, occurs, List.isPrefixOf]
  | cons c cs ih =>
    intro k
    cases k with
    | succ k => simp only [replaceGo]; exact ih k
    | zero =>
      simp only [replaceGo]
      split
      · simp only [occurs, Bool.or_eq_false_iff]
        refine ⟨?_, ih _⟩
        cases pat with
        | nil => exact absurd rfl hne
        | cons p ps =>
          have hp : p ≠ ' ' := fun e => hsp (by simp [e])
          simp [List.isPrefixOf, hp]
      · rename_i hno
        simp only [occurs, Bool.or_eq_false_iff]
        refine ⟨?_, ih 0⟩
        cases hpre : pat.isPrefixOf (c :: replaceGo pat 0 cs) with
        | false => rfl
        | true =>
          exfalso
          apply hno
          have : pat.isPrefixOf (replaceGo pat 0 (c :: cs)) = true := by
            simp only [replaceGo, hno]; simpa using hpre
          exact prefix_replaceGo pat pat (c :: cs) hsp this

/-- **sanitiser safety 1**: no line break survives, whatever the text and the style -/
theorem sanitize_noBreak (st : Style) (text : Str) : ∀ c ∈ sanitize st text, isBreak c = false := by
  unfold sanitize
  simp only
  split
  · exact collapseBreaks_noBreak text
  · exact replaceGo_noBreak _ _ 0 (collapseBreaks_noBreak text)

/-- **sanitiser safety 2**: the closing delimiter does not occur in the sanitised text -/
theorem sanitize_free (st : Style) (text : Str) (hne : st.closing ≠ []) (hsp : ' ' ∉ st.closing) :
    occurs st.closing (sanitize st text) = false := by
  unfold sanitize
  have : st.closing.isEmpty = false := by cases h : st.closing <;> simp_all
  simp only [this, Bool.false_eq_true, if_false]
  exact replaceGo_free _ hne hsp _ 0

/-! ### splitOn -/
theorem foldr_splitStep_acc (p : Char → Bool) (a : Str) (ws : List Str) :
    a.foldr (splitStep p) ([], ws) =
      ((a.foldr (splitStep p) ([], [])).1, (a.foldr (splitStep p) ([], [])).2 ++ ws) := by
  induction a with
  | nil => simp
  | cons c cs ih =>
    simp only [List.foldr_cons]
    rw [ih]
    simp only [splitStep]
    split
    · split <;> simp
    · rfl

theorem splitOn_sep (p : Char → Bool) (a b : Str) (c : Char) (hc : p c = true) :
    splitOn p (a ++ c :: b) = splitOn p a ++ splitOn p b := by
  unfold splitOn
  rw [List.foldr_append, List.foldr_cons]
  have : splitStep p c (List.foldr (splitStep p) ([], []) b)
      = ([], splitFlush (List.foldr (splitStep p) ([], []) b)) := by
    simp [splitStep, hc, splitFlush]
  rw [this, foldr_splitStep_acc]
  simp only [splitFlush]
  split <;> simp

theorem foldr_splitStep_none (p : Char → Bool) (a : Str) (h : ∀ c ∈ a, p c = false) :
    a.foldr (splitStep p) ([], []) = (a, []) := by
  induction a with
  | nil => rfl
  | cons c cs ih =>
    simp only [List.foldr_cons]
    rw [ih (fun x hx => h x (by simp [hx]))]
    simp [splitStep, h c (by simp)]

theorem splitOn_single (p : Char → Bool) (a : Str) (hne : a ≠ []) (h : ∀ c ∈ a, p c = false) :
    splitOn p a = [a] := by
  unfold splitOn
  rw [foldr_splitStep_none p a h]
  cases a with
  | nil => exact absurd rfl hne
  | cons c cs => simp [splitFlush]

theorem splitOn_nil (p : Char → Bool) : splitOn p [] = [] := rfl

theorem splitOn_seps_left (p : Char → Bool) (t r : Str) (h : ∀ c ∈ t, p c = true) :
    splitOn p (t ++ r) = splitOn p r := by
  induction t with
  | nil => rfl
  | cons c cs ih =>
    have := splitOn_sep p [] (cs ++ r) c (h c (by simp))
    simp only [List.nil_append] at this
    rw [List.cons_append, this, splitOn_nil, List.nil_append]
    exact ih (fun x hx => h x (by simp [hx]))

theorem splitOn_seps_right (p : Char → Bool) (a t : Str) (h : ∀ c ∈ t, p c = true) :
    splitOn p (a ++ t) = splitOn p a := by
  cases t with
  | nil => simp
  | cons c cs =>
    rw [splitOn_sep p a cs c (h c (by simp))]
    have := splitOn_seps_left p cs [] (fun x hx => h x (by simp [hx]))
    simp only [List.append_nil] at this
    rw [this, splitOn_nil, List.append_nil]

theorem splitOn_noSep (p : Char → Bool) (a : Str) (h : ∀ c ∈ a, p c = false) :
    splitOn p a = if a.isEmpty then [] else [a] := by
  cases a with
  | nil => rfl
  | cons c cs => rw [splitOn_single p _ (by simp) h]; simp

/-! ### words of texts whose only white space is the blank -/
theorem words_rstrip (W : Str) (h : ∀ c ∈ W, pyIsSpace c = true → c = ' ') :
    words (rstrip W) = words W := by
  obtain ⟨t, ht, hs⟩ := rstrip_decomp W
  have htb : ∀ c ∈ t, isBlank c = true := by
    intro c hc
    have : c ∈ W := by rw [ht]; simp [hc]
    simp [isBlank, h c this (hs c hc)]
  conv => rhs; rw [ht]
  exact (splitOn_seps_right isBlank _ t htb).symm

theorem words_joinSp (ws : List Str) (h : ∀ w ∈ ws, w ≠ [] ∧ ∀ c ∈ w, isBlank c = false) :
    words (joinSp ws) = ws := by
  induction ws with
  | nil => rfl
  | cons w ws ih =>
    have hw := h w (by simp)
    have ih' := ih (fun x hx => h x (by simp [hx]))
    cases ws with
    | nil => simp only [joinSp]; exact splitOn_single _ w hw.1 hw.2
    | cons v vs =>
      simp only [joinSp]
      unfold words
      rw [splitOn_sep isBlank w _ ' ' (by decide), splitOn_single _ w hw.1 hw.2]
      unfold words at ih'
      rw [ih']; rfl

/-! ### findFirst -/
theorem isPrefixOf_head_ne {p c : Char} (ps cs : Str) (h : p ≠ c) :
    (p :: ps).isPrefixOf (c :: cs) = false := by
  simp [List.isPrefixOf, h]

theorem findFirst_cons_no (pat : Str) (c : Char) (cs : Str) (h : pat.isPrefixOf (c :: cs) = false) :
    findFirst pat (c :: cs) = match findFirst pat cs with
      | some (a, b) => some (c :: a, b)
      | none => none := by
  rw [findFirst]; simp only [h, Bool.false_eq_true, if_false]
  cases findFirst pat cs with
  | none => rfl
  | some x => rfl

theorem findFirst_absent (p : Char) (ps x : Str) (h : p ∉ x) : findFirst (p :: ps) x = none := by
  induction x with
  | nil => simp [findFirst]
  | cons c cs ih =>
    have hc : p ≠ c := fun e => h (by simp [e])
    simp only [findFirst, isPrefixOf_head_ne ps cs hc, Bool.false_eq_true, if_false]
    rw [ih (fun e => h (by simp [e]))]

theorem findFirst_self_prefix (pat y : Str) (hne : pat ≠ []) (h : pat.isPrefixOf y = true) :
    findFirst pat y = some ([], y.drop pat.length) := by
  cases y with
  | nil =>
    cases pat with
    | nil => exact absurd rfl hne
    | cons p ps => simp [List.isPrefixOf] at h
  | cons c cs => simp [findFirst, h]

theorem findFirst_head (p : Char) (ps x y : Str) (hx : p ∉ x) (hy : (p :: ps).isPrefixOf y = true) :
    findFirst (p :: ps) (x ++ y) = some (x, y.drop (p :: ps).length) := by
  induction x with
  | nil => exact findFirst_self_prefix _ y (by simp) hy
  | cons c cs ih =>
    have hc : p ≠ c := fun e => hx (by simp [e])
    simp only [List.cons_append, findFirst, isPrefixOf_head_ne ps _ hc, Bool.false_eq_true, if_false]
    rw [ih (fun e => hx (by simp [e]))]

theorem isPrefixOf_self_append (a b : Str) : a.isPrefixOf (a ++ b) = true := by
  induction a with
  | nil => simp
  | cons c cs ih => simp [ih]

/-- a blank-free pattern that is a prefix of `a ++ ' ' :: t` is a prefix of `a` -/
theorem prefix_before_blank : ∀ (pat a t : Str), ' ' ∉ pat → pat.isPrefixOf (a ++ ' ' :: t) = true →
    pat.isPrefixOf a = true := by
  intro pat
  induction pat with
  | nil => intro a t _ _; simp
  | cons x xs ih =>
    intro a t hq h
    have hx : x ≠ ' ' := fun e => hq (by simp [e])
    have hxs : ' ' ∉ xs := fun e => hq (by simp [e])
    cases a with
    | nil => simp [List.isPrefixOf, hx] at h
    | cons c cs =>
      simp only [List.cons_append, List.isPrefixOf, Bool.and_eq_true, beq_iff_eq] at h ⊢
      exact ⟨h.1, ih cs t hxs h.2⟩

theorem findFirst_closing (cl a : Str) (hne : cl ≠ []) (hsp : ' ' ∉ cl) (hocc : occurs cl a = false) :
    findFirst cl (a ++ ' ' :: cl) = some (a ++ [' '], []) := by
  induction a with
  | nil =>
    cases cl with
    | nil => exact absurd rfl hne
    | cons p ps =>
      have hp : p ≠ ' ' := fun e => hsp (by simp [e])
      have := findFirst_self_prefix (p :: ps) (p :: ps) (by simp)
        (by simp)
      rw [List.nil_append, findFirst_cons_no _ _ _ (isPrefixOf_head_ne ps _ hp), this]; simp
  | cons c cs ih =>
    simp only [occurs, Bool.or_eq_false_iff] at hocc
    have hno : cl.isPrefixOf (c :: cs ++ ' ' :: cl) = false := by
      cases h : cl.isPrefixOf (c :: cs ++ ' ' :: cl) with
      | false => rfl
      | true => rw [prefix_before_blank cl (c :: cs) cl hsp h] at hocc; exact absurd hocc.1 (by simp)
    simp only [List.cons_append] at hno ⊢
    rw [findFirst_cons_no _ _ _ hno, ih hocc.2]

/-! ### well-formed styles and code text -/
structure StyleOK (st : Style) : Prop where
  open_ne : st.opening ≠ []
  open_nospace : ∀ c ∈ st.opening, pyIsSpace c = false
  open_head : ∀ c, st.opening.head? = some c → isLabelChar c = true
  close_nospace : ∀ c ∈ st.closing, pyIsSpace c = false

/-- a character that may appear in the code part of a line: a blank or a non-space character,
    different from the first character of the comment opening -/
def CodeChar (st : Style) (c : Char) : Prop :=
  (c = ' ' ∨ pyIsSpace c = false) ∧ st.opening.head? ≠ some c
def CodeText (st : Style) (W : Str) : Prop := ∀ c ∈ W, CodeChar st c

theorem CodeText.append {st : Style} {a b : Str} (ha : CodeText st a) (hb : CodeText st b) :
    CodeText st (a ++ b) := by
  intro c hc; simp at hc; rcases hc with h | h
  · exact ha c h
  · exact hb c h

theorem CodeText.nil (st : Style) : CodeText st [] := by intro c hc; simp at hc

theorem CodeText.blank {st : Style} (hs : StyleOK st) : CodeText st [' '] := by
  intro c hc
  simp at hc; subst hc
  refine ⟨Or.inl rfl, ?_⟩
  intro h
  have := hs.open_head ' ' h
  revert this; decide

theorem CodeText.cons_blank {st : Style} (hs : StyleOK st) {a : Str} (ha : CodeText st a) :
    CodeText st (' ' :: a) := (CodeText.blank hs).append ha

theorem CodeText.noBreak {st : Style} {W : Str} (h : CodeText st W) : ∀ c ∈ W, isBreak c = false := by
  intro c hc
  rcases (h c hc).1 with rfl | hsp
  · decide
  · exact not_space_not_break hsp

theorem CodeText.space_blank {st : Style} {W : Str} (h : CodeText st W) :
    ∀ c ∈ W, pyIsSpace c = true → c = ' ' := by
  intro c hc hsp
  rcases (h c hc).1 with rfl | h'
  · rfl
  · rw [h'] at hsp; exact absurd hsp (by simp)

theorem CodeText.rstrip {st : Style} {W : Str} (h : CodeText st W) : CodeText st (rstrip W) :=
  fun c hc => h c (mem_rstrip hc)

theorem StyleOK.blank_notin_closing {st : Style} (hs : StyleOK st) : ' ' ∉ st.closing := by
  intro h; have := hs.close_nospace ' ' h; revert this; decide

/-- the comment as it stands after `rstrip`, behind the opening symbols -/
def commentRest (st : Style) (t : Str) : Str :=
  if st.closing.isEmpty then rstrip (' ' :: sanitize st t)
  else ' ' :: sanitize st t ++ ' ' :: st.closing

theorem rstrip_comment {st : Style} (hs : StyleOK st) (W t : Str) :
    rstrip (W ++ comment st t) = W ++ (st.opening ++ commentRest st t) := by
  have hX : rstrip (comment st t) = st.opening ++ commentRest st t := by
    unfold comment commentRest
    cases hcl : st.closing with
    | nil =>
      simp only [List.isEmpty_nil, if_true, List.append_nil]
      exact rstrip_nospace_append _ _ hs.open_nospace
    | cons d ds =>
      simp only [List.isEmpty_cons, Bool.false_eq_true, if_false]
      have hcn : ∀ c ∈ d :: ds, pyIsSpace c = false := by rw [← hcl]; exact hs.close_nospace
      have e : st.opening ++ ' ' :: sanitize st t ++ ' ' :: d :: ds
          = (st.opening ++ ' ' :: sanitize st t ++ [' ']) ++ (d :: ds) := by simp
      rw [e, rstrip_append, rstrip_nospace _ hcn]
      simp
  rw [rstrip_append, hX]
  have : st.opening ++ commentRest st t ≠ [] := by simp [hs.open_ne]
  simp [this]

theorem findFirst_opening {st : Style} (hs : StyleOK st) {W : Str} (hW : CodeText st W) (R : Str) :
    findFirst st.opening (W ++ (st.opening ++ R)) = some (W, R) := by
  cases ho : st.opening with
  | nil => exact absurd ho hs.open_ne
  | cons p ps =>
    have hp : p ∉ W := by
      intro hm
      have := (hW p hm).2
      rw [ho] at this; simp at this
    rw [findFirst_head p ps W _ hp (isPrefixOf_self_append _ _)]
    simp

theorem findFirst_opening_none {st : Style} (hs : StyleOK st) {W : Str} (hW : CodeText st W) :
    findFirst st.opening W = none := by
  cases ho : st.opening with
  | nil => exact absurd ho hs.open_ne
  | cons p ps =>
    apply findFirst_absent
    intro hm
    have := (hW p hm).2
    rw [ho] at this; simp at this

theorem findFirst_closing_rest {st : Style} (hs : StyleOK st) (hne : st.closing ≠ []) (t : Str) :
    findFirst st.closing (' ' :: sanitize st t ++ ' ' :: st.closing)
      = some (' ' :: sanitize st t ++ [' '], []) := by
  have hsp := hs.blank_notin_closing
  have hocc : occurs st.closing (' ' :: sanitize st t) = false := by
    simp only [occurs, Bool.or_eq_false_iff]
    refine ⟨?_, sanitize_free st t hne hsp⟩
    cases hcl : st.closing with
    | nil => exact absurd hcl hne
    | cons d ds =>
      have : d ≠ ' ' := fun e => hsp (by rw [hcl]; simp [e])
      exact isPrefixOf_head_ne _ _ this
  have := findFirst_closing st.closing (' ' :: sanitize st t) hne hsp hocc
  simpa using this

theorem stripLineF_nil {st : Style} (hs : StyleOK st) (fuel : Nat) : stripLineF st fuel [] = [] := by
  cases fuel with
  | zero => rfl
  | succ n =>
    have : findFirst st.opening [] = none := findFirst_opening_none hs (CodeText.nil st)
    simp [stripLineF, this]

/-- **comment stripping of a rendered line**: whatever the text, only the code part is left -/
theorem stripLine_comment {st : Style} (hs : StyleOK st) {W : Str} (hW : CodeText st W) (t : Str) :
    stripLine st (rstrip (W ++ comment st t)) = W := by
  rw [rstrip_comment hs]
  unfold stripLine
  simp only [stripLineF, findFirst_opening hs hW]
  unfold commentRest
  cases hcl : st.closing with
  | nil => simp
  | cons d ds =>
    have hne : st.closing ≠ [] := by rw [hcl]; simp
    have := findFirst_closing_rest hs hne t
    rw [hcl] at this
    simp only [List.isEmpty_cons, Bool.false_eq_true, if_false, this]
    rw [stripLineF_nil hs]; simp

theorem stripLine_plain {st : Style} (hs : StyleOK st) {W : Str} (hW : CodeText st W) :
    stripLine st (rstrip W) = rstrip W := by
  unfold stripLine
  simp [stripLineF, findFirst_opening_none hs hW.rstrip]

/-- block-grammar view of the same line: code part and the sanitised, stripped comment -/
theorem splitComment_comment {st : Style} (hs : StyleOK st) {W : Str} (hW : CodeText st W) (t : Str) :
    splitComment st (rstrip (W ++ comment st t)) = some (W, some (strip (sanitize st t))) := by
  rw [rstrip_comment hs]
  unfold splitComment
  simp only [findFirst_opening hs hW]
  unfold commentRest
  cases hcl : st.closing with
  | nil =>
    simp only [List.isEmpty_nil, if_true]
    rw [strip_rstrip, strip_blank_cons]
  | cons d ds =>
    have hne : st.closing ≠ [] := by rw [hcl]; simp
    have := findFirst_closing_rest hs hne t
    rw [hcl] at this
    simp only [List.isEmpty_cons, Bool.false_eq_true, if_false, this]
    rw [List.cons_append, strip_blank_cons, strip_append_blank]

theorem splitComment_plain {st : Style} (hs : StyleOK st) {W : Str} (hW : CodeText st W) :
    splitComment st (rstrip W) = some (rstrip W, none) := by
  unfold splitComment
  simp [findFirst_opening_none hs hW.rstrip]

theorem comment_noBreak {st : Style} (hs : StyleOK st) (t : Str) :
    ∀ c ∈ comment st t, isBreak c = false := by
  intro c hc
  unfold comment at hc
  simp only [List.mem_append, List.mem_cons] at hc
  rcases hc with (h | rfl | h) | h
  · exact not_space_not_break (hs.open_nospace c h)
  · decide
  · exact sanitize_noBreak st t c h
  · split at h
    · simp at h
    · simp only [List.mem_cons] at h
      rcases h with rfl | h
      · decide
      · exact not_space_not_break (hs.close_nospace c h)

/-! ### line endings -/
def EolOK (eol : Str) : Prop := eol ≠ [] ∧ ∀ c ∈ eol, isBreak c = true

theorem stripEol_line (eol b : Str) (hb : ∀ c ∈ b, isBreak c = false) :
    stripEol eol (b ++ eol) = some b := by
  unfold stripEol
  have h1 : eol.isSuffixOf (b ++ eol) = true := by
    rw [List.isSuffixOf_iff_suffix]; exact List.suffix_append b eol
  have h2 : (b ++ eol).take ((b ++ eol).length - eol.length) = b := by
    have : (b ++ eol).length - eol.length = b.length := by simp
    rw [this, List.take_left]
  simp only [h1, if_true, h2]
  have : b.all (fun c => !isBreak c) = true := by
    simp only [List.all_eq_true]; intro c hc; simp [hb c hc]
  simp [this]

/-! ### per-line view of an output text -/
theorem execLines_line (st : Style) (eol b rest : Str) (he : EolOK eol) (hb : ∀ c ∈ b, isBreak c = false) :
    execLines st (b ++ eol ++ rest) =
      (if (words (stripLine st b)).isEmpty then [] else [words (stripLine st b)]) ++ execLines st rest := by
  obtain ⟨hne, hall⟩ := he
  cases eol with
  | nil => exact absurd rfl hne
  | cons e es =>
    unfold execLines
    have h1 : splitOn isBreak (b ++ e :: es ++ rest) = splitOn isBreak b ++ splitOn isBreak rest := by
      rw [List.append_assoc, List.cons_append, splitOn_sep isBreak b _ e (hall e (by simp))]
      rw [splitOn_seps_left isBreak es rest (fun x hx => hall x (by simp [hx]))]
    rw [h1, splitOn_noSep isBreak b hb]
    cases b with
    | nil =>
      simp only [List.isEmpty_nil, if_true, List.nil_append]
      have hw : words (stripLine st []) = [] := by
        unfold stripLine; simp only [List.length_nil, stripLineF]
        cases hf : findFirst st.opening [] with
        | none => rfl
        | some x =>
          obtain ⟨a, r⟩ := x
          simp only [findFirst] at hf
          split at hf
          · simp at hf; obtain ⟨rfl, rfl⟩ := hf
            simp only
            split
            · rfl
            · cases hg : findFirst st.closing [] with
              | none => rfl
              | some y =>
                obtain ⟨a', r'⟩ := y
                simp only [findFirst] at hg
                split at hg
                · simp at hg; obtain ⟨rfl, rfl⟩ := hg; simp; rfl
                · simp at hg
          · simp at hf
      simp [hw]
    | cons c cs =>
      simp only [List.isEmpty_cons, Bool.false_eq_true, if_false, List.map_append, List.map_cons,
        List.map_nil, List.filter_append, List.filter_cons, List.filter_nil]
      split <;> simp_all

theorem breakCount_line (eol b rest : Str) (he : EolOK eol) (hb : ∀ c ∈ b, isBreak c = false) :
    breakCount (b ++ eol ++ rest) = eol.length + breakCount rest := by
  unfold breakCount
  rw [List.countP_append, List.countP_append]
  have h1 : List.countP isBreak b = 0 := by
    rw [List.countP_eq_zero]; intro c hc; simp [hb c hc]
  have h2 : List.countP isBreak eol = eol.length := by
    rw [List.countP_eq_length]; exact he.2
  omega

/-! ### words: label + plain decimal -/
structure Word where
  label : Str
  num : Str
  deriving DecidableEq, Repr

def Word.text (w : Word) : Str := w.label ++ w.num
def Word.pair (w : Word) : Str × Str := (w.label, w.num)

def LabelOK (st : Style) (l : Str) : Prop :=
  l ≠ [] ∧ ∀ c ∈ l, isLabelChar c = true ∧ st.opening.head? ≠ some c
def WordOK (st : Style) (w : Word) : Prop := LabelOK st w.label ∧ isPlainDecimal w.num = true

theorem splitDot_spec (u : Str) :
    u = (splitDot u).1 ++ (match (splitDot u).2 with | none => [] | some f => '.' :: f) := by
  induction u with
  | nil => rfl
  | cons c cs ih =>
    simp only [splitDot]
    split
    · rename_i h; subst h; simp
    · simp only [List.cons_append]; rw [← ih]

theorem isDigit_not_label {c : Char} (h : isDigit c = true) : isLabelChar c = false := by
  simp [isLabelChar, h]
theorem isDigit_not_space {c : Char} (h : isDigit c = true) : pyIsSpace c = false := by
  simp only [isDigit, charDigit] at h
  split at h
  · rename_i hc
    unfold pyIsSpace
    simp only [Bool.or_eq_false_iff, Bool.and_eq_false_iff, decide_eq_false_iff_not, beq_eq_false_iff_ne, ne_eq]
    omega
  · simp at h

theorem plainU_chars {u : Str} (hu : isPlainUnsigned u = true) :
    (∃ c r, u = c :: r ∧ isDigit c = true) ∧ ∀ c ∈ u, isDigit c = true ∨ c = '.' := by
  unfold isPlainUnsigned at hu
  have hs := splitDot_spec u
  generalize hsd : splitDot u = sd at hu hs
  obtain ⟨ip, fr⟩ := sd
  cases fr with
  | none =>
    simp only [Bool.and_eq_true, Bool.not_eq_true', List.all_eq_true] at hu
    simp only [List.append_nil] at hs
    rw [hs]
    refine ⟨?_, fun c hc => Or.inl (hu.2 c hc)⟩
    cases ip with
    | nil => simp at hu
    | cons c r => exact ⟨c, r, rfl, hu.2 c (by simp)⟩
  | some f =>
    simp only [Bool.and_eq_true, Bool.not_eq_true', List.all_eq_true] at hu
    simp only at hs
    rw [hs]
    refine ⟨?_, ?_⟩
    · cases ip with
      | nil => simp at hu
      | cons c r => exact ⟨c, _, rfl, hu.1.1.2 c (by simp)⟩
    · intro c hc
      simp only [List.mem_append, List.mem_cons] at hc
      rcases hc with h | rfl | h
      · exact Or.inl (hu.1.1.2 c h)
      · exact Or.inr rfl
      · exact Or.inl (hu.2 c h)

/-- the characters of a plain decimal: first one is a digit or the sign, all are digits, sign or point -/
theorem plain_chars {n : Str} (h : isPlainDecimal n = true) :
    (∃ c r, n = c :: r ∧ isLabelChar c = false) ∧
    ∀ c ∈ n, isDigit c = true ∨ c = '-' ∨ c = '.' := by
  unfold isPlainDecimal at h
  split at h
  · rename_i r
    obtain ⟨_, h2⟩ := plainU_chars h
    refine ⟨⟨'-', r, rfl, by decide⟩, ?_⟩
    intro c hc
    simp only [List.mem_cons] at hc
    rcases hc with rfl | hc
    · exact Or.inr (Or.inl rfl)
    · rcases h2 c hc with h | h
      · exact Or.inl h
      · exact Or.inr (Or.inr h)
  · obtain ⟨⟨c, r, hcr, hd⟩, h2⟩ := plainU_chars h
    refine ⟨⟨c, r, hcr, isDigit_not_label hd⟩, ?_⟩
    intro c hc
    rcases h2 c hc with h | h
    · exact Or.inl h
    · exact Or.inr (Or.inr h)

theorem labelChar_not_space {c : Char} (h : isLabelChar c = true) : pyIsSpace c = false := by
  simp only [isLabelChar, Bool.and_eq_true, Bool.not_eq_true'] at h
  exact h.2

theorem lexTok_word {st : Style} {w : Word} (h : WordOK st w) : lexTok w.text = some w.pair := by
  obtain ⟨⟨hne, hl⟩, hp⟩ := h
  obtain ⟨⟨c, r, hcr, hc⟩, _⟩ := plain_chars hp
  have hall : ∀ a ∈ w.label, isLabelChar a = true := fun a ha => (hl a ha).1
  unfold lexTok Word.text
  simp only
  rw [List.takeWhile_append_of_pos hall, List.dropWhile_append_of_pos hall, hcr]
  have h1 : List.takeWhile isLabelChar (c :: r) = [] := by simp [List.takeWhile, hc]
  have h2 : List.dropWhile isLabelChar (c :: r) = c :: r := by simp [List.dropWhile, hc]
  rw [h1, h2, ← hcr]
  simp [hp, Word.pair, hne]

theorem mem_takeWhile_sat (p : Char → Bool) (l : Str) : ∀ c ∈ l.takeWhile p, p c = true := by
  induction l with
  | nil => simp
  | cons x xs ih =>
    intro c hc
    simp only [List.takeWhile] at hc
    split at hc
    · simp only [List.mem_cons] at hc
      rcases hc with rfl | hc
      · assumption
      · exact ih c hc
    · simp at hc

theorem lexTok_some {code l n : Str} (h : lexTok code = some (l, n)) :
    code = l ++ n ∧ l ≠ [] ∧ (∀ c ∈ l, isLabelChar c = true) ∧ isPlainDecimal n = true := by
  unfold lexTok at h
  simp only at h
  split at h
  · rename_i hc
    simp only [Bool.and_eq_true, Bool.not_eq_true'] at hc
    simp only [Option.some.injEq, Prod.mk.injEq] at h
    obtain ⟨rfl, rfl⟩ := h
    refine ⟨(List.takeWhile_append_dropWhile).symm, ?_, ?_, hc.2⟩
    · intro he; rw [he] at hc; simp at hc
    · exact mem_takeWhile_sat _ _
  · simp at h

/-- every character of a well-formed word may stand in the code part; none is a blank -/
theorem word_codeText {st : Style} (hs : StyleOK st) {w : Word} (h : WordOK st w) :
    CodeText st w.text ∧ w.text ≠ [] ∧ ∀ c ∈ w.text, isBlank c = false := by
  obtain ⟨⟨hne, hl⟩, hp⟩ := h
  obtain ⟨_, hchars⟩ := plain_chars hp
  have hnum : ∀ c ∈ w.num, pyIsSpace c = false ∧ isLabelChar c = false := by
    intro c hc
    rcases hchars c hc with h | rfl | rfl
    · exact ⟨isDigit_not_space h, isDigit_not_label h⟩
    · decide
    · decide
  have hcode : ∀ c ∈ w.text, pyIsSpace c = false ∧ st.opening.head? ≠ some c := by
    intro c hc
    simp only [Word.text, List.mem_append] at hc
    rcases hc with h | h
    · exact ⟨labelChar_not_space (hl c h).1, (hl c h).2⟩
    · refine ⟨(hnum c h).1, ?_⟩
      intro ho
      have := hs.open_head c ho
      rw [(hnum c h).2] at this; exact absurd this (by simp)
  refine ⟨fun c hc => ⟨Or.inr (hcode c hc).1, (hcode c hc).2⟩, ?_, ?_⟩
  · simp [Word.text, hne]
  · intro c hc
    have := (hcode c hc).1
    simp only [isBlank, beq_eq_false_iff_ne, ne_eq]
    intro e; subst e; revert this; decide

theorem mapO_lexTok {st : Style} (ws : List Word) (h : ∀ w ∈ ws, WordOK st w) :
    mapO lexTok (ws.map Word.text) = some (ws.map Word.pair) := by
  induction ws with
  | nil => rfl
  | cons w ws ih =>
    simp only [List.map_cons, mapO, lexTok_word (h w (by simp)),
      ih (fun x hx => h x (by simp [hx]))]

theorem joinSp_codeText {st : Style} (hs : StyleOK st) (ws : List Word) (h : ∀ w ∈ ws, WordOK st w) :
    CodeText st (joinSp (ws.map Word.text)) := by
  induction ws with
  | nil => exact CodeText.nil st
  | cons w ws ih =>
    have hw := (word_codeText hs (h w (by simp))).1
    have ih' := ih (fun x hx => h x (by simp [hx]))
    cases ws with
    | nil => simpa [joinSp] using hw
    | cons v vs =>
      simp only [List.map_cons, joinSp]
      simp only [List.map_cons] at ih'
      exact hw.append (CodeText.cons_blank hs ih')

theorem words_joinSp_words {st : Style} (hs : StyleOK st) (ws : List Word) (h : ∀ w ∈ ws, WordOK st w) :
    words (joinSp (ws.map Word.text)) = ws.map Word.text := by
  apply words_joinSp
  intro t ht
  simp only [List.mem_map] at ht
  obtain ⟨w, hw, rfl⟩ := ht
  exact (word_codeText hs (h w hw)).2

theorem words_word_sep (w rest : Str) (hw : w ≠ [] ∧ ∀ c ∈ w, isBlank c = false) :
    words (w ++ ' ' :: rest) = w :: words rest := by
  unfold words
  rw [splitOn_sep isBlank w rest ' ' (by decide), splitOn_single _ w hw.1 hw.2]; rfl

theorem words_blank_end (a : Str) : words (a ++ [' ']) = words a := by
  unfold words
  exact splitOn_seps_right isBlank a [' '] (by intro c hc; simp at hc; subst hc; decide)

theorem words_single (w : Str) (hw : w ≠ [] ∧ ∀ c ∈ w, isBlank c = false) : words w = [w] :=
  splitOn_single _ w hw.1 hw.2

/-! ### parameters -/
def pword (dp : Nat) : Str × PVal → Option Word
  | (l, .num (.fin q)) => some ⟨l, fmtNumber dp q⟩
  | (_, .num _) => none
  | (l, .raw s) => some ⟨l, s⟩
  | (l, .none) => some ⟨l, noneText⟩

/-- the words `parameters` emits, in its order (none when a value is not finite) -/
def paramWordsOf (cfg : Cfg) (ps : Params) : Option (List Word) :=
  mapO (pword cfg.dp) (orderedParams cfg ps)

theorem paramWord_ok {dp : Nat} {x : Str × PVal} {s : Str} (h : paramWord dp x = .ok s) :
    ∃ w, pword dp x = some w ∧ s = w.text := by
  obtain ⟨l, v⟩ := x
  cases v with
  | num v =>
    cases v with
    | fin q => simp [paramWord, fmtVal] at h; exact ⟨⟨l, fmtNumber dp q⟩, rfl, h.symm⟩
    | nan => simp [paramWord, fmtVal] at h
    | pinf => simp [paramWord, fmtVal] at h
    | ninf => simp [paramWord, fmtVal] at h
  | raw s' => simp [paramWord] at h; exact ⟨⟨l, s'⟩, rfl, h.symm⟩
  | none => simp [paramWord] at h; exact ⟨⟨l, noneText⟩, rfl, h.symm⟩

theorem mapE_paramWord {dp : Nat} : ∀ {xs : List (Str × PVal)} {ss : List Str},
    mapE (paramWord dp) xs = .ok ss → ∃ ws, mapO (pword dp) xs = some ws ∧ ss = ws.map Word.text := by
  intro xs
  induction xs with
  | nil => intro ss h; simp [mapE] at h; exact ⟨[], rfl, by simp [h]⟩
  | cons x xs ih =>
    intro ss h
    simp only [mapE] at h
    split at h
    · simp at h
    · rename_i b hb
      split at h
      · simp at h
      · rename_i bs hbs
        simp only [Except.ok.injEq] at h
        obtain ⟨w, hw, rfl⟩ := paramWord_ok hb
        obtain ⟨ws, hws, rfl⟩ := ih hbs
        exact ⟨w :: ws, by simp [mapO, hw, hws], by simp [← h]⟩

theorem parameters_ok {cfg : Cfg} {ps : Params} {s : Str} (h : parameters cfg ps = .ok s) :
    ∃ ws, paramWordsOf cfg ps = some ws ∧ s = joinSp (ws.map Word.text) := by
  unfold parameters at h
  split at h
  · rename_i ss hss
    simp only [Except.ok.injEq] at h
    obtain ⟨ws, hws, rfl⟩ := mapE_paramWord hss
    exact ⟨ws, hws, h.symm⟩
  · simp at h

/-! ### statements: code part ++ separator ++ comment -/

/-- the text that goes through `comment()` for this statement, if any -/
def stmtCommentText : Stmt → Option Str
  | .cmd _ _ cm =>
    match cm with
    | some c => if (strip c).isEmpty then none else some c
    | none => none
  | .table _ _ cm desc => some (orDesc cm desc)
  | .pre _ _ desc => some desc
  | .tool _ _ desc => some desc
  | .bare _ => none
  | .text t => some t

/-- the code part of the statement -/
def lead (cfg : Cfg) : Stmt → Except Err Str
  | .cmd code ps _ => command cfg code ps none
  | .table code ps _ _ => command cfg code ps none
  | .pre p code _ =>
    match parameters cfg p with
    | .ok a => .ok (a ++ ' ' :: code)
    | .error e => .error e
  | .tool n code _ => .ok ('T' :: toolDigits n ++ ' ' :: code)
  | .bare p => parameters cfg p
  | .text _ => .ok []

def stmtSep : Stmt → Str
  | .text _ => []
  | _ => [' ']

/-- everything behind the code part -/
def stmtTail (cfg : Cfg) (s : Stmt) : Str :=
  match stmtCommentText s with
  | none => []
  | some t => stmtSep s ++ comment cfg.style t

theorem command_none (cfg : Cfg) (code : Str) (ps : Option Params) (cm : Option Str) :
    command cfg code ps cm =
      match command cfg code ps none with
      | .ok h => .ok (h ++ commentSuffix cfg cm)
      | .error e => .error e := by
  unfold command
  cases ps with
  | none => simp [commentSuffix]
  | some l =>
    cases l with
    | nil => simp [commentSuffix]
    | cons p ps =>
      simp only
      cases parameters cfg (p :: ps) with
      | ok s => simp [commentSuffix]
      | error e => rfl

theorem render_eq_lead (cfg : Cfg) (s : Stmt) :
    renderStmt cfg s =
      match lead cfg s with
      | .ok W => .ok (W ++ stmtTail cfg s)
      | .error e => .error e := by
  cases s with
  | cmd code ps cm =>
    simp only [renderStmt, lead, stmtTail, stmtCommentText, stmtSep]
    rw [command_none]
    cases command cfg code ps none with
    | error e => rfl
    | ok h =>
      simp only
      cases cm with
      | none => simp [commentSuffix]
      | some c =>
        simp only [commentSuffix]
        split <;> simp
  | table code ps cm desc =>
    simp only [renderStmt, getStatement, lead, stmtTail, stmtCommentText, stmtSep]
    cases command cfg code ps none with
    | error e => rfl
    | ok h => simp
  | pre p code desc =>
    simp only [renderStmt, getStatement, command, lead, stmtTail, stmtCommentText, stmtSep, commentSuffix]
    cases parameters cfg p with
    | error e => rfl
    | ok a => simp [orDesc]
  | tool n code desc =>
    simp [renderStmt, getStatement, command, lead, stmtTail, stmtCommentText, stmtSep, commentSuffix, orDesc]
  | bare p =>
    simp only [renderStmt, lead, stmtTail, stmtCommentText]
    cases parameters cfg p with
    | error e => rfl
    | ok a => simp
  | text t => simp [renderStmt, lead, stmtTail, stmtCommentText, stmtSep]

/-! ### the words a statement must lex back to -/
def headWords (cfg : Cfg) (code : Str) (params : Option Params) : Option (List Word) :=
  match lexTok code with
  | none => none
  | some (l, n) =>
    match params with
    | some (p :: ps) =>
      match paramWordsOf cfg (p :: ps) with
      | some ws => some (⟨l, n⟩ :: ws)
      | none => none
    | _ => some [⟨l, n⟩]

def stmtWords (cfg : Cfg) : Stmt → Option (List Word)
  | .cmd code ps _ => headWords cfg code ps
  | .table code ps _ _ => headWords cfg code ps
  | .pre p code _ =>
    match paramWordsOf cfg p, lexTok code with
    | some ws, some (l, n) => some (ws ++ [⟨l, n⟩])
    | _, _ => none
  | .tool n code _ =>
    match lexTok code with
    | some (l, m) => some [⟨['T'], toolDigits n⟩, ⟨l, m⟩]
    | none => none
  | .bare p => paramWordsOf cfg p
  | .text _ => some []

/-- a statement all of whose words are `label + plain decimal` and avoid the comment opening -/
def StmtOK (cfg : Cfg) (s : Stmt) : Prop :=
  ∃ ws, stmtWords cfg s = some ws ∧ ∀ w ∈ ws, WordOK cfg.style w

theorem pword_paramWord {dp : Nat} {x : Str × PVal} {w : Word} (h : pword dp x = some w) :
    paramWord dp x = .ok w.text := by
  obtain ⟨l, v⟩ := x
  cases v with
  | num v =>
    cases v with
    | fin q => simp [pword] at h; subst h; simp [paramWord, fmtVal, Word.text]
    | nan => simp [pword] at h
    | pinf => simp [pword] at h
    | ninf => simp [pword] at h
  | raw s' => simp [pword] at h; subst h; simp [paramWord, Word.text]
  | none => simp [pword] at h; subst h; simp [paramWord, Word.text]

theorem mapO_pword_mapE {dp : Nat} : ∀ {xs : List (Str × PVal)} {ws : List Word},
    mapO (pword dp) xs = some ws → mapE (paramWord dp) xs = .ok (ws.map Word.text) := by
  intro xs
  induction xs with
  | nil => intro ws h; simp [mapO] at h; subst h; rfl
  | cons x xs ih =>
    intro ws h
    simp only [mapO] at h
    split at h
    · rename_i b bs hb hbs
      simp only [Option.some.injEq] at h; subst h
      simp [mapE, pword_paramWord hb, ih hbs]
    · simp at h

theorem parameters_of_words {cfg : Cfg} {ps : Params} {ws : List Word}
    (h : paramWordsOf cfg ps = some ws) : parameters cfg ps = .ok (joinSp (ws.map Word.text)) := by
  unfold parameters
  rw [mapO_pword_mapE h]

theorem codeWord {st : Style} {code l n : Str} (h : lexTok code = some (l, n)) (hw : WordOK st ⟨l, n⟩)
    (hs : StyleOK st) :
    code = (⟨l, n⟩ : Word).text ∧ CodeText st code ∧ code ≠ [] ∧ ∀ c ∈ code, isBlank c = false := by
  have e : code = (⟨l, n⟩ : Word).text := (lexTok_some h).1
  have := word_codeText hs hw
  rw [← e] at this
  exact ⟨e, this⟩

theorem headWords_lead {cfg : Cfg} (hs : StyleOK cfg.style) {code : Str} {ps : Option Params}
    {ws : List Word} (h : headWords cfg code ps = some ws) (hok : ∀ w ∈ ws, WordOK cfg.style w) :
    ∃ W, command cfg code ps none = .ok W ∧ words W = ws.map Word.text ∧ CodeText cfg.style W := by
  unfold headWords at h
  split at h
  · simp at h
  · rename_i l n hl
    have plainCase : ws = [⟨l, n⟩] →
        ∃ W, (Except.ok (code ++ commentSuffix cfg none) : Except Err Str) = .ok W ∧
          words W = ws.map Word.text ∧ CodeText cfg.style W := by
      intro e; subst e
      obtain ⟨e, hc, hne, hnb⟩ := codeWord hl (hok _ (by simp)) hs
      refine ⟨code, by simp [commentSuffix], ?_, hc⟩
      rw [words_single code ⟨hne, hnb⟩]; simp [← e]
    split at h
    · rename_i p ps'
      split at h
      · rename_i pws hp
        simp only [Option.some.injEq] at h; subst h
        have hokp : ∀ w ∈ pws, WordOK cfg.style w := fun w hw => hok w (by simp [hw])
        obtain ⟨e, hc, hne, hnb⟩ := codeWord hl (hok _ (by simp)) hs
        refine ⟨code ++ ' ' :: joinSp (pws.map Word.text), ?_, ?_, ?_⟩
        · simp [command, parameters_of_words hp, commentSuffix]
        · rw [words_word_sep code _ ⟨hne, hnb⟩, words_joinSp_words hs pws hokp]; simp [← e]
        · exact hc.append (CodeText.cons_blank hs (joinSp_codeText hs pws hokp))
      · simp at h
    · rename_i hnot
      simp only [Option.some.injEq] at h
      have := plainCase h.symm
      cases ps with
      | none => simpa [command] using this
      | some l' =>
        cases l' with
        | nil => simpa [command] using this
        | cons p ps' => exact absurd rfl (hnot p ps')

/-- the code part of a well-formed statement: it renders, splits into exactly the expected
    words, and contains nothing that could open a comment or break the line -/
theorem lead_of_words {cfg : Cfg} (hs : StyleOK cfg.style) {s : Stmt} {ws : List Word}
    (h : stmtWords cfg s = some ws) (hok : ∀ w ∈ ws, WordOK cfg.style w) :
    ∃ W, lead cfg s = .ok W ∧ words W = ws.map Word.text ∧ CodeText cfg.style W := by
  cases s with
  | cmd code ps cm => exact headWords_lead hs h hok
  | table code ps cm desc => exact headWords_lead hs h hok
  | pre p code desc =>
    simp only [stmtWords] at h
    split at h
    · rename_i pws l n hp hl
      simp only [Option.some.injEq] at h; subst h
      have hokp : ∀ w ∈ pws, WordOK cfg.style w := fun w hw => hok w (by simp [hw])
      obtain ⟨e, hc, hne, hnb⟩ := codeWord hl (hok _ (by simp)) hs
      refine ⟨joinSp (pws.map Word.text) ++ ' ' :: code, by simp [lead, parameters_of_words hp], ?_, ?_⟩
      · unfold words
        rw [splitOn_sep isBlank _ code ' ' (by decide)]
        have h1 := words_joinSp_words hs pws hokp
        have h2 := words_single code ⟨hne, hnb⟩
        unfold words at h1 h2
        rw [h1, h2]; simp [← e]
      · exact (joinSp_codeText hs pws hokp).append (CodeText.cons_blank hs hc)
    · simp at h
  | tool n code desc =>
    simp only [stmtWords] at h
    split at h
    · rename_i l m hl
      simp only [Option.some.injEq] at h; subst h
      obtain ⟨e, hc, hne, hnb⟩ := codeWord hl (hok _ (by simp)) hs
      have hT := word_codeText hs (hok ⟨['T'], toolDigits n⟩ (by simp))
      simp only [Word.text, List.cons_append, List.nil_append] at hT
      refine ⟨'T' :: toolDigits n ++ ' ' :: code, rfl, ?_, ?_⟩
      · rw [words_word_sep _ _ ⟨hT.2.1, hT.2.2⟩, words_single code ⟨hne, hnb⟩]
        simp [Word.text]; exact e
      · exact hT.1.append (CodeText.cons_blank hs hc)
    · simp at h
  | bare p =>
    simp only [stmtWords] at h
    exact ⟨_, by simp [lead, parameters_of_words h], words_joinSp_words hs ws hok, joinSp_codeText hs ws hok⟩
  | text t =>
    simp only [stmtWords, Option.some.injEq] at h; subst h
    exact ⟨[], rfl, rfl, CodeText.nil _⟩

/-! ### one rendered line -/

/-- `W ++ sep` is still code text with the same words -/
theorem sep_code {cfg : Cfg} (hs : StyleOK cfg.style) (s : Stmt) {W : Str} (hW : CodeText cfg.style W) :
    CodeText cfg.style (W ++ stmtSep s) ∧ words (W ++ stmtSep s) = words W := by
  have hb : CodeText cfg.style (W ++ [' ']) ∧ words (W ++ [' ']) = words W :=
    ⟨hW.append (CodeText.blank hs), words_blank_end W⟩
  cases s <;> simp only [stmtSep, List.append_nil] <;> first | exact hb | exact ⟨hW, trivial⟩

/-- body of the line (before the line ending), for a statement whose code part is `W` -/
theorem line_body {cfg : Cfg} (hs : StyleOK cfg.style) (s : Stmt) {W : Str} (hW : CodeText cfg.style W) :
    (∀ c ∈ rstrip (W ++ stmtTail cfg s), isBreak c = false) ∧
    words (stripLine cfg.style (rstrip (W ++ stmtTail cfg s))) = words W ∧
    splitComment cfg.style (rstrip (W ++ stmtTail cfg s)) =
      some (match stmtCommentText s with
            | none => (rstrip W, none)
            | some t => (W ++ stmtSep s, some (strip (sanitize cfg.style t)))) := by
  unfold stmtTail
  cases ht : stmtCommentText s with
  | none =>
    simp only [List.append_nil]
    refine ⟨hW.rstrip.noBreak, ?_, splitComment_plain hs hW⟩
    rw [stripLine_plain hs hW, words_rstrip W hW.space_blank]
  | some t =>
    obtain ⟨hW', hw'⟩ := sep_code hs s hW
    simp only
    rw [← List.append_assoc]
    refine ⟨?_, ?_, splitComment_comment hs hW' t⟩
    · intro c hc
      have := mem_rstrip hc
      simp only [List.mem_append] at this
      rcases this with h | h
      · exact hW'.noBreak c (by simpa using h)
      · exact comment_noBreak hs t c h
    · rw [stripLine_comment hs hW' t, hw']

/-! ### several statements: the output text seen line by line -/

/-- executable words of the code part of a statement -/
def leadWords (cfg : Cfg) (s : Stmt) : List Str :=
  match lead cfg s with
  | .ok W => words W
  | .error _ => []

/-- the statement has a code part made of code characters only -/
def LeadOK (cfg : Cfg) (s : Stmt) : Prop := ∃ W, lead cfg s = .ok W ∧ CodeText cfg.style W

theorem StmtOK.leadOK {cfg : Cfg} (hs : StyleOK cfg.style) {s : Stmt} (h : StmtOK cfg s) : LeadOK cfg s := by
  obtain ⟨ws, hws, hok⟩ := h
  obtain ⟨W, hl, _, hW⟩ := lead_of_words hs hws hok
  exact ⟨W, hl, hW⟩

/-- what a list of statements puts on the wire, read back by the comment stripper: the executable
    lines are the code parts, the number of line-break characters is `#statements × |eol|` — neither
    depends on any comment text -/
theorem render_lines {cfg : Cfg} (hs : StyleOK cfg.style) (he : EolOK cfg.eol) :
    ∀ (ss : List Stmt), (∀ s ∈ ss, LeadOK cfg s) →
    ∃ ls, mapE (renderLine cfg) ss = .ok ls
      ∧ execLines cfg.style ls.flatten = ((ss.map (leadWords cfg)).filter fun ws => !ws.isEmpty)
      ∧ breakCount ls.flatten = ss.length * cfg.eol.length := by
  intro ss
  induction ss with
  | nil => intro _; exact ⟨[], rfl, rfl, by simp [breakCount]⟩
  | cons s ss ih =>
    intro h
    obtain ⟨ls, hls, hex, hbc⟩ := ih (fun x hx => h x (by simp [hx]))
    obtain ⟨W, hl, hW⟩ := h s (by simp)
    obtain ⟨hnb, hwords, _⟩ := line_body hs s hW
    refine ⟨(rstrip (W ++ stmtTail cfg s) ++ cfg.eol) :: ls, ?_, ?_, ?_⟩
    · simp [mapE, renderLine, render_eq_lead, hl, line, hls]
    · rw [List.flatten_cons, execLines_line _ _ _ _ he hnb, hwords, hex]
      simp only [List.map_cons, leadWords, hl, List.filter_cons]
      split <;> simp_all
    · rw [List.flatten_cons, breakCount_line _ _ _ he hnb, hbc]
      simp only [List.length_cons]
      rw [Nat.succ_mul]; omega

theorem entry_leads (cfg : Cfg) (e : Entry) (t t' : Str) :
    (entryStmts e t).map (lead cfg) = (entryStmts e t').map (lead cfg) := by
  cases e <;> rfl

theorem leadOK_transfer {cfg : Cfg} {ss ss' : List Stmt} (h : ss.map (lead cfg) = ss'.map (lead cfg))
    (hok : ∀ s ∈ ss', LeadOK cfg s) : ∀ s ∈ ss, LeadOK cfg s := by
  intro s hs
  have : lead cfg s ∈ ss'.map (lead cfg) := by rw [← h]; exact List.mem_map_of_mem hs
  obtain ⟨s', hs', he⟩ := List.mem_map.mp this
  obtain ⟨W, hl, hW⟩ := hok s' hs'
  exact ⟨W, by rw [← he]; exact hl, hW⟩

theorem leadWords_eq {cfg : Cfg} {ss ss' : List Stmt} (h : ss.map (lead cfg) = ss'.map (lead cfg)) :
    ss.map (leadWords cfg) = ss'.map (leadWords cfg) := by
  have : ∀ l : List Stmt, l.map (leadWords cfg)
      = (l.map (lead cfg)).map (fun r => match r with | .ok W => words W | .error _ => []) := by
    intro l; simp [leadWords]
  rw [this ss, this ss', h]

end GscribModel.Format

import GscribModel.Model.Report
/-! Helper lemmas for C18: the scanner on rendered fields, `float()` on rendered decimals,
    `strip`, the first-occurrence rule. -/
namespace GscribModel.Report

/-! ### characters -/

theorem sep_facts {c : Char} (h : isSep c = true) :
    isAlnum c = false ∧ isVal c = false ∧ c ≠ ':' ∧ c ≠ ',' := by
  simp only [isSep, Bool.and_eq_true, Bool.not_eq_true', bne_iff_ne, ne_eq] at h
  exact ⟨h.1.1.1, h.1.1.2, h.1.2, h.2⟩

theorem digit_facts : ∀ d : Fin 10,
    (digitChar d).isDigit = true ∧ isVal (digitChar d) = true ∧ (digitChar d).toNat - 48 = d.val
    ∧ digitChar d ≠ '-' ∧ digitChar d ≠ ',' ∧ digitChar d ≠ '.' := by decide

/-! ### the scanner -/

theorem feed_sep (m : Mode) (c : Char) (h : isSep c = true) : feed m c = (.idle, finish m) := by
  obtain ⟨h1, h2, h3, h4⟩ := sep_facts h
  cases m <;> simp [feed, feedIdle, finish, h1, h2, h3, h4]

/-- a separator cuts the text: what precedes it is scanned as if the text ended there -/
theorem run_sep (a : Str) (s : Char) (b : Str) (hs : isSep s = true) :
    ∀ m, run m (a ++ s :: b) = run m a ++ run .idle b := by
  induction a with
  | nil => intro m; simp [run, feed_sep m s hs]
  | cons c cs ih => intro m; simp [run, ih, List.append_assoc]

theorem run_idle_sep (s : Char) (b : Str) (hs : isSep s = true) : run .idle (s :: b) = run .idle b := by
  simp [run, feed_sep .idle s hs, finish]

theorem run_key (ks : Str) (hk : ∀ c ∈ ks, isAlnum c = true) (rest : Str) :
    ∀ acc, run (.key acc) (ks ++ ':' :: rest) = run (.colon (acc ++ ks)) rest := by
  induction ks with
  | nil => intro acc; simp [run, feed, isAlnum]
  | cons c cs ih =>
    intro acc
    have hc : isAlnum c = true := hk c (by simp)
    simp only [List.cons_append, run, feed, hc, if_true, List.nil_append]
    rw [ih (fun x hx => hk x (by simp [hx]))]; simp

theorem run_idle_key (k0 : Char) (ks : Str) (hk : ∀ c ∈ k0 :: ks, isAlnum c = true) (rest : Str) :
    run .idle (k0 :: ks ++ ':' :: rest) = run (.colon (k0 :: ks)) rest := by
  have h0 : isAlnum k0 = true := hk k0 (by simp)
  simp only [List.cons_append, run, feed, feedIdle, h0, if_true, List.nil_append]
  rw [run_key ks (fun x hx => hk x (by simp [hx]))]; simp

theorem run_val_chars (k : Str) (vs : Str) (hv : ∀ c ∈ vs, isVal c = true) (tail : Str) :
    ∀ acc, run (.val k acc) (vs ++ tail) = run (.val k (acc ++ vs)) tail := by
  induction vs with
  | nil => intro acc; simp
  | cons c cs ih =>
    intro acc
    have hc : isVal c = true := hv c (by simp)
    simp only [List.cons_append, run, feed, hc, if_true, List.nil_append]
    rw [ih (fun x hx => hv x (by simp [hx]))]; simp

/-! ### rendered decimals -/

theorem render_isVal (d : Dec) : ∀ c ∈ d.render, isVal c = true := by
  intro c hc
  simp only [Dec.render, List.mem_append, List.mem_map] at hc
  rcases hc with (hc | ⟨x, _, rfl⟩) | hc
  · split at hc <;> simp at hc; subst hc; decide
  · exact (digit_facts x).2.1
  · cases hf : d.fp with
    | none => simp [hf, fracStr] at hc
    | some f =>
      simp only [hf, fracStr, List.mem_cons, List.mem_map] at hc
      rcases hc with rfl | ⟨x, _, rfl⟩
      · decide
      · exact (digit_facts x).2.1

theorem render_no_comma (d : Dec) : ',' ∉ d.render := by
  intro h
  have := render_isVal d ',' h
  revert this; decide

theorem render_ne_nil (d : Dec) (h : d.wf = true) : ∃ c cs, d.render = c :: cs ∧ isVal c = true := by
  have hv := render_isVal d
  cases hr : d.render with
  | cons c cs => exact ⟨c, cs, rfl, hv c (by simp [hr])⟩
  | nil =>
    exfalso
    simp only [Dec.render, List.append_eq_nil_iff, List.map_eq_nil_iff] at hr
    obtain ⟨⟨_, hip⟩, hfp⟩ := hr
    cases hf : d.fp with
    | none => simp [Dec.wf, hip, hf] at h
    | some f => simp [hf, fracStr] at hfp

/-- the comma-separated tail of a value list -/
def tailDecs (ds : List Dec) : Str := ds.flatMap fun d => ',' :: d.render

theorem renderDecs_cons (d : Dec) (ds : List Dec) : renderDecs (d :: ds) = d.render ++ tailDecs ds := by
  induction ds generalizing d with
  | nil => simp [renderDecs, tailDecs]
  | cons e es ih =>
    simp only [renderDecs]
    rw [ih e]; simp [tailDecs]

theorem run_val_tailDecs (k : Str) (ds : List Dec) (hw : ∀ d ∈ ds, d.wf = true) (tail : Str) :
    ∀ acc, run (.val k acc) (tailDecs ds ++ tail) = run (.val k (acc ++ tailDecs ds)) tail := by
  induction ds with
  | nil => intro acc; simp [tailDecs]
  | cons d ds ih =>
    intro acc
    obtain ⟨c, cs, hr, hc⟩ := render_ne_nil d (hw d (by simp))
    have hcs : ∀ x ∈ cs, isVal x = true := fun x hx => render_isVal d x (by simp [hr, hx])
    have e : tailDecs (d :: ds) = ',' :: c :: cs ++ tailDecs ds := by simp [tailDecs, hr]
    rw [e]
    have hcomma : isVal ',' = false := by decide
    simp only [List.cons_append, run, feed, hcomma, hc, if_true, List.nil_append, Bool.false_eq_true, if_false]
    rw [List.append_assoc, run_val_chars k cs hcs, ih (fun x hx => hw x (by simp [hx]))]
    simp

theorem run_colon_decs (k : Str) (d : Dec) (ds : List Dec) (hw : ∀ x ∈ d :: ds, x.wf = true) (tail : Str) :
    run (.colon k) (renderDecs (d :: ds) ++ tail) = run (.val k (renderDecs (d :: ds))) tail := by
  obtain ⟨c, cs, hr, hc⟩ := render_ne_nil d (hw d (by simp))
  have hcs : ∀ x ∈ cs, isVal x = true := fun x hx => render_isVal d x (by simp [hr, hx])
  rw [renderDecs_cons, hr]
  simp only [List.cons_append, run, feed, hc, if_true, List.nil_append, List.append_assoc]
  rw [run_val_chars k cs hcs, run_val_tailDecs k ds (fun x hx => hw x (by simp [hx]))]
  simp

/-- a rendered field `key:v1,v2,…` at the end of the text is exactly one match -/
theorem scan_field (k0 : Char) (ks : Str) (hk : ∀ c ∈ k0 :: ks, isAlnum c = true)
    (d : Dec) (ds : List Dec) (hw : ∀ x ∈ d :: ds, x.wf = true) :
    scan (k0 :: ks ++ ':' :: renderDecs (d :: ds)) = [(k0 :: ks, renderDecs (d :: ds))] := by
  unfold scan
  rw [run_idle_key k0 ks hk]
  have := run_colon_decs (k0 :: ks) d ds hw []
  simp only [List.append_nil] at this
  rw [this]; simp [run, finish]

/-- the same followed by Grbl's `:1` / `:0` probe flag -/
theorem scan_field_flag (k0 : Char) (ks : Str) (hk : ∀ c ∈ k0 :: ks, isAlnum c = true)
    (d : Dec) (ds : List Dec) (hw : ∀ x ∈ d :: ds, x.wf = true) (b : Bool) :
    scan (k0 :: ks ++ ':' :: renderDecs (d :: ds) ++ [':', if b then '1' else '0'])
      = [(k0 :: ks, renderDecs (d :: ds))] := by
  unfold scan
  have e : k0 :: ks ++ ':' :: renderDecs (d :: ds) ++ [':', if b then '1' else '0']
      = k0 :: ks ++ ':' :: (renderDecs (d :: ds) ++ [':', if b then '1' else '0']) := by simp
  rw [e, run_idle_key k0 ks hk, run_colon_decs (k0 :: ks) d ds hw]
  cases b <;> simp [run, feed, feedIdle, finish, isVal, isAlnum]

/-! ### tokens and report bodies -/

/-- what the pattern finds in one rendered token -/
def Tok.matches : Tok → List (Str × Str)
  | .letter c v => [([c], v.render)]
  | .pos t vs _ => [(t.name, renderDecs vs)]
  | .fs f s => [(['F', 'S'], renderDecs [f, s])]
  | .other key vs => [(key, renderDecs vs)]
  | .noise _ => []

theorem all_wf {vs : List Dec} (h : vs.all Dec.wf = true) : ∀ x ∈ vs, x.wf = true := by
  simpa using h

theorem scan_tok (t : Tok) (h : t.wf = true) : scan t.render = t.matches := by
  cases t with
  | letter c v =>
    simp only [Tok.wf, Bool.and_eq_true] at h
    have := scan_field c [] (by simpa using h.1.1) v [] (by simpa using h.2)
    simpa [Tok.render, Tok.matches, renderDecs] using this
  | pos t vs flag =>
    simp only [Tok.wf, Bool.and_eq_true, Bool.not_eq_true', List.isEmpty_eq_false_iff] at h
    obtain ⟨d, ds, rfl⟩ := List.exists_cons_of_ne_nil h.1
    have hw := all_wf h.2
    cases flag with
    | none =>
      cases t
      · exact scan_field 'M' ['P', 'o', 's'] (by decide) d ds hw
      · exact scan_field 'W' ['P', 'o', 's'] (by decide) d ds hw
      · exact scan_field 'P' ['R', 'B'] (by decide) d ds hw
    | some b =>
      cases t
      · exact scan_field_flag 'M' ['P', 'o', 's'] (by decide) d ds hw b
      · exact scan_field_flag 'W' ['P', 'o', 's'] (by decide) d ds hw b
      · exact scan_field_flag 'P' ['R', 'B'] (by decide) d ds hw b
  | fs f s =>
    simp only [Tok.wf, Bool.and_eq_true] at h
    exact scan_field 'F' ['S'] (by decide) f [s] (by simp [h.1, h.2])
  | other key vs =>
    simp only [Tok.wf, Bool.and_eq_true, Bool.not_eq_true', List.isEmpty_eq_false_iff, decide_eq_true_eq,
      List.all_eq_true] at h
    obtain ⟨⟨⟨⟨⟨hk, hl⟩, _⟩, _⟩, hne⟩, hw⟩ := h
    obtain ⟨d, ds, rfl⟩ := List.exists_cons_of_ne_nil hne
    cases key with
    | nil => simp at hl
    | cons k0 ks => exact scan_field k0 ks hk d ds hw
  | noise t => simpa [Tok.wf, Tok.render, Tok.matches] using h

/-- the text after a token: nothing, or something that starts with a separator -/
def SepStart (tail : Str) : Prop := tail = [] ∨ ∃ c r, tail = c :: r ∧ isSep c = true

theorem run_tok_then (t : Tok) (h : t.wf = true) (tail : Str) (ht : SepStart tail) :
    run .idle (t.render ++ tail) = t.matches ++ run .idle tail := by
  rcases ht with rfl | ⟨c, r, rfl, hc⟩
  · have := scan_tok t h
    simp only [scan] at this
    simp [this, run, finish]
  · rw [run_sep _ c r hc, run_idle_sep c r hc]
    have := scan_tok t h
    simp only [scan] at this
    rw [this]

theorem run_joinToks (sep : Char) (hs : isSep sep = true) (toks : List Tok) (hw : ∀ t ∈ toks, t.wf = true)
    (tail : Str) (ht : SepStart tail) :
    run .idle (joinToks sep toks ++ tail) = toks.flatMap Tok.matches ++ run .idle tail := by
  induction toks with
  | nil => simp [joinToks]
  | cons t ts ih =>
    cases ts with
    | nil => simpa [joinToks] using run_tok_then t (hw t (by simp)) tail ht
    | cons t' ts' =>
      have e : joinToks sep (t :: t' :: ts') ++ tail = t.render ++ (sep :: (joinToks sep (t' :: ts') ++ tail)) := by
        simp [joinToks]
      rw [e, run_tok_then t (hw t (by simp)) _ (Or.inr ⟨sep, _, rfl, hs⟩), run_idle_sep sep _ hs,
        ih (fun x hx => hw x (by simp [hx]))]
      simp

theorem opt_sepStart (o : Option Char) (h : o.all isSep = true) : SepStart o.toList := by
  cases o with
  | none => exact Or.inl rfl
  | some c => exact Or.inr ⟨c, [], rfl, by simpa using h⟩

theorem run_idle_optsep (o : Option Char) (h : o.all isSep = true) (rest : Str) :
    run .idle (o.toList ++ rest) = run .idle rest := by
  cases o with
  | none => simp
  | some c => simpa using run_idle_sep c rest (by simpa using h)

/-! ### strip -/

theorem strip_padding (lead body trail : Str) (hl : ∀ c ∈ lead, isWs c = true) (ht : ∀ c ∈ trail, isWs c = true)
    (hh : ∃ c, body.head? = some c ∧ isWs c = false) (hlast : ∃ c, body.getLast? = some c ∧ isWs c = false) :
    strip (lead ++ body ++ trail) = body := by
  obtain ⟨c, hc, hcw⟩ := hh
  obtain ⟨e, he, hew⟩ := hlast
  unfold strip
  rw [List.append_assoc, List.dropWhile_append_of_pos hl]
  obtain ⟨b0, bs, rfl⟩ : ∃ b0 bs, body = b0 :: bs := by
    cases body with
    | nil => simp at hc
    | cons b0 bs => exact ⟨b0, bs, rfl⟩
  simp only [List.head?_cons, Option.some.injEq] at hc
  subst hc
  rw [List.cons_append, List.dropWhile_cons_of_neg (by simp [hcw]), ← List.cons_append, List.reverse_append,
    List.dropWhile_append_of_pos (by intro x hx; exact ht x (by simpa using hx))]
  have hr : ∃ r0 rs, (b0 :: bs).reverse = r0 :: rs ∧ isWs r0 = false := by
    have := @List.head?_reverse _ (b0 :: bs)
    rw [he] at this
    cases hrev : (b0 :: bs).reverse with
    | nil => simp [hrev] at this
    | cons r0 rs =>
      simp only [hrev, List.head?_cons, Option.some.injEq] at this
      exact ⟨r0, rs, rfl, this ▸ hew⟩
  obtain ⟨r0, rs, hrev, hr0⟩ := hr
  rw [hrev, List.dropWhile_cons_of_neg (by simp [hr0]), ← hrev, List.reverse_reverse]

/-! ### `float()` of a rendered decimal -/

theorem digitsVal_map (ds : List (Fin 10)) : ∀ acc : Nat,
    (ds.map digitChar).foldl (fun a c => 10 * a + (c.toNat - 48)) acc = ds.foldl (fun a d => 10 * a + d.val) acc := by
  induction ds with
  | nil => intro acc; rfl
  | cons d ds ih => intro acc; simp only [List.map_cons, List.foldl_cons, (digit_facts d).2.2.1, ih]

theorem digitsVal_digits (ds : List (Fin 10)) : digitsVal (ds.map digitChar) = natOf ds :=
  digitsVal_map ds 0

theorem digits_isDigit (ds : List (Fin 10)) : ∀ c ∈ ds.map digitChar, c.isDigit = true := by
  intro c hc
  obtain ⟨d, _, rfl⟩ := List.mem_map.mp hc
  exact (digit_facts d).1

theorem parseUnsigned_render (ip : List (Fin 10)) (fp : Option (List (Fin 10)))
    (h : Dec.wf ⟨false, ip, fp⟩ = true) :
    parseUnsigned (ip.map digitChar ++ fracStr fp) = some (Dec.mag ⟨false, ip, fp⟩) := by
  have hip := digits_isDigit ip
  cases fp with
  | none =>
    have hne : ip ≠ [] := by simpa [Dec.wf] using h
    simp only [fracStr, List.append_nil, parseUnsigned]
    have hd : (ip.map digitChar).dropWhile Char.isDigit = [] := by
      have := @List.dropWhile_append_of_pos _ Char.isDigit (ip.map digitChar) [] hip
      simpa using this
    have ht : (ip.map digitChar).takeWhile Char.isDigit = ip.map digitChar := by
      have := @List.takeWhile_append_of_pos _ Char.isDigit (ip.map digitChar) [] hip
      simpa using this
    rw [hd]
    simp only [ht, List.isEmpty_iff, List.map_eq_nil_iff, hne, if_false, digitsVal_digits, Dec.mag]
  | some f =>
    have hdot : Char.isDigit '.' = false := by decide
    simp only [fracStr, parseUnsigned]
    have hd : (ip.map digitChar ++ '.' :: f.map digitChar).dropWhile Char.isDigit = '.' :: f.map digitChar := by
      rw [List.dropWhile_append_of_pos hip, List.dropWhile_cons_of_neg (by simp [hdot])]
    have ht : (ip.map digitChar ++ '.' :: f.map digitChar).takeWhile Char.isDigit = ip.map digitChar := by
      rw [List.takeWhile_append_of_pos hip]; simp [List.takeWhile, hdot]
    rw [hd]
    have hall : (f.map digitChar).all Char.isDigit = true := by
      simpa using digits_isDigit f
    have hnn : ((ip.map digitChar).isEmpty && (f.map digitChar).isEmpty) = false := by
      cases ip <;> cases f <;> simp_all [Dec.wf]
    simp only [ht, hall, hnn, Bool.not_false, Bool.and_self, if_true, digitsVal_digits, List.length_map, Dec.mag]

theorem parseFloat_render (d : Dec) (h : d.wf = true) : parseFloat d.render = some d.value := by
  obtain ⟨neg, ip, fp⟩ := d
  have hu := parseUnsigned_render ip fp (by simpa [Dec.wf] using h)
  cases neg with
  | true =>
    simp only [Dec.render, if_true, List.cons_append, List.nil_append, parseFloat]
    rw [hu]; simp [Dec.value, Dec.mag]
  | false =>
    simp only [Dec.render, Bool.false_eq_true, if_false, List.nil_append, Dec.value]
    rw [← hu]
    -- the text does not begin with '-'
    generalize hs : ip.map digitChar ++ fracStr fp = s
    cases s with
    | nil => rfl
    | cons c cs =>
      have hc : c ≠ '-' := by
        cases ip with
        | cons i0 is =>
          simp only [List.map_cons, List.cons_append, List.cons.injEq] at hs
          rw [← hs.1]; exact (digit_facts i0).2.2.2.1
        | nil =>
          cases fp with
          | none => simp [fracStr] at hs
          | some f => simp only [fracStr, List.map_nil, List.nil_append, List.cons.injEq] at hs; rw [← hs.1]; decide
      unfold parseFloat
      split
      · rename_i heq; simp only [List.cons.injEq] at heq; exact absurd heq.1 hc
      · rfl

/-! ### `split(",")` of a rendered value list -/

theorem splitComma_ne_nil (s : Str) : splitComma s ≠ [] := by
  induction s with
  | nil => simp [splitComma]
  | cons c cs ih =>
    simp only [splitComma]
    split
    · simp
    · split <;> simp

theorem splitComma_nocomma (a : Str) (ha : ',' ∉ a) : splitComma a = [a] := by
  induction a with
  | nil => rfl
  | cons c cs ih =>
    have hc : c ≠ ',' := fun e => ha (by simp [e])
    simp only [splitComma, ih (fun h => ha (by simp [h])), hc, if_false]

theorem splitComma_append (a : Str) (ha : ',' ∉ a) (rest : Str) :
    splitComma (a ++ ',' :: rest) = a :: splitComma rest := by
  induction a with
  | nil =>
    simp only [List.nil_append, splitComma]
    cases h : splitComma rest with
    | nil => exact absurd h (splitComma_ne_nil rest)
    | cons p ps => simp
  | cons c cs ih =>
    have hc : c ≠ ',' := fun e => ha (by simp [e])
    simp only [List.cons_append, splitComma, ih (fun h => ha (by simp [h])), hc, if_false]

theorem splitComma_renderDecs (d : Dec) (ds : List Dec) :
    splitComma (renderDecs (d :: ds)) = (d :: ds).map Dec.render := by
  induction ds generalizing d with
  | nil => simpa [renderDecs] using splitComma_nocomma d.render (render_no_comma d)
  | cons e es ih =>
    simp only [renderDecs]
    rw [splitComma_append _ (render_no_comma d), ih e]; simp

/-! ### from matches to readings -/

/-- `_update_param` applied to a list of (letter, value) pairs in order -/
def applyPairs (s : PSt) (ps : List (Char × Rat)) : PSt := ps.foldl (fun s p => updateParam s p.1 p.2) s

theorem posUpdate_render (vs : List Dec) (hw : ∀ x ∈ vs, x.wf = true) : ∀ (axes : List Char) (s : PSt),
    posUpdate s axes (vs.map Dec.render) = applyPairs s (axes.zip (vs.map Dec.value)) := by
  induction vs with
  | nil => intro axes s; cases axes <;> simp [posUpdate, applyPairs]
  | cons d ds ih =>
    intro axes s
    cases axes with
    | nil => simp [posUpdate, applyPairs]
    | cons a as =>
      simp only [List.map_cons, posUpdate, parseFloat_render d (hw d (by simp)), List.zip_cons_cons]
      rw [ih (fun x hx => hw x (by simp [hx]))]
      simp [applyPairs]

theorem tok_apply (t : Tok) (h : t.wf = true) (lt : Bool) (s : PSt) :
    t.matches.foldl (applyMatch lt) s = applyPairs s (t.mentions lt) := by
  cases t with
  | letter c v =>
    simp only [Tok.wf, Bool.and_eq_true] at h
    simp [Tok.matches, Tok.mentions, applyMatch, parseFloat_render v h.2, applyPairs]
  | pos t vs flag =>
    simp only [Tok.wf, Bool.and_eq_true, Bool.not_eq_true', List.isEmpty_eq_false_iff] at h
    obtain ⟨d, ds, rfl⟩ := List.exists_cons_of_ne_nil h.1
    have hw := all_wf h.2
    have key : ∀ lt s, applyMatch lt s (t.name, renderDecs (d :: ds)) = posUpdate s AXES (splitComma (renderDecs (d :: ds))) := by
      intro lt s; cases t <;> simp [applyMatch, PosTag.name, posKeys]
    simp only [Tok.matches, List.foldl_cons, List.foldl_nil, key, Tok.mentions, splitComma_renderDecs]
    exact posUpdate_render (d :: ds) hw AXES s
  | fs f sp =>
    simp only [Tok.wf, Bool.and_eq_true] at h
    have e : splitComma (renderDecs [f, sp]) = [f.render, sp.render] := splitComma_renderDecs f [sp]
    cases lt <;>
      simp [Tok.matches, Tok.mentions, applyMatch, posKeys, e, parseFloat_render f h.1, parseFloat_render sp h.2, applyPairs]
  | other key vs =>
    simp only [Tok.wf, Bool.and_eq_true, Bool.not_eq_true', List.isEmpty_eq_false_iff, decide_eq_true_eq,
      List.all_eq_true, bne_iff_ne, ne_eq, List.contains_eq_mem, decide_eq_false_iff_not] at h
    obtain ⟨⟨⟨⟨⟨_, hl⟩, hfs⟩, hpos⟩, _⟩, _⟩ := h
    match key, hl, hfs, hpos with
    | k0 :: k1 :: rest, _, hfs, hpos =>
      simp [Tok.matches, Tok.mentions, applyMatch, applyPairs, hfs, hpos]
  | noise t => simp [Tok.matches, Tok.mentions, applyPairs]

theorem toks_apply (toks : List Tok) (hw : ∀ t ∈ toks, t.wf = true) (lt : Bool) : ∀ s : PSt,
    (toks.flatMap Tok.matches).foldl (applyMatch lt) s = applyPairs s (toks.flatMap (Tok.mentions lt)) := by
  induction toks with
  | nil => intro s; simp [applyPairs]
  | cons t ts ih =>
    intro s
    simp only [List.flatMap_cons, List.foldl_append, tok_apply t (hw t (by simp)), applyPairs]
    have := ih (fun x hx => hw x (by simp [hx])) (applyPairs s (t.mentions lt))
    simpa [applyPairs] using this

theorem mentions_upper (t : Tok) (h : t.wf = true) (st : Bool) : ∀ p ∈ t.mentions st, p.1.toUpper = p.1 := by
  have hax : ∀ a ∈ AXES, a.toUpper = a := by decide
  intro p hp
  cases t with
  | letter c v =>
    simp only [Tok.wf, Bool.and_eq_true, beq_iff_eq] at h
    simp only [Tok.mentions, List.mem_singleton] at hp
    subst hp; exact h.1.2
  | pos t vs flag =>
    simp only [Tok.mentions] at hp
    obtain ⟨a, b⟩ := p
    exact hax a (List.of_mem_zip hp).1
  | fs f s =>
    simp only [Tok.mentions] at hp
    split at hp
    · simp only [List.mem_cons, List.not_mem_nil, or_false] at hp
      rcases hp with rfl | rfl
      · exact (by decide : 'F'.toUpper = 'F')
      · exact (by decide : 'S'.toUpper = 'S')
    · simp at hp
  | other key vs => simp [Tok.mentions] at hp
  | noise t => simp [Tok.mentions] at hp

/-- the first-occurrence rule: after applying the pairs in order, a letter reads the first value given
    for it unless it had already been reported; other letters keep their reading -/
theorem applyPairs_lookup (ps : List (Char × Rat)) (hup : ∀ p ∈ ps, p.1.toUpper = p.1) :
    ∀ (s : PSt) (L : Char),
    (applyPairs s ps).params.lookup L =
      if L ∈ s.reported then s.params.lookup L
      else match ps.lookup L with
        | some v => some v
        | none => s.params.lookup L := by
  induction ps with
  | nil => intro s L; simp [applyPairs]
  | cons p ps ih =>
    intro s L
    obtain ⟨k, v⟩ := p
    have hk : k.toUpper = k := hup (k, v) (by simp)
    have ih' := ih (fun x hx => hup x (by simp [hx]))
    simp only [applyPairs, List.foldl_cons] at ih' ⊢
    by_cases hkr : k ∈ s.reported
    · have e : updateParam s k v = s := by simp [updateParam, hkr]
      rw [e, ih' s L]
      by_cases hL : L ∈ s.reported
      · simp [hL]
      · have hb : (L == k) = false := beq_eq_false_iff_ne.mpr (fun e => hL (e ▸ hkr))
        simp [hL, List.lookup_cons, hb]
    · have e : updateParam s k v = { reported := k :: s.reported, params := (k, v) :: s.params } := by
        simp [updateParam, hkr, hk]
      rw [e, ih' _ L]
      by_cases hLk : L = k
      · subst hLk; simp [hkr]
      · have hb : (L == k) = false := beq_eq_false_iff_ne.mpr hLk
        by_cases hL : L ∈ s.reported <;> simp [hL, hLk, List.lookup_cons, hb]

end GscribModel.Report

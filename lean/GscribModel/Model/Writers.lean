/-! Model of the writer list of `gscrib.gcode_core.GCodeCore` (`_writers`, `add_writer`,
    `remove_writer`, `write`, `flush`, `teardown`) and of the writer classes
    `gscrib.writers.file_writer.FileWriter`, `console_writer.ConsoleWriter` and a custom
    `BaseWriter` subclass that records what it receives.  Transcription conventions:

    * a *line* is the list of Unicode code points of `format.line(statement)` (line ending
      included); `bytes(line, "utf-8")` is the explicit function `utf8` below (`validLine` false =
      a lone surrogate = `UnicodeEncodeError`, which `GCodeCore.write` turns into `GscribError`
      before any writer is called);
    * writer objects are identified by a number; `St.ws i` is the object, `St.reg` is
      `GCodeCore._writers` (a Python list: ordered, `in`/`remove` by identity);
    * `W.kind`: `path` = `FileWriter("some/path")`, `binary`/`text` = `FileWriter(stream)` over a
      user-supplied binary / text file object (`hasattr(stream, "encoding")`), `custom` = a
      recording `BaseWriter`; `W.tty` = the stream answers `isatty()` true, or the writer is a
      `ConsoleWriter` (which forces `_is_terminal = True`);
    * `data` / `text` are what the file object has been given (bytes, resp. `str` code points);
      `dirty` = something was handed to the file object since its last `flush()`/`close()`, i.e.
      what a *reader of the file* sees is only guaranteed to be `data` when `dirty = false`
      (OS / `io.Buffered*` buffering is not modelled further);
    * `recv`, `sess`, `discs` are history variables: every argument of `write()`, the arguments
      since the file was last (re)opened, and the number of `disconnect()` calls.
    Mathlib-free. -/
namespace GscribModel.Writers

abbrev Bytes := List Nat
/-- code points of one formatted line -/
abbrev Line := List Nat

/-! ### UTF-8, explicitly -/

/-- a Unicode scalar value (what `str.encode("utf-8")` accepts) -/
def validCp (c : Nat) : Bool := c < 0xD800 || (0xE000 ≤ c && c < 0x110000)

def utf8Char (c : Nat) : Bytes :=
  if c < 0x80 then [c]
  else if c < 0x800 then [0xC0 + c / 64, 0x80 + c % 64]
  else if c < 0x10000 then [0xE0 + c / 4096, 0x80 + c / 64 % 64, 0x80 + c % 64]
  else [0xF0 + c / 262144, 0x80 + c / 4096 % 64, 0x80 + c / 64 % 64, 0x80 + c % 64]

/-- `bytes(line, "utf-8")` -/
def utf8 (l : Line) : Bytes := l.flatMap utf8Char

def validLine (l : Line) : Bool := l.all validCp

/-- number of bytes announced by a leading byte (0 = not a leading byte) -/
def seqLen (b0 : Nat) : Nat :=
  if b0 < 0x80 then 1 else if b0 < 0xC0 then 0 else if b0 < 0xE0 then 2
  else if b0 < 0xF0 then 3 else if b0 < 0xF8 then 4 else 0

/-- code point carried by a complete sequence (payload bits only) -/
def seqCp : Bytes → Nat
  | [b0] => b0
  | [b0, b1] => (b0 - 0xC0) * 64 + (b1 - 0x80)
  | [b0, b1, b2] => (b0 - 0xE0) * 4096 + (b1 - 0x80) * 64 + (b2 - 0x80)
  | [b0, b1, b2, b3] => (b0 - 0xF0) * 262144 + (b1 - 0x80) * 4096 + (b2 - 0x80) * 64 + (b3 - 0x80)
  | _ => 0

/-- strict decoder, `bytes.decode("utf-8")`: `none` = `UnicodeDecodeError`.  A sequence is accepted
    iff it is the canonical encoding of a scalar value (rejects overlong forms, surrogates,
    stray continuation bytes, truncated sequences). -/
def utf8DecodeAux : Nat → Bytes → Option Line
  | _, [] => some []
  | 0, _ :: _ => none
  | fuel + 1, b0 :: rest =>
    let n := seqLen b0
    let sq := (b0 :: rest).take n
    let cp := seqCp sq
    if n ≠ 0 ∧ validCp cp = true ∧ utf8Char cp = sq then
      (utf8DecodeAux fuel ((b0 :: rest).drop n)).map (cp :: ·)
    else none

def utf8Decode (b : Bytes) : Option Line := utf8DecodeAux b.length b

/-! ### writer objects -/

inductive Kind | path | binary | text | custom
deriving DecidableEq, Repr

structure W where
  kind   : Kind
  tty    : Bool := false
  isOpen : Bool := false        -- FileWriter: `_file is not None`
  data   : Bytes := []          -- bytes given to the file / binary stream / recorder
  text   : Line := []           -- code points given to a text stream
  dirty  : Bool := false        -- given to the file object, not yet flushed
  closed : Bool := false        -- the writer closed the underlying handle (only a path it opened)
  discs  : Nat := 0             -- history: number of disconnect() calls
  recv   : List Bytes := []     -- history: every argument of write(), in order
  sess   : List Bytes := []     -- history: arguments of write() since the last (re)open
deriving Repr

/-- `FileWriter.connect` (`ConsoleWriter.connect` only forces the terminal flag, held in `tty`) -/
def W.connect (w : W) : W :=
  if w.isOpen then w else
  match w.kind with
  | .path => { w with isOpen := true, data := [], sess := [], closed := false }  -- open("wb+") truncates
  | .custom => w
  | _ => { w with isOpen := true }

/-- what the text stream receives for one `write(statement)`: `statement.decode("utf-8")` -/
def decoded (b : Bytes) : Line := (utf8Decode b).getD []

/-- `writer.write(statement)` -/
def W.write (w : W) (b : Bytes) : W :=
  match w.kind with
  | .custom => { w with data := w.data ++ b, recv := w.recv ++ [b], sess := w.sess ++ [b] }
  | .text =>
    let c := w.connect
    { c with text := c.text ++ decoded b, dirty := !c.tty, recv := c.recv ++ [b], sess := c.sess ++ [b] }
  | .binary =>
    let c := w.connect
    { c with data := c.data ++ b, dirty := !c.tty, recv := c.recv ++ [b], sess := c.sess ++ [b] }
  | .path =>                     -- `_is_terminal` is always False for a path
    let c := w.connect
    { c with data := c.data ++ b, dirty := true, recv := c.recv ++ [b], sess := c.sess ++ [b] }

/-- `writer.flush()`: `FileWriter.flush` flushes an open file; `BaseWriter.flush` does nothing -/
def W.flush (w : W) : W :=
  match w.kind with
  | .custom => w
  | _ => if w.isOpen then { w with dirty := false } else w

/-- `writer.disconnect()`: closes (hence flushes) a file it opened itself; a file object provided by
    the caller is flushed and left open for its owner -/
def W.disconnect (w : W) : W :=
  match w.kind with
  | .path =>
    if w.isOpen then { w with isOpen := false, dirty := false, closed := true, discs := w.discs + 1 }
    else { w with discs := w.discs + 1 }
  | .custom => { w with isOpen := false, discs := w.discs + 1 }
  | _ =>
    if w.isOpen then { w with isOpen := false, dirty := false, discs := w.discs + 1 }
    else { w with discs := w.discs + 1 }

/-! ### the builder's writer list -/

structure St where
  ws  : Nat → W
  reg : List Nat := []          -- GCodeCore._writers

inductive Op where
  | add (i : Nat)               -- add_writer(w_i)
  | remove (i : Nat)            -- remove_writer(w_i)
  | write (l : Line)            -- GCodeCore.write: one formatted line
  | flush                       -- GCodeCore.flush
  | teardown                    -- GCodeCore.teardown
  | disc (i : Nat)              -- the owner calls w_i.disconnect() directly
deriving Repr

def step (s : St) : Op → St
  | .add i => if i ∈ s.reg then s else { s with reg := s.reg ++ [i] }
  | .remove i => if i ∈ s.reg then { s with reg := s.reg.erase i } else s
  | .write l =>
    if validLine l then
      { s with ws := fun j => if j ∈ s.reg then (s.ws j).write (utf8 l) else s.ws j }
    else s                       -- UnicodeEncodeError before the loop over the writers
  | .flush => { s with ws := fun j => if j ∈ s.reg then (s.ws j).flush else s.ws j }
  | .teardown => { ws := fun j => if j ∈ s.reg then (s.ws j).disconnect else s.ws j, reg := [] }
  | .disc i => { s with ws := fun j => if j = i then (s.ws j).disconnect else s.ws j }

def run (s : St) (ops : List Op) : St := ops.foldl step s

/-- a writer object nobody has used yet -/
def fresh (k : Kind) (t : Bool) : W := { kind := k, tty := t }

/-- a builder without writers and the (unused) writer objects described by `cfg` -/
def St.init (cfg : Nat → Kind × Bool) : St := { ws := fun i => fresh (cfg i).1 (cfg i).2 }

/-! ### specification side: one writer's view of a history -/

/-- is writer `w` registered after `op`, given whether it was before -/
def regStep (w : Nat) (r : Bool) : Op → Bool
  | .add i => r || i == w
  | .remove i => r && i != w
  | .teardown => false
  | _ => r

/-- is writer `w` registered after the history `ops` -/
def regAfter (w : Nat) (r : Bool) (ops : List Op) : Bool := ops.foldl (regStep w) r

/-- what one operation contributes to a writer that is registered (`r`) when it happens -/
def emitted (r : Bool) : Op → List Line
  | .write l => if r && validLine l then [l] else []
  | _ => []

/-- the lines written while `w` was registered, in call order (`r` = registered at the start) -/
def written (w : Nat) : Bool → List Op → List Line
  | _, [] => []
  | r, op :: ops => emitted r op ++ written w (regStep w r op) ops

end GscribModel.Writers

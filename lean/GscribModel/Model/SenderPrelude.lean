import GscribModel.Model.Sender
/-! Prelude of the `sender` translator tie (`tools/gen_sender.py` -> `Gen/SenderSrc.lean`): the Python built-ins and the
    pieces of the environment that the translated methods of `gscrib/printrun/printcore.py` (`_sendnext`, `_send`,
    `_checksum`, `_reset_line_numbers`, `startprint`, `pause`, `process_host_command`, the loop bodies of `_listen` and
    `_listen_until_online`) and of `gscrib/printrun/gcoder.py` (`GCode.prepare`, `has_index`) call, given a meaning on the
    model's texts (`Text = List Char`).  Hand-written, Mathlib-free, part of the trusted base.  What it assumes:

    * **Strings are ASCII** (`Text = List Char`, one character = one byte on the wire).  `str.strip` / `str.lstrip` are
      the model's (`Sender.strip`, ASCII blanks), `str.lower` maps `Char.toLower`, `str.split()` cuts at runs of the same
      blanks.  `(s + "\n").encode('ascii')` is the identity (a non-ASCII command raises `UnicodeEncodeError` in Python
      and is out of scope).  `ord(c)` is `c.toNat`; the checksum is therefore an XOR fold over the encoded bytes.
    * `str(i)` for an `int` is the model's `renderInt` (decimal, `-` for negatives); `int(w)` on a blank-free word is an
      optional sign, then decimal digits with single underscores between digits (ASCII digits only).
    * **The regular expression is not translated.**  `Re.sub_empty r s` (`r.sub("", s)`) is the model's
      `Sender.stripComments s` when `r` is compiled from `stripPattern` - the pattern text that the header of
      `Model/Sender.lean` says `stripComments` stands for - and leaves `s` unchanged for any other pattern (then
      `SenderTie_constants` is already broken).  `stripComments` assumes a job line holds no line break.
    * **The job object.**  A `GCode` is the list of the `raw` texts of its line objects (`PyLine.__init__` /
      `PyLightLine.__init__`: `self.raw = l`; the translator checks that text).  The layer structure built by
      `GCode._preprocess` (not translated) is assumed to satisfy, for an object built by `prepare(data)`,
      `len(line_idxs) = len(lines)` and `all_layers[layer_idxs[i]][line_idxs[i]] is lines[i]`: the two statements
      `(layer, line) = mainqueue.idxs(i); gline = mainqueue.all_layers[layer][line]` are `GCode.line_at` (`IndexError`
      out of range).  `harness/tie_sender.py` checks this property on every random job.
    * `dict` keyed by `int` is an association list (`Dict`), `d[k]` on a missing key is `KeyError`; `queue.Queue` is the
      list of its items, oldest first (`get_nowait` on an empty queue is `queue.Empty`; `task_done` is book-keeping);
      `reduce(f, xs)` without initial value folds from the first element and is `TypeError` on an empty sequence.
    * The port accepts every write (the `except device.DeviceError` handler of `_send` is not translated); attribute
      access on `None` (`self.printer.has_flow_control`, `self.mainqueue.has_index`) is `AttributeError`.
    Exceptions are compared by class only. -/
namespace GscribModel.SenderPy
open GscribModel.Sender

inductive PyErr where
  | keyError | indexError | typeError | attributeError | queueEmpty
deriving Repr, DecidableEq

/-- `self.printer`: the only attribute of the device object that the translated code reads -/
structure Device where
  has_flow_control : Bool
deriving Repr, DecidableEq

/-- a `gcoder.GCode` / `LightGCode` object: the `raw` text of each of its lines, in order -/
structure GCode where
  lines : List Text
deriving Repr, DecidableEq

abbrev Dict := List (Int × Text)

/-- a compiled regular expression: its pattern text -/
structure Re where
  pattern : Text
deriving Repr, DecidableEq

/-- the pattern text that `Sender.stripComments` stands for: `\([^\(\)]*\)|;.*|[/\*].*\n` -/
def stripPattern : Text :=
  ['\\', '(', '[', '^', '\\', '(', '\\', ')', ']', '*', '\\', ')', '|', ';', '.', '*', '|', '[', '/', '\\', '*', ']', '.', '*', '\\', 'n']

namespace Re
/-- `r.sub("", s)` -/
def sub_empty (r : Re) (s : Text) : Text := if r.pattern = stripPattern then stripComments s else s
end Re

namespace Py
/-! ### truthiness -/
def truthy {α : Type} (l : List α) : Bool := !l.isEmpty
def truthyOpt {α : Type} (o : Option α) : Bool := o.isSome

/-! ### int / str -/
/-- `str(i)` -/
def str (i : Int) : Text := renderInt i
/-- `ord` over a string: `map(ord, s)` -/
def mapOrd (s : Text) : List Nat := s.map Char.toNat
/-- `reduce(f, xs)` (no initial value) -/
def reduce (f : Nat → Nat → Nat) : List Nat → Except PyErr Nat
  | [] => .error .typeError
  | x :: xs => .ok (xs.foldl f x)

/-- digits with single underscores between them (`prev` = the previous character was a digit) -/
def natLitAux : Bool → Nat → Text → Option Nat
  | prev, acc, [] => if prev then some acc else none
  | prev, acc, c :: cs =>
      if c = '_' then (if prev then natLitAux false acc cs else none)
      else match charDigit c with
        | some d => natLitAux true (10 * acc + d) cs
        | none => none
def natLit (w : Text) : Option Nat := natLitAux false 0 w
/-- `int(w)` for a word without blanks; `none` = `ValueError` -/
def int (w : Text) : Option Int :=
  match w with
  | '-' :: r => (natLit r).map fun n => -(Int.ofNat n)
  | '+' :: r => (natLit r).map fun n => Int.ofNat n
  | r => (natLit r).map fun n => Int.ofNat n

/-! ### str methods -/
def startswith (s p : Text) : Bool := p.isPrefixOf s
/-- `s.startswith(ps)` for a tuple of strings -/
def startswithAny (s : Text) (ps : List Text) : Bool := ps.any fun p => p.isPrefixOf s
/-- `sub in s` -/
def contains (sub : Text) : Text → Bool
  | [] => sub.isEmpty
  | c :: cs => sub.isPrefixOf (c :: cs) || contains sub cs
def lower (s : Text) : Text := s.map Char.toLower
def strip (s : Text) : Text := Sender.strip s
def lstrip (s : Text) : Text := Sender.lstrip s

/-- `s.replace(old, new)`, `old` non-empty (`fuel ≥ len(s)`) -/
def replaceFuel (old new : Text) : Nat → Text → Text
  | 0, s => s
  | _ + 1, [] => []
  | f + 1, c :: cs =>
      if old.isPrefixOf (c :: cs) && !old.isEmpty then new ++ replaceFuel old new f ((c :: cs).drop old.length)
      else c :: replaceFuel old new f cs
def replace (s old new : Text) : Text := replaceFuel old new (s.length + 1) s

/-- `s.split()`: maximal runs of non-blank characters -/
def splitAux : Text → Text → List Text
  | cur, [] => if cur.isEmpty then [] else [cur.reverse]
  | cur, c :: cs =>
      if isWs c then (if cur.isEmpty then splitAux [] cs else cur.reverse :: splitAux [] cs)
      else splitAux (c :: cur) cs
def split (s : Text) : List Text := splitAux [] s

/-- the value left in `x` by
    `while len(ws) != 0: try: x = int(ws.pop(0)); …; break  except: pass` : the first word that `int` accepts -/
def firstInt : List Text → Option Int
  | [] => none
  | w :: ws => match int w with
      | some n => some n
      | none => firstInt ws

/-- `(s + "\n").encode('ascii')` hands the same characters to the port (ASCII assumption) -/
def encode_ascii (s : Text) : Text := s
end Py

/-! ### dict -/
namespace Dict
def get (d : Dict) (k : Int) : Except PyErr Text :=
  match d.lookup k with
  | some v => .ok v
  | none => .error .keyError
/-- `d[k] = v`: an existing key keeps its place -/
def set : Dict → Int → Text → Dict
  | [], k, v => [(k, v)]
  | (k', v') :: r, k, v => if k' = k then (k, v) :: r else (k', v') :: set r k v
end Dict

/-! ### queue.Queue -/
namespace PyQ
def empty (q : List Text) : Bool := q.isEmpty
/-- `q.get_nowait()`: the item and the queue afterwards -/
def get_nowait : List Text → Except PyErr (Text × List Text)
  | [] => .error .queueEmpty
  | x :: r => .ok (x, r)
end PyQ

/-! ### the objects behind `self.printer` and `self.mainqueue` -/
/-- `self.printer.has_flow_control` -/
def has_flow_control : Option Device → Except PyErr Bool
  | some d => .ok d.has_flow_control
  | none => .error .attributeError

/-- `self.mainqueue.<method>` on `None` -/
def deref : Option GCode → Except PyErr GCode
  | some g => .ok g
  | none => .error .attributeError

namespace GCode
/-- `len(self)` (`__len__`: `len(self.line_idxs)`, one index per line) -/
def len (g : GCode) : Int := g.lines.length
/-- `(layer, line) = g.idxs(i); g.all_layers[layer][line]` (negative `i` counts from the end, as Python indexing does) -/
def line_at (g : GCode) (i : Int) : Except PyErr Text :=
  let j : Int := if i < 0 then i + g.lines.length else i
  if j < 0 then .error .indexError
  else match g.lines[j.toNat]? with
    | some x => .ok x
    | none => .error .indexError
end GCode

end GscribModel.SenderPy

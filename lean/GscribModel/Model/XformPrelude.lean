import GscribModel.Model.Transform
/-! # Prelude of the `xform` translator tie (`tools/gen_xform.py` → `Gen/XformSrc.lean`)

The primitives the translation of `gscrib/geometry/transform.py` / `transformer.py` is written in.  Everything numeric
is the transform model's own vocabulary (`M4.mul`, `M4.inv`, `M4.eye`, `M4.diag`, `Pt`, `pyStrip`, `Err` of
`Model/Transform.lean`); this file only adds what Python has and that model does not name.

Assumed (trusted, validated by `harness/tie_xform.py` against the real classes):

* numpy / scipy: `a @ b` of two 4×4 arrays is `M4.mul a b`; `m @ v` of a 4×4 array and a 4-vector is `m4MulVec`;
  `linalg.inv(m)` is `M4.inv m` (exact inverse of a matrix with last row `0 0 0 1`); `np.eye(4)` is `M4.eye`;
  `m[:-1, -1] = [x, y, z]` is `m4SetLastColumn`; `np.diag(t)` of a 4-tuple is `M4.diag`, of any other tuple an array
  that is not 4×4 (`NdArray.other`); `a.copy()` / `copy.deepcopy(a)` are the identity on values.
* the numeric parts of `reflect` and `rotate` stay primitives (the translator pins their statements): `reflect` builds
  `householderMatrix normal` — the model's exact Householder block `I − 2 n nᵀ/(n·n)` of the first three entries
  (`n / ‖n‖` then `I − 2 n⊗n` in doubles) — and `rotate` builds `blockMatrix R`, `R` being the block scipy's
  `Rotation.from_rotvec(…).as_matrix()` returned for these arguments (a parameter of the translated method).
* an `np.ndarray` argument is either a 4×4 matrix of finite numbers or something whose `.shape` is not `(4, 4)`.
* `Point` methods used by the two classes (`resolve`, `__neg__`, `zero`, `to_vector`, `from_vector`, iteration): their
  source text is *pinned* by the translator (it refuses if `point.py` changes them) and transcribed here.
* storing `None` into a float array (`storeFloat none`) is outside the model (numpy stores `nan`): the tie theorems
  only use pivots with three known coordinates, where `storeFloat` is the identity.
* a Python `list` is a `List` in Python order (`append` at the end, `pop()` from the end); a `dict` with `str` keys an
  association list in insertion order. -/
namespace GscribModel.XformPrelude
open GscribModel.Transform

/-- an `np.ndarray` argument as far as `.shape != (4, 4)` can tell -/
inductive NdArray
  | m4 (m : M4)
  | other
deriving DecidableEq, Repr, Inhabited

/-- a 4-vector (`Point.to_vector()`) -/
structure V4 where
  x : Rat
  y : Rat
  z : Rat
  w : Rat
deriving DecidableEq, Repr, Inhabited

/-- `Point.resolve()` -/
def ptResolve (p : Pt) : Pt := ⟨some (p.x.getD 0), some (p.y.getD 0), some (p.z.getD 0)⟩
/-- `Point.__neg__()`: unknown coordinates stay unknown -/
def ptNeg (p : Pt) : Pt := ⟨p.x.map (-·), p.y.map (-·), p.z.map (-·)⟩
/-- `Point.zero()` -/
def ptZero : Pt := ⟨some 0, some 0, some 0⟩
/-- `Point.to_vector()`: `np.array([x or 0, y or 0, z or 0, 1.0])` -/
def ptToVector (p : Pt) : V4 := ⟨p.x.getD 0, p.y.getD 0, p.z.getD 0, 1⟩
/-- `Point.from_vector(v)`: `cls(*v[:3]).resolve()` -/
def ptFromVector (v : V4) : Pt := ⟨some v.x, some v.y, some v.z⟩

/-- `m @ v` -/
def m4MulVec (m : M4) (v : V4) : V4 :=
  ⟨m.m11*v.x + m.m12*v.y + m.m13*v.z + m.m14*v.w,
   m.m21*v.x + m.m22*v.y + m.m23*v.z + m.m24*v.w,
   m.m31*v.x + m.m32*v.y + m.m33*v.z + m.m34*v.w,
   m.m41*v.x + m.m42*v.y + m.m43*v.z + m.m44*v.w⟩
/-- `m[:-1, -1] = [x, y, z]` -/
def m4SetLastColumn (m : M4) (x y z : Rat) : M4 := { m with m14 := x, m24 := y, m34 := z }
/-- a coordinate stored into a float array (`None` is outside the model) -/
def storeFloat (c : Option Rat) : Rat := c.getD 0
/-- `np.diag(tuple)` -/
def npDiag : List Rat → NdArray
  | [a, b, c, d] => .m4 (M4.diag a b c d)
  | _ => .other
/-- `m = np.eye(4); m[:3, :3] = block` -/
def blockMatrix (R : Aff) : M4 := M4.ofBlock R
/-- `n = np.array(normal[:3]); n = n / linalg.norm(n); m = np.eye(4); m[:3, :3] = np.eye(3) - 2 * np.outer(n, n)` (exact) -/
def householderMatrix (normal : List Rat) : M4 :=
  M4.ofBlock (Aff.householder ⟨normal.getD 0 0, normal.getD 1 0, normal.getD 2 0⟩)
/-- `tuple * n` -/
def tupleRepeat (t : List Rat) (n : Int) : List Rat := (List.replicate n.toNat t).flatten

/-- a `dict` with `str` keys -/
abbrev PyDict (α : Type) := List (String × α)
/-- `d[k]` (`none`: `KeyError`) -/
def dictGet {α : Type} (d : PyDict α) (k : String) : Option α := (d.find? (·.1 = k)).map (·.2)
/-- `d[k] = v` -/
def dictSet {α : Type} : PyDict α → String → α → PyDict α
  | [], k, v => [(k, v)]
  | (k', v') :: d, k, v => if k' = k then (k, v) :: d else (k', v') :: dictSet d k v
/-- `d.pop(k)` (`none`: `KeyError`) -/
def dictPop {α : Type} (d : PyDict α) (k : String) : Option (PyDict α × α) :=
  match dictGet d k with
  | none => none
  | some v => some (d.filter (·.1 ≠ k), v)
/-- `l.pop()` (`none`: `IndexError`) -/
def listPop {α : Type} (l : List α) : Option (List α × α) :=
  match l.reverse with
  | [] => none
  | x :: r => some (r.reverse, x)

end GscribModel.XformPrelude

/-! # Model of `gscrib/formatters/default_formatter.py` and of the text paths of
    `gcode_core.py` / `gcode_builder.py` (properties C08, C09).  Mathlib-free, executable.

Strings are `List Char` (`Str`).  Every function is a transcription of one Python function:

* `fmtNumber` / `fmtVal`  — `DefaultFormatter.number` (zero shortcut, finiteness check, numpy positional
  formatting = sign-magnitude round-half-even at `dp` fraction digits, trailing zeros and point trimmed);
* `parameters`, `command`, `comment` (with the sanitiser: `re.sub(r"[\r\n]+", " ", text)` then
  `str.replace(closing, " ")`), `line` (`rstrip` + line ending);
* `Stmt` / `renderStmt`   — the ways the builder assembles a statement (`format.command`, `_get_statement`,
  `S… M03`, `T01 M06`, bare `F…`/`S…`, a comment on its own);
* independent readers, written without reference to the printers: `parseDecimal`, `isPlainDecimal`,
  `lexLine` (block grammar: words, at most one comment, line ending exactly once) and
  `stripLine` / `execLines` (comment stripping for `;`-to-end-of-line styles and bracketed pairs). -/
namespace GscribModel.Format

abbrev Str := List Char

/-! ## Numbers -/

/-- a Python number handed to the API -/
inductive Val where
  | fin (q : Rat) | nan | pinf | ninf

inductive Err where
  | valueError
  deriving DecidableEq, Repr

def qabs (q : Rat) : Rat := if q < 0 then -q else q

/-- round half to even (used on non-negative rationals): floor + correction -/
def roundHE (s : Rat) : Int :=
  let f := s.floor
  let r := s - (f : Rat)
  if (1/2 : Rat) < r ∨ (r = 1/2 ∧ f % 2 = 1) then f + 1 else f

def digitChar (d : Nat) : Char := Char.ofNat (48 + d)
def charDigit (c : Char) : Option Nat :=
  if 48 ≤ c.toNat ∧ c.toNat ≤ 57 then some (c.toNat - 48) else none
def isDigit (c : Char) : Bool := (charDigit c).isSome

/-- little-endian decimal digits, at least one; `fuel ≥ n` suffices -/
def digitsLE : Nat → Nat → List Nat
  | 0, n => [n % 10]
  | f + 1, n => if n < 10 then [n] else (n % 10) :: digitsLE f (n / 10)

/-- `str(n)` for a natural number -/
def natDigits (n : Nat) : List Nat := (digitsLE n n).reverse
def renderNat (n : Nat) : Str := (natDigits n).map digitChar

/-- exactly `w` big-endian digits of `n mod 10^w` -/
def digitsFixed : Nat → Nat → List Nat
  | 0, _ => []
  | w + 1, n => digitsFixed w (n / 10) ++ [n % 10]

/-- drop trailing zeros (`trim='-'`) -/
def trimZ : List Nat → List Nat
  | [] => []
  | d :: ds =>
    match trimZ ds with
    | [] => if d = 0 then [] else [d]
    | r => d :: r

/-- fraction digits of the rounded magnitude `n = round(|q|·10^dp)` -/
def fracDigits (dp n : Nat) : List Nat := trimZ (digitsFixed dp (n % 10 ^ dp))

def fmtMag (dp n : Nat) : Str :=
  renderNat (n / 10 ^ dp) ++
    (if (fracDigits dp n).isEmpty then [] else '.' :: (fracDigits dp n).map digitChar)

/-- the rounded magnitude, in units of the last place -/
def roundedMag (dp : Nat) (q : Rat) : Nat := (roundHE (qabs q * ((10 ^ dp : Nat) : Rat))).toNat

/-- `DefaultFormatter.number` on a finite value -/
def fmtNumber (dp : Nat) (q : Rat) : Str :=
  if q = 0 then ['0']
  else (if q < 0 then ['-'] else []) ++ fmtMag dp (roundedMag dp q)

/-- `DefaultFormatter.number`: `number == 0` shortcut, then the finiteness check -/
def fmtVal (dp : Nat) : Val → Except Err Str
  | .fin q => .ok (fmtNumber dp q)
  | _ => .error .valueError

/-! ### independent decimal reader -/

def parseNatAux : Nat → Str → Option Nat
  | acc, [] => some acc
  | acc, c :: cs =>
    match charDigit c with
    | some d => parseNatAux (10 * acc + d) cs
    | none => none
def parseNat (cs : Str) : Option Nat := if cs.isEmpty then none else parseNatAux 0 cs

/-- `0.d₁d₂…` read as `(d₁ + 0.d₂…)/10` -/
def parseFrac : Str → Option Rat
  | [] => some 0
  | c :: cs =>
    match charDigit c, parseFrac cs with
    | some d, some v => some (((d : Rat) + v) / 10)
    | _, _ => none

/-- split at the first `.` -/
def splitDot : Str → Str × Option Str
  | [] => ([], none)
  | c :: cs => if c = '.' then ([], some cs) else ((c :: (splitDot cs).1), (splitDot cs).2)

def parseUnsigned (s : Str) : Option Rat :=
  match splitDot s with
  | (ip, none) => (parseNat ip).map fun n => (n : Rat)
  | (ip, some fr) =>
    if fr.isEmpty then none
    else match parseNat ip, parseFrac fr with
      | some n, some f => some ((n : Rat) + f)
      | _, _ => none

/-- value of a text matching `-?[0-9]+(\.[0-9]+)?`; `none` for anything else -/
def parseDecimal : Str → Option Rat
  | '-' :: r => (parseUnsigned r).map fun v => -v
  | s => parseUnsigned s

def isPlainUnsigned (u : Str) : Bool :=
  match splitDot u with
  | (ip, none) => !ip.isEmpty && ip.all isDigit
  | (ip, some fr) => !ip.isEmpty && ip.all isDigit && !fr.isEmpty && fr.all isDigit

/-- the grammar `-?[0-9]+(\.[0-9]+)?` as a matcher (no exponent, no `nan`, no `inf`) -/
def isPlainDecimal : Str → Bool
  | '-' :: r => isPlainUnsigned r
  | s => isPlainUnsigned s

/-- number of fraction digits of a decimal text -/
def fracLen (s : Str) : Nat :=
  match (splitDot s).2 with
  | none => 0
  | some f => f.length

/-- `DefaultFormatter.number` with numpy's `unique=True` digit generation as a **trusted parameter**:
    `short` is the shortest decimal text that identifies the scalar (supplied by the harness,
    computed without numpy).  numpy prints it when it needs at most `dp` fraction digits and
    otherwise rounds the exact value at `dp` digits (`fmtNumber`).  Whenever `ulp(x) ≤ 10^-dp`
    both branches coincide (checked on every sample of the correspondence run). -/
def fmtNumberU (dp : Nat) (q : Rat) (short : Option Str) : Str :=
  if q = 0 then ['0']
  else match short with
    | some s => if isPlainDecimal s && fracLen s ≤ dp then s else fmtNumber dp q
    | none => fmtNumber dp q

def fmtValU (dp : Nat) (v : Val) (short : Option Str) : Except Err Str :=
  match v with
  | .fin q => .ok (fmtNumberU dp q short)
  | _ => .error .valueError

/-! ## Text -/

def isBreak (c : Char) : Bool := c == '\n' || c == '\r'

/-- Python `str.isspace()` for one character (what `str.strip`/`rstrip` remove) -/
def pyIsSpace (c : Char) : Bool :=
  let n := c.toNat
  (9 ≤ n && n ≤ 13) || (28 ≤ n && n ≤ 32) || n == 0x85 || n == 0xA0 || n == 0x1680 ||
  (0x2000 ≤ n && n ≤ 0x200A) || n == 0x2028 || n == 0x2029 || n == 0x202F || n == 0x205F || n == 0x3000

/-- `str.rstrip()` -/
def rstrip : Str → Str
  | [] => []
  | c :: cs =>
    match rstrip cs with
    | [] => if pyIsSpace c then [] else [c]
    | r => c :: r
/-- `str.lstrip()` -/
def lstrip : Str → Str
  | [] => []
  | c :: cs => if pyIsSpace c then lstrip cs else c :: cs
/-- `str.strip()` -/
def strip (s : Str) : Str := lstrip (rstrip s)

/-- `re.sub(r"[\r\n]+", " ", text)` -/
def collapseBreaks : Str → Str
  | [] => []
  | c :: cs =>
    if isBreak c then
      match cs with
      | d :: _ => if isBreak d then collapseBreaks cs else ' ' :: collapseBreaks cs
      | [] => [' ']
    else c :: collapseBreaks cs

/-- `text.replace(pat, " ")` (leftmost, non-overlapping), `pat` non-empty;
    `skip` = characters of a match still to be consumed -/
def replaceGo (pat : Str) : Nat → Str → Str
  | _, [] => []
  | skip + 1, _ :: cs => replaceGo pat skip cs
  | 0, c :: cs =>
    if pat.isPrefixOf (c :: cs) then ' ' :: replaceGo pat (pat.length - 1) cs
    else c :: replaceGo pat 0 cs
def replaceAll (pat : Str) (l : Str) : Str := replaceGo pat 0 l

/-- comment style: opening symbols and closing symbols (`[]` for to-end-of-line styles) -/
structure Style where
  opening : Str
  closing : Str
  deriving DecidableEq, Repr

/-- `COMMENT_OPENINGS` / `COMMENT_ENDINGS` -/
def commentPairs : List (Str × Str) :=
  [(['('], [')']), (['['], [']']), (['{'], ['}']), (['<'], ['>']),
   (['"'], ['"']), (['\''], ['\'']), (['/', '*'], ['*', '/'])]

/-- `set_comment_symbols` + `_to_comment_template` (symbols must not contain the text `{}`) -/
def styleOf (symbols : Str) : Style :=
  let s := strip symbols
  match commentPairs.lookup s with
  | some e => ⟨s, e⟩
  | none => ⟨s, []⟩

/-- the two replacements of the repaired `comment()` -/
def sanitize (st : Style) (text : Str) : Str :=
  let t := collapseBreaks text
  if st.closing.isEmpty then t else replaceAll st.closing t

/-- `DefaultFormatter.comment` -/
def comment (st : Style) (text : Str) : Str :=
  st.opening ++ ' ' :: sanitize st text ++ (if st.closing.isEmpty then [] else ' ' :: st.closing)

/-! ## Statements -/

inductive PVal where
  | num (v : Val)     -- isinstance(param, Number)
  | raw (s : Str)     -- anything else: `str(param)`
  | none              -- Python `None`

abbrev Params := List (Str × PVal)

structure Cfg where
  dp : Nat
  style : Style
  eol : Str
  lx : Str
  ly : Str
  lz : Str

def asciiUpper (c : Char) : Char :=
  if 97 ≤ c.toNat ∧ c.toNat ≤ 122 then Char.ofNat (c.toNat - 32) else c
def upper (s : Str) : Str := s.map asciiUpper

/-- `set_axis_label`: `label.strip().upper()` (ASCII labels) -/
def axisLabelOf (label : Str) : Str := upper (strip label)

/-- `GCodeCore._initialize_formatter` (`eol` is the decoded `line_endings`) -/
def mkCfg (dp : Nat) (symbols eol lx ly lz : Str) : Cfg :=
  ⟨dp, styleOf symbols, eol, axisLabelOf lx, axisLabelOf ly, axisLabelOf lz⟩

/-- dict assignment: an existing key keeps its position -/
def dictSet : Params → Str → PVal → Params
  | [], k, v => [(k, v)]
  | (k', v') :: r, k, v => if k' = k then (k', v) :: r else (k', v') :: dictSet r k v

/-- `{ k.upper(): v for k, v in params.items() }` -/
def upperParams (ps : Params) : Params := ps.foldl (fun d kv => dictSet d (upper kv.1) kv.2) []

def axisX : Str := ['X']
def axisY : Str := ['Y']
def axisZ : Str := ['Z']
def isAxis (k : Str) : Bool := k == axisX || k == axisY || k == axisZ

/-- one axis entry of `parameters`: emitted only for a number -/
def axisEntry (up : Params) (axis label : Str) : List (Str × PVal) :=
  match up.lookup axis with
  | some (.num v) => [(label, .num v)]
  | _ => []

/-- the (label, value) pairs in the order `parameters` emits them -/
def orderedParams (cfg : Cfg) (ps : Params) : List (Str × PVal) :=
  let up := upperParams ps
  axisEntry up axisX cfg.lx ++ axisEntry up axisY cfg.ly ++ axisEntry up axisZ cfg.lz ++
    up.filter (fun kv => !isAxis kv.1)

def noneText : Str := ['N', 'o', 'n', 'e']

def paramWord (dp : Nat) : Str × PVal → Except Err Str
  | (l, .num v) => match fmtVal dp v with
      | .ok s => .ok (l ++ s)
      | .error e => .error e
  | (l, .raw s) => .ok (l ++ s)
  | (l, .none) => .ok (l ++ noneText)

def mapE {α β : Type} (f : α → Except Err β) : List α → Except Err (List β)
  | [] => .ok []
  | a :: as =>
    match f a with
    | .error e => .error e
    | .ok b => match mapE f as with
      | .error e => .error e
      | .ok bs => .ok (b :: bs)

/-- `" ".join(words)` -/
def joinSp : List Str → Str
  | [] => []
  | [w] => w
  | w :: ws => w ++ ' ' :: joinSp ws

/-- `DefaultFormatter.parameters` -/
def parameters (cfg : Cfg) (ps : Params) : Except Err Str :=
  match mapE (paramWord cfg.dp) (orderedParams cfg ps) with
  | .ok ws => .ok (joinSp ws)
  | .error e => .error e

/-- the ` ; text` suffix of `command` (nothing for `None` or a blank comment) -/
def commentSuffix (cfg : Cfg) : Option Str → Str
  | none => []
  | some c => if (strip c).isEmpty then [] else ' ' :: comment cfg.style c

/-- `DefaultFormatter.command` -/
def command (cfg : Cfg) (cmd : Str) (params : Option Params) (cm : Option Str) : Except Err Str :=
  match params with
  | some (p :: ps) =>
    match parameters cfg (p :: ps) with
    | .ok s => .ok (cmd ++ ' ' :: s ++ commentSuffix cfg cm)
    | .error e => .error e
  | _ => .ok (cmd ++ commentSuffix cfg cm)

/-- Python truthiness of `comment or entry.description` -/
def orDesc (cm : Option Str) (desc : Str) : Str :=
  match cm with
  | some (c :: cs) => c :: cs
  | _ => desc

/-- `GCodeBuilder._get_statement` -/
def getStatement (cfg : Cfg) (instr : Str) (params : Option Params) (cm : Option Str) (desc : Str) :
    Except Err Str :=
  match command cfg instr params none with
  | .ok s => .ok (s ++ ' ' :: comment cfg.style (orDesc cm desc))
  | .error e => .error e

/-- smallest power of two ≥ n (n ≥ 1): `2 ** ceil(log2(n))` -/
def pow2ceil (n : Nat) : Nat := if n ≤ 1 then 1 else 2 ^ ((n - 1).log2 + 1)

/-- `f"T{n:0{digits}}"` -/
def toolDigits (n : Nat) : Str :=
  let ds := renderNat n
  List.replicate (pow2ceil ds.length - ds.length) '0' ++ ds

/-- the ways the builder assembles one statement -/
inductive Stmt where
  /-- `format.command(code, params, comment)` (moves of `GCodeCore`) -/
  | cmd (code : Str) (params : Option Params) (cm : Option Str)
  /-- `_get_statement(mode, params, comment)` -/
  | table (code : Str) (params : Option Params) (cm : Option Str) (desc : Str)
  /-- `f"{parameters} {_get_statement(mode)}"` (`tool_on`, `power_on`) -/
  | pre (p : Params) (code desc : Str)
  /-- `f"T{n:0{digits}} {_get_statement(mode)}"` (`tool_change`) -/
  | tool (n : Nat) (code desc : Str)
  /-- `format.parameters({...})` on its own (`set_feed_rate`, `set_tool_power`) -/
  | bare (p : Params)
  /-- `format.comment(text)` (`comment()`, `annotate()`) -/
  | text (t : Str)

def renderStmt (cfg : Cfg) : Stmt → Except Err Str
  | .cmd code ps cm => command cfg code ps cm
  | .table code ps cm desc => getStatement cfg code ps cm desc
  | .pre p code desc =>
    match parameters cfg p, getStatement cfg code none none desc with
    | .ok a, .ok b => .ok (a ++ ' ' :: b)
    | .error e, _ => .error e
    | _, .error e => .error e
  | .tool n code desc =>
    match getStatement cfg code none none desc with
    | .ok b => .ok ('T' :: toolDigits n ++ ' ' :: b)
    | .error e => .error e
  | .bare p => parameters cfg p
  | .text t => .ok (comment cfg.style t)

/-- `DefaultFormatter.line` -/
def line (cfg : Cfg) (statement : Str) : Str := rstrip statement ++ cfg.eol

/-- what one statement puts on the wire (`GCodeCore.write`) -/
def renderLine (cfg : Cfg) (s : Stmt) : Except Err Str :=
  match renderStmt cfg s with
  | .ok b => .ok (line cfg b)
  | .error e => .error e

/-! ## Independent readers -/

/-- split on the characters satisfying `p`, dropping empty pieces (`str.split()`-like) -/
def splitStep (p : Char → Bool) (c : Char) (st : Str × List Str) : Str × List Str :=
  if p c then ([], if st.1.isEmpty then st.2 else st.1 :: st.2) else (c :: st.1, st.2)
def splitFlush (st : Str × List Str) : List Str := if st.1.isEmpty then st.2 else st.1 :: st.2
def splitOn (p : Char → Bool) (l : Str) : List Str := splitFlush (l.foldr (splitStep p) ([], []))

def isBlank (c : Char) : Bool := c == ' '
def words (l : Str) : List Str := splitOn isBlank l

/-- first occurrence of `pat`: (text before, text after the occurrence) -/
def findFirst (pat : Str) : Str → Option (Str × Str)
  | [] => if pat.isEmpty then some ([], []) else none
  | c :: cs =>
    if pat.isPrefixOf (c :: cs) then some ([], (c :: cs).drop pat.length)
    else match findFirst pat cs with
      | some (a, b) => some (c :: a, b)
      | none => none

/-- characters of an address letter / label: anything but digits, sign, point and white space -/
def isLabelChar (c : Char) : Bool := !isDigit c && c != '-' && c != '.' && !pyIsSpace c

/-- one word: label then a plain decimal -/
def lexTok (w : Str) : Option (Str × Str) :=
  let l := w.takeWhile isLabelChar
  let n := w.dropWhile isLabelChar
  if !l.isEmpty && isPlainDecimal n then some (l, n) else none

def mapO {α β : Type} (f : α → Option β) : List α → Option (List β)
  | [] => some []
  | a :: as =>
    match f a, mapO f as with
    | some b, some bs => some (b :: bs)
    | _, _ => none

/-- remove the line ending; the rest must be free of line breaks -/
def stripEol (eol l : Str) : Option Str :=
  if eol.isSuffixOf l then
    let b := l.take (l.length - eol.length)
    if b.all (fun c => !isBreak c) then some b else none
  else none

/-- split a line body into its code part and its (at most one, final) comment -/
def splitComment (st : Style) (b : Str) : Option (Str × Option Str) :=
  match findFirst st.opening b with
  | none => some (b, none)
  | some (pre, rest) =>
    if st.closing.isEmpty then some (pre, some (strip rest))
    else match findFirst st.closing rest with
      | some (inner, []) => some (pre, some (strip inner))
      | _ => none

/-- **block grammar**: `words* comment? eol`, each word `label decimal` -/
def lexLine (cfg : Cfg) (l : Str) : Option (List (Str × Str) × Option Str) :=
  match stripEol cfg.eol l with
  | none => none
  | some b =>
    match splitComment cfg.style b with
    | none => none
    | some (code, cm) =>
      match mapO lexTok (words code) with
      | some ts => some (ts, cm)
      | none => none

/-- remove the comments of one line (no line break inside); an unterminated bracket comment
    runs to the end of the line -/
def stripLineF (st : Style) : Nat → Str → Str
  | 0, l => l
  | fuel + 1, l =>
    match findFirst st.opening l with
    | none => l
    | some (pre, rest) =>
      if st.closing.isEmpty then pre
      else match findFirst st.closing rest with
        | none => pre
        | some (_, after) => pre ++ stripLineF st fuel after
def stripLine (st : Style) (l : Str) : Str := stripLineF st (l.length + 1) l

/-- executable content of an output text: per physical line, the words left after comment
    stripping; lines with nothing executable are dropped -/
def execLines (st : Style) (text : Str) : List (List Str) :=
  ((splitOn isBreak text).map fun l => words (stripLine st l)).filter fun ws => !ws.isEmpty

/-- number of line-break characters -/
def breakCount (text : Str) : Nat := text.countP isBreak

/-! ## Entry points that take free text (C09) -/

inductive Entry where
  /-- `g.comment(text)` -/
  | comment
  /-- `g.annotate(key, text)` -/
  | annotate (key : Str)
  /-- `move/rapid/…(…, comment=text)` of `GCodeCore` -/
  | cmd (code : Str) (params : Option Params)
  /-- `set_axis/auto_home/probe(…, comment=text)` of `GCodeBuilder` -/
  | table (code : Str) (params : Option Params) (desc : Str)
  /-- `emergency_halt(text, reset)`: `M05`, `M09`, the message, `M00|M30` -/
  | ehalt (offCode offDesc coolCode coolDesc haltCode haltDesc : Str)

def annotation (key text : Str) : Str := ['@', 's', 'e', 't', ' '] ++ key ++ [' ', '=', ' '] ++ text
def ehaltPrefix : Str :=
  ['E', 'm', 'e', 'r', 'g', 'e', 'n', 'c', 'y', ' ', 'h', 'a', 'l', 't', ':', ' ']

/-- the statements of one call with `text` in its text argument -/
def entryStmts (e : Entry) (text : Str) : List Stmt :=
  match e with
  | .comment => [.text text]
  | .annotate key => [.text (annotation key text)]
  | .cmd code ps => [.cmd code ps (some text)]
  | .table code ps desc => [.table code ps (some text) desc]
  | .ehalt oc od cc cd hc hd =>
    [.table oc none none od, .table cc none none cd, .text (ehaltPrefix ++ text), .table hc none none hd]

/-- bytes written by the call -/
def renderEntry (cfg : Cfg) (e : Entry) (text : Str) : Except Err Str :=
  match mapE (renderLine cfg) (entryStmts e text) with
  | .ok ls => .ok ls.flatten
  | .error e => .error e

end GscribModel.Format

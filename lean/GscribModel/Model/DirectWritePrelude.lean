import GscribModel.Model.DirectWrite
import GscribModel.Model.ReportPrelude
/-! Prelude of the `dwrite` translator tie (`tools/gen_dwrite.py` -> `Gen/DirectWriteSrc.lean`): the two objects the
    translated methods of `PrintrunWriter` (gscrib/writers/printrun_writer.py) and `printcore`
    (gscrib/printrun/printcore.py) work on, the outcome of one *atomic section* of a thread, and the primitives that are not
    translated.  Hand-written, Mathlib-free, part of the trusted base.  What it assumes:

    * **Objects.**  `PC` holds the attributes of `printcore` that the translated methods read or assign (their initial
      values are checked against `printcore.__init__` by the translator, which emits `PC.init`), plus four *environment*
      fields that are not attributes: `has_flow_control` (= `self.printer.has_flow_control`), `port_fails` (a write to the
      port raises `DeviceError`: the connection is lost), `wire` (the commands handed to `_send`, in order; framing with
      line number and checksum is dropped) and `cb_error` (see callbacks).  `printer` is "`self.printer` is a `Device`,
      not `None`"; `print_thread` is "`self.print_thread` is a `Thread`".  `Writer` holds the attributes of
      `PrintrunWriter`; `_device : Option PC` is `None` or the `printcore` object (object identity is dropped).
    * **Reading `self._device.x` while `_device is None`** raises `AttributeError` in Python.  The translator emits a plain
      read off `Dev.obj` (= `PC.absent` for `None`) only where a test for `None` stands before it in the same `and` chain
      (`self._device is not None and …`, `self.is_connected and …`: then the value read off `PC.absent` is never looked at,
      `DirectWriteTie_absent_irrelevant`); in the test of an `if` / `while` without such a test the statement raises
      `AttributeError` when `_device` is `None`.  *Calling* a method of `self._device` while it is `None` likewise.
    * **Threads.**  A translated function is one *atomic section* of one thread: the statements between two blocking
      points, executed without interleaving.  A `threading.Event` is the flag `is_set()`.  A blocking primitive -
      `event.wait()`, `event.wait(timeout=…)`, a loop `while c: …; time.sleep(…)` - is *one poll*: not ready = outcome
      `blocked` (for the loop: the condition held, the body ran once and the thread sleeps; the object is as the body
      left it), and the section is entered again later from its first statement.  The translator only accepts sections in which nothing but loggers, local
      assignments and guards that do not assign precede the blocking primitive, so that "again from the top" re-evaluates
      those guards and nothing else.  A time-out is an input: `Ev.waitT flag t expired` is `some true` (set), `some false`
      (not set and the time-out `expired`), `none` (keep waiting).  `time.sleep` has no effect on the objects.
    * **Callbacks.**  `printcore.logError(msg)` calls `self.errorcb(msg)`; `_create_device` wires that to
      `PrintrunWriter._on_printrun_error` (the translator checks the wiring and emits it as `callbacks`).  The translated
      `printcore` methods only *record* the call (`cb_error`); `Dev.drain` delivers the recorded calls to the writer
      when the `printcore` method returns.  Exact because the writer's callbacks do not touch the `printcore` object
      (checked by the translator: they do not mention `self._device`) and the `printcore` methods do not read the writer.
      `event_handler` is empty and the other callbacks (`sendcb`, `startcb`, …) are `None` for the writer's device.
    * **Not translated (primitives).**  `printcore._send` (`PC._send`: if a device is open the command goes on the
      `wire`; a failing port write is `logError`; the `sentlines` bookkeeping of checksummed job lines, the analyzer and
      `sendcb` are dropped); `printcore.cancelprint` / `disconnect` (`PC.cancelprint`, `PC.disconnect`: the attribute
      assignments of the two methods with `pause()` inlined; joining threads is dropped); creating and starting a
      `Thread`; `statement.decode("utf-8")` (bytes are ASCII text); `Queue.put_nowait / get_nowait / empty / task_done` on
      a list (oldest first; the queue is unbounded: `Queue(0)`); `GCode([])` is the empty list, `has_index(i)` is
      `i < len`, `append` appends the stripped command unless it is empty.  Message texts survive only inside `DeviceError(msg)` objects; exceptions are compared
      by class. -/
namespace GscribModel.DWPy
open GscribModel.Report GscribModel.ReportPy

/-- exception classes that leave the translated code -/
inductive Exc where
  | attributeError | keyError | valueError | typeError | queueEmpty
  | deviceError | gscribError | deviceConnectionError | deviceTimeoutError | deviceWriteError
deriving Repr, DecidableEq

/-- class of a stored exception object -/
def errClass : ErrObj → Exc
  | .deviceError _ => .deviceError
  | .gscribError => .gscribError

/-- `raise x` for a variable that holds a stored exception object or `None` (`raise None` is a `TypeError`) -/
def raiseObj : Option ErrObj → Exc
  | some x => errClass x
  | none => .typeError

/-- how one atomic section ended -/
inductive Out where
  | done                    -- the method returned
  | cont                    -- the section ran to its end; the thread goes on with the next section of the method
  | blocked                 -- the blocking primitive at the head of the section is not ready (poll again)
  | raised (e : Exc)        -- an exception left the method
  | enters (m : String)     -- the section ends by calling the blocking method `m` of the same object (not followed)
  | outside (what : String) -- control entered a branch that is deliberately not translated
deriving Repr, DecidableEq

abbrev Res (σ : Type) := σ × Out

/-- the `printcore` object -/
structure PC where
  printer : Bool
  clear : Bool
  online : Bool
  printing : Bool
  paused : Bool
  mainqueue : Option (List Str)
  priqueue : List Str
  queueindex : Int
  lineno : Int
  resendfrom : Int
  sentlines : List (Int × Str)
  tcp_streaming_mode : Bool
  _send_line_numbers : Bool
  print_thread : Bool
  -- environment
  has_flow_control : Bool
  port_fails : Bool
  wire : List Str
  cb_error : List Str
deriving Repr, DecidableEq

/-- what `self._device.x` reads while `self._device is None` (Python: `AttributeError`) -/
def PC.absent : PC :=
  { printer := false, clear := false, online := false, printing := false, paused := false, mainqueue := none, priqueue := [],
    queueindex := 0, lineno := 0, resendfrom := 0, sentlines := [], tcp_streaming_mode := false, _send_line_numbers := false,
    print_thread := false, has_flow_control := false, port_fails := false, wire := [], cb_error := [] }

/-- the `PrintrunWriter` object -/
structure Writer where
  _device : Option PC
  _timeout : Rat
  _device_error : Option ErrObj
  _shutdown_requested : Bool
  _ack_event : Event
  _online_event : Event
deriving Repr, DecidableEq

namespace Dev
/-- `self._device` as an object whose attributes can be read -/
def obj (o : Option PC) : PC := o.getD PC.absent
end Dev

/-! `threading.Event` (the flag `is_set()`) -/
namespace Ev
def set (_ : Event) : Event := true
def clear (_ : Event) : Event := false
/-- `event.wait()`: one poll -/
def wait (flag : Event) : Bool := flag
/-- `event.wait(timeout=t)`: one poll; `expired` = the time-out has run out (the value of `t` is not used) -/
def waitT (flag : Event) (_t : Rat) (expired : Bool) : Option Bool :=
  if flag then some true else if expired then some false else none
end Ev

/-- `str.strip()` (the C18 model's `strip`, ASCII) -/
def Sx.strip (s : Str) : Str := ReportPy.Py.strip s

/-- text of the error `printcore._send` logs when the port write fails -/
def writeErrorText : Str := "Can't write to printer (disconnected?)".toList

namespace PC
/-- `self.logError(msg)`: records the call of `errorcb` -/
def logError (self : PC) (msg : Str) : PC := { self with cb_error := self.cb_error ++ [msg] }

/-- `printcore._send(command, lineno, calcchecksum)` (not translated, see the header).  With `calcchecksum` the method first reads
    `self.printer.has_flow_control`: `AttributeError` while `self.printer` is `None`. -/
def _send (self : PC) (command : Str) (_lineno : Int) (calcchecksum : Bool) : Except Exc PC :=
  if calcchecksum && !self.printer then .error .attributeError
  else if self.printer then
    let self := { self with wire := self.wire ++ [command] }
    .ok (if self.port_fails then self.logError writeErrorText else self)
  else .ok self

/-- `printcore.cancelprint()` (with `pause()`): not translated -/
def cancelprint (self : PC) : PC :=
  { self with paused := false, printing := false, print_thread := (if self.printing then false else self.print_thread),
              mainqueue := none, clear := true }

/-- `printcore.disconnect()`: not translated -/
def disconnect (self : PC) : PC :=
  { self with printer := false, online := false, printing := false }
end PC

/-- deliver the recorded `errorcb` calls of the device to the writer -/
def Dev.drain (self : Writer) (errorcb : Writer → Str → Writer) : Writer :=
  match self._device with
  | none => self
  | some d => d.cb_error.foldl errorcb { self with _device := some { d with cb_error := [] } }

namespace Queue
def empty (q : List Str) : Bool := q.isEmpty
def put_nowait (q : List Str) (x : Str) : List Str := q ++ [x]
def get_nowait : List Str → Except Exc (Str × List Str)
  | [] => .error .queueEmpty
  | x :: q => .ok (x, q)
end Queue

namespace GCode
/-- `gcoder.GCode([])` -/
def empty : List Str := []
/-- `self.mainqueue.has_index(i)` -/
def has_index (q : Option (List Str)) (i : Int) : Except Exc Bool :=
  match q with
  | none => .error .attributeError
  | some l => .ok (decide (i < (l.length : Int)))
/-- `self.mainqueue.append(command)`: `GCode.append` strips the command and ignores an empty one -/
def append (q : Option (List Str)) (x : Str) : Except Exc (Option (List Str)) :=
  match q with
  | none => .error .attributeError
  | some l => .ok (some (if (Sx.strip x).isEmpty then l else l ++ [Sx.strip x]))
end GCode

/-- `self.sentlines[k]` -/
def Dict.getItem (d : List (Int × Str)) (k : Int) : Except Exc Str :=
  match d.lookup k with
  | some v => .ok v
  | none => .error .keyError

namespace Sx
/-- `try: body  except Exception [as e]: handler` - an exception raised by the body is handed to the handler; any other
    outcome (also `blocked`: the thread is still inside the `try`) is the outcome of the statement -/
def tryExcept {σ : Type} (body : Res σ) (handler : σ → Exc → Res σ) : Res σ :=
  match body with
  | (s, .raised e) => handler s e
  | r => r

/-- `try: body  finally: fin` followed by `rest` - `blocked` leaves the thread inside the `try`; otherwise `fin` runs, and
    then the body's exception is re-raised / the statements after the `try` run (the body has no `return`) -/
def tryFinally {σ : Type} (body : Res σ) (fin : σ → Res σ) (rest : σ → Res σ) : Res σ :=
  match body with
  | (s, .blocked) => (s, .blocked)
  | (s, o) =>
    match fin s with
    | (s, .done) => (match o with | .done => rest s | o => (s, o))
    | r => r
end Sx

/-- `statement.decode("utf-8")` -/
def Bytes.decode (b : Str) : Str := b

end GscribModel.DWPy

import GscribModel.Gen.StateSrc
/-! Hand-written prelude of the *generated* extrusion hook (`Gen/HookSrc.lean`, written by `tools/gen_hook.py` from
    `gscrib/hooks/extrusion_hook.py`): what the translated statements are written with.  Everything here is an assumption
    of the tie (trusted base):

    * numbers are `Rat` (every finite double is one; arithmetic is exact - rounding inside the hook is not modelled);
      `math.pi` and `math.hypot` are *parameters* of the translated functions (a number, a binary function);
    * a hook receives resolved points (`origin = position.resolve()`, `target = to_absolute(...)`: no `None` coordinate),
      so `origin`/`target` are `P3` and `target - origin` (`Point.__sub__`) is `P3.sub`;
    * `state` is the translated `GState` (`Gen/StateSrc.lean`); its read-only accessors used by the hook are transcribed:
      `state.extrusion_mode` returns `_current_extrusion_mode`, `state.get_parameter(name)` returns
      `_current_params.get(name)` (`None` when absent or stored as `None`);
    * `x or d` on an optional number: `None` and `0` are falsy (`pyOr`);
    * `a / b` on floats raises `ZeroDivisionError` when `b == 0` (`pyDiv` = `none`);
    * `params.update(K=v)` on the `ParamsDict` the hook was given is the builder model's `setV` (keys are upper-case).
    Mathlib-free. -/
namespace GscribModel.HookPrelude
open GscribModel.Builder GscribModel.Gen.StateSrc

/-- `a - b` on resolved points -/
def _root_.GscribModel.Builder.P3.sub (a b : P3) : P3 := ⟨a.x - b.x, a.y - b.y, a.z - b.z⟩

/-- `GState.extrusion_mode` (property) -/
def _root_.GscribModel.Gen.StateSrc.GState.extrusion_mode (s : GState) : ExtrusionMode := s._current_extrusion_mode

/-- `GState.get_parameter(name)` -/
def _root_.GscribModel.Gen.StateSrc.GState.get_parameter (s : GState) (name : String) : OQ := s._current_params.get name

/-- `x or d` -/
def pyOr (x : OQ) (d : Rat) : Rat :=
  match x with
  | some v => if v = 0 then d else v
  | none => d

/-- `a / b`; `none` = `ZeroDivisionError` -/
def pyDiv (a b : Rat) : Option Rat := if b = 0 then none else some (a / b)

end GscribModel.HookPrelude

/-! # Model of `GCodeBuilder` (with `GCodeCore`, `GState`, `BoundManager`, `Point`)

Transcription of the *repaired* code in /repo (see known_findings.json): every command validates
everything, in the code's order, before it changes any state or writes anything.  Conventions
(DESIGN.md section 3):

* numbers handed to the API are `Val` (finite rational, NaN, +inf, -inf) with Python/IEEE
  comparison rules; whatever is committed to the state is finite, hence `Rat`;
* a statement is structured (`Stmt`: instruction codes, X/Y/Z words, other words); rendering to
  text is the formatter's model (C08/C09);
* the coordinate transform is the identity here (C04 has its own model);
* `step` returns the new builder, the statements written, and the outcome (error class).
Mathlib-free. -/
namespace GscribModel.Builder

/-! ## values and points -/

inductive Val where
  | fin (q : Rat) | nan | pinf | ninf
deriving DecidableEq, Repr

def Val.fin? : Val → Option Rat
  | .fin q => some q
  | _ => none

abbrev OQ := Option Rat

/-- `gscrib.geometry.Point` with known/unknown (None) coordinates -/
structure Pt where
  x : OQ := none
  y : OQ := none
  z : OQ := none
deriving DecidableEq, Repr

inductive Axis where | x | y | z
deriving DecidableEq, Repr

def Pt.get (p : Pt) : Axis → OQ
  | .x => p.x | .y => p.y | .z => p.z

def Pt.mk' (f : Axis → OQ) : Pt := ⟨f .x, f .y, f .z⟩

def Pt.unknown : Pt := ⟨none, none, none⟩
def Pt.zero : Pt := ⟨some 0, some 0, some 0⟩

/-- `Point.resolve`: None ↦ 0 -/
def Pt.resolve (p : Pt) : Pt := Pt.mk' fun a => some ((p.get a).getD 0)
/-- `Point.replace`: coordinates given in `q` win -/
def Pt.replace (p q : Pt) : Pt := Pt.mk' fun a => match q.get a with | some v => some v | none => p.get a
/-- `Point.mask`: axes given in `m` become unknown -/
def Pt.mask (p m : Pt) : Pt := Pt.mk' fun a => match m.get a with | some _ => none | none => p.get a
/-- `a + b` / `a - b` on resolved points (None is treated as 0; only used on resolved points) -/
def Pt.add (p q : Pt) : Pt := Pt.mk' fun a => some ((p.get a).getD 0 + (q.get a).getD 0)
def Pt.sub (p q : Pt) : Pt := Pt.mk' fun a => some ((p.get a).getD 0 - (q.get a).getD 0)
/-- `Point.combine`: an axis is mentioned iff it was requested or origin ≠ target on it -/
def Pt.combine (req o t m : Pt) : Pt :=
  Pt.mk' fun a => if (req.get a).isSome ∨ o.get a ≠ t.get a then m.get a else none
def Pt.isUnknown (p : Pt) : Bool := p.x.isNone && p.y.isNone && p.z.isNone

/-- a point as handed to the API: each coordinate absent or a `Val` -/
structure VPt where
  x : Option Val := none
  y : Option Val := none
  z : Option Val := none
deriving DecidableEq, Repr

def optFin : Option Val → Option OQ
  | none => some none
  | some v => (v.fin?).map some

/-- all given coordinates finite ⇒ the rational point -/
def VPt.fin? (p : VPt) : Option Pt :=
  match optFin p.x, optFin p.y, optFin p.z with
  | some a, some b, some c => some ⟨a, b, c⟩
  | _, _, _ => none

abbrev VParams := List (String × Val)
abbrev Params := List (String × OQ)

def VParams.fin? : VParams → Option (List (String × Rat))
  | [] => some []
  | (k, v) :: r => match v.fin?, VParams.fin? r with
      | some q, some r' => some ((k, q) :: r')
      | _, _ => none

def lookupQ (ps : List (String × Rat)) (k : String) : OQ := (ps.find? (·.1 == k)).map (·.2)
def setQ (ps : List (String × Rat)) (k : String) (v : Rat) : List (String × Rat) :=
  if ps.any (·.1 == k) then ps.map (fun e => if e.1 == k then (k, v) else e) else ps ++ [(k, v)]

/-- `ParamsDict.update` (keys already upper-case) -/
def Params.set (ps : Params) (k : String) (v : OQ) : Params :=
  if ps.any (·.1 == k) then ps.map (fun e => if e.1 == k then (k, v) else e) else ps ++ [(k, v)]
def Params.update (ps : Params) (new : Params) : Params := new.foldl (fun acc e => acc.set e.1 e.2) ps
def Params.get (ps : Params) (k : String) : OQ := ((ps.find? (·.1 == k)).map (·.2)).join

/-! ## statements -/

/-- every instruction the builder can emit -/
inductive Code where
  | G0 | G1 | G92 | G28 | G38_2 | G38_3 | G38_4 | G38_5 | G90 | G91 | M03 | M04 | M05 | M06 | M07 | M08 | M09 | M00 | M01 | M02 | M30 | M60 | M190 | M109 | M191 | M400 | M140 | M104 | M141 | G04 | M106 | G20 | G21 | G17 | G18 | G19 | M82 | M83 | G93 | G94 | G95 | M105 | M114 | none_
deriving DecidableEq, Repr

def Code.text : Code → String
  | .G0 => "G0"
  | .G1 => "G1"
  | .G92 => "G92"
  | .G28 => "G28"
  | .G38_2 => "G38.2"
  | .G38_3 => "G38.3"
  | .G38_4 => "G38.4"
  | .G38_5 => "G38.5"
  | .G90 => "G90"
  | .G91 => "G91"
  | .M03 => "M03"
  | .M04 => "M04"
  | .M05 => "M05"
  | .M06 => "M06"
  | .M07 => "M07"
  | .M08 => "M08"
  | .M09 => "M09"
  | .M00 => "M00"
  | .M01 => "M01"
  | .M02 => "M02"
  | .M30 => "M30"
  | .M60 => "M60"
  | .M190 => "M190"
  | .M109 => "M109"
  | .M191 => "M191"
  | .M400 => "M400"
  | .M140 => "M140"
  | .M104 => "M104"
  | .M141 => "M141"
  | .G04 => "G04"
  | .M106 => "M106"
  | .G20 => "G20"
  | .G21 => "G21"
  | .G17 => "G17"
  | .G18 => "G18"
  | .G19 => "G19"
  | .M82 => "M82"
  | .M83 => "M83"
  | .G93 => "G93"
  | .G94 => "G94"
  | .G95 => "G95"
  | .M105 => "M105"
  | .M114 => "M114"
  | .none_ => ""

structure Stmt where
  codes : List Code := []
  ax : Pt := {}
  words : List (String × Rat) := []
deriving DecidableEq, Repr

inductive Err where
  | valueError | toolState | coolantState
deriving DecidableEq, Repr

inductive Out where
  | ok | error (e : Err)
deriving DecidableEq, Repr

/-! ## enumerations (value `off`/`bogus` as the API accepts strings) -/

inductive SpinArg where | cw | ccw | off | bogus deriving DecidableEq, Repr
inductive PowerArg where | constant | dynamic | off | bogus deriving DecidableEq, Repr
inductive CoolArg where | mist | flood | off | bogus deriving DecidableEq, Repr
inductive SwapArg where | automatic | manual | off | bogus deriving DecidableEq, Repr
inductive HaltArg where
  | pause | optionalPause | endNoReset | endReset | pallet | waitBed | waitHotend | waitChamber | waitMotion
  | off | bogus
deriving DecidableEq, Repr
inductive ProbeArg where | towards | towardsNoErr | away | awayNoErr | bogus deriving DecidableEq, Repr

def SpinArg.code : SpinArg → Code | .cw => .M03 | .ccw => .M04 | _ => .M05
def PowerArg.code : PowerArg → Code | .constant => .M03 | .dynamic => .M04 | _ => .M05
def CoolArg.code : CoolArg → Code | .mist => .M07 | .flood => .M08 | _ => .M09
def HaltArg.code : HaltArg → Code
  | .pause => .M00 | .optionalPause => .M01 | .endNoReset => .M02 | .endReset => .M30 | .pallet => .M60
  | .waitBed => .M190 | .waitHotend => .M109 | .waitChamber => .M191 | .waitMotion => .M400
  | _ => .none_
def ProbeArg.code : ProbeArg → Code
  | .towards => .G38_2 | .towardsNoErr => .G38_3 | .away => .G38_4 | .awayNoErr => .G38_5 | .bogus => .none_

/-! ## bounds -/

structure P3 where
  x : Rat
  y : Rat
  z : Rat
deriving DecidableEq, Repr

def P3.get (p : P3) : Axis → Rat | .x => p.x | .y => p.y | .z => p.z

/-- `Point.__lt__`: all ≤ and one < -/
def P3.lt (a b : P3) : Bool :=
  decide (a.x ≤ b.x) && decide (a.y ≤ b.y) && decide (a.z ≤ b.z) &&
  (decide (a.x < b.x) || decide (a.y < b.y) || decide (a.z < b.z))

inductive BKind where
  | bed | chamber | hotend | feed | toolNumber | toolPower
deriving DecidableEq, Repr

structure Bounds where
  axes : Option (P3 × P3) := none
  bed : Option (Rat × Rat) := none
  chamber : Option (Rat × Rat) := none
  hotend : Option (Rat × Rat) := none
  feed : Option (Rat × Rat) := none
  toolNumber : Option (Rat × Rat) := none
  toolPower : Option (Rat × Rat) := none
deriving DecidableEq, Repr

def Bounds.get (b : Bounds) : BKind → Option (Rat × Rat)
  | .bed => b.bed | .chamber => b.chamber | .hotend => b.hotend
  | .feed => b.feed | .toolNumber => b.toolNumber | .toolPower => b.toolPower

def Bounds.set (b : Bounds) (k : BKind) (r : Rat × Rat) : Bounds :=
  match k with
  | .bed => { b with bed := some r } | .chamber => { b with chamber := some r }
  | .hotend => { b with hotend := some r } | .feed => { b with feed := some r }
  | .toolNumber => { b with toolNumber := some r } | .toolPower => { b with toolPower := some r }

/-- `BoundManager.validate(name, value)` for a number: no bounds ⇒ fine; NaN never passes. -/
def Bounds.okNum (b : Bounds) (k : BKind) (v : Rat) : Bool :=
  match b.get k with
  | none => true
  | some (lo, hi) => decide (lo ≤ v) && decide (v ≤ hi)

/-- `Point.within_bounds`: unknown coordinates are ignored -/
def Bounds.okAxes (b : Bounds) (p : Pt) : Bool :=
  match b.axes with
  | none => true
  | some (lo, hi) =>
    [Axis.x, Axis.y, Axis.z].all fun a =>
      match p.get a with
      | none => true
      | some v => decide (lo.get a ≤ v) && decide (v ≤ hi.get a)

/-! ## hooks (C20): data-described so that the model stays executable -/

inductive Hook where
  | record                       -- returns the parameters unchanged (the harness records the call)
  | limitF (max : Rat)           -- caps the F parameter
  | extrude (k : Rat)            -- E := k * h (+ last E in absolute extrusion mode); h = hypot(dx, dy) supplied per move
  | drop (key : String)          -- returns a new dictionary without `key` (a hook may return fewer parameters than it got)
deriving DecidableEq, Repr

structure HookCall where
  origin : Pt
  target : Pt
deriving DecidableEq, Repr

/-! ## the builder -/

structure B where
  -- GCodeCore
  axes : Pt := Pt.unknown              -- `_current_axes`
  params : Params := []                -- `_current_params` (GState aliases the same dict)
  rel : Bool := false                  -- `_distance_mode`
  ctx : List Bool := []                -- open `absolute_mode()/relative_mode()` contexts: saved previous mode
  hooks : List Hook := []
  -- GState
  saxes : Pt := Pt.zero                -- `state.position` (starts at zero, not unknown)
  srel : Bool := false                 -- `state.distance_mode`
  toolActive : Bool := false
  coolActive : Bool := false
  spin : SpinArg := .off
  pmode : PowerArg := .off
  cool : CoolArg := .off
  power : Rat := 0
  feed : Rat := 0
  toolNumber : Int := 0
  swap : SwapArg := .off
  bed : OQ := none                     -- target temperatures (None = never set; the code holds -inf)
  hotend : OQ := none
  chamber : OQ := none
  erel : Bool := false                 -- extrusion mode relative?
  fmode : Nat := 1                     -- 0 inverse time, 1 units/min, 2 units/rev
  inches : Bool := false
  plane : Nat := 0                     -- 0 xy, 1 yz, 2 zx
  dirCcw : Bool := false
  res : Rat := 1 / 10
  msTime : Bool := false               -- time units milliseconds?
  kelvin : Bool := false
  bounds : Bounds := {}
deriving DecidableEq, Repr

def lookupV (ps : VParams) (k : String) : Option Val := (ps.find? (·.1 == k)).map (·.2)
def setV (ps : VParams) (k : String) (v : Val) : VParams :=
  if ps.any (·.1 == k) then ps.map (fun e => if e.1 == k then (k, v) else e) else ps ++ [(k, v)]

/-- Python `v > m` for a `Val` against a finite number -/
def Val.gtRat : Val → Rat → Bool
  | .fin q, m => decide (q > m)
  | .pinf, _ => true
  | _, _ => false

/-- One hook applied to the parameters of a move (hooks run before the statement is formatted, so
    they may see non-finite values).  `h` = value of `math.hypot(dx, dy)` for the move at hand
    (an uninterpreted parameter of the model). -/
def Hook.apply (b : B) (h : Rat) (hk : Hook) (ps : VParams) : VParams :=
  match hk with
  | .record => ps
  | .limitF m => match lookupV ps "F" with
      | some f => if f.gtRat m then setV ps "F" (.fin m) else ps
      | none => ps
  | .extrude k =>
      let len := k * h
      setV ps "E" (.fin (if b.erel then len else len + (b.params.get "E").getD 0))
  | .drop key => ps.filter (fun e => !(e.1 == key))

inductive Op where
  | move (rapid : Bool) (p : VPt) (ps : VParams) (h : Rat)     -- move()/rapid(); h see `Hook.apply`
  | moveAbs (rapid : Bool) (p : VPt) (ps : VParams) (h : Rat)  -- move_absolute()/rapid_absolute()
  | setAxis (p : VPt) (ps : VParams)
  | home (p : VPt) (ps : VParams)
  | probe (m : ProbeArg) (p : VPt) (ps : VParams)
  | setDist (rel : Bool) | setDistBogus
  | enterCtx (rel : Bool) | exitCtx
  | feed (v : Val) | power (v : Val)
  | toolOn (m : SpinArg) (v : Val) | toolOff
  | powerOn (m : PowerArg) (v : Val) | powerOff
  | coolOn (m : CoolArg) | coolOff
  | toolChange (m : SwapArg) (n : Int)
  | halt (m : HaltArg) (ps : VParams)
  | ehalt (reset : Bool)
  | bed (v : Val) | hotend (v : Val) | chamber (v : Val)
  | sleep (v : Val) | fan (v : Val) (n : Int)
  | units (inches : Bool) | plane (p : Nat) | direction (ccw : Bool) | resolution (q : Rat)
  | emode (rel : Bool) | fmode (m : Nat) | timeUnits (ms : Bool) | tempUnits (kelvin : Bool)
  | query (temperature : Bool) | comment
  | boundsAxes (lo hi : P3) | boundsNum (k : BKind) (lo hi : Rat)
  | addHook (h : Hook) | removeHook (h : Hook)
deriving DecidableEq, Repr

/-- result of one API call: new builder, statements written, outcome, and the hook calls made
    (an output like the statements: hooks are the caller's code, not builder state) -/
structure Res where
  b : B
  stmts : List Stmt := []
  out : Out := .ok
  calls : List HookCall := []
deriving DecidableEq, Repr

def reject (b : B) (e : Err) : Res := { b := b, stmts := [], out := .error e }
def accept (b : B) (stmts : List Stmt) : Res := { b := b, stmts := stmts, out := .ok }

/-- `to_absolute(point)` -/
def B.toAbsolute (b : B) (p : Pt) : Pt :=
  if b.rel then b.axes.resolve.add p.resolve else b.axes.resolve.replace p

/-- `_validate_feed_rate` / `_validate_tool_power`: bounds first, then `>= 0` and finite -/
def B.okFeed (b : B) (v : Rat) : Bool := b.bounds.okNum .feed v && decide (0 ≤ v)
def B.okPower (b : B) (v : Rat) : Bool := b.bounds.okNum .toolPower v && decide (0 ≤ v)

/-- `_track_move_params`: both validated before either is set -/
def B.okTrack (b : B) (ps : List (String × Rat)) : Bool :=
  (match lookupQ ps "F" with | some f => b.okFeed f | none => true) &&
  (match lookupQ ps "S" with | some s => b.okPower s | none => true)

def B.track (b : B) (ps : List (String × Rat)) : B :=
  let b1 := match lookupQ ps "F" with | some f => { b with feed := f } | none => b
  match lookupQ ps "S" with | some s => { b1 with power := s } | none => b1

def toParams (req : Pt) (ps : List (String × Rat)) : Params :=
  (ps.map fun e => (e.1, some e.2)) ++ [("X", req.x), ("Y", req.y), ("Z", req.z)]

/-- `_update_axes` after everything has been validated -/
def B.commitAxes (b : B) (target : Pt) (req : Pt) (ps : List (String × Rat)) : B :=
  { b with axes := target, saxes := target, params := b.params.update (toParams req ps) }

def modeStmt (rel : Bool) : Stmt := { codes := [if rel then .G91 else .G90] }

def applyHooks (b : B) (h : Rat) (ps : VParams) : VParams :=
  b.hooks.foldl (fun acc hk => hk.apply b h acc) ps

/-- `move()` / `rapid()` -/
def stepMove (b : B) (rapid : Bool) (vp : VPt) (vps : VParams) (h : Rat) : Res :=
  match vp.fin? with
  | none => reject b .valueError     -- NaN/inf coordinate: rejected by the bounds check or by the formatter
  | some req =>
    let cur := b.axes.resolve
    let tgt := b.toAbsolute req
    let mv := if b.rel then tgt.sub cur else tgt
    let word := req.combine cur tgt mv
    if !b.bounds.okAxes tgt then reject b .valueError else
    -- hooks (linear moves only) see origin = position.resolve(), target = to_absolute(emitted move);
    -- they run before the statement is formatted, hence also for a move that is then rejected
    let hooked := !rapid && !b.hooks.isEmpty
    let calls : List HookCall := if hooked then b.hooks.map (fun _ => ⟨cur, b.toAbsolute word⟩) else []
    match (if hooked then applyHooks b h vps else vps).fin? with
    | none => { reject b .valueError with calls := calls }
    | some ps' =>
      if !b.okTrack ps' then { reject b .valueError with calls := calls } else
      let b2 := (b.track ps').commitAxes tgt req ps'
      { accept b2 [{ codes := [if rapid then .G0 else .G1], ax := word, words := ps' }] with calls := calls }

/-- `move_absolute()` / `rapid_absolute()`: validated first, then issued inside `absolute_mode()` -/
def stepMoveAbs (b : B) (rapid : Bool) (vp : VPt) (vps : VParams) (h : Rat) : Res :=
  match vp.fin?, vps.fin? with
  | some req, some ps =>
    let tgt := b.axes.replace req                 -- unknown axes stay unknown
    if !b.bounds.okAxes tgt then reject b .valueError else
    if !b.okTrack ps then reject b .valueError else
    -- inside the context the builder is in absolute mode
    let bA := { b with rel := false, srel := false }
    let cur := b.axes.resolve
    let seen := cur.replace req
    let hooked := !rapid && !b.hooks.isEmpty
    let calls : List HookCall := if hooked then b.hooks.map (fun _ => ⟨cur, seen⟩) else []
    -- KNOWN FINDING (C05-absolute-bypass-hook-params): the parameters were validated before the hooks
    -- ran; if a hook returns parameters that fail validation, the call is rejected *inside* the
    -- `absolute_mode()` context, after `G90` was written, and the context exit writes `G91`.
    let leak : Res := { b := b, stmts := if b.rel then [modeStmt false, modeStmt true] else [],
                        out := .error .valueError, calls := calls }
    match (if hooked then applyHooks bA h vps else vps).fin? with
    | none => leak
    | some ps' =>
    if !bA.okTrack ps' then leak else
    let b2 := (bA.track ps').commitAxes tgt req ps'
    let g := { codes := [if rapid then .G0 else .G1], ax := req, words := ps' : Stmt }
    if b.rel then { accept { b2 with rel := true, srel := true } [modeStmt false, g, modeStmt true] with calls := calls }
    else { accept b2 [g] with calls := calls }
  | _, _ => reject b .valueError

def stepSetAxis (b : B) (vp : VPt) (vps : VParams) : Res :=
  match vp.fin?, vps.fin? with
  | some req, some ps =>
    let tgt := b.axes.replace req
    if !b.bounds.okAxes tgt then reject b .valueError else
    accept (b.commitAxes tgt req ps) ([{ codes := [.G92], ax := req, words := ps }])
  | _, _ => reject b .valueError

def stepHome (b : B) (vp : VPt) (vps : VParams) : Res :=
  match vp.fin?, vps.fin? with
  | some req, some ps =>
    let m := if req.isUnknown then Pt.zero else req
    let tgt := b.axes.mask m
    -- bounds are validated on the masked target: unknown axes are ignored, known ones were valid already…
    if !b.bounds.okAxes tgt then reject b .valueError else
    accept (b.commitAxes tgt req ps) ([{ codes := [.G28], ax := req, words := ps }])
  | _, _ => reject b .valueError

def stepProbe (b : B) (m : ProbeArg) (vp : VPt) (vps : VParams) : Res :=
  if m = .bogus then reject b .valueError else
  match vp.fin?, vps.fin? with
  | some req, some ps =>
    let cur := b.axes.resolve
    let tgt := b.toAbsolute req
    let mv := if b.rel then tgt.sub cur else tgt
    let word := req.combine cur tgt mv
    if !b.bounds.okAxes tgt then reject b .valueError else
    if !b.okTrack ps then reject b .valueError else
    let after := tgt.mask word
    accept ((b.track ps).commitAxes after req ps) ([{ codes := [m.code], ax := word, words := ps }])
  | _, _ => reject b .valueError

def stepSetDist (b : B) (r : Bool) : B × List Stmt := ({ b with rel := r, srel := r }, [modeStmt r])

/-- temperature tracked by `halt(wait-for-*, S=… | R=…)` -/
def haltTemp (ps : List (String × Rat)) : OQ :=
  match lookupQ ps "S" with | some s => some s | none => lookupQ ps "R"

/-- every S / R value a wait command carries -/
def haltTemps (ps : List (String × Rat)) : List Rat := [lookupQ ps "S", lookupQ ps "R"].filterMap id

def HaltArg.kind : HaltArg → Option BKind
  | .waitBed => some .bed | .waitHotend => some .hotend | .waitChamber => some .chamber | _ => none

def stepHalt (b : B) (m : HaltArg) (vps : VParams) : Res :=
  if m = .off ∨ m = .bogus then reject b .valueError else
  if b.toolActive then reject b .toolState else
  if b.coolActive then reject b .coolantState else
  match vps.fin? with
  | none => reject b .valueError               -- the statement is formatted first: NaN/±inf rejected
  | some ps =>
    let st : Stmt := { codes := [m.code], words := ps }
    match m.kind with
    | none => accept b [st]
    | some k =>
      -- every temperature written is validated; the first of S, R becomes the target
      if !(haltTemps ps).all (b.bounds.okNum k) then reject b .valueError else
      match haltTemp ps, k with
      | some t, .bed => accept { b with bed := some t } [st]
      | some t, .hotend => accept { b with hotend := some t } [st]
      | some t, .chamber => accept { b with chamber := some t } [st]
      | _, _ => accept b [st]

def stepToolOff (b : B) : B × List Stmt :=
  ({ b with power := 0, toolActive := false, spin := .off }, [{ codes := [.M05] }])
def stepPowerOff (b : B) : B × List Stmt :=
  ({ b with power := 0, toolActive := false, pmode := .off }, [{ codes := [.M05] }])
def stepCoolOff (b : B) : B × List Stmt :=
  ({ b with coolActive := false, cool := .off }, [{ codes := [.M09] }])

def isInt (q : Rat) : Bool := q.den == 1

def step (b : B) : Op → Res
  | .move r p ps h => stepMove b r p ps h
  | .moveAbs r p ps h => stepMoveAbs b r p ps h
  | .setAxis p ps => stepSetAxis b p ps
  | .home p ps => stepHome b p ps
  | .probe m p ps => stepProbe b m p ps
  | .setDist r => let (b', s) := stepSetDist b r; accept (b') (s)
  | .setDistBogus => reject b .valueError
  | .enterCtx r =>
      let b1 := { b with ctx := b.rel :: b.ctx }
      if r ≠ b.rel then let (b', s) := stepSetDist b1 r; accept (b') (s) else accept (b1) ([])
  | .exitCtx =>
      match b.ctx with
      | [] => accept (b) ([])
      | prev :: rest =>
        let b1 := { b with ctx := rest }
        if prev ≠ b.rel then let (b', s) := stepSetDist b1 prev; accept (b') (s) else accept (b1) ([])
  | .feed v => match v.fin? with
      | some q => if b.okFeed q then accept ({ b with feed := q }) ([{ words := [("F", q)] }]) else reject b .valueError
      | none => reject b .valueError
  | .power v => match v.fin? with
      | some q => if b.okPower q then accept ({ b with power := q }) ([{ words := [("S", q)] }]) else reject b .valueError
      | none => reject b .valueError
  | .toolOn m v =>
      if m = .off ∨ m = .bogus then reject b .valueError else
      if b.toolActive then reject b .toolState else
      match v.fin? with
      | some q => if b.okPower q
          then accept ({ b with power := q, toolActive := true, spin := m }) ([{ codes := [m.code], words := [("S", q)] }])
          else reject b .valueError
      | none => reject b .valueError
  | .toolOff => let (b', s) := stepToolOff b; accept (b') (s)
  | .powerOn m v =>
      if m = .off ∨ m = .bogus then reject b .valueError else
      if b.toolActive then reject b .toolState else
      match v.fin? with
      | some q => if b.okPower q
          then accept ({ b with power := q, toolActive := true, pmode := m }) ([{ codes := [m.code], words := [("S", q)] }])
          else reject b .valueError
      | none => reject b .valueError
  | .powerOff => let (b', s) := stepPowerOff b; accept (b') (s)
  | .coolOn m =>
      if m = .off ∨ m = .bogus then reject b .valueError else
      if b.coolActive then reject b .coolantState else
      accept ({ b with coolActive := true, cool := m }) ([{ codes := [m.code] }])
  | .coolOff => let (b', s) := stepCoolOff b; accept (b') (s)
  | .toolChange m n =>
      if m = .off ∨ m = .bogus then reject b .valueError else
      if !b.bounds.okNum .toolNumber n then reject b .valueError else
      if n < 1 then reject b .valueError else
      if b.toolActive then reject b .toolState else
      if b.coolActive then reject b .coolantState else
      accept ({ b with toolNumber := n, swap := m }) ([{ codes := [.M06], words := [("T", n)] }])
  | .halt m ps => stepHalt b m ps
  | .ehalt reset =>
      let (b1, s1) := stepToolOff b
      let (b2, s2) := stepCoolOff b1
      -- comment(...) cannot fail; halt(...) cannot fail either: tool and coolant are off, no parameters
      accept (b2) (s1 ++ s2 ++ [{}, { codes := [if reset then .M30 else .M00] }])
  | .bed v => match v.fin? with
      | some q => if b.bounds.okNum .bed q then accept ({ b with bed := some q }) ([{ codes := [.M140], words := [("S", q)] }])
                  else reject b .valueError
      | none => reject b .valueError
  | .hotend v => match v.fin? with
      | some q => if b.bounds.okNum .hotend q then accept ({ b with hotend := some q }) ([{ codes := [.M104], words := [("S", q)] }])
                  else reject b .valueError
      | none => reject b .valueError
  | .chamber v => match v.fin? with
      | some q => if b.bounds.okNum .chamber q then accept ({ b with chamber := some q }) ([{ codes := [.M141], words := [("S", q)] }])
                  else reject b .valueError
      | none => reject b .valueError
  | .sleep v => match v.fin? with
      | some q => if q < 0 then reject b .valueError else accept (b) ([{ codes := [.G04], words := [("P", q)] }])
      | none => reject b .valueError
  | .fan v n => match v.fin? with
      | some q => if n < 0 ∨ q < 0 ∨ q > 255 then reject b .valueError
                  else accept (b) ([{ codes := [.M106], words := [("P", n), ("S", q)] }])
      | none => reject b .valueError
  | .units i =>
      -- the resolution is converted "through pixels" with the NEW unit both ways: the identity
      accept ({ b with inches := i }) ([{ codes := [if i then .G20 else .G21] }])
  | .plane p => if p > 2 then reject b .valueError else
      accept ({ b with plane := p }) ([{ codes := [if p = 0 then .G17 else if p = 1 then .G19 else .G18] }])
  | .direction c => accept ({ b with dirCcw := c }) ([])
  | .resolution q => if q ≤ 0 then reject b .valueError else accept ({ b with res := q }) ([])
  | .emode r => accept ({ b with erel := r }) ([{ codes := [if r then .M83 else .M82] }])
  | .fmode m => if m > 2 then reject b .valueError else
      accept ({ b with fmode := m }) ([{ codes := [if m = 0 then .G93 else if m = 1 then .G94 else .G95] }])
  | .timeUnits ms => accept ({ b with msTime := ms }) ([])
  | .tempUnits k => accept ({ b with kelvin := k }) ([])
  | .query t => accept (b) ([{ codes := [if t then .M105 else .M114] }])
  | .comment => accept (b) ([{}])
  | .boundsAxes lo hi =>
      if lo.lt hi then accept ({ b with bounds := { b.bounds with axes := some (lo, hi) } }) ([]) else reject b .valueError
  | .boundsNum k lo hi =>
      if lo < hi then accept ({ b with bounds := b.bounds.set k (lo, hi) }) ([]) else reject b .valueError
  | .addHook h => accept ((if h ∈ b.hooks then b else { b with hooks := b.hooks ++ [h] })) ([])
  | .removeHook h => accept ({ b with hooks := b.hooks.erase h }) ([])

/-- a whole history: final builder and everything written -/
def run (b : B) : List Op → B × List Stmt
  | [] => (b, [])
  | op :: ops =>
    let r := step b op
    let rest := run r.b ops
    (rest.1, r.stmts ++ rest.2)

end GscribModel.Builder

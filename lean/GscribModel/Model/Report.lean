/-! Model of the device-report parser of `gscrib.writers.printrun_writer.PrintrunWriter`:
    `VALUE_PATTERN`, `_parse_message`, `_update_param`, `_on_device_message`, `get_parameter`
    (the code as it is now: a message that starts with `ok` is parsed, then acknowledged).

    * strings are `List Char` (`Str`); messages are ASCII (Python's `\d`, `str.strip`, `str.lower`
      and `float()` also know non-ASCII digits / blanks / case pairs: outside the model);
    * `scan` is a deterministic one-pass automaton for
      `VALUE_PATTERN = ([A-Za-z0-9]+):([-\d\.]+(?:,[-\d\.]+)*)` with `findall` semantics
      (leftmost match, greedy, a trailing comma is given back, scanning resumes at the match end);
      its equivalence with Python's `re` is *validated by the harness* on >= 10^5 adversarial
      strings per run, it is not proved;
    * `parseFloat` is Python's `float()` restricted to strings over `[-0-9.]` (the only ones the
      pattern can produce); the value is the exact rational of the decimal text, the
      implementation holds the nearest double;
    * `ParamsDict` (keys upper-cased on every access) is an association list, newest first;
      `_reported_params` is a list of the keys *as passed* to `_update_param` (case-sensitive,
      exactly like the Python `set`).
    Mathlib-free. -/
namespace GscribModel.Report

abbrev Str := List Char

/-! ### the scanner -/

/-- `[A-Za-z0-9]` -/
def isAlnum (c : Char) : Bool := c.isAlphanum
/-- `[-\d.]` (ASCII) -/
def isVal (c : Char) : Bool := c.isDigit || c == '-' || c == '.'

inductive Mode where
  | idle                      -- not inside a candidate match
  | key (k : Str)             -- inside an alphanumeric run `k`
  | colon (k : Str)           -- `k:` seen, a value character must follow
  | val (k v : Str)           -- inside the value `v` of key `k`
  | comma (k v : Str)         -- `k:v,` seen: the comma belongs to the match only if a value character follows
deriving Repr, DecidableEq

def feedIdle (c : Char) : Mode := if isAlnum c then .key [c] else .idle

/-- consume one character: new mode and the matches completed by it -/
def feed (m : Mode) (c : Char) : Mode × List (Str × Str) :=
  match m with
  | .idle => (feedIdle c, [])
  | .key k =>
    if isAlnum c then (.key (k ++ [c]), []) else if c = ':' then (.colon k, []) else (.idle, [])
  | .colon k => if isVal c then (.val k [c], []) else (feedIdle c, [])
  | .val k v =>
    if isVal c then (.val k (v ++ [c]), []) else if c = ',' then (.comma k v, []) else (feedIdle c, [(k, v)])
  | .comma k v => if isVal c then (.val k (v ++ [',', c]), []) else (feedIdle c, [(k, v)])

/-- end of input -/
def finish : Mode → List (Str × Str)
  | .val k v => [(k, v)]
  | .comma k v => [(k, v)]
  | _ => []

def run (m : Mode) : Str → List (Str × Str)
  | [] => finish m
  | c :: cs => (feed m c).2 ++ run (feed m c).1 cs

/-- `VALUE_PATTERN.findall(s)` -/
def scan (s : Str) : List (Str × Str) := run .idle s

/-! ### `float()` on value strings -/

def digitsVal (ds : Str) : Nat := ds.foldl (fun a c => 10 * a + (c.toNat - 48)) 0

def parseUnsigned (s : Str) : Option Rat :=
  match s.dropWhile Char.isDigit with
  | [] => if (s.takeWhile Char.isDigit).isEmpty then none else some (digitsVal (s.takeWhile Char.isDigit) : Nat)
  | '.' :: fp =>
    if fp.all Char.isDigit && !((s.takeWhile Char.isDigit).isEmpty && fp.isEmpty) then
      some ((digitsVal (s.takeWhile Char.isDigit) : Nat) + (digitsVal fp : Nat) / ((10 ^ fp.length : Nat) : Rat))
    else none
  | _ => none

/-- `float(s)` for `s` over `[-0-9.]`: `none` = `ValueError` -/
def parseFloat : Str → Option Rat
  | '-' :: s => (parseUnsigned s).map (fun q => -q)
  | s => parseUnsigned s

/-- `value.split(",")` -/
def splitComma : Str → List Str
  | [] => [[]]
  | c :: cs =>
    match splitComma cs with
    | [] => [[c]]          -- unreachable: the result is never empty
    | p :: ps => if c = ',' then [] :: p :: ps else (c :: p) :: ps

/-! ### readings -/

/-- `_current_params` (a `ParamsDict`): upper-cased key ↦ value, newest binding first -/
abbrev Table := List (Char × Rat)

/-- `get_parameter(name)` -/
def Table.get (t : Table) (name : Char) : Option Rat := t.lookup name.toUpper

structure PSt where
  params : Table
  reported : List Char            -- `_reported_params`
deriving Repr

/-- `_update_param(key, value)` -/
def updateParam (s : PSt) (k : Char) (v : Rat) : PSt :=
  if k ∈ s.reported then s else { reported := k :: s.reported, params := (k.toUpper, v) :: s.params }

def AXES : List Char := ['X', 'Y', 'Z', 'A', 'B', 'C']

/-- `for axis, coord in zip(AXES, map(float, parts)): _update_param(axis, coord)` — a part that is
    not a number raises when it is reached; what was set before stays -/
def posUpdate (s : PSt) : List Char → List Str → PSt
  | a :: as, p :: ps =>
    match parseFloat p with
    | some q => posUpdate (updateParam s a q) as ps
    | none => s
  | _, _ => s

def posKeys : List Str := [['M', 'P', 'o', 's'], ['W', 'P', 'o', 's'], ['P', 'R', 'B']]

/-- the body of the loop of `_parse_message` for one `(key, value)`; `lt` = `message.startswith("<")` -/
def applyMatch (lt : Bool) (s : PSt) (kv : Str × Str) : PSt :=
  match kv.1 with
  | [k] =>
    match parseFloat kv.2 with
    | some q => updateParam s k q
    | none => s
  | key =>
    if key = ['F', 'S'] ∧ lt = true then
      match splitComma kv.2 with
      | [f, sp] =>
        match parseFloat f with
        | none => s
        | some qf =>
          match parseFloat sp with
          | none => updateParam s 'F' qf
          | some qs => updateParam (updateParam s 'F' qf) 'S' qs
      | _ => s
    else if key ∈ posKeys then posUpdate s AXES (splitComma kv.2)
    else s

/-- `_parse_message(message)` on the table `t` -/
def parseMessage (msg : Str) (t : Table) : PSt :=
  (scan msg).foldl (applyMatch (msg.head? == some '<')) { params := t, reported := [] }

/-! ### `_on_device_message` -/

/-- ASCII characters removed by `str.strip()` -/
def isWs (c : Char) : Bool :=
  c = ' ' || c = '\t' || c = '\n' || c = '\r' || c.toNat = 11 || c.toNat = 12 || (28 ≤ c.toNat && c.toNat ≤ 31)

def strip (s : Str) : Str := ((s.dropWhile isWs).reverse.dropWhile isWs).reverse

def lower (s : Str) : Str := s.map Char.toLower

def okPrefix (low : Str) : Bool := ['o', 'k'].isPrefixOf low
def errPrefix (low : Str) : Bool :=
  ['e', 'r', 'r', 'o', 'r'].isPrefixOf low || ['a', 'l', 'a', 'r', 'm'].isPrefixOf low || ['!', '!'].isPrefixOf low

structure St where
  params : Table := []
  acked : Bool := false            -- `_ack_event.is_set()`
  error : Option Str := none       -- message of the pending `DeviceError`
deriving Repr

def onDeviceMessage (s : St) (raw : Str) : St :=
  let msg := strip raw
  if okPrefix (lower msg) then
    { s with params := (parseMessage msg s.params).params, acked := true }
  else if errPrefix (lower msg) then
    { s with error := some msg, acked := true }
  else
    { s with params := (parseMessage msg s.params).params }

/-! ### abstract reports and their rendering -/

/-- a signed decimal as a firmware prints it: digits, optionally a point and more digits -/
structure Dec where
  neg : Bool
  ip : List (Fin 10)
  fp : Option (List (Fin 10))
deriving Repr, DecidableEq

def digitChar (d : Fin 10) : Char := Char.ofNat (48 + d.val)
def natOf (ds : List (Fin 10)) : Nat := ds.foldl (fun a d => 10 * a + d.val) 0

/-- at least one digit -/
def Dec.wf (d : Dec) : Bool :=
  !d.ip.isEmpty || (match d.fp with | some f => !f.isEmpty | none => false)

def fracStr : Option (List (Fin 10)) → Str
  | none => []
  | some f => '.' :: f.map digitChar

def Dec.render (d : Dec) : Str :=
  (if d.neg then ['-'] else []) ++ d.ip.map digitChar ++ fracStr d.fp

/-- the number a decimal denotes -/
def Dec.mag (d : Dec) : Rat :=
  match d.fp with
  | none => (natOf d.ip : Nat)
  | some f => (natOf d.ip : Nat) + (natOf f : Nat) / ((10 ^ f.length : Nat) : Rat)

def Dec.value (d : Dec) : Rat := if d.neg then -d.mag else d.mag

/-- `1.000,2.000,-3.000` -/
def renderDecs : List Dec → Str
  | [] => []
  | [d] => d.render
  | d :: ds => d.render ++ ',' :: renderDecs ds

inductive PosTag | mpos | wpos | prb
deriving Repr, DecidableEq

def PosTag.name : PosTag → Str
  | .mpos => ['M', 'P', 'o', 's']
  | .wpos => ['W', 'P', 'o', 's']
  | .prb => ['P', 'R', 'B']

inductive Tok where
  | letter (c : Char) (v : Dec)                       -- `X:1.00`, `T:210.5`
  | pos (t : PosTag) (vs : List Dec) (flag : Option Bool)  -- `MPos:1,2,3`; `PRB:1,2,3:1` (flag = success digit)
  | fs (f s : Dec)                                     -- `FS:500,8000`
  | other (key : Str) (vs : List Dec)                  -- fields the parser ignores: `WCO:0,0,0`, `T0:210`, `Bf:15,128`
  | noise (t : Str)                                    -- text the pattern finds nothing in: `Count`, `/210.0`, `@:127`, `Idle`
deriving Repr

def Tok.render : Tok → Str
  | .letter c v => c :: ':' :: v.render
  | .pos t vs none => t.name ++ ':' :: renderDecs vs
  | .pos t vs (some b) => t.name ++ ':' :: renderDecs vs ++ [':', if b then '1' else '0']
  | .fs f s => ['F', 'S'] ++ ':' :: renderDecs [f, s]
  | .other key vs => key ++ ':' :: renderDecs vs
  | .noise t => t

/-- a character that can never be part of a match nor continue one -/
def isSep (c : Char) : Bool := !isAlnum c && !isVal c && c != ':' && c != ','

def Tok.wf : Tok → Bool
  | .letter c v => isAlnum c && c.toUpper == c && v.wf
  | .pos _ vs _ => !vs.isEmpty && vs.all Dec.wf
  | .fs f s => f.wf && s.wf
  | .other key vs =>
    key.all isAlnum && 2 ≤ key.length && key != ['F', 'S'] && !posKeys.contains key
      && !vs.isEmpty && vs.all Dec.wf
  | .noise t => scan t == []

def joinToks (sep : Char) : List Tok → Str
  | [] => []
  | [t] => t.render
  | t :: ts => t.render ++ sep :: joinToks sep ts

/-- one report line: optional leading `ok`, optional bracket (`<…>` Grbl status, `[…]` Grbl
    message), tokens in any order separated by one separator character, padding blanks -/
structure Report where
  lead : Str := []
  ok : Bool := false
  opener : Option Char := none
  sep : Char := ' '
  toks : List Tok
  closer : Option Char := none
  trail : Str := []
deriving Repr

def Report.body (r : Report) : Str :=
  (if r.ok then ['o', 'k', ' '] else []) ++ r.opener.toList ++ joinToks r.sep r.toks ++ r.closer.toList

def Report.render (r : Report) : Str := r.lead ++ r.body ++ r.trail

/-- is the line a Grbl status report for the parser: it begins with `<` -/
def Report.status (r : Report) : Bool := !r.ok && r.opener == some '<'

def Report.wf (r : Report) : Bool :=
  r.toks.all Tok.wf && isSep r.sep
    && r.opener.all isSep && r.closer.all isSep
    && r.lead.all isWs && r.trail.all isWs
    && (match r.body.head? with | some c => !isWs c | none => false)     -- the line is not blank …
    && (match r.body.getLast? with | some c => !isWs c | none => false)  -- … and strip() removes only the padding
    && (r.body.head? == some '<') == r.status                             -- `<` first exactly for status reports
    && okPrefix (lower r.body) == r.ok                                    -- `ok` first exactly when flagged
    && !errPrefix (lower r.body)                                          -- not an error / alarm line

/-- the readings a token announces, in order (`status`: the line is a `<…>` status report) -/
def Tok.mentions (status : Bool) : Tok → List (Char × Rat)
  | .letter c v => [(c, v.value)]
  | .pos _ vs _ => AXES.zip (vs.map Dec.value)
  | .fs f s => if status then [('F', f.value), ('S', s.value)] else []
  | _ => []

def Report.mentions (r : Report) : List (Char × Rat) := r.toks.flatMap (Tok.mentions r.status)

/-- the first value the report gives for the (upper-case) letter `L` -/
def Report.firstValue (r : Report) (L : Char) : Option Rat := r.mentions.lookup L

/-- deliver a sequence of lines -/
def deliver (s : St) (lines : List Str) : St := lines.foldl onDeviceMessage s

end GscribModel.Report

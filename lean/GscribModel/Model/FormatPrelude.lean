import GscribModel.Model.Format
/-! Hand-written prelude of the *generated* formatter model (`Gen/FormatSrc.lean`, written by
    `tools/gen_format.py` from `gscrib/formatters/default_formatter.py`): the primitives the translated methods call.

What is assumed here (trusted base of the `format` tie):

* a Python `str` is a `List Char`; `str.strip / rstrip / upper` are the model's `strip / rstrip / upper`
  (`upper` / `lower` are the ASCII case maps: labels and parameter names are ASCII);
* `str.partition(sep)` with a non-empty `sep`, `str.replace(old, new)` with a non-empty `old` (an empty `old` is
  `unmodelled`), `sep.join(list)`, `dict` as an insertion-ordered association list with unique keys;
* `re.sub` is known for exactly one regex (`breaksSub`: pattern `[\r\n]+`, replacement one space, `count=0`), where it is
  the model's `collapseBreaks`; `np.format_float_positional` is known for exactly one set of flags (`unique=True,
  fractional=True, sign=False, trim="-"`, precision ≥ 0) and a finite value, where it is the model's number printer
  `fmtNumber` (numpy's Dragon4 digit generation is the model's trusted parameter, see `Model/Format.lean`).  Any other
  regex / flags evaluate to the error `unmodelled`, so that a changed pattern or flag cannot go unnoticed;
* a Python number is a `Val` (finite rational | nan | ±inf); `float(x)` is the identity on it (a Python `int` beyond the
  double range, for which `float()` raises `OverflowError`, is outside the model); `complex` is outside the model;
* exceptions are classes only: `ValueError`, `KeyError`, `IndexError`, `typeError` (= `TypeError` / `AttributeError` /
  typeguard's `TypeCheckError`: a value of the wrong type was used), `unmodelled` (see above);
* `os.linesep` is `"\n"` (POSIX); `bytes(s, "utf-8").decode("unicode-escape")` is `decodeUnicodeEscape (bytesUtf8 s)`,
  exact for the simple escapes and `\xHH` over ASCII text (the tie theorems never unfold it: they hold for any decoder).
Mathlib-free. -/
namespace GscribModel.FormatPrelude
open GscribModel.Format

/-- exception classes the translated methods can raise -/
inductive PyErr where
  | valueError | keyError | indexError | typeError | unmodelled
  deriving DecidableEq, Repr

/-! ## dict (insertion ordered, unique keys) -/
abbrev Dict (V : Type) := List (Str × V)

/-- `d[k] = v`: an existing key keeps its position -/
def dSet {V : Type} : Dict V → Str → V → Dict V
  | [], k, v => [(k, v)]
  | (k', v') :: r, k, v => if k' = k then (k', v) :: r else (k', v') :: dSet r k v
/-- `k in d` -/
def dHas {V : Type} (d : Dict V) (k : Str) : Bool := (d.lookup k).isSome
/-- `d[k]` -/
def dGet {V : Type} (d : Dict V) (k : Str) : Except PyErr V :=
  match d.lookup k with
  | some v => .ok v
  | none => .error .keyError
/-- iteration over a dict: its keys in insertion order -/
def dKeys {V : Type} (d : Dict V) : List Str := d.map (·.1)

/-! ## lists / tuples of strings -/
/-- `t.index(x)` -/
def listIndex : List Str → Str → Except PyErr Nat
  | [], _ => .error .valueError
  | a :: r, x => if a = x then .ok 0 else
    match listIndex r x with
    | .ok i => .ok (i + 1)
    | .error e => .error e
/-- `t[i]` for `i ≥ 0` -/
def listGet {α : Type} : List α → Nat → Except PyErr α
  | [], _ => .error .indexError
  | a :: _, 0 => .ok a
  | _ :: r, i + 1 => listGet r i
/-- `sep.join(words)` -/
def strJoin (sep : Str) : List Str → Str
  | [] => []
  | [w] => w
  | w :: ws => w ++ sep ++ strJoin sep ws

/-! ## optional values and parameter values -/
/-- using an `Optional[T]` value as a `T` (`None.strip()`, `len(None)`, … raise) -/
def optGet {α : Type} : Option α → Except PyErr α
  | some a => .ok a
  | none => .error .typeError
/-- `isinstance(param, Number)` -/
def PVal.isNumber : PVal → Bool
  | .num _ => true
  | _ => false
/-- handing a parameter value to a method annotated `Number` (typeguard rejects anything else) -/
def PVal.toNumber : PVal → Except PyErr Val
  | .num v => .ok v
  | _ => .error .typeError
/-- `str(param)` for a parameter value that is not a number (`str` of a number is not modelled) -/
def PVal.str : PVal → Except PyErr Str
  | .raw s => .ok s
  | .none => .ok noneText
  | .num _ => .error .unmodelled

/-! ## numbers -/
/-- `number == n` for an `int` literal `n` (NaN and ±inf equal no integer) -/
def Val.eqInt : Val → Int → Bool
  | .fin q, n => decide (q = (n : Rat))
  | _, _ => false
/-- `float(number)` -/
def pyFloat (v : Val) : Val := v
/-- `np.isfinite(x)` -/
def npIsFinite : Val → Bool
  | .fin _ => true
  | _ => false

/-- the keyword arguments of `np.format_float_positional` -/
structure FFPArgs where
  precision : Int
  unique : Bool
  fractional : Bool
  sign : Bool
  trim : Str
  deriving DecidableEq, Repr

/-- `np.format_float_positional(x, **args)`: known for one set of flags on finite values -/
def formatFloatPositional (v : Val) (a : FFPArgs) : Except PyErr Str :=
  match v with
  | .fin q =>
    if a.unique && a.fractional && !a.sign && a.trim == ['-'] && decide (0 ≤ a.precision)
    then .ok (fmtNumber a.precision.toNat q) else .error .unmodelled
  | _ => .error .unmodelled

/-! ## strings -/
def asciiLower (c : Char) : Char :=
  if 65 ≤ c.toNat ∧ c.toNat ≤ 90 then Char.ofNat (c.toNat + 32) else c
/-- `str.lower()` (ASCII) -/
def lower (s : Str) : Str := s.map asciiLower

/-- `s.partition(sep)`, `sep` non-empty -/
def partition (s sep : Str) : Str × Str × Str :=
  match findFirst sep s with
  | some (a, b) => (a, sep, b)
  | none => (s, [], [])

/-- `text.replace(old, new)` (leftmost, non-overlapping); `skip` = characters of a match still to be consumed -/
def replaceGoW (old new : Str) : Nat → Str → Str
  | _, [] => []
  | skip + 1, _ :: cs => replaceGoW old new skip cs
  | 0, c :: cs =>
    if old.isPrefixOf (c :: cs) then new ++ replaceGoW old new (old.length - 1) cs
    else c :: replaceGoW old new 0 cs
def strReplace (text old new : Str) : Except PyErr Str :=
  if old.isEmpty then .error .unmodelled else .ok (replaceGoW old new 0 text)

/-- the arguments of one `re.sub(pattern, repl, text, count)` call -/
structure ReSub where
  pattern : Str
  repl : Str
  count : Nat
  deriving DecidableEq, Repr

/-- `re.sub(r"[\r\n]+", " ", text)`: the one substitution the model implements (`collapseBreaks`) -/
def breaksSub : ReSub := ⟨['[', '\\', 'r', '\\', 'n', ']', '+'], [' '], 0⟩

/-- `re.sub(r.pattern, r.repl, text, count=r.count)` -/
def reSub (r : ReSub) (text : Str) : Except PyErr Str :=
  if r = breaksSub then .ok (collapseBreaks text) else .error .unmodelled

/-! ## line endings -/
/-- `os.linesep` (POSIX) -/
def osLinesep : Str := ['\n']

/-- `bytes(s, "utf-8")` -/
def bytesUtf8 (s : Str) : List UInt8 := (String.ofList s).toUTF8.toList

def hexNib (b : UInt8) : Option Nat :=
  let n := b.toNat
  if 48 ≤ n ∧ n ≤ 57 then some (n - 48)
  else if 97 ≤ n ∧ n ≤ 102 then some (n - 87)
  else if 65 ≤ n ∧ n ≤ 70 then some (n - 55)
  else none

/-- `b.decode("unicode-escape")`: bytes are Latin-1 characters; `\n \r \t \\ \' \" \a \b \f \v \xHH` are decoded.
    Exact on that domain only (octal, `\u`, `\U`, `\N{…}`, truncated escapes are not modelled: the backslash is kept). -/
def decodeUnicodeEscape : List UInt8 → Str
  | [] => []
  | 92 :: 120 :: h :: l :: r =>
    match hexNib h, hexNib l with
    | some a, some b => Char.ofNat (16 * a + b) :: decodeUnicodeEscape r
    | _, _ => '\\' :: 'x' :: decodeUnicodeEscape (h :: l :: r)
  | 92 :: c :: r =>
    let simple : Option Char :=
      if c = 110 then some '\n' else if c = 114 then some '\r' else if c = 116 then some '\t'
      else if c = 92 then some '\\' else if c = 39 then some '\'' else if c = 34 then some '"'
      else if c = 97 then some (Char.ofNat 7) else if c = 98 then some (Char.ofNat 8)
      else if c = 102 then some (Char.ofNat 12) else if c = 118 then some (Char.ofNat 11) else none
    match simple with
    | some ch => ch :: decodeUnicodeEscape r
    | none => '\\' :: decodeUnicodeEscape (c :: r)
  | b :: r => Char.ofNat b.toNat :: decodeUnicodeEscape r
termination_by l => l.length

/-! ## loops -/
/-- `for x in xs: body` threading the variables the body assigns; an exception leaves the loop -/
def forE {α σ : Type} : List α → σ → (σ → α → Except PyErr σ) → Except PyErr σ
  | [], s, _ => .ok s
  | x :: r, s, body =>
    match body s x with
    | .error e => .error e
    | .ok s' => forE r s' body

end GscribModel.FormatPrelude
